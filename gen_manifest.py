#!/usr/bin/env python3
"""Generates MANIFEST.json from the table below (kept in one place so that the
claimed / not-applicable lists stay consistent with properties.jsonl)."""
import json, sys

NOTE_BASE = ("Trusted: Go type checker, go/ssa and VTA call graph from x/tools v0.29.0; the analyser in /verif/tool "
             "(rule code, interval-set / bit-provenance / LP evaluators). Decides the structural clauses named in DESIGN.md "
             "for this property on every build configuration loaded; value-level behaviour listed under 'uncovered' in the evidence is not decided.")

CLAIMED = {
 # id: (category, technique, text, design_ref)
}
NA = {}

def claim(id, cat, tech, text, ref): CLAIMED[id] = (cat, tech, text, ref)
def na(id, reason): NA[id] = reason

exec(open('manifest_table.py').read())

props = [json.loads(l)['id'] for l in open('properties.jsonl')]
checks = []
for id in props:
    if id in CLAIMED:
        cat, tech, text, ref = CLAIMED[id]
        checks.append({
            "property_id": id,
            "quick_cmd": "./check.sh %s quick" % id,
            "thorough_cmd": "./check.sh %s thorough" % id,
            "evidence_file": "evidence/%s.json" % id,
            "replay_cmd_template": "./check.sh --replay {path}",
            "engine": "lz4verif",
            "level_claimed": {"category": cat, "text": text, "design_ref": ref},
            "level_note": NOTE_BASE,
            "technique": tech,
        })
    else:
        assert id in NA, id
m = {
 "version": 1,
 "setup_cmd": "./setup.sh",
 "hooks": {
   "guard": "verif",
   "enable": "none needed: the checks are static analyses of the unmodified sources; no hook code exists in /repo",
   "baseline_off_cmd": "cd /repo && export GOMAXPROCS=8 GOFLAGS=-mod=mod GOPROXY=off GOSUMDB=off GOTOOLCHAIN=local GOWORK=off && for m in . ./cmd/lz4c ./fuzz; do (cd $m && go test -json -vet=off -count=1 -timeout 25m ./...); done",
   "source_commits": [],
   "add_only": True,
 },
 "engines": [
   {"name": "lz4verif", "path": "tool/", "serves_properties": sorted(CLAIMED), "kind_free_text": "custom static analyser over go/packages + go/ssa + call graph + a Plan 9 amd64 assembly front end: guard/dominance rules, provenance, typestate tables, interval-set and bit-provenance evaluation, template-polyhedra bounds prover with an exact LP"},
 ],
 "checks": checks,
 "not_applicable": [{"property_id": k, "reason": v} for k, v in sorted(NA.items())],
 "notes": "Static analysis only: every check loads /repo's working tree (go/packages, all build configurations listed in its evidence) and never executes lz4 code. Genuine defects found on the pinned tree were repaired with 'fix:' commits or are listed in known_findings.json (see DESIGN.md section 5).",
}
json.dump(m, open('MANIFEST.json', 'w'), indent=1)
print("claimed", sorted(CLAIMED), "na", sorted(NA))
