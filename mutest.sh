#!/bin/bash
# Usage: mutest.sh <patch.diff> <Cxx> [<Cyy> ...]   -- apply a seeded change to /repo, run quick checks, undo.
# Prints one line per check: DETECTED / MISSED / TROUBLE. Never leaves /repo modified.
set -u
P=$1; shift
cd /verif
if [ -n "$(git -C /repo status --porcelain --untracked-files=no)" ]; then echo "repo not clean"; exit 3; fi
git -C /repo apply "$P" || { echo "APPLY-FAILED $P"; exit 3; }
trap 'git -C /repo checkout -- . ' EXIT
for id in "$@"; do
  out=$(./check.sh "$id" quick 2>&1); code=$?
  case $code in
    1) echo "DETECTED $id $(echo "$out" | grep -c '^VIOLATION') violation(s): $(echo "$out" | grep -E '^(VIOLATED|UNDECIDED)' | head -3 | cut -c1-260)";;
    0) echo "MISSED $id";;
    *) echo "TROUBLE $id code=$code: $(echo "$out" | grep -E 'TROUBLE|panic' | head -3)";;
  esac
done
