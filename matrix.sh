#!/bin/bash
# Usage: matrix.sh <seeded-dir-or-patch> ...   -- for each seeded change: scratch copy of /repo (outside /repo and /verif),
# apply, run every claimed quick check against the copy with a private evidence directory, print one line
# "<name> detected-by: Cxx(Rule,...) ..." and remove the copy. Runs up to $JOBS changes at a time.
set -u
cd "$(dirname "$0")"
V=$PWD
[ -x bin/lz4verif ] || ./setup.sh >/dev/null
JOBS=${JOBS:-4}
PROPS=${PROPS:-$(python3 -c "import json;print(' '.join(sorted(p['property_id'] for p in json.load(open('$V/MANIFEST.json'))['checks'])))")}
one() {
  src=$(realpath "$1"); name=$(basename "$src"); patch=$src/patch.diff
  [ -f "$src" ] && { patch=$src; name=$(basename "$(dirname "$src")"); }
  S=$(mktemp -d /tmp/lz4mx.XXXXXX)
  mkdir -p $S/repo $S/verif/evidence/replay
  (cd /repo && git ls-files -z | xargs -0 cp --parents -t $S/repo) 
  cp $V/known_findings.json $S/verif/
  (cd $S/repo && git apply "$patch") || { echo "$name APPLY-FAILED"; rm -rf $S; return; }
  line="$name detected-by:"
  for id in $PROPS; do
    out=$(GOFLAGS=-mod=mod GOPROXY=off GOSUMDB=off GOTOOLCHAIN=local GOWORK=off ${BIN:-$V/bin/lz4verif} check -repo $S/repo -verif $S/verif $id quick 2>&1); code=$?
    if [ $code = 1 ]; then
      rules=$(echo "$out" | grep -E '^(VIOLATED|UNDECIDED)' | sed -E 's/.*rule=([A-Za-z0-9.]+).*/\1/' | sort -u | tr '\n' ',' | sed 's/,$//')
      line="$line $id($rules)"
    elif [ $code != 0 ]; then line="$line $id(TROUBLE:$code)"; fi
  done
  echo "$line"
  rm -rf $S
}
export -f one; export V PROPS
printf '%s\n' "$@" | xargs -P $JOBS -I{} bash -c 'one {}'
