#!/bin/bash
# Builds the analyser offline from the module cache (x/tools v0.29.0).
set -e
cd "$(dirname "$0")"
export GOFLAGS=-mod=mod GOPROXY=off GOSUMDB=off GOTOOLCHAIN=local GOWORK=off
unset GOARCH GOOS
mkdir -p bin evidence/replay
(cd tool && go build -o ../bin/lz4verif .)
echo "built bin/lz4verif"
