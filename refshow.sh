#!/bin/bash
# refshow.sh <dir-with-patch.diff> Cxx... : apply to a scratch copy, run the given quick checks, print the VIOLATED/UNDECIDED/TROUBLE lines
set -u
V=/verif; src=$(realpath "$1"); shift
S=$(mktemp -d /tmp/lz4rs.XXXXXX); mkdir -p $S/repo $S/verif/evidence/replay
(cd /repo && git ls-files -z | xargs -0 cp --parents -t $S/repo)
cp $V/known_findings.json $S/verif/
(cd $S/repo && git apply "$src/patch.diff") || { echo APPLY-FAILED; rm -rf $S; exit 1; }
for id in "$@"; do
  GOFLAGS=-mod=mod GOPROXY=off GOSUMDB=off GOTOOLCHAIN=local GOWORK=off ${BIN:-$V/bin/lz4verif} check -repo $S/repo -verif $S/verif $id quick 2>&1 | grep -E "^(VIOLATED|UNDECIDED|CHECKER-TROUBLE|    )" | cut -c1-${W:-700}
done
[ -n "${KEEP:-}" ] && echo "kept $S" || rm -rf $S
