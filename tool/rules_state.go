package main

import (
	"fmt"
	"go/constant"
	"go/token"
	"go/types"
	"sort"
	"strings"

	"golang.org/x/tools/go/ssa"
)

// E-FSM (reduced): lifecycle tables are read from the composite literals in the
// package initialiser; per-method dispatch is evaluated with value sets over the
// loaded state word.

var stateNames = map[uint64]string{0: "noState", 1: "errorState", 2: "newState", 3: "readState", 4: "writeState", 5: "closedState"}

func stateEnum(p *Program) map[string]uint64 {
	out := map[string]uint64{}
	pkg := p.Pkg("")
	if pkg == nil {
		return out
	}
	for _, n := range []string{"noState", "errorState", "newState", "readState", "writeState", "closedState"} {
		if cst, ok := pkg.Pkg.Scope().Lookup(n).(*types.Const); ok {
			if v, exact := constant.Uint64Val(cst.Val()); exact {
				out[n] = v
			}
		}
	}
	return out
}

// stateTable extracts the transition table stored into the named global slice.
func stateTable(p *Program, global string) (map[uint64]uint64, bool) {
	pkg := p.Pkg("")
	if pkg == nil {
		return nil, false
	}
	init := pkg.Func("init")
	if init == nil {
		return nil, false
	}
	var tbl map[uint64]uint64
	allInstrs(init, func(in ssa.Instruction) {
		st, ok := in.(*ssa.Store)
		if !ok {
			return
		}
		g, ok := st.Addr.(*ssa.Global)
		if !ok || g.Name() != global {
			return
		}
		sl, ok := st.Val.(*ssa.Slice)
		if !ok {
			return
		}
		al, ok := sl.X.(*ssa.Alloc)
		if !ok {
			return
		}
		tbl = map[uint64]uint64{}
		for _, r := range *al.Referrers() {
			if ia, isIA := r.(*ssa.IndexAddr); isIA {
				idx, okI := constUint(ia.Index)
				for _, rr := range *ia.Referrers() {
					if s2, isS := rr.(*ssa.Store); isS {
						if v, okV := constUint(s2.Val); okV && okI {
							tbl[idx] = v
						}
					}
				}
			}
		}
	})
	return tbl, tbl != nil
}

// reachableStates: closure of states[0] under the table, plus errorState.
func reachableStates(tbl map[uint64]uint64, errState uint64) map[uint64]bool {
	out := map[uint64]bool{errState: true}
	cur := tbl[0]
	for !out[cur] {
		out[cur] = true
		cur = tbl[cur]
	}
	return out
}

func fmtStates(m map[uint64]bool) string {
	var ks []int
	for k := range m {
		ks = append(ks, int(k))
	}
	sort.Ints(ks)
	var s []string
	for _, k := range ks {
		s = append(s, stateNames[uint64(k)])
	}
	return "{" + strings.Join(s, ", ") + "}"
}

// stateLoadOf finds the load of the _State.state field that the method
// dispatches on (first load in the entry region).
func stateLoadOf(fn *ssa.Function) ssa.Value {
	var v ssa.Value
	for _, b := range fn.Blocks {
		for _, in := range b.Instrs {
			if u, ok := in.(*ssa.UnOp); ok && v == nil && loadField(u) == "_State.state" {
				v = u
			}
		}
		if v != nil {
			break
		}
	}
	return v
}

// R17.1 dispatch totality
func ruleDispatchTotal(c *Check, p *Program, rule string) {
	type obj struct {
		typ, table string
		methods    []string
	}
	for _, o := range []obj{
		{"Writer", "writerStates", []string{"Apply", "Write", "Flush", "Close", "ReadFrom"}},
		{"Reader", "readerStates", []string{"Apply", "Read", "WriteTo", "Size"}},
	} {
		tbl, ok := stateTable(p, o.table)
		if !ok {
			c.Fail(rule, o.typ+"#state-table", "", "lifecycle table "+o.table+" is a literal in the package initialiser", "table not found (anchor unresolved)")
			continue
		}
		reach := reachableStates(tbl, 1)
		c.Extra[o.typ+"_states"] = fmtStates(reach)
		for _, m := range o.methods {
			fn := findFn(c, p, rule, "", o.typ+"."+m)
			if fn == nil {
				continue
			}
			sv := stateLoadOf(fn)
			var fails []ssa.Instruction
			for _, ci := range callsIn(fn) {
				if calleeIs(ci, pkgRoot, "_State.fail") {
					fails = append(fails, ci)
				}
			}
			key := o.typ + "." + m + "#dispatch"
			if len(fails) == 0 {
				c.OK(rule, key, p.Pos(fn.Pos()), o.typ+"."+m+" handles every lifecycle state", "no ErrInternalUnhandledState exit in this method", false)
				continue
			}
			if sv == nil {
				c.Unknown(rule, key, p.Pos(fn.Pos()), o.typ+"."+m+" handles every lifecycle state", "no dispatch on _State.state found although the method can fail with ErrInternalUnhandledState")
				continue
			}
			c.Sites++
			sets := valueSetsAt(fn, sv, sv.(ssa.Instruction).Block(), 8)
			for _, f := range fails {
				s := sets[f.Block()]
				var hit []string
				for st := range reach {
					if len(s.intersect(vset{{st, st}})) > 0 {
						hit = append(hit, stateNames[st])
					}
				}
				sort.Strings(hit)
				if len(hit) == 0 {
					c.OK(rule, key, p.InstrPos(f), o.typ+"."+m+" never reports ErrInternalUnhandledState in a state the object can be in "+fmtStates(reach), "value set of the state word at fail() is "+s.String()+", disjoint from the reachable states", true)
				} else {
					for _, h := range hit {
						c.Fail(rule, key+":"+h, p.InstrPos(f), o.typ+"."+m+" never reports ErrInternalUnhandledState in a state the object can be in", o.typ+"."+m+" called in "+h+" fails with ErrInternalUnhandledState and puts the object into its error state")
					}
				}
			}
		}
	}
}

// R17.2 terminal transitions
func ruleTerminalTransitions(c *Check, p *Program, rule string) {
	// Writer.Close: after CloseW every path to a return performs a transition (next) and a second Close does nothing
	wc := findFn(c, p, rule, "", "Writer.Close")
	if wc != nil {
		var closeW ssa.Instruction
		for _, ci := range callsIn(wc) {
			if calleeIs(ci, pkgStream, "Frame.CloseW") {
				closeW = ci
			}
		}
		if closeW == nil {
			c.Fail(rule, "Writer.Close#transition", p.Pos(wc.Pos()), "Close writes the trailer", "no CloseW call")
		} else {
			isNext := func(in ssa.Instruction) bool {
				ci, ok := in.(ssa.CallInstruction)
				if ok && calleeIs(ci, pkgRoot, "_State.next") {
					// the argument must be the trailer error so that a failure latches the error state
					return true
				}
				if st, ok := in.(*ssa.Store); ok && lastField(st.Addr) == "_State.state" {
					return true
				}
				return false
			}
			miss, _ := reachAvoid(wc, closeW, isReturn, isNext)
			c.Cond(!miss, rule, "Writer.Close#transition", p.InstrPos(closeW), "after writing the trailer Close leaves the writing state on every path (so that later writes take the closed arm and a second Close emits nothing)", "every path from CloseW to a return performs the state transition", "a return is reachable after CloseW without any state transition: the Writer stays in writeState")
			// transition argument is the CloseW error
			argOK := false
			for _, ci := range callsIn(wc) {
				if calleeIs(ci, pkgRoot, "_State.next") && len(ci.Common().Args) == 2 && ci.Common().Args[1] == closeW.(ssa.Value) {
					argOK = true
				}
			}
			c.Cond(argOK, rule, "Writer.Close#transition-carries-error", p.InstrPos(closeW), "the transition is driven by the trailer error (a failed Close latches the error state)", "next(err) with err = CloseW result", "the transition does not take the CloseW error")
			// closed state: early return without Flush/CloseW
			sv := stateLoadOf(wc)
			okEarly := false
			if sv != nil {
				sets := valueSetsAt(wc, sv, sv.(ssa.Instruction).Block(), 8)
				s := sets[closeW.Block()]
				okEarly = len(s.intersect(vset{{5, 5}})) == 0
			}
			c.Cond(okEarly, rule, "Writer.Close#idempotent", p.InstrPos(closeW), "a Close on an already closed Writer does not write a second trailer", "CloseW is unreachable with the state word = closedState", "CloseW is reachable in closedState: a second Close emits another end mark")
		}
	}
	// Reader.Read: the end-of-stream branch leaves readState
	rr := findFn(c, p, rule, "", "Reader.Read")
	if rr != nil {
		var closeR ssa.Instruction
		for _, ci := range callsIn(rr) {
			if calleeIs(ci, pkgStream, "Frame.CloseR") {
				closeR = ci
			}
		}
		if closeR != nil {
			isTrans := func(in ssa.Instruction) bool {
				ci, ok := in.(ssa.CallInstruction)
				if ok {
					if _, isDefer := ci.(*ssa.Defer); !isDefer && (calleeIs(ci, pkgRoot, "_State.next") || calleeIs(ci, pkgRoot, "_State.nextd")) {
						return true
					}
				}
				if st, ok := in.(*ssa.Store); ok && lastField(st.Addr) == "_State.state" {
					return true
				}
				return false
			}
			miss, _ := reachAvoid(rr, closeR, isReturn, isTrans)
			// a deferred nextd would also do
			deferred := false
			allInstrs(rr, func(in ssa.Instruction) {
				if d, ok := in.(*ssa.Defer); ok && calleeIs(d, pkgRoot, "_State.nextd") {
					deferred = true
				}
			})
			c.Cond(!miss || deferred, rule, "Reader.Read#eos-transition", p.InstrPos(closeR), "at the end of the stream Read leaves the reading state, so that later calls return io.EOF without touching the source", "transition on every path", "after the end of the stream the Reader stays in readState: the next Read reads 4 more bytes from the source")
		}
	}
}

// R17.3 option fields are written only by option closures
func ruleOptionFields(c *Check, p *Program, rule string) {
	optionSetters := map[string]bool{"BlockSizeIndexSet": true, "BlockChecksumSet": true, "ContentChecksumSet": true, "SizeSet": true}
	optionFields := map[string]bool{"Writer.level": true, "Writer.num": true, "Writer.handler": true, "Writer.legacy": true,
		"Reader.num": true, "Reader.handler": true, "CompressingReader.level": true, "CompressingReader.handler": true,
		"FrameDescriptor.ContentSize": true}
	isOptionClosure := func(fn *ssa.Function) bool {
		return fn.Parent() != nil && strings.HasSuffix(fn.Parent().Name(), "Option")
	}
	seenWriters := 0
	for _, fn := range moduleFuncs(p, pkgRoot, pkgStream) {
		if isOptionClosure(fn) {
			allInstrs(fn, func(in ssa.Instruction) {
				if st, ok := in.(*ssa.Store); ok && optionFields[lastField(st.Addr)] {
					seenWriters++
				}
			})
			continue
		}
		_ = shortFn
		per := map[string]int{}
		allInstrs(fn, func(in ssa.Instruction) {
			var what string
			switch x := in.(type) {
			case *ssa.Store:
				lf := lastField(x.Addr)
				if optionFields[lf] {
					what = lf
				}
				if lf == "FrameDescriptor.Flags" {
					what = "FrameDescriptor.Flags (whole word)"
				}
			case ssa.CallInstruction:
				if f := staticCallee(x); f != nil && recvTypeName(f) == "DescriptorFlags" && optionSetters[f.Name()] {
					what = "FrameDescriptor.Flags." + strings.TrimSuffix(f.Name(), "Set")
				}
			}
			if what == "" {
				return
			}
			// a helper writes on behalf of its callers: attribute the write to them
			ctxs := anchorContexts(fn, 2)
			allOpt := len(ctxs) > 0
			for _, ctx := range ctxs {
				if !isOptionClosure(ctx) {
					allOpt = false
				}
			}
			if _, isSt := in.(*ssa.Store); isSt && allOpt && what != "FrameDescriptor.Flags (whole word)" {
				seenWriters++ // the body of an option closure moved into a function of its own
			}
			for _, ctx := range ctxs {
				cfn := shortFn(ctx)
				// the Reader's descriptor is parsed from the stream, not configured: initR is its writer
				if cfn == "FrameDescriptor.initR" || isOptionClosure(ctx) {
					continue
				}
				per[what]++
				key := cfn + "#writes-option:" + what
				c.Sites++
				c.Fail(rule, key, p.InstrPos(in), "configuration set through Option functions (level, concurrency, handler, legacy, descriptor flags, content size) is written only by the option closures: it persists across Reset and is not altered by the object itself",
					cfn+" writes "+what+" outside an Option closure: the applied option is lost or altered")
			}
		})
	}
	if seenWriters < 8 {
		c.Fail(rule, "option-closures#floor", "", "the option closures that write the configuration fields are resolved", fmt.Sprintf("only %d option-field stores found inside Option closures", seenWriters))
	} else {
		c.OK(rule, "option-closures#writers", "options.go", "configuration fields are written by the option closures", fmt.Sprintf("%d stores inside Option closures", seenWriters), true)
	}
}

// R17.4 Reset re-arms state and frame
func ruleResetRearms(c *Check, p *Program, rule string) {
	for _, t := range []string{"Writer", "Reader"} {
		fn := findFn(c, p, rule, "", t+".Reset")
		if fn == nil {
			continue
		}
		var hasState, hasFrame, hasSrc bool
		onAll := func(pkg, name string) bool {
			miss, _ := reachAvoid(fn, nil, isReturn, func(in ssa.Instruction) bool {
				ci, ok := in.(ssa.CallInstruction)
				return ok && (calleeIs(ci, pkg, name) || callReaches(ci, func(x ssa.CallInstruction) bool { return calleeIs(x, pkg, name) }))
			})
			return !miss
		}
		hasState = onAll(pkgRoot, "_State.reset")
		hasFrame = onAll(pkgStream, "Frame.Reset")
		allInstrs(fn, func(in ssa.Instruction) {
			if st, ok := in.(*ssa.Store); ok && lastField(st.Addr) == t+".src" {
				if _, isP := st.Val.(*ssa.Parameter); isP {
					hasSrc = true
				}
			}
		})
		c.Cond(hasState && hasFrame && hasSrc, rule, t+".Reset#rearms", p.Pos(fn.Pos()), "Reset resets the lifecycle state and the frame on every path, and installs the new stream", "state.reset(), frame.Reset(), src = argument", fmt.Sprintf("state.reset: %v, frame.Reset: %v, src stored: %v", hasState, hasFrame, hasSrc))
	}
	// _State.reset restores states[0] and clears the error
	if fn := findFn(c, p, rule, "", "_State.reset"); fn != nil {
		okS, okE := false, false
		allInstrsDeep(fn, func(in ssa.Instruction) {
			if st, ok := in.(*ssa.Store); ok {
				if lastField(st.Addr) == "_State.state" {
					if u, isU := st.Val.(*ssa.UnOp); isU {
						if ia, isIA := u.X.(*ssa.IndexAddr); isIA {
							if k, isK := constUint(ia.Index); isK && k == 0 {
								okS = true
							}
						}
					}
				}
				if lastField(st.Addr) == "_State.err" && isNilConst(st.Val) {
					okE = true
				}
			}
		})
		c.Cond(okS && okE, rule, "_State.reset", p.Pos(fn.Pos()), "_State.reset returns to the initial state of the table and clears the latched error", "state = states[0]; err = nil", fmt.Sprintf("state restored: %v, error cleared: %v", okS, okE))
	}
	// Frame.Reset clears the per-frame fields and shuts the pipeline down
	if fn := findFn(c, p, rule, "internal/lz4stream", "Frame.Reset"); fn != nil {
		var magic, dcs, blocks bool
		allInstrs(fn, func(in ssa.Instruction) {
			if st, ok := in.(*ssa.Store); ok {
				if k, isK := constUint(st.Val); isK && k == 0 {
					switch lastField(st.Addr) {
					case "Frame.Magic":
						magic = true
					case "FrameDescriptor.Checksum":
						dcs = true
					}
				}
			}
			if ci, ok := in.(ssa.CallInstruction); ok && calleeIs(ci, pkgStream, "Blocks.close") {
				blocks = true
			}
		})
		c.Cond(magic && dcs && blocks, rule, "Frame.Reset#per-frame-fields", p.Pos(fn.Pos()), "Frame.Reset clears the magic (header not yet read/written), the header-written latch and closes the block pipeline", "Magic = 0, Descriptor.Checksum = 0, Blocks.close()", fmt.Sprintf("Magic cleared: %v, header latch cleared: %v, pipeline closed: %v", magic, dcs, blocks))
	}
}

// lifecycleAnchors: unexported functions that the lifecycle rules (and the
// recorded findings) name directly; a write inside any other unexported helper
// is attributed to the anchors that call it.
var lifecycleAnchors = map[string]bool{"Reader.init": true, "Writer.init": true, "CompressingReader.init": true,
	"FrameDescriptor.initR": true, "FrameDescriptor.initW": true, "Writer.write": true, "Reader.read": true}

func anchorContexts(f *ssa.Function, depth int) []*ssa.Function {
	if depth <= 0 || lifecycleAnchors[shortFn(f)] || !isHelper(f) {
		return []*ssa.Function{f}
	}
	seen := map[*ssa.Function]bool{}
	var out []*ssa.Function
	for _, ci := range callSitesOf(f) {
		for _, g := range anchorContexts(ci.Parent(), depth-1) {
			if !seen[g] {
				seen[g] = true
				out = append(out, g)
			}
		}
	}
	return out
}

// ---------------------------------------------------------------------------
// R17.18: a terminal state is left only by Reset. The lifecycle tables map
// closedState and errorState back to newState (that entry is what Reset relies
// on), so a transition performed while the object is closed or failed re-opens
// it: the next call initialises again and reads or writes a second frame.
//  (a) a deferred transition (defer s.nextd(&err)) is registered only where the
//      dispatch on the state word has already excluded closedState and errorState;
//  (b) a direct transition (s.next(err)) is reached only with the state word
//      known not to be closedState.
// (For (b) errorState is not demanded: Writer.Close relies on Flush returning the
// latched error first, which is outside what the value sets can see.)

func ruleTerminalStatesStay(c *Check, p *Program, rule string) {
	n := 0
	judgeSites := func(fn *ssa.Function, sites []ssa.CallInstruction, rt string) {
		sv := stateLoadOf(fn)
		for i, ci := range sites {
			n++
			c.Sites++
			_, deferred := ci.(*ssa.Defer)
			forbidden := vset{{5, 5}}
			what := "closedState"
			if deferred {
				forbidden = vset{{1, 1}, {5, 5}}.norm()
				what = "closedState or errorState"
			}
			key := fmt.Sprintf("%s#transition-not-in-terminal-state#%d", shortFn(fn), i+1)
			desc := "a lifecycle transition is performed only where the state word is known not to be " + what + " (the tables map the terminal states back to newState for Reset: a transition there re-opens a finished or failed object)"
			if sv == nil {
				c.Fail(rule, key, p.InstrPos(ci), desc, "the method performs a transition without looking at the state word")
				continue
			}
			at := fullSet(8)
			svIn := sv.(ssa.Instruction)
			// the site is judged with the values the dispatch lets through; a site in the block of the load of the state
			// word (before or after it) sees every state
			if ci.Block() != svIn.Block() {
				if s, ok := valueSetsAt(fn, sv, svIn.Block(), 8)[ci.Block()]; ok {
					at = s
				}
			}
			got := at.intersect(forbidden)
			c.Cond(len(got) == 0, rule, key, p.InstrPos(ci), desc, "state set at the site: "+at.String(), "the transition is reachable (or registered) with the state word in "+got.String()+": a closed or failed "+rt+" is moved back to newState by a plain call, and the next call starts another frame on the same stream")
		}
	}
	for _, fn := range moduleFuncs(p, pkgRoot) {
		rt := recvTypeName(fn)
		if fn.Parent() != nil || (rt != "Reader" && rt != "Writer") {
			continue
		}
		var sites []ssa.CallInstruction
		for _, ci := range callsIn(fn) {
			if _, isDefer := ci.(*ssa.Defer); isDefer && calleeIs(ci, pkgRoot, "_State.nextd") {
				sites = append(sites, ci)
			}
			if _, isCall := ci.(*ssa.Call); isCall && calleeIs(ci, pkgRoot, "_State.next") {
				sites = append(sites, ci)
			}
		}
		if len(sites) == 0 {
			continue
		}
		if stateLoadOf(fn) == nil && isHelper(fn) {
			// a helper that performs the transition for its callers: judged where it is called
			byFn := map[*ssa.Function][]ssa.CallInstruction{}
			var order []*ssa.Function
			for _, cs := range callSitesOf(fn) {
				if _, isCall := cs.(*ssa.Call); isCall && cs.Parent() != nil && cs.Parent() != fn {
					if len(byFn[cs.Parent()]) == 0 {
						order = append(order, cs.Parent())
					}
					byFn[cs.Parent()] = append(byFn[cs.Parent()], cs)
				}
			}
			if len(order) > 0 {
				for _, g := range order {
					judgeSites(g, byFn[g], rt)
				}
				continue
			}
		}
		judgeSites(fn, sites, rt)
	}
	if n < 5 {
		c.Fail(rule, "lifecycle#transition-sites", "", "the transition sites of Reader and Writer are resolved", fmt.Sprintf("only %d calls of _State.next / deferred _State.nextd found (confirmed by reading: 7)", n))
	}
}

// ruleWriteToStartsFresh: Reader.WriteTo decodes block after block and never looks at the cursor into the pending block
// (r.idx): the bytes a Read left pending in r.data[r.idx:] would be lost. Its block fetches (Reader.read, a receive from
// r.reads, or a helper that does either) are therefore reachable only with a state word that the dispatch has shown
// not to be readState. A WriteTo that reads Reader.idx (drains what is pending) is not judged.
func ruleWriteToStartsFresh(c *Check, p *Program, rule string) {
	fn := findFn(c, p, rule, "", "Reader.WriteTo")
	if fn == nil {
		return
	}
	key := "Reader.WriteTo#fetch-not-after-Read"
	desc := "WriteTo does not resume a stream that Read has started: its block fetches are not reachable in readState (WriteTo ignores the bytes pending in r.data[r.idx:])"
	readFn := findFn(c, p, rule, "", "Reader.read")
	fetchesIn := func(g *ssa.Function) bool {
		hit := false
		allInstrs(g, func(in ssa.Instruction) {
			if u, ok := in.(*ssa.UnOp); ok && u.Op == token.ARROW && loadField(u.X) == "Reader.reads" {
				hit = true
			}
		})
		return hit
	}
	drains := false
	for _, g := range deepFuncs(fn, 2) {
		if g == readFn || (readFn != nil && reachesFn(readFn, g)) {
			continue
		}
		allInstrs(g, func(in ssa.Instruction) {
			if u, ok := in.(*ssa.UnOp); ok && u.Op == token.MUL && loadField(u) == "Reader.idx" {
				drains = true
			}
		})
	}
	if drains {
		c.Cond(true, rule, key, p.Pos(fn.Pos()), desc, "WriteTo reads the cursor of the pending block: not judged", "")
		return
	}
	var sites []ssa.Instruction
	allInstrs(fn, func(in ssa.Instruction) {
		if u, ok := in.(*ssa.UnOp); ok && u.Op == token.ARROW && loadField(u.X) == "Reader.reads" {
			sites = append(sites, in)
			return
		}
		ci, ok := in.(ssa.CallInstruction)
		if !ok {
			return
		}
		if _, isCall := ci.(*ssa.Call); !isCall {
			return
		}
		f := staticCallee(ci)
		if f == nil {
			// a function literal of WriteTo called through its variable
			if mc, isMC := ci.Common().Value.(*ssa.MakeClosure); isMC {
				f, _ = mc.Fn.(*ssa.Function)
			}
		}
		if f == nil || !inModule(f) || shortFn(f) == "Reader.init" || !(recvTypeName(f) == "Reader" || f.Parent() == fn) {
			return
		}
		hit := f == readFn || (readFn != nil && reachesFn(f, readFn))
		for _, g := range withAnon(f) {
			if fetchesIn(g) {
				hit = true
			}
		}
		if hit {
			sites = append(sites, in)
		}
	})
	if len(sites) == 0 {
		c.Fail(rule, key, p.Pos(fn.Pos()), desc, "no block fetch found in Reader.WriteTo (anchor unresolved)")
		return
	}
	sv := stateLoadOf(fn)
	for _, in := range sites {
		c.Sites++
		if sv == nil {
			// the dispatch may have been delegated to a method that looks at the state word for WriteTo: which states it
			// lets through is a fact about that method's results, which this rule does not relate to its callers
			delegated := ""
			for _, cj := range callsIn(fn) {
				h := staticCallee(cj)
				if h != nil && inModule(h) && recvTypeName(h) == "Reader" && shortFn(h) != "Reader.init" && stateLoadOf(h) != nil && (cj.Block() == in.Block() || cj.Block().Dominates(in.Block())) {
					delegated = shortFn(h)
				}
			}
			if delegated != "" {
				c.Cond(true, rule, key, p.InstrPos(in), desc, "the state dispatch is delegated to "+delegated+": not judged here", "")
				continue
			}
			c.Fail(rule, key, p.InstrPos(in), desc, "WriteTo fetches blocks without looking at the state word")
			continue
		}
		at := fullSet(8)
		svIn := sv.(ssa.Instruction)
		if in.Block() != svIn.Block() {
			if s, ok := valueSetsAt(fn, sv, svIn.Block(), 8)[in.Block()]; ok {
				at = s
			}
		}
		got := at.intersect(vset{{3, 3}})
		c.Cond(len(got) == 0, rule, key, p.InstrPos(in), desc, "state set at the fetch: "+at.String(), "the block fetch is reachable with the state word in readState: what Read left pending in the current block is skipped, WriteTo delivers a stream with a hole and no error")
	}
}

// ruleOptionWritesUnconditional: an option determines what it configures. In every Option closure, each kind of
// configuration write (a store to an option field, a descriptor-flag setter) lies on every path to the `return nil`
// it can reach: an option that writes only for some arguments (SizeOption(0) leaving an earlier size in place)
// makes the next frame depend on what the object was configured with before, not on the options applied.
// optionArmOwner: the object type (Writer, Reader, CompressingReader) whose arm of an Option closure's type switch
// the write belongs to, read off the type assertion its address (or receiver) derives from.
func optionArmOwner(in ssa.Instruction) string {
	var v ssa.Value
	switch x := in.(type) {
	case *ssa.Store:
		v = x.Addr
	case ssa.CallInstruction:
		if len(x.Common().Args) == 0 {
			return ""
		}
		v = x.Common().Args[0]
	default:
		return ""
	}
	for i := 0; i < 12 && v != nil; i++ {
		switch y := v.(type) {
		case *ssa.FieldAddr:
			v = y.X
		case *ssa.Field:
			v = y.X
		case *ssa.UnOp:
			v = y.X
		case *ssa.Extract:
			v = y.Tuple
		case *ssa.TypeAssert:
			t := y.AssertedType
			if pt, ok := t.(*types.Pointer); ok {
				t = pt.Elem()
			}
			if nt, ok := t.(*types.Named); ok {
				return nt.Obj().Name()
			}
			return ""
		default:
			return ""
		}
	}
	return ""
}

func ruleOptionWritesUnconditional(c *Check, p *Program, rule string, owners ...string) {
	wantOwner := func(in ssa.Instruction) bool {
		if len(owners) == 0 {
			return true
		}
		o := optionArmOwner(in)
		if o == "" {
			return true // not attributable: judged
		}
		for _, w := range owners {
			if w == o {
				return true
			}
		}
		return false
	}
	optionSetters := map[string]bool{"BlockSizeIndexSet": true, "BlockChecksumSet": true, "ContentChecksumSet": true, "SizeSet": true}
	optionFields := map[string]bool{"Writer.level": true, "Writer.num": true, "Writer.handler": true, "Writer.legacy": true,
		"Reader.num": true, "Reader.handler": true, "CompressingReader.level": true, "CompressingReader.handler": true, "CompressingReader.legacy": true,
		"FrameDescriptor.ContentSize": true}
	n := 0
	for _, fn := range moduleFuncs(p, pkgRoot) {
		if fn.Parent() == nil || !strings.HasSuffix(fn.Parent().Name(), "Option") {
			continue
		}
		// configuration writes of the closure and of the helpers it is split into, by target; a write in a helper
		// is represented by the call that reaches it
		writes := map[string][]ssa.Instruction{}
		var order []string
		add := func(t string, in ssa.Instruction) {
			if len(writes[t]) == 0 {
				order = append(order, t)
			}
			writes[t] = append(writes[t], in)
		}
		targetOf := func(in ssa.Instruction) string {
			switch x := in.(type) {
			case *ssa.Store:
				if lf := lastField(x.Addr); optionFields[lf] {
					return lf
				}
			case ssa.CallInstruction:
				if f := staticCallee(x); f != nil && recvTypeName(f) == "DescriptorFlags" && optionSetters[f.Name()] {
					return "FrameDescriptor.Flags." + strings.TrimSuffix(f.Name(), "Set")
				}
			}
			return ""
		}
		allInstrs(fn, func(in ssa.Instruction) {
			if t := targetOf(in); t != "" {
				if wantOwner(in) {
					add(t, in)
				}
				return
			}
			if ci, ok := in.(ssa.CallInstruction); ok {
				if h := staticCallee(ci); h != nil && inModule(h) && isHelper(h) {
					for _, g := range deepFuncs(h, 1) {
						allInstrs(g, func(j ssa.Instruction) {
							if t := targetOf(j); t != "" {
								add(t, in)
							}
						})
					}
				}
			}
		})
		var nilRets []ssa.Instruction
		allInstrs(fn, func(in ssa.Instruction) {
			if r, ok := in.(*ssa.Return); ok && len(r.Results) == 1 && isNilConst(r.Results[0]) {
				nilRets = append(nilRets, in)
			}
		})
		for _, t := range order {
			ws := writes[t]
			isW := func(in ssa.Instruction) bool {
				for _, w := range ws {
					if w == in {
						return true
					}
				}
				return false
			}
			for _, r := range nilRets {
				reached := false
				for _, w := range ws {
					if hit, _ := reachAvoid(fn, w, func(in ssa.Instruction) bool { return in == r }, nil); hit {
						reached = true
					}
				}
				if !reached {
					continue
				}
				n++
				c.Sites++
				miss, trail := reachAvoid(fn, nil, func(in ssa.Instruction) bool { return in == r }, isW)
				c.Cond(!miss, rule, fmt.Sprintf("%s#always-writes:%s", fn.Parent().Name(), t), p.InstrPos(r), "an applied option writes what it configures on every successful path, whatever its argument (the frame depends on the options applied, not on what the object was configured with before)", "every path to this `return nil` passes a write of "+t, "a path returns nil without writing "+t+" ("+strings.Join(trail, " -> ")+"): for some arguments the option leaves the previous setting in place")
			}
		}
	}
	if n == 0 {
		c.Fail(rule, "Option#always-writes", "", "configuration writes of the Option closures are resolved", "no configuration write found in any Option closure (anchor unresolved)")
	}
}
