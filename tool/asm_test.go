package main
import ("testing";"fmt";"os";"runtime/pprof";"runtime/debug";"time")
func TestAsm(t *testing.T){
	if os.Getenv("PROF")!="" { f,_ := os.Create("/tmp/cpu.prof"); pprof.StartCPUProfile(f); defer pprof.StopCPUProfile() }
	coll := newCollector()
	lpCrossCheck = os.Getenv("LPCHECK") != ""
	debugStack = debug.Stack
	if w := os.Getenv("DBGDROP"); w != "" {
		debugDrop = func(key int, hd *tmplHead, i int, why string, in *AbsState){
			ds := hd.dirs[i].Str(defaultTab)
			if fmt.Sprintf("%d:%s",key,ds) != w { return }
			fmt.Println("DROP",key,ds,"round",hd.rounds,why)
			if in != nil { fmt.Println("   from",in.from); for k,v := range in.vals { if len(k)<=3 { fmt.Println("     ",k,"=",v.Str(defaultTab)) } }; fmt.Println("     cons:", in.st.Str(defaultTab)) }
		}
	}
	if w := os.Getenv("DBGTERM"); w != "" {
		debugTerm = func(p *asmProg, b int, ins *asmInstr, t, f *AbsState){
			if fmt.Sprint(b) != w { return }
			fmt.Println("TERM",b,ins.text,"fk",t.meta["fk"],"fc",t.meta["fc"],"taken feasible",t.st.feasible(),"fall feasible",f.st.feasible())
			fmt.Println("   SI",f.vals["SI"].Str(p.tab),"from",f.from,"fa",f.vals["$fa"].Str(p.tab),"fb",f.vals["$fb"].Str(p.tab),"fr",f.vals["$fr"].Str(p.tab))
			fmt.Println("   fall cons:", f.st.Str(p.tab))
		}
	}
	if os.Getenv("DBGREACH")!="" {
		debugReach = func(b int, ins []*AbsState){ fmt.Println("REACH block",b,"states",len(ins)) }
	}
	if os.Getenv("DBGHEAD")!="" {
		debugHull = func(blk int, hd *tmplHead, ins []*AbsState){
			if fmt.Sprint(blk)!=os.Getenv("DBGHEAD") { return }
			fmt.Println("== hull blk",blk,"round",hd.rounds,"ins",len(ins))
			for _,in := range ins { fmt.Println("   in from",in.from,"BX=",in.vals["BX"].Str(defaultTab),"CX=",in.vals["CX"].Str(defaultTab),"SI=",in.vals["SI"].Str(defaultTab),"DI=",in.vals["DI"].Str(defaultTab), "ncons", len(in.st.cons)) }
			for i,d := range hd.dirs { if hd.has[i] && !hd.dropped[i] { fmt.Println("   ",d.Str(defaultTab),"<=",hd.bound[i].String(), "unst",hd.unstable[i]) } }
			var ks []string; for k := range hd.keep { ks = append(ks,k+"="+hd.keep[k].Str(defaultTab)) }; fmt.Println("   keep",ks)
		}
	}
	t0 := time.Now()
	asmPath := "/repo/internal/lz4block/decode_amd64.s"; if e := os.Getenv("ASMPATH"); e != "" { asmPath = e }
	res,f,err := analyseAsmDecoder(asmPath, 4, asmCase{false,false}, coll, func(l int) string { return fmt.Sprint("L",l) })
	if err!=nil{t.Fatal(err)}
	fmt.Println("rounds",res.rounds,"lp",lpCount,"blocks",len(f.blocks),"time",time.Since(t0),"maxdisj",res.maxDisj, res.trouble, "hullLP", res.hullLP, "fast", lpFastCount, "slow", lpSlowCount)
	for b,hd := range res.heads { if b>=100000 {continue}; n:=0; for i := range hd.dirs { if hd.has[i]&&!hd.dropped[i]{n++} }; fmt.Println("head",b,f.blocks[b].label,"phis",len(hd.phiSym),"dirs",len(hd.dirs),"kept",n,"rounds",hd.rounds) }
	bad:=0
	for _,k := range coll.order { o := coll.obls[k]; if !o.ok { bad++; fmt.Println("FAIL",o.kind,o.site,o.pos,"\n    ",o.fail) } }
	fmt.Println("obligations",len(coll.order),"failed",bad)
	if bad > 0 && os.Getenv("DBGHEAD")=="" { t.Fatalf("%d assembly obligations not proven on the unchanged tree", bad) }
}
