package main

import (
	"fmt"
	"go/constant"
	"go/types"
	"path/filepath"
	"strings"
)

func init() {
	register("C03", checkC03)
}

func minMatchConst(p *Program) int64 {
	if pkg := p.Pkg("internal/lz4block"); pkg != nil {
		if c, ok := pkg.Pkg.Scope().Lookup("minMatch").(*types.Const); ok {
			if v, exact := constant.Int64Val(c.Val()); exact {
				return v
			}
		}
	}
	return -1
}

// runAsm runs the assembly prover for the given cases and turns its obligations
// into check obligations whose rule id is chosen by kind.
func runAsm(c *Check, p *Program, cases []asmCase, ruleOf map[string]string) {
	if archSubst != "" {
		return // decode_amd64.s belongs to the amd64 configuration only
	}
	path := filepath.Join(repoDir, "internal/lz4block/decode_amd64.s")
	mm := minMatchConst(p)
	if mm < 0 {
		c.TroubleF("constant minMatch not found")
		return
	}
	for _, cs := range cases {
		coll := newCollector()
		lp0 := lpCount
		res, f, err := analyseAsmDecoder(path, mm, cs, coll, func(line int) string { return fmt.Sprintf("internal/lz4block/decode_amd64.s:%d", line) })
		if err != nil {
			c.TroubleF("assembly analysis (%s): %v", cs, err)
			return
		}
		if res.trouble != "" {
			c.TroubleF("assembly analysis (%s): %s", cs, res.trouble)
		}
		c.AsmInstr = f.nInstr
		c.LPQ += lpCount - lp0
		c.Extra["asm_rounds_"+cs.String()] = res.rounds
		c.Extra["asm_blocks"] = len(f.blocks)
		nAccess := 0
		for _, k := range coll.order {
			o := coll.obls[k]
			rule, want := ruleOf[o.kind]
			if !want {
				continue
			}
			if o.kind == "access" {
				nAccess++
			}
			if o.ok {
				c.OK(rule, "asm|"+o.site, o.pos, o.desc, fmt.Sprintf("entailed by the inferred invariants in all %d abstract state(s) reaching the instruction", o.states), true)
			} else {
				c.Fail(rule, "asm|"+o.site, o.pos, o.desc, "not entailed: "+strings.Join(o.fail, " || "))
			}
		}
		if nAccess > 0 && nAccess < 30 {
			c.Fail(ruleOf["access"], "asm|access-floor|"+cs.String(), "internal/lz4block/decode_amd64.s", "all memory accesses of the assembly decoder are reached by the analysis", fmt.Sprintf("only %d access obligations recorded (confirmed by reading: 26 instructions, >= 30 obligations)", nAccess))
		}
	}
}

func checkC03(c *Check) {
	c.Level = "other"
	c.Explain = "Memory safety of block decoding is decided by abstract interpretation in a template-polyhedra domain (conjunctions of linear inequalities, exact rational LP): for decode_amd64.s every load, store and memmove is proven to lie inside src/dst/dict[0:len] on every path, including the 16/18/48-byte wide copies and 64-bit wrap-around, for each nil/non-nil combination that the Go call site does not exclude (R03.1, R03.3); the result is a negative constant or a cursor in [0, len(dst)] (R03.2); for the portable decoder (noasm configuration) capacities are clipped to lengths, the deferred recover covers the whole body, and the returned cursor is proven <= len(dst) (R03.4-R03.6); UncompressBlock returns the decoder's result only when non-negative (R03.7)."
	c.Uncov = []string{"decode_arm.s and decode_arm64.s (instruction semantics not modelled)", "absence of page faults follows from in-bounds access only under the address-space assumptions listed"}
	c.Assume = []string{"a non-nil slice has base >= 4096 and base+len <= 2^47; lengths are non-negative", "runtime.memmove preserves its argument slots and clobbers every register", "Plan 9 amd64 instruction semantics as listed in DESIGN.md appendix D"}
	c.Trusted = append(trustedSSA, "exact simplex and template-polyhedra engine in /verif/tool/ebnd_*.go", "Plan 9 amd64 semantics table of the front end")
	for k, v := range map[string]string{"R03.1": "assembly: every memory access in bounds", "R03.2": "assembly: result range", "R03.3": "preconditions excluded at the call site", "R03.4": "portable: capacities clipped, no unsafe", "R03.5": "portable: recover covers the body", "R03.6": "portable: cursor <= len(dst) at return", "R03.7": "UncompressBlock result mapping"} {
		c.RuleDoc[k] = v
	}
	p := loadOrTrouble(c, cfgAMD64)
	if p == nil {
		return
	}
	cases := []asmCase{{false, false}, {false, true}}
	if !dstNonNilAtCallSite(c, p, "R03.3") {
		cases = append(cases, asmCase{true, false}, asmCase{true, true})
	}
	runAsm(c, p, cases, map[string]string{"access": "R03.1", "result": "R03.2"})
	ruleObservationalCollapse(c, "R03.7")
	portableDecoderRules(c, "R03")
}
