package main

import (
	"fmt"
	"go/token"
	"go/types"
	"sort"
	"strings"

	"golang.org/x/tools/go/ssa"
)

// R06.1 / R06.2 / R15.2 / R15.4: provenance of io.EOF and of source errors.

// isEOFFilter: f(err error) error never returns its parameter when it is io.EOF:
// every return yields a value that is not the parameter, or the parameter on a
// path where `param == io.EOF` is false.
func isEOFFilter(f *ssa.Function) bool {
	if f == nil || f.Blocks == nil {
		return false
	}
	pi := nonNilPreserving(f)
	if pi < 0 {
		return false
	}
	prm := f.Params[pi]
	ok := true
	allInstrs(f, func(in ssa.Instruction) {
		r, isR := in.(*ssa.Return)
		if !isR {
			return
		}
		var chk func(v ssa.Value, b *ssa.BasicBlock, edge []Atom)
		chk = func(v ssa.Value, b *ssa.BasicBlock, edge []Atom) {
			switch x := v.(type) {
			case *ssa.Phi:
				for i, e := range x.Edges {
					chk(e, x.Block().Preds[i], edgeAtoms(x.Block().Preds[i], x.Block()))
				}
			case *ssa.Parameter:
				if x != prm {
					return
				}
				ats := append(atomsOfBlock(b), edge...)
				good := false
				for _, a := range ats {
					if a.Kind == "eofcmp" && !a.Val && a.V == prm {
						good = true
					}
				}
				if !good {
					ok = false
				}
			default:
				if isGlobalLoad(v, "io", "EOF") {
					ok = false
				}
			}
		}
		chk(r.Results[0], in.Block(), nil)
	})
	return ok
}

// edgeAtoms: atoms established by taking the CFG edge pred -> succ (the branch
// literal of pred's If, if any) plus the atoms of pred.
func edgeAtoms(pred, succ *ssa.BasicBlock) []Atom {
	out := append([]Atom{}, atomsOfBlock(pred)...)
	if len(pred.Instrs) > 0 {
		if ifi, ok := pred.Instrs[len(pred.Instrs)-1].(*ssa.If); ok && len(pred.Succs) == 2 && pred.Succs[0] != pred.Succs[1] {
			for k, s := range pred.Succs {
				if s == succ {
					out = append(out, atomOf(ifi.Cond, k == 0))
				}
			}
		}
	}
	return out
}

type readSite struct {
	fn   *ssa.Function
	call ssa.CallInstruction
	prim string // io.ReadFull, io.CopyN, wrapper name, Reader.Read
	role string
	errV ssa.Value
	buf      ssa.Value // destination buffer of a byte read (argument of the primitive or of its wrapper)
	filtered bool      // the wrapper converts io.EOF itself: nothing raw can come out of this site
}

func isIOReaderType(t types.Type) bool {
	it, ok := t.Underlying().(*types.Interface)
	if !ok {
		return false
	}
	for i := 0; i < it.NumMethods(); i++ {
		if it.Method(i).Name() == "Read" {
			return true
		}
	}
	return false
}

// sourceReadSites enumerates, in the reader-side functions of lz4stream and
// the root package, every call that reads from an io.Reader.
func sourceReadSites(p *Program) []readSite {
	var out []readSite
	for _, fn := range p.SrcFuncs() {
		if fn.Pkg == nil {
			continue
		}
		path := fn.Pkg.Pkg.Path()
		if path != pkgStream && path != pkgRoot {
			continue
		}
		for _, ci := range callsIn(fn) {
			cc := ci.Common()
			var prim string
			switch {
			case calleeIs(ci, "io", "ReadFull"), calleeIs(ci, "io", "CopyN"), calleeIs(ci, "io", "ReadAtLeast"), calleeIs(ci, "io", "Copy"), calleeIs(ci, "io", "ReadAll"), calleeIs(ci, "io/ioutil", "ReadAll"):
				prim = "io." + staticCallee(ci).Name()
			case cc.IsInvoke() && cc.Method.Name() == "Read" && isIOReaderType(cc.Value.Type()):
				prim = "Reader.Read"
			case isSourceRead32(staticCallee(ci)):
				prim = staticCallee(ci).Name()
			default:
				if bi, filt, ok := sourceReadBufWrapper(staticCallee(ci)); ok && bi < len(cc.Args) {
					rs := readSite{fn: fn, call: ci, prim: "io.ReadFull", buf: cc.Args[bi], filtered: filt}
					if v := ci.Value(); v != nil {
						if sig, okS := callSig(ci); okS {
							if ei := errResultIndex(sig); ei >= 0 {
								rs.errV = extractOf(v, ei)
							}
						}
					}
					rs.role = readRole(rs)
					out = append(out, rs)
				}
				continue
			}
			rs := readSite{fn: fn, call: ci, prim: prim}
			if (prim == "io.ReadFull" || prim == "io.ReadAtLeast") && len(cc.Args) > 1 {
				rs.buf = cc.Args[1]
			}
			if v := ci.Value(); v != nil {
				if sig, ok := callSig(ci); ok {
					if ei := errResultIndex(sig); ei >= 0 {
						rs.errV = extractOf(v, ei)
					}
				}
			}
			rs.role = readRole(rs)
			out = append(out, rs)
		}
	}
	return out
}

func callSig(ci ssa.CallInstruction) (*types.Signature, bool) {
	cc := ci.Common()
	if cc.IsInvoke() {
		s, ok := cc.Method.Type().(*types.Signature)
		return s, ok
	}
	s, ok := cc.Value.Type().Underlying().(*types.Signature)
	return s, ok
}

// readRole classifies a read site by where the bytes go.
func readRole(rs readSite) string {
	cc := rs.call.Common()
	switch rs.prim {
	case "io.ReadFull", "io.ReadAtLeast":
		buf := rs.buf
		if buf == nil {
			buf = cc.Args[1]
		}
		if _, _, isW := sourceReadBufWrapper(rs.fn); isW {
			return "wrapper"
		}
		switch {
		case derivesFromField(buf, "Frame.buf"):
			if isSourceRead32(rs.fn) {
				return "wrapper"
			}
			// the word reader written out in place: the bytes just read are decoded with encoding/binary and
			// the word is stored into one of the fields the wrapper form feeds
			if role := inlineWordRole(buf); role != "" {
				return role
			}
			// distinguish the 2+1 byte and the 8 byte descriptor reads by the guard
			if hasAtom(atomsOfBlock(rs.call.Block()), "flag", "Size", true) {
				return "descriptor content size"
			}
			return "descriptor"
		case derivesFromField(buf, "FrameDataBlock.data"):
			return "block data"
		}
		if rs.fn.Pkg.Pkg.Path() == pkgRoot {
			return "uncompressed input (write side)"
		}
		return "other"
	case "io.CopyN":
		return "skippable body"
	case "Reader.Read", "io.Copy", "io.ReadAll":
		return "direct"
	}
	// wrapper call: follow the word
	x := extractOf(rs.call.Value(), 0)
	if x == nil {
		return "word:unused"
	}
	roles := map[string]bool{}
	seen := map[ssa.Value]bool{}
	var fwd func(v ssa.Value)
	fwd = func(v ssa.Value) {
		if v == nil || seen[v] {
			return
		}
		seen[v] = true
		refs := v.Referrers()
		if refs == nil {
			return
		}
		for _, r := range *refs {
			switch y := r.(type) {
			case *ssa.Store:
				if y.Val == v {
					if lf := lastField(y.Addr); lf != "" {
						roles[lf] = true
					}
				}
			case *ssa.Convert:
				fwd(y)
			case *ssa.ChangeType:
				fwd(y)
			case *ssa.Phi:
				fwd(y)
			case ssa.CallInstruction:
				if calleeIs(y, "io", "CopyN") {
					roles["skippable length"] = true
				}
			}
		}
	}
	fwd(x)
	var names []string
	for r := range roles {
		names = append(names, r)
	}
	sort.Strings(names)
	if len(names) == 0 {
		return "word:unstored"
	}
	return strings.Join(names, "+")
}

// eofEscape describes one place where a possibly-raw io.EOF from a read site
// leaves the function (return) or is handed to something else.
type eofEscape struct {
	at    ssa.Instruction
	how   string
	atoms []Atom
}

// rawEscapes follows the error value of a read site forward and returns the
// places where it escapes unfiltered.
func rawEscapes(rs readSite) []eofEscape {
	var out []eofEscape
	if rs.errV == nil {
		return nil
	}
	type item struct {
		v   ssa.Value
		ctx []Atom
	}
	seen := map[ssa.Value]bool{}
	work := []item{{rs.errV, nil}}
	for len(work) > 0 {
		it := work[len(work)-1]
		work = work[:len(work)-1]
		if seen[it.v] {
			continue
		}
		seen[it.v] = true
		refs := it.v.Referrers()
		if refs == nil {
			continue
		}
		for _, r := range *refs {
			// refinement: a use in a block where `v == io.EOF` is known false is not a raw EOF
			refined := false
			if b := r.Block(); b != nil {
				for _, a := range atomsOfBlock(b) {
					if a.Kind == "eofcmp" && !a.Val && a.V == it.v {
						refined = true
					}
					if a.Kind == "errnil" && a.Val && a.V == it.v {
						refined = true // value is nil here
					}
				}
			}
			if refined {
				continue
			}
			switch y := r.(type) {
			case *ssa.Return:
				out = append(out, eofEscape{y, "returned", append(append([]Atom{}, it.ctx...), atomsOfBlock(y.Block())...)})
			case *ssa.Phi:
				for i, e := range y.Edges {
					if e == it.v {
						ea := edgeAtoms(y.Block().Preds[i], y.Block())
						// skip edges on which the value is known nil / non-EOF
						skip := false
						for _, a := range ea {
							if (a.Kind == "eofcmp" && !a.Val && a.V == it.v) || (a.Kind == "errnil" && a.Val && a.V == it.v) {
								skip = true
							}
						}
						if skip {
							continue
						}
						work = append(work, item{y, append(append([]Atom{}, it.ctx...), ea...)})
					}
				}
			case *ssa.BinOp, *ssa.If:
				// comparison only
			case *ssa.MakeInterface:
				work = append(work, item{y, it.ctx})
			case *ssa.ChangeInterface:
				work = append(work, item{y, it.ctx})
			case *ssa.Store:
				if y.Val != it.v {
					continue
				}
				if cell, ok := y.Addr.(*ssa.Alloc); ok {
					// local cell (named result with defer): continue with its loads
					for _, rr := range *cell.Referrers() {
						if u, isU := rr.(*ssa.UnOp); isU && u.Op == token.MUL {
							work = append(work, item{u, append(append([]Atom{}, it.ctx...), atomsOfBlock(y.Block())...)})
						}
					}
					continue
				}
				out = append(out, eofEscape{y, "stored to " + shortVal(y.Addr), append(append([]Atom{}, it.ctx...), atomsOfBlock(y.Block())...)})
			case ssa.CallInstruction:
				f := staticCallee(y)
				if f != nil && isEOFFilter(f) {
					continue
				}
				if f != nil && f.Pkg != nil && f.Pkg.Pkg.Path() == "fmt" && f.Name() == "Errorf" {
					continue // wrapped: no longer == io.EOF
				}
				isArg := false
				for _, a := range y.Common().Args {
					if a == it.v {
						isArg = true
					}
				}
				if isArg {
					name := "call"
					if f != nil {
						name = fname(f)
					}
					out = append(out, eofEscape{y, "passed to " + name, append(append([]Atom{}, it.ctx...), atomsOfBlock(y.Block())...)})
				}
			case *ssa.Send:
				out = append(out, eofEscape{y, "sent on a channel", append(append([]Atom{}, it.ctx...), atomsOfBlock(y.Block())...)})
			}
		}
	}
	return out
}

// ruleEOFProvenance implements R06.1.
func ruleEOFProvenance(c *Check, p *Program, rule string, readerSideOnly bool) {
	sites := sourceReadSites(p)
	count := 0
	roleSeen := map[string]int{}
	for _, rs := range sites {
		if rs.role == "wrapper" || rs.role == "uncompressed input (write side)" {
			continue
		}
		// reader side only: functions of lz4stream plus Reader methods
		if rs.fn.Pkg.Pkg.Path() == pkgRoot && !strings.Contains(fname(rs.fn), "Reader") {
			continue
		}
		if strings.Contains(fname(rs.fn), "CompressingReader") {
			continue
		}
		count++
		c.Sites++
		c.Funcs[fname(rs.fn)] = true
		roleSeen[rs.role]++
		key := fmt.Sprintf("%s#read:%s", shortFn(rs.fn), rs.role)
		if roleSeen[rs.role] > 1 {
			key += fmt.Sprintf("#%d", roleSeen[rs.role])
		}
		desc := "a raw io.EOF from reading the " + rs.role + " is converted before it can be taken for the end of the frame"
		esc := rawEscapes(rs)
		if rs.filtered {
			esc = nil // the wrapper returns the error through the io.EOF filter already
		}
		var bad []string
		for _, e := range esc {
			allowed := false
			switch rs.role {
			case "Frame.Magic":
				allowed = true // empty input / nothing after a skippable frame: a clean end
				desc = "the first word of a frame may end the input cleanly (empty input, or nothing after a skippable frame)"
			case "FrameDataBlock.Size":
				// only legacy frames end with the input
				allowed = hasAtom(e.atoms, "legacy", "", true)
				desc = "a raw io.EOF from reading a block size ends the stream only for legacy frames (no end mark); otherwise it is converted"
			}
			if !allowed {
				bad = append(bad, fmt.Sprintf("%s at %s under {%s}", e.how, p.InstrPos(e.at), strings.Join(atomStrings(e.atoms), ", ")))
			}
		}
		if rs.role == "direct" {
			c.Fail(rule, key, p.InstrPos(rs.call), "the source is read only through io.ReadFull / io.CopyN", "direct "+rs.prim+" on the source: a short read could be mistaken for a field")
			continue
		}
		if len(bad) == 0 {
			c.OK(rule, key, p.InstrPos(rs.call), desc, fmt.Sprintf("%d escape(s) of the error value examined, all allowed or filtered", len(esc)), true)
		} else {
			c.Fail(rule, key, p.InstrPos(rs.call), desc, "unconverted io.EOF may leave the function: "+strings.Join(bad, "; "))
		}
	}
	// floor: the roles confirmed by reading must all be present
	for _, want := range []string{"Frame.Magic", "skippable length", "skippable body", "descriptor", "descriptor content size", "FrameDataBlock.Size", "block data", "FrameDataBlock.Checksum", "Frame.Checksum"} {
		if roleSeen[want] == 0 {
			c.Fail(rule, "read-site-floor#"+want, "", "the read site for the "+want+" is resolved", "no source read classified as '"+want+"' found (anchor unresolved; sites found: "+fmt.Sprint(roleSeen)+")")
		}
	}
	c.Extra[rule+"_read_sites"] = count
}

func shortFn(f *ssa.Function) string {
	s := fname(f)
	s = strings.TrimPrefix(s, "(*")
	s = strings.ReplaceAll(s, "lz4stream.", "")
	s = strings.ReplaceAll(s, "lz4block.", "")
	s = strings.ReplaceAll(s, "lz4.", "")
	s = strings.ReplaceAll(s, ")", "")
	s = strings.ReplaceAll(s, "(*", "")
	s = strings.ReplaceAll(s, "(", "")
	return s
}

// ruleSyntheticEOF implements R15.4: every place where the constant io.EOF is
// produced as a value must be one of the known end-of-stream decisions, under
// its guard; in particular never on a path where a source error is pending.
func ruleSyntheticEOF(c *Check, p *Program, rule string) {
	type want struct {
		fn    string
		atoms []string
		desc  string
	}
	allowed := []want{
		{"FrameDataBlock.Read", []string{"!legacy", "cmp:x==0"}, "end mark of a non-legacy frame"},
		{"FrameDataBlock.Read", []string{"legacy", "cmp:x==cum"}, "kernel-style trailing total of a legacy frame"},
		{"Blocks.initR$1", []string{"legacy", "cmp:cum==cumx"}, "kernel-style trailing total, concurrent reader"},
	}
	matched := make([]bool, len(allowed))
	n := 0
	initRFamily := map[*ssa.Function]bool{}
	if ir := p.Func("internal/lz4stream", "Blocks.initR"); ir != nil {
		for _, f := range familyFns(ir)[1:] {
			initRFamily[f] = true
		}
	}
	for _, fn := range p.SrcFuncs() {
		if fn.Pkg == nil {
			continue
		}
		path := fn.Pkg.Pkg.Path()
		if path != pkgStream && path != pkgRoot {
			continue
		}
		if strings.Contains(fname(fn), "CompressingReader") {
			continue // C18 has its own table
		}
		allInstrs(fn, func(in ssa.Instruction) {
			u, ok := in.(*ssa.UnOp)
			if !ok || !isGlobalLoad(u, "io", "EOF") {
				return
			}
			// value uses (not comparisons)
			valueUse := false
			for _, r := range *u.Referrers() {
				switch y := r.(type) {
				case *ssa.BinOp:
				case ssa.CallInstruction:
					if calleeIs(y, "errors", "Is") {
						continue // comparison
					}
					valueUse = true
				default:
					valueUse = true
				}
			}
			if !valueUse {
				return
			}
			n++
			c.Sites++
			c.Funcs[fname(fn)] = true
			ats := normEOFAtoms(structAtomsAll(in.Block()))
			sfn := shortFn(fn)
			okk := false
			for i, w := range allowed {
				fnOK := w.fn == sfn
				if !fnOK && strings.HasPrefix(w.fn, "Blocks.initR$") {
					// the reader goroutine of the concurrent pipeline, whatever form it takes
					fnOK = initRFamily[fn]
				}
				if fnOK && sameSet(ats, w.atoms) && !matched[i] {
					matched[i] = true
					okk = true
					c.OK(rule, "synthetic-eof#"+w.desc, p.InstrPos(in), "io.EOF is produced for the "+w.desc+" exactly under {"+strings.Join(w.atoms, ", ")+"}", "guards match", true)
					// the word that is compared was actually read: the decision lies behind the success edge of the read
					// (a failed read leaves the word at zero, which must not pass for an end mark)
					if sfn == "FrameDataBlock.Read" {
						c.Cond(hasAtom(atomsOfBlock(in.Block()), "errnil", "", true), rule, "synthetic-eof#"+w.desc+"#after-successful-read", p.InstrPos(in), "the end-of-stream decision is taken only after the size word has been read without error", "governed by err == nil of the read", "the decision is not governed by the success of the read: a failed read (word = 0, error pending) is taken for the "+w.desc)
					}
					break
				}
			}
			if !okk {
				// passing the end of stream on: the constant is produced where the current error is
				// already known to be io.EOF (the guard holds here, or at every call site of this helper)
				for _, a := range atomsOfBlock(in.Block()) {
					if a.Kind == "eofcmp" && a.Val {
						okk = true
						c.OK(rule, "synthetic-eof#"+sfn+"#re-emits-eof", p.InstrPos(in), "io.EOF is returned where the pending error is io.EOF already", "governed by err == io.EOF", true)
					}
				}
			}
			if !okk {
				pending := ""
				for _, a := range atomsOfBlock(in.Block()) {
					if a.Kind == "errnil" && !a.Val {
						pending = " (a non-nil error is pending on this path and would be replaced by a clean end of stream)"
					}
				}
				c.Fail(rule, "synthetic-eof#"+sfn+"{"+strings.Join(ats, ",")+"}", p.InstrPos(in), "io.EOF is only produced at the known end-of-stream decisions under their guards", "io.EOF produced in "+sfn+" under {"+strings.Join(ats, ", ")+"}"+pending)
			}
		})
	}
	for i, w := range allowed {
		if !matched[i] {
			c.Fail(rule, "synthetic-eof#"+w.desc, "", "io.EOF is produced for the "+w.desc+" exactly under {"+strings.Join(w.atoms, ", ")+"}", "no such site found in "+w.fn+" (guards changed or site removed)")
		}
	}
	c.Extra[rule+"_sites"] = n
}

// structAtomsAll: like structAtoms but keeps errnil atoms out and renders
// comparisons of local words by parameter / variable names.
func structAtomsAll(b *ssa.BasicBlock) []Atom { return structAtoms(b) }

// normEOFAtoms renders atoms with stable names for the synthetic-EOF table:
// the size word read in FrameDataBlock.Read is called x, etc.
func normEOFAtoms(as []Atom) []string {
	var out []string
	for _, a := range as {
		s := a.String()
		switch a.Kind {
		case "cmp":
			if b, ok := a.V.(*ssa.BinOp); ok {
				s = "cmp:" + wordName(b.X) + opStr(b.Op, a.Val) + wordName(b.Y)
			}
		}
		// drop negative comparisons (switch fall-through literals) that only order the cases
		if strings.HasPrefix(s, "cmp:") && strings.Contains(s, "!=") {
			continue
		}
		out = append(out, s)
	}
	sort.Strings(out)
	return out
}

func opStr(op token.Token, val bool) string {
	if val {
		return op.String()
	}
	switch op {
	case token.EQL:
		return "!="
	case token.NEQ:
		return "=="
	case token.LSS:
		return ">="
	case token.GEQ:
		return "<"
	case token.GTR:
		return "<="
	case token.LEQ:
		return ">"
	}
	return "!" + op.String()
}

func wordName(v ssa.Value) string {
	v = stripConv(v)
	switch x := v.(type) {
	case *ssa.Const:
		return shortVal(x)
	case *ssa.Parameter:
		return x.Name()
	case *ssa.Extract:
		if call, ok := x.Tuple.(*ssa.Call); ok {
			if isSourceRead32(staticCallee(call)) && x.Index == 0 {
				return "x"
			}
			if calleeIs(call, pkgStream, "FrameDataBlock.Read") && x.Index == 0 {
				return "cumx"
			}
		}
	case *ssa.UnOp:
		if x.Op == token.MUL {
			if a, ok := x.X.(*ssa.Alloc); ok && a.Comment != "" {
				return a.Comment
			}
			if fv, ok := x.X.(*ssa.FreeVar); ok {
				return fv.Name()
			}
		}
	case *ssa.Phi:
		if x.Comment != "" {
			return x.Comment
		}
	}
	return shortVal(v)
}

// sourceReadBufWrapper recognises a module helper that fills a byte-slice
// parameter from an io.Reader parameter with io.ReadFull and returns the error:
// returns the index of the buffer parameter and whether every error it returns
// went through the io.EOF filter (or is nil).
func sourceReadBufWrapper(f *ssa.Function) (bufIdx int, filtered bool, ok bool) {
	if !inModule(f) || len(f.Blocks) > 6 {
		return 0, false, false
	}
	bufIdx = -1
	for _, ci := range callsIn(f) {
		if !calleeIs(ci, "io", "ReadFull") {
			continue
		}
		a := ci.Common().Args
		if len(a) < 2 {
			continue
		}
		if _, isP := a[0].(*ssa.Parameter); !isP {
			continue
		}
		for i, prm := range f.Params {
			if derivesFromValue(a[1], prm) && isSliceType(prm.Type()) {
				if _, isPrm := a[1].(*ssa.Parameter); isPrm {
					bufIdx = i
				}
			}
		}
	}
	if bufIdx < 0 {
		return 0, false, false
	}
	filtered = true
	allInstrs(f, func(in ssa.Instruction) {
		r, isR := in.(*ssa.Return)
		if !isR {
			return
		}
		for _, res := range r.Results {
			if !isErrorType(res.Type()) || isNilConst(res) {
				continue
			}
			if call, isC := res.(*ssa.Call); isC && isEOFFilter(staticCallee(call)) {
				continue
			}
			filtered = false
		}
	})
	return bufIdx, filtered, true
}

// inlineWordRole: buf (the slice handed to io.ReadFull) is also the argument of a binary.*.Uint32/Uint64 call
// whose result is stored into a field that the word-reading wrapper normally feeds; returns that field.
func inlineWordRole(buf ssa.Value) string {
	refs := buf.Referrers()
	if refs == nil {
		return ""
	}
	known := map[string]bool{"Frame.Checksum": true, "Frame.Magic": true, "FrameDataBlock.Size": true, "FrameDataBlock.Checksum": true}
	roles := map[string]bool{}
	for _, r := range *refs {
		call, ok := r.(*ssa.Call)
		if !ok {
			continue
		}
		f := staticCallee(call)
		if f == nil || f.Pkg == nil || f.Pkg.Pkg.Path() != "encoding/binary" || !strings.HasPrefix(f.Name(), "Uint") {
			continue
		}
		seen := map[ssa.Value]bool{}
		var fwd func(v ssa.Value)
		fwd = func(v ssa.Value) {
			if v == nil || seen[v] || v.Referrers() == nil {
				return
			}
			seen[v] = true
			for _, rr := range *v.Referrers() {
				switch y := rr.(type) {
				case *ssa.Store:
					if y.Val == v {
						if lf := lastField(y.Addr); lf != "" {
							roles[lf] = true
						}
					}
				case *ssa.Convert:
					fwd(y)
				case *ssa.ChangeType:
					fwd(y)
				case *ssa.Phi:
					fwd(y)
				}
			}
		}
		fwd(call)
	}
	var names []string
	for r := range roles {
		if !known[r] {
			return ""
		}
		names = append(names, r)
	}
	sort.Strings(names)
	return strings.Join(names, "+")
}
