package main

func init() { register("C12", checkC12) }

func checkC12(c *Check) {
	c.Explain = "Agreement between the assembly and the portable decoder as far as it is visible in structure: (R12.1) for every (GOARCH, compiler, tag set) exactly one Go declaration of decodeBlock is selected, and an assembly body exactly when that declaration is a prototype (go/build's own file matcher, all assignments enumerated); (R12.2) the caller inspects only the sign of the result and all error exits of both implementations are negative, so error codes cannot be told apart; (R12.3) both implementations satisfy the same decided postconditions (bounds prover: result within [0, len(dst)], zero offsets rejected, whole source consumed) - see the evidence of C03/C04 for the obligations; a disagreement there is a divergence here."
	c.Uncov = []string{"equality of decoded bytes and of accept/reject decisions in general (would need the two programs related instruction by instruction)", "decode_arm.s and decode_arm64.s semantics (only their build constraints are analysed)"}
	c.Trusted = append(trustedSSA, "go/build MatchFile for constraint evaluation")
	c.RuleDoc["R12.1"] = "build-constraint partition for decodeBlock"
	c.RuleDoc["R12.2"] = "observational collapse of error codes"
	c.RuleDoc["R12.3"] = "shared postconditions (bounds prover)"
	checkPartition(c, "R12.1", "internal/lz4block", []string{"decodeBlock"}, []string{"gc", "gccgo"})
	ruleObservationalCollapse(c, "R12.2")
	sharedDecoderObligations(c, "R12.3")
}
