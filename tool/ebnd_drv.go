package main

import (
	"fmt"
	"sort"
)

// Fixpoint driver of the bounds prover, generic over the two front ends.

type bndProg interface {
	numBlocks() int
	entryBlock() int
	succs(b int) []int
	// transfer processes block b from one input state and returns, per successor
	// index, the states flowing along that edge. In check mode assertions are
	// recorded through the collector.
	transfer(b int, in *AbsState, check bool) [][]*AbsState
	initial() *AbsState
	blockName(b int) string
}

type obl struct {
	kind   string // access, result, offset, consumed, ...
	site   string // stable construct key
	pos    string
	desc   string
	ok     bool
	seen   bool
	fail   []string // diagnostics of failing states
	states int
}

type collector struct {
	obls  map[string]*obl
	order []string
}

func newCollector() *collector { return &collector{obls: map[string]*obl{}} }

// check records the outcome of asserting `holds` for one abstract state.
func (c *collector) check(kind, site, pos, desc string, holds bool, diag func() string) {
	key := kind + "|" + site
	o := c.obls[key]
	if o == nil {
		o = &obl{kind: kind, site: site, pos: pos, desc: desc, ok: true}
		c.obls[key] = o
		c.order = append(c.order, key)
	}
	o.seen = true
	o.states++
	if !holds {
		o.ok = false
		if len(o.fail) < 3 {
			o.fail = append(o.fail, diag())
		}
	}
}

var debugReach func(b int, ins []*AbsState)

type bndResult struct {
	rounds   int
	lp       int
	heads    map[int]*tmplHead
	reached  map[int]bool
	maxDisj  int
	coll     *collector
	trouble  string
	hullLP   int
}

const maxDisjuncts = 8

func runBnd(p bndProg, hc *hullCtx, coll *collector, incs func(head int, back []*AbsState, hd *tmplHead) (map[string][2]Q, map[string][2]bool)) *bndResult {
	n := p.numBlocks()
	// reverse postorder
	order := make([]int, 0, n)
	seen := make([]bool, n)
	var dfs func(b int)
	dfs = func(b int) {
		seen[b] = true
		for _, s := range p.succs(b) {
			if !seen[s] {
				dfs(s)
			}
		}
		order = append(order, b)
	}
	dfs(p.entryBlock())
	for i, j := 0, len(order)-1; i < j; i, j = i+1, j-1 {
		order[i], order[j] = order[j], order[i]
	}
	rpo := make([]int, n)
	for i := range rpo {
		rpo[i] = -1
	}
	for i, b := range order {
		rpo[b] = i
	}
	preds := make([][][2]int, n) // (pred block, succ index)
	isHead := make([]bool, n)
	for _, b := range order {
		for k, s := range p.succs(b) {
			preds[s] = append(preds[s], [2]int{b, k})
			if rpo[s] <= rpo[b] {
				isHead[s] = true
			}
		}
	}
	edgeOut := make([][][]*AbsState, n)
	res := &bndResult{heads: hc.heads, reached: map[int]bool{}, coll: coll}
	ratioDone := map[int]bool{}
	inStates := func(b int) []*AbsState {
		var ins []*AbsState
		if b == p.entryBlock() {
			ins = append(ins, p.initial())
		}
		for _, pk := range preds[b] {
			eo := edgeOut[pk[0]]
			if eo == nil || pk[1] >= len(eo) {
				continue
			}
			for _, s := range eo[pk[1]] {
				if s.st.feasible() {
					c := s
					if c.from != pk[0] {
						c = s.clone()
						c.from = pk[0]
					}
					ins = append(ins, c)
				}
			}
		}
		return ins
	}
	dirty := make([]bool, n)
	for i := range dirty {
		dirty[i] = true
	}
	executed := make([]bool, n)
	pass := func(check bool) bool {
		changed := false
		ranNow := make([]bool, n)
		for _, b := range order {
			// a block must be re-executed when one of its predecessors was re-executed since
			need := dirty[b] || check
			for _, pk := range preds[b] {
				if ranNow[pk[0]] || (rpo[pk[0]] >= rpo[b] && dirty[pk[0]]) {
					need = true
				}
			}
			if !need && executed[b] {
				continue
			}
			ins := inStates(b)
			if len(ins) == 0 {
				if edgeOut[b] != nil {
					ranNow[b] = true
				}
				edgeOut[b] = nil
				dirty[b] = false
				continue
			}
			res.reached[b] = true
			if len(ins) > res.maxDisj {
				res.maxDisj = len(ins)
			}
			if isHead[b] {
				var before string
				hadHead := hc.heads[b] != nil
				if hadHead {
					before = hc.heads[b].sig()
				}
				l0 := lpCount
				st := hc.hull(b, b, ins, !check)
				res.hullLP += lpCount - l0
				after := hc.heads[b].sig()
				if before != after {
					changed = true
				} else if hadHead && executed[b] && !check {
					// same abstract input as last time: outputs are unchanged
					dirty[b] = false
					continue
				}
				st.from = -1
				ins = []*AbsState{st}
			} else if len(ins) > maxDisjuncts {
				// too many disjuncts at a join: merge per predecessor (trace partitioning by incoming edge)
				groups := map[int][]*AbsState{}
				var keys []int
				for _, in := range ins {
					if _, ok := groups[in.from]; !ok {
						keys = append(keys, in.from)
					}
					groups[in.from] = append(groups[in.from], in)
				}
				sort.Ints(keys)
				var merged []*AbsState
				l0 := lpCount
				for _, k := range keys {
					g := groups[k]
					if len(g) == 1 {
						merged = append(merged, g[0])
						continue
					}
					st := hc.hull(b+(k+2)*100000, b, g, false)
					st.from = k
					merged = append(merged, st)
				}
				res.hullLP += lpCount - l0
				ins = merged
			}
			if check && debugReach != nil {
				debugReach(b, ins)
			}
			outs := make([][]*AbsState, len(p.succs(b)))
			for _, in := range ins {
				o := p.transfer(b, in.clone(), check)
				for k := range o {
					if k < len(outs) {
						outs[k] = append(outs[k], o[k]...)
					}
				}
			}
			edgeOut[b] = outs
			executed[b] = true
			ranNow[b] = true
			dirty[b] = false
		}
		// blocks re-executed late in the order may feed earlier ones (back edges)
		for _, b := range order {
			for _, pk := range preds[b] {
				if ranNow[pk[0]] && rpo[pk[0]] >= rpo[b] {
					dirty[b] = true
					changed = true
				}
			}
		}
		return changed
	}
	for round := 0; round < 60; round++ {
		res.rounds++
		ch := pass(false)
		// ratio directions for loop heads once back-edge states exist
		if incs != nil {
			for _, b := range order {
				if !isHead[b] || ratioDone[b] || hc.heads[b] == nil {
					continue
				}
				var back []*AbsState
				for _, pk := range preds[b] {
					if rpo[pk[0]] >= rpo[b] && edgeOut[pk[0]] != nil && pk[1] < len(edgeOut[pk[0]]) {
						for _, s := range edgeOut[pk[0]][pk[1]] {
							if s.st.feasible() {
								back = append(back, s)
							}
						}
					}
				}
				if len(back) == 0 {
					continue
				}
				ratioDone[b] = true
				im, fm := incs(b, back, hc.heads[b])
				before := len(hc.heads[b].dirs)
				hc.addRatioDirs(b, im, fm)
				if len(hc.heads[b].dirs) != before {
					ch = true
				}
			}
		}
		if !ch {
			break
		}
		if round == 59 {
			res.trouble = "fixpoint not reached in 60 rounds"
		}
	}
	pass(true)
	res.lp = lpCount
	return res
}

// increments computes, for each loop-carried variable of a head, the range of
// its per-iteration increment over the back-edge states.
func defaultIncs(head int, back []*AbsState, hd *tmplHead) (map[string][2]Q, map[string][2]bool) {
	incs := map[string][2]Q{}
	fin := map[string][2]bool{}
	var keys []string
	for k := range hd.phiSym {
		keys = append(keys, k)
	}
	sort.Strings(keys)
	for _, k := range keys {
		ps := hd.phiSym[k]
		var lo, hi Q
		loF, hiF := true, true
		first := true
		for _, s := range back {
			v, ok := s.vals[k]
			if !ok {
				loF, hiF = false, false
				break
			}
			d := v.Sub(linS(ps))
			st, mx := s.st.max(d)
			if st == lpInfeasible {
				continue
			}
			if st != lpOptimal {
				hiF = false
			}
			st2, mn := s.st.max(d.Neg())
			if st2 != lpOptimal {
				loF = false
			}
			mn = mn.Neg()
			if first {
				lo, hi = mn, mx
				first = false
			} else {
				if hiF && mx.Cmp(hi) > 0 {
					hi = mx
				}
				if loF && mn.Cmp(lo) < 0 {
					lo = mn
				}
			}
		}
		if first {
			continue
		}
		incs[k] = [2]Q{lo, hi}
		fin[k] = [2]bool{loF, hiF}
	}
	_ = fmt.Sprint
	return incs, fin
}
