package main

import (
	"fmt"
	"os"
	"sort"
	"strconv"
	"strings"
	"time"
)

// bndDeadline bounds the wall time of one top-level run of the prover (nested runs on inlined callees share it). A
// run that exceeds it stops and reports trouble: the check then exits with status 2 instead of running for hours
// on code whose shape defeats the partitioning heuristics. LZ4_BND_BUDGET (seconds) overrides the default.
var bndDeadline time.Time
var bndDepth int

type bndBudgetExceeded struct{}

func bndBudget() time.Duration {
	if v := os.Getenv("LZ4_BND_BUDGET"); v != "" {
		if n, err := strconv.Atoi(v); err == nil && n > 0 {
			return time.Duration(n) * time.Second
		}
	}
	return 300 * time.Second
}

// Fixpoint driver of the bounds prover, generic over the two front ends.
// Iteration strategy: recursive (Bourdoncle): every natural loop is stabilised
// - starting from scratch - each time control reaches its head from outside, so
// that inner invariants are always computed relative to the current outer state.

type bndProg interface {
	numBlocks() int
	entryBlock() int
	succs(b int) []int
	// transfer processes block b from one input state and returns, per successor
	// index, the states flowing along that edge. In check mode assertions are
	// recorded through the collector.
	transfer(b int, in *AbsState, check bool) [][]*AbsState
	initial() *AbsState
	blockName(b int) string
}

type obl struct {
	kind   string // access, result, offset, consumed, ...
	site   string // stable construct key
	pos    string
	desc   string
	ok     bool
	seen   bool
	fail   []string // diagnostics of failing states
	states int
}

type collector struct {
	obls  map[string]*obl
	order []string
}

func newCollector() *collector { return &collector{obls: map[string]*obl{}} }

// check records the outcome of asserting `holds` for one abstract state.
func (c *collector) check(kind, site, pos, desc string, holds bool, diag func() string) {
	key := kind + "|" + site
	o := c.obls[key]
	if o == nil {
		o = &obl{kind: kind, site: site, pos: pos, desc: desc, ok: true}
		c.obls[key] = o
		c.order = append(c.order, key)
	}
	o.seen = true
	o.states++
	if !holds {
		o.ok = false
		if len(o.fail) < 3 {
			o.fail = append(o.fail, diag())
		}
	}
}

var debugReach func(b int, ins []*AbsState)

type bndResult struct {
	rounds  int // total number of loop-head iterations
	lp      int
	heads   map[int]*tmplHead
	reached map[int]bool
	maxDisj int
	coll    *collector
	trouble string
	hullLP  int
}

const maxDisjuncts = 8

func runBnd(p bndProg, hc *hullCtx, coll *collector, incs func(head int, back []*AbsState, hd *tmplHead) (map[string][2]Q, map[string][2]bool)) (out *bndResult) {
	n := p.numBlocks()
	order := make([]int, 0, n)
	seen := make([]bool, n)
	var dfs func(b int)
	dfs = func(b int) {
		seen[b] = true
		for _, s := range p.succs(b) {
			if !seen[s] {
				dfs(s)
			}
		}
		order = append(order, b)
	}
	dfs(p.entryBlock())
	for i, j := 0, len(order)-1; i < j; i, j = i+1, j-1 {
		order[i], order[j] = order[j], order[i]
	}
	rpo := make([]int, n)
	for i := range rpo {
		rpo[i] = -1
	}
	for i, b := range order {
		rpo[b] = i
	}
	preds := make([][][2]int, n) // (pred block, succ index)
	isHead := make([]bool, n)
	for _, b := range order {
		for k, s := range p.succs(b) {
			preds[s] = append(preds[s], [2]int{b, k})
			if rpo[s] <= rpo[b] {
				isHead[s] = true
			}
		}
	}
	// natural loop bodies
	body := map[int]map[int]bool{}
	for _, h := range order {
		if !isHead[h] {
			continue
		}
		bd := map[int]bool{h: true}
		var stack []int
		for _, pk := range preds[h] {
			if rpo[pk[0]] >= rpo[h] && !bd[pk[0]] {
				bd[pk[0]] = true
				stack = append(stack, pk[0])
			}
		}
		for len(stack) > 0 {
			x := stack[len(stack)-1]
			stack = stack[:len(stack)-1]
			for _, pk := range preds[x] {
				if !bd[pk[0]] && rpo[pk[0]] >= 0 {
					bd[pk[0]] = true
					stack = append(stack, pk[0])
				}
			}
		}
		body[h] = bd
	}
	edgeOut := make([][][]*AbsState, n)
	res := &bndResult{heads: hc.heads, reached: map[int]bool{}, coll: coll}
	if bndDepth == 0 {
		bndDeadline = time.Now().Add(bndBudget())
	}
	bndDepth++
	top0 := bndDepth == 1
	defer func() {
		bndDepth--
		if r := recover(); r != nil {
			if _, isB := r.(bndBudgetExceeded); isB && top0 {
				res.trouble = fmt.Sprintf("the bounds prover did not reach a fixpoint within its time budget of %s (set LZ4_BND_BUDGET to raise it)", bndBudget())
				out = res
				return
			}
			panic(r)
		}
	}()
	inStates := func(b int) []*AbsState {
		var ins []*AbsState
		if b == p.entryBlock() {
			ins = append(ins, p.initial())
		}
		for _, pk := range preds[b] {
			eo := edgeOut[pk[0]]
			if eo == nil || pk[1] >= len(eo) {
				continue
			}
			for _, s := range eo[pk[1]] {
				if s.st.feasible() {
					c := s
					if c.from != pk[0] {
						c = s.clone()
						c.from = pk[0]
					}
					ins = append(ins, c)
				}
			}
		}
		return ins
	}
	mergeJoin := func(b int, ins []*AbsState) []*AbsState {
		if len(ins) <= maxDisjuncts {
			return ins
		}
		if len(p.succs(b)) == 0 && len(ins) <= 8*maxDisjuncts {
			// exit blocks are small and carry the result obligations: a hull of "error code" and
			// "cursor" states would lose exactly the disjunction those obligations state
			return ins
		}
		// too many disjuncts: merge per predecessor (trace partitioning by incoming edge); computed afresh
		// second criterion: which variables hold constants (a state with anchor = 0 is kept apart from
		// states where it is symbolic: their union is usually not convex)
		type gkey struct {
			from int
			sig  string
		}
		groups := map[gkey][]*AbsState{}
		var keys []gkey
		var live map[string]bool
		if hc.liveAt != nil {
			live = hc.liveAt(b)
		}
		for _, in := range ins {
			var cs []string
			for k, v := range in.vals {
				if v.isConst() && (live == nil || live[k]) && !strings.HasPrefix(k, "$") && !strings.HasPrefix(k, "fld:") {
					cs = append(cs, k+"="+v.k.String())
				}
			}
			sort.Strings(cs)
			gk := gkey{in.from, strings.Join(cs, ",")}
			if _, ok := groups[gk]; !ok {
				keys = append(keys, gk)
			}
			groups[gk] = append(groups[gk], in)
		}
		sort.Slice(keys, func(i, j int) bool {
			if keys[i].from != keys[j].from {
				return keys[i].from < keys[j].from
			}
			return keys[i].sig < keys[j].sig
		})
		var merged []*AbsState
		l0 := lpCount
		for gi, k := range keys {
			g := groups[k]
			if len(g) == 1 {
				merged = append(merged, g[0])
				continue
			}
			key := b + (k.from+2)*100000 + (gi+1)*10000000
			delete(hc.heads, key)
			st := hc.hull(key, b, g, false)
			st.from = k.from
			merged = append(merged, st)
		}
		res.hullLP += lpCount - l0
		return merged
	}
	exec := func(b int, ins []*AbsState, check bool) {
		if time.Now().After(bndDeadline) {
			panic(bndBudgetExceeded{})
		}
		res.reached[b] = true
		if len(ins) > res.maxDisj {
			res.maxDisj = len(ins)
		}
		if check && debugReach != nil {
			debugReach(b, ins)
		}
		outs := make([][]*AbsState, len(p.succs(b)))
		for _, in := range ins {
			o := p.transfer(b, in.clone(), check)
			for k := range o {
				if k < len(outs) {
					outs[k] = append(outs[k], o[k]...)
				}
			}
		}
		edgeOut[b] = outs
	}
	var runRegion func(region []int, top int, check bool)
	var stabilize func(h int, check bool)
	regionOf := func(h int) []int {
		var r []int
		for _, b := range order {
			if body[h][b] {
				r = append(r, b)
			}
		}
		return r
	}
	runRegion = func(region []int, top int, check bool) {
		done := map[int]bool{}
		for _, b := range region {
			if done[b] || b == top {
				continue
			}
			if isHead[b] {
				stabilize(b, check)
				for x := range body[b] {
					done[x] = true
				}
				continue
			}
			ins := inStates(b)
			if len(ins) == 0 {
				edgeOut[b] = nil
				continue
			}
			exec(b, mergeJoin(b, ins), check)
		}
	}
	// refineExits: the states leaving the loop through the head's exit edges are
	// recomputed from the individual incoming states (the entry states and the
	// back-edge states) instead of from their hull. Every concrete state at the
	// head lies in one of them, so this is sound, and it keeps apart "the loop
	// never ran" from "it ran at least once", which a convex hull cannot.
	refineExits := func(h int) {
		succs := p.succs(h)
		var exits []int
		for k, s := range succs {
			if !body[h][s] {
				exits = append(exits, k)
			}
		}
		if len(exits) == 0 || edgeOut[h] == nil {
			return
		}
		ins := inStates(h)
		if len(ins) == 0 {
			return
		}
		ins = mergeJoin(h, ins) // bounded: partitioned by predecessor and constant signature
		coll := make(map[int][]*AbsState)
		for _, in := range ins {
			o := p.transfer(h, in.clone(), false)
			for _, k := range exits {
				if k < len(o) {
					coll[k] = append(coll[k], o[k]...)
				}
			}
		}
		for _, k := range exits {
			if k < len(edgeOut[h]) {
				edgeOut[h][k] = coll[k]
			}
		}
	}
	stabilize = func(h int, check bool) {
		loop := regionOf(h)
		if !check {
			delete(hc.heads, h)
			// forget states of a previous visit
			for _, b := range loop {
				edgeOut[b] = nil
			}
		}
		ratioDone := false
		for iter := 0; iter < 40; iter++ {
			ins := inStates(h)
			if len(ins) == 0 {
				edgeOut[h] = nil
				return
			}
			var before string
			if hd := hc.heads[h]; hd != nil {
				before = hd.sig()
			}
			l0 := lpCount
			st := hc.hull(h, h, ins, !check)
			res.hullLP += lpCount - l0
			res.rounds++
			st.from = -1
			if check {
				exec(h, []*AbsState{st}, true)
				runRegion(loop, h, true)
				refineExits(h)
				return
			}
			if iter > 0 && hc.heads[h].sig() == before {
				refineExits(h)
				return
			}
			exec(h, []*AbsState{st}, false)
			runRegion(loop, h, false)
			if incs != nil && !ratioDone {
				var back []*AbsState
				for _, pk := range preds[h] {
					if rpo[pk[0]] >= rpo[h] && edgeOut[pk[0]] != nil && pk[1] < len(edgeOut[pk[0]]) {
						for _, s := range edgeOut[pk[0]][pk[1]] {
							if s.st.feasible() {
								back = append(back, s)
							}
						}
					}
				}
				if len(back) > 0 {
					ratioDone = true
					im, fm := incs(h, back, hc.heads[h])
					hc.addRatioDirs(h, im, fm)
				}
			}
			if iter == 39 {
				res.trouble = "loop at " + p.blockName(h) + " did not stabilise in 40 iterations"
			}
		}
	}
	runRegion(order, -1, false)
	runRegion(order, -1, true)
	res.lp = lpCount
	return res
}

// increments computes, for each loop-carried variable of a head, the range of
// its per-iteration increment over the back-edge states.
func defaultIncs(head int, back []*AbsState, hd *tmplHead) (map[string][2]Q, map[string][2]bool) {
	incs := map[string][2]Q{}
	fin := map[string][2]bool{}
	var keys []string
	for k := range hd.phiSym {
		keys = append(keys, k)
	}
	sort.Strings(keys)
	for _, k := range keys {
		ps := hd.phiSym[k]
		var lo, hi Q
		loF, hiF := true, true
		first := true
		for _, s := range back {
			v, ok := s.vals[k]
			if !ok {
				loF, hiF = false, false
				break
			}
			d := v.Sub(linS(ps))
			st, mx := s.st.max(d)
			if st == lpInfeasible {
				continue
			}
			if st != lpOptimal {
				hiF = false
			}
			st2, mn := s.st.max(d.Neg())
			if st2 != lpOptimal {
				loF = false
			}
			mn = mn.Neg()
			if first {
				lo, hi = mn, mx
				first = false
			} else {
				if hiF && mx.Cmp(hi) > 0 {
					hi = mx
				}
				if loF && mn.Cmp(lo) < 0 {
					lo = mn
				}
			}
		}
		if first {
			continue
		}
		incs[k] = [2]Q{lo, hi}
		fin[k] = [2]bool{loF, hiF}
	}
	return incs, fin
}
