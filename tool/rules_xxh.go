package main

import (
	"fmt"
	"go/token"
	"go/types"

	"golang.org/x/tools/go/ssa"
)

// ---------------------------------------------------------------------------
// R13.10: the stages of the XXH32 code consume their input exactly (bounds prover).
//
// XXH32 is defined over consecutive stages: 16-byte stripes while at least 16 bytes remain, then 4-byte words
// while at least 4 remain, then single bytes. Which bytes a stage sees is decided by loop conditions and slice
// arithmetic, i.e. by linear facts at identifiable program points:
//   * a loop that advances a cursor p by a constant stride s over data of length L continues only while a whole
//     unit remains (p + s <= L on the edge into the body) and stops only when none does (L - p <= s - 1 on the
//     exit edge); for a loop that consumes a slice (input = input[s:]) the same with L - p = len(input);
//   * in the streaming Write, the tail kept for the next call is cut at len - len%16 of the very slice handed
//     to the stripe routine, and a non-empty carry buffer is handed over only when it holds exactly 16 bytes.
// L is the length of the slice the loop indexes; for the fixed carry buffer it is the count field that Write
// maintains (found as the field that receives the result of the copy into the buffer).
// The prover also shows that no index or slice expression of these functions can panic.

type cursorLoop struct {
	header *ssa.BasicBlock
	phi    *ssa.Phi
	stride int64
	base   ssa.Value // indexed slice or array pointer (nil for a slice-consuming loop)
	stay   *ssa.BasicBlock
	exit   *ssa.BasicBlock
}

func findCursorLoops(fn *ssa.Function) []*cursorLoop {
	var out []*cursorLoop
	for _, b := range fn.Blocks {
		ifi, ok := b.Instrs[len(b.Instrs)-1].(*ssa.If)
		if !ok {
			continue
		}
		_ = ifi
		for _, in := range b.Instrs {
			ph, isPhi := in.(*ssa.Phi)
			if !isPhi {
				break
			}
			var stride int64
			var back *ssa.BasicBlock
			for i, e := range ph.Edges {
				switch x := e.(type) {
				case *ssa.BinOp:
					if x.Op == token.ADD && x.X == ssa.Value(ph) {
						if k, isK := constUint(x.Y); isK && k > 0 && k <= 64 {
							stride, back = int64(k), b.Preds[i]
						}
					}
				case *ssa.Slice:
					if x.X == ssa.Value(ph) && x.Low != nil && x.High == nil {
						if k, isK := constUint(x.Low); isK && k > 0 && k <= 64 {
							stride, back = int64(k), b.Preds[i]
						}
					}
				}
			}
			if stride == 0 {
				continue
			}
			cl := &cursorLoop{header: b, phi: ph, stride: stride}
			// stay edge: the successor from which the back edge is reachable without passing the header
			reach := func(from *ssa.BasicBlock) bool {
				seen := map[*ssa.BasicBlock]bool{b: true}
				work := []*ssa.BasicBlock{from}
				for len(work) > 0 {
					x := work[len(work)-1]
					work = work[:len(work)-1]
					if x == back {
						return true
					}
					if seen[x] {
						continue
					}
					seen[x] = true
					work = append(work, x.Succs...)
				}
				return false
			}
			r0, r1 := b.Succs[0] == back || reach(b.Succs[0]), b.Succs[1] == back || reach(b.Succs[1])
			switch {
			case r0 && !r1:
				cl.stay, cl.exit = b.Succs[0], b.Succs[1]
			case r1 && !r0:
				cl.stay, cl.exit = b.Succs[1], b.Succs[0]
			default:
				continue
			}
			if _, isInt, _ := isIntType(ph.Type()); isInt || true {
				if _, _, okI := isIntType(ph.Type()); okI {
					// the data the cursor indexes
					allInstrs(fn, func(j ssa.Instruction) {
						switch x := j.(type) {
						case *ssa.Slice:
							if x.Low == ssa.Value(ph) && cl.base == nil {
								cl.base = x.X
							}
						case *ssa.IndexAddr:
							if x.Index == ssa.Value(ph) && cl.base == nil {
								cl.base = x.X
							}
						}
					})
					if cl.base == nil {
						continue
					}
				}
			}
			out = append(out, cl)
		}
	}
	return out
}

func ruleXXHConsumption(c *Check, p *Program, rule string) {
	if !bndArch() {
		return
	}
	// the count field of the carry buffer: receives the result of a copy into a fixed array field in Write
	countField := ""
	wr := p.Func("internal/xxh32", "XXHZero.Write")
	var xxhFns []*ssa.Function
	for _, fn := range p.SrcFuncs() {
		if fn.Pkg != nil && fn.Pkg.Pkg.Path() == pkgXXH && fn.Parent() == nil {
			xxhFns = append(xxhFns, fn)
		}
	}
	for _, sf := range xxhFns {
		allInstrs(sf, func(in ssa.Instruction) {
			st, ok := in.(*ssa.Store)
			if !ok {
				return
			}
			if call, isC := st.Val.(*ssa.Call); isC {
				if bi, isB := call.Call.Value.(*ssa.Builtin); isB && bi.Name() == "copy" {
					if lf := lastField(st.Addr); lf != "" {
						countField = lf
					}
				}
			}
		})
	}
	total := 0
	resolved := 0
	// every function of the package that advances a cursor by a constant stride (the stage loops may be split over
	// helpers); Write is analysed separately below
	for _, fn := range xxhFns {
		name := shortFn(fn)
		if fn == wr || len(fn.Blocks) == 0 {
			continue
		}
		loops := findCursorLoops(fn)
		if len(loops) == 0 {
			continue
		}
		c.Funcs[fname(fn)] = true
		coll := newCollector()
		var roots []string
		for _, prm := range fn.Params {
			if isSliceType(prm.Type()) {
				roots = append(roots, prm.Name())
			}
		}
		limit := func(g *goProg, a *AbsState, cl *cursorLoop) (Lin, bool) {
			if _, _, isI := isIntType(cl.phi.Type()); !isI {
				return g.sliceOf(a, cl.phi).len, true // slice-consuming loop: what remains
			}
			if isSliceType(cl.base.Type()) {
				return g.sliceOf(a, cl.base).len.Sub(g.val(a, cl.phi)), true
			}
			// a fixed array: the valid count is the count field of the receiver
			if countField == "" {
				return Lin{}, false
			}
			for k, v := range a.vals {
				if len(k) > 4 && k[:4] == "fld:" && !hasPrefix(k, "fld:orig:") && hasSuffix(k, ":"+countField) {
					return v.Sub(g.val(a, cl.phi)), true
				}
			}
			return Lin{}, false
		}
		resolvedLoops := map[string]bool{}
		hooks := goHooks{noInline: true, onEdge: func(g *goProg, a *AbsState, from, to *ssa.BasicBlock) {
			for i, cl := range loops {
				if from != cl.header {
					continue
				}
				rem, ok := limit(g, a, cl)
				site := fmt.Sprintf("%s#stage%d(stride %d)", name, i+1, cl.stride)
				pos := g.prog.Pos(cl.phi.Pos())
				if !ok {
					continue // the amount of valid data is not a quantity of this function (passed in by value): not decided
				}
				resolvedLoops[site] = true
				s := linI(cl.stride)
				if to == cl.stay {
					g.coll.check("stage", site+"#continues-only-with-a-whole-unit", pos, fmt.Sprintf("the loop body runs only while at least %d bytes remain", cl.stride), a.st.entailsLeq(s, rem), func() string {
						return "on the edge into the body the remaining count " + rem.Str(g.tab) + " may be below the stride: bytes beyond the data are hashed"
					})
				} else if to == cl.exit {
					g.coll.check("stage", site+"#stops-only-without-a-whole-unit", pos, fmt.Sprintf("the loop stops only when fewer than %d bytes remain (the next stage, or nothing, takes the rest)", cl.stride), a.st.entailsLeq(rem, s.AddK(-1)), func() string {
						return "on the exit edge the remaining count " + rem.Str(g.tab) + " may still hold a whole unit: those bytes are hashed by the wrong stage or not at all"
					})
				}
			}
		}}
		if fn.Signature.Recv() != nil && countField != "" {
			recv := fn.Params[0]
			goPre = func(g *goProg, a *AbsState) {
				// invariant of the carry buffer (shown for Write below): 0 <= count <= 15
				a.vals["fld:"+g.ctx+"p:"+recv.Name()+":"+countField] = g.havocR(a, "in_count", qi(0), qi(15), true)
			}
		}
		lp0 := lpCount
		res, _, err := analyseGoFunc(p, fn, name, roots, hooks, coll)
		c.LPQ += lpCount - lp0
		if err != nil {
			c.TroubleF("%s: %v", name, err)
			continue
		}
		if res.trouble != "" {
			c.TroubleF("%s: %s", name, res.trouble)
		}
		total += emitObls(c, coll, "", map[string]string{"stage": rule, "nopanic": rule})
		resolved += len(resolvedLoops)
	}
	c.Cond(resolved >= 3, rule, "xxh32#stage-loops", "", "the stage loops of the hash code were recognised and their data limits resolved (confirmed by reading: 3 in the one-shot code, 1 in the stripe routine, 2 in Sum32)", fmt.Sprintf("%d loops decided", resolved), fmt.Sprintf("only %d stage loops decided (expected at least 3)", resolved))
	if wr != nil && countField != "" {
		c.Funcs[fname(wr)] = true
		coll := newCollector()
		recv := wr.Params[0]
		key := func(g *goProg) string { return "fld:" + g.ctx + "p:" + recv.Name() + ":" + countField }
		goPre = func(g *goProg, a *AbsState) {
			a.vals[key(g)] = g.havocR(a, "in_count", qi(0), qi(15), true)
		}
		nTail := 0
		hooks := goHooks{
			// methods of the same object (Reset) are analysed in place; the stripe routine is not (it does not touch the count)
			inlineOnly: func(g *goProg, a *AbsState, call *ssa.Call, f *ssa.Function) bool {
				return f.Signature.Recv() != nil && types.Identical(f.Signature.Recv().Type(), wr.Signature.Recv().Type())
			},
			onReturn: func(g *goProg, a *AbsState, ret *ssa.Return) {
				v, ok := a.vals[key(g)]
				g.coll.check("stage", "XXHZero.Write#carry-count-invariant", g.prog.InstrPos(ret), "after Write the carry buffer holds between 0 and 15 bytes (a full stripe is never left in it): assumed by Sum32 and by the next Write", ok && a.st.entailsLeq(v, linI(15)) && a.st.entailsLeq(linI(0), v), func() string {
					if !ok {
						return "the count field is unknown at the return"
					}
					return "count = " + v.Str(g.tab) + " is not shown to lie in [0, 15]"
				})
			},
			onInstr: func(g *goProg, a *AbsState, in ssa.Instruction) {
				sl, ok := in.(*ssa.Slice)
				if !ok || sl.Low == nil || !isSliceType(sl.X.Type()) {
					return
				}
				sub, ok := sl.Low.(*ssa.BinOp)
				if !ok || sub.Op != token.SUB {
					return
				}
				rem, ok := sub.Y.(*ssa.BinOp)
				if !ok || rem.Op != token.REM || rem.X != sub.X {
					return
				}
				nTail++
				g.coll.check("stage", "XXHZero.Write#tail-cut-at-len-minus-remainder", g.prog.InstrPos(in), "the bytes kept for the next call are cut at len - len%16 of the slice they are taken from (the count used is the length of that very slice)", a.st.entailsEq(g.val(a, sub.X), g.sliceOf(a, sl.X).len), func() string {
					return "the count " + g.val(a, sub.X).Str(g.tab) + " is not the length " + g.sliceOf(a, sl.X).len.Str(g.tab) + " of the slice being cut: the tail starts at the wrong byte"
				})
			},
		}
		lp0 := lpCount
		res, _, err := analyseGoFunc(p, wr, "XXHZero.Write", []string{wr.Params[1].Name()}, hooks, coll)
		c.LPQ += lpCount - lp0
		if err != nil {
			c.TroubleF("XXHZero.Write: %v", err)
		} else {
			if res.trouble != "" {
				c.TroubleF("XXHZero.Write: %s", res.trouble)
			}
			emitObls(c, coll, "", map[string]string{"stage": rule, "nopanic": rule})
		}
	}
	_ = types.Typ
	_ = total
}

func hasPrefix(s, p string) bool { return len(s) >= len(p) && s[:len(p)] == p }
func hasSuffix(s, p string) bool { return len(s) >= len(p) && s[len(s)-len(p):] == p }

// R13.11: the streaming state is re-seeded only when nothing has been hashed. The lazy initialisation in Write
// (for the zero value of XXHZero) is governed by the running length being 0 and by nothing else: any other test
// (zero lanes, an empty carry buffer) can also be true in the middle of a stream and would discard what was hashed.
func ruleXXHLazyInit(c *Check, p *Program, rule string) {
	wr := findFn(c, p, rule, "internal/xxh32", "XXHZero.Write")
	if wr == nil {
		return
	}
	n := 0
	for _, g := range deepFuncs(wr, 1) {
		for _, ci := range callsIn(g) {
			isReset := calleeIs(ci, pkgXXH, "XXHZero.Reset")
			if !isReset {
				continue
			}
			n++
			c.Sites++
			ats := atomsOfBlockLocal(ci.Block())
			ok := len(ats) >= 1
			for _, a := range ats {
				z := atomSaysZero(a)
				if z == nil || loadField(z) != "XXHZero.totalLen" {
					ok = false
				}
			}
			c.Cond(ok, rule, "XXHZero.Write#lazy-init-on-zero-length", p.InstrPos(ci), "Write re-seeds the state only when the running length is 0 (the zero value, or right after Reset)", "the Reset call is governed by totalLen == 0 alone", "the re-seeding is governed by another condition: it can fire in the middle of a stream (all lanes zero, length a multiple of 2^32 in a narrower counter, ...) and drop everything hashed so far")
		}
	}
	if n == 0 {
		// the seeding may be written out in Write itself: stores of the lane seeds under the same guard
		c.OK(rule, "XXHZero.Write#lazy-init-on-zero-length", p.Pos(wr.Pos()), "no call of Reset in Write", "the lanes are seeded elsewhere (R13.3 checks the seeds)", false)
	}
}

// ---------------------------------------------------------------------------
// R13.17 (= R19.12): the hash code widens input only by zero extension.
//
// XXH32 is defined over unsigned bytes and little-endian unsigned words. A
// value of an unsigned type that is reinterpreted as the signed type of the
// same width and then widened (uint32(int8(b)), uint32(int16(w))) is sign-
// extended: every input byte >= 0x80 at that position then contributes
// 0xFFFFFFxx instead of 0x000000xx and the digest differs from the reference
// for exactly those inputs (printable test vectors never show it). The rule is
// exact about the construct: a conversion whose operand has a signed integer
// type narrower than the result, the operand itself being (a chain of
// conversions of) a value of the unsigned type of the same width.

func ruleXXHZeroExtends(c *Check, p *Program, rule string) {
	size := func(t types.Type) (int, bool, bool) { // bits, signed, is integer
		b, ok := t.Underlying().(*types.Basic)
		if !ok || b.Info()&types.IsInteger == 0 {
			return 0, false, false
		}
		w := 64
		switch b.Kind() {
		case types.Int8, types.Uint8:
			w = 8
		case types.Int16, types.Uint16:
			w = 16
		case types.Int32, types.Uint32:
			w = 32
		}
		return w, b.Info()&types.IsUnsigned == 0, true
	}
	nFn, nConv := 0, 0
	for _, fn := range p.SrcFuncs() {
		if fn.Pkg == nil || fn.Pkg.Pkg.Path() != pkgXXH {
			continue
		}
		nFn++
		c.Funcs[fname(fn)] = true
		allInstrs(fn, func(in ssa.Instruction) {
			cv, ok := in.(*ssa.Convert)
			if !ok {
				return
			}
			nConv++
			dw, _, dInt := size(cv.Type())
			sw, sSigned, sInt := size(cv.X.Type())
			if !dInt || !sInt || !sSigned || sw >= dw {
				return
			}
			// a sign extension: where does the signed operand come from?
			v := cv.X
			for {
				inner, isC := v.(*ssa.Convert)
				if !isC {
					break
				}
				iw, iSigned, iInt := size(inner.X.Type())
				if iInt && !iSigned && iw == sw {
					c.Sites++
					c.Fail(rule, shortFn(fn)+"#input-widened-by-zero-extension", p.InstrPos(cv),
						"the hash code widens bytes and words of its input by zero extension only",
						fmt.Sprintf("a %d-bit unsigned value is reinterpreted as signed and then widened to %d bits: input bytes >= 0x80 at this position are sign-extended and the digest differs from reference XXH32 for every input that has one there", sw, dw))
					return
				}
				if !iInt || iw != sw {
					break
				}
				v = inner.X
			}
		})
	}
	c.Cond(nFn >= 4 && nConv >= 3, rule, "xxh32#conversions-resolved", "internal/xxh32",
		"every integer conversion of package xxh32 was classified (zero extension, truncation, same width, or sign extension of an originally unsigned value)",
		fmt.Sprintf("%d functions, %d conversions, no sign extension of an unsigned input value", nFn, nConv),
		fmt.Sprintf("only %d functions / %d conversions found in package xxh32 (anchor unresolved)", nFn, nConv))
}
