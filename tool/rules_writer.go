package main

import (
	"fmt"
	"go/constant"
	"go/token"
	"go/types"
	"sort"
	"strings"

	"golang.org/x/tools/go/ssa"
)

// ---------------------------------------------------------------------------
// R02.3: Writer.Close flushes the pending partial block before the trailer.

func ruleCloseFlushes(c *Check, p *Program, rule string) {
	fn := findFn(c, p, rule, "", "Writer.Close")
	if fn == nil {
		return
	}
	var flush, closeW ssa.CallInstruction
	for _, ci := range callsIn(fn) {
		if calleeIs(ci, pkgRoot, "Writer.Flush") {
			flush = ci
		}
		if calleeIs(ci, pkgStream, "Frame.CloseW") {
			closeW = ci
		}
	}
	if flush == nil || closeW == nil {
		c.Fail(rule, "Writer.Close#flush-before-trailer", p.Pos(fn.Pos()), "Close flushes pending data, then writes the trailer", fmt.Sprintf("Flush call found: %v, CloseW call found: %v", flush != nil, closeW != nil))
		return
	}
	// CloseW reachable only through a successful Flush
	isFlush := func(in ssa.Instruction) bool { return in == flush.(ssa.Instruction) }
	isCloseW := func(in ssa.Instruction) bool { return in == closeW.(ssa.Instruction) }
	bypass, _ := reachAvoid(fn, nil, isCloseW, isFlush)
	checked := false
	for _, a := range atomsOfBlock(closeW.Block()) {
		if a.Kind == "errnil" && a.Val && a.V == flush.Value() {
			checked = true
		}
	}
	c.Cond(!bypass && checked, rule, "Writer.Close#flush-before-trailer", p.InstrPos(closeW), "the trailer is written only after Flush has succeeded (pending partial block precedes the end mark)", "CloseW is dominated by Flush and guarded by its error being nil", fmt.Sprintf("CloseW reachable without Flush: %v; guarded by Flush's error == nil: %v", bypass, checked))
	// the error of CloseW is returned
	ret := false
	allInstrs(fn, func(in ssa.Instruction) {
		if r, ok := in.(*ssa.Return); ok && len(r.Results) == 1 && (r.Results[0] == closeW.Value() || derivesFromValue(r.Results[0], closeW.Value())) {
			ret = true
		}
	})
	c.Cond(ret, rule, "Writer.Close#trailer-error-returned", p.InstrPos(closeW), "the error of writing the trailer (or the latched pipeline error) is returned by Close", "returned", "the result of CloseW is not returned")
}

// ---------------------------------------------------------------------------
// R02.4: block size tables agree (Index, IsValid, Get, Put, pools, constants)

type poolInfo struct {
	name string
	size uint64
}

type poolOutcome struct {
	when vset
	pool string
}

// poolOutcomes: which pool a sync.Pool method call addresses for which values of
// the tracked word: the receiver is a pool variable, or a pointer chosen among
// pool variables in the arms of a switch (a phi, resolved per incoming edge).
func poolOutcomes(ci ssa.CallInstruction, sets map[*ssa.BasicBlock]vset, perEdge map[cfgEdge]vset) []poolOutcome {
	recv := ci.Common().Args[0]
	switch x := recv.(type) {
	case *ssa.UnOp:
		// a pool pointer looked up in a constant table indexed by the tracked word: blockPools[b]
		if ia, ok := x.X.(*ssa.IndexAddr); ok && x.Op == token.MUL {
			if g, isG := ia.X.(*ssa.Global); isG {
				tbl := globalPointerTable(g)
				var out []poolOutcome
				for _, iv := range sets[ci.Block()] {
					for v := iv.lo; v <= iv.hi && v-iv.lo < 64; v++ {
						if name, has := tbl[v]; has {
							out = append(out, poolOutcome{vset{{v, v}}, name})
						}
					}
				}
				return out
			}
		}
	case *ssa.Global:
		return []poolOutcome{{sets[ci.Block()], x.Name()}}
	case *ssa.Phi:
		var out []poolOutcome
		for i, e := range x.Edges {
			if gl, ok := e.(*ssa.Global); ok {
				s := perEdge[cfgEdge{x.Block().Preds[i], x.Block()}]
				if x.Block() != ci.Block() {
					s = s.intersect(sets[ci.Block()])
				}
				out = append(out, poolOutcome{s, gl.Name()})
			}
		}
		return out
	}
	return nil
}

func ruleSizeTables(c *Check, p *Program, rule string) {
	pkg := p.Pkg("internal/lz4block")
	if pkg == nil {
		c.TroubleF("%s: lz4block not loaded", rule)
		return
	}
	// pools: global -> New closure make([]byte, const)
	pools := map[string]uint64{}
	for name, m := range pkg.Members {
		g, ok := m.(*ssa.Global)
		if !ok || !strings.Contains(g.Type().String(), "sync.Pool") {
			continue
		}
		_ = name
	}
	initFn := pkg.Func("init")
	if initFn != nil {
		allInstrs(initFn, func(in ssa.Instruction) {
			st, ok := in.(*ssa.Store)
			if !ok {
				return
			}
			fa, ok := st.Addr.(*ssa.FieldAddr)
			if !ok {
				return
			}
			g, ok := fa.X.(*ssa.Global)
			if !ok || !strings.Contains(g.Type().String(), "sync.Pool") {
				return
			}
			var cl *ssa.Function
			switch v := st.Val.(type) {
			case *ssa.Function:
				cl = v
			case *ssa.MakeClosure:
				cl, _ = v.Fn.(*ssa.Function)
			}
			if cl == nil {
				return
			}
			allInstrs(cl, func(j ssa.Instruction) {
				if ms, ok := j.(*ssa.MakeSlice); ok {
					if k, isK := constUint(ms.Len); isK {
						pools[g.Name()] = k
					}
				}
				// constant-size make([]byte, N) is built as new [N]byte + slice
				if sl, ok := j.(*ssa.Slice); ok {
					if al, isAl := sl.X.(*ssa.Alloc); isAl {
						if pt, isP := al.Type().(*types.Pointer); isP {
							if arr, isArr := pt.Elem().(*types.Array); isArr {
								n := uint64(arr.Len())
								if sl.High != nil {
									if k, isK := constUint(sl.High); isK {
										n = k
									}
								}
								pools[g.Name()] = n
							}
						}
					}
				}
			})
		})
	}
	// Index: constant -> index
	idxFn := pkg.Func("Index")
	index := map[uint64]uint64{}
	if idxFn != nil && len(idxFn.Params) == 1 {
		c.Funcs[fname(idxFn)] = true
		prm := idxFn.Params[0]
		sets, perEdge := valueSetsFull(idxFn, func(v ssa.Value) bool { return stripSameWidth(v) == prm }, idxFn.Blocks[0], 32)
		note := func(k uint64, s vset) {
			if k != 0 && len(s) == 1 && s[0].lo == s[0].hi {
				index[s[0].lo] = k
			}
		}
		allInstrs(idxFn, func(in ssa.Instruction) {
			if r, ok := in.(*ssa.Return); ok && len(r.Results) == 1 {
				if k, isK := constUint(r.Results[0]); isK {
					note(k, sets[in.Block()])
				} else if ph, isPhi := r.Results[0].(*ssa.Phi); isPhi {
					// a result variable assigned in the arms of the switch
					for i, e := range ph.Edges {
						if k, isK := constUint(e); isK {
							note(k, perEdge[cfgEdge{ph.Block().Preds[i], ph.Block()}])
						}
					}
				}
			}
		})
	}
	// Get: index -> pool
	get := map[uint64]string{}
	if g := p.Func("internal/lz4block", "BlockSizeIndex.Get"); g != nil && len(g.Params) == 1 {
		c.Funcs[fname(g)] = true
		prm := g.Params[0]
		sets, perEdge := valueSetsFull(g, func(v ssa.Value) bool { return stripSameWidth(v) == prm }, g.Blocks[0], 8)
		for _, ci := range callsIn(g) {
			if f := staticCallee(ci); f != nil && f.Name() == "Get" && strings.Contains(f.String(), "sync.Pool") {
				for _, o := range poolOutcomes(ci, sets, perEdge) {
					for _, iv := range o.when {
						for v := iv.lo; v <= iv.hi && v-iv.lo < 16; v++ {
							get[v] = o.pool
						}
					}
				}
			}
		}
	}
	// Put: cap -> pool
	put := map[uint64]string{}
	if g := pkg.Func("Put"); g != nil {
		c.Funcs[fname(g)] = true
		// the switch is on uint32(cap(buf))
		var w ssa.Value
		allInstrs(g, func(in ssa.Instruction) {
			if cv, ok := in.(*ssa.Convert); ok {
				if call, isC := cv.X.(*ssa.Call); isC {
					if b, isB := call.Call.Value.(*ssa.Builtin); isB && b.Name() == "cap" {
						w = cv
					}
				}
			}
		})
		if w != nil {
			sets, perEdge := valueSetsFull(g, func(v ssa.Value) bool { return stripSameWidth(v) == w }, g.Blocks[0], 32)
			for _, ci := range callsIn(g) {
				if f := staticCallee(ci); f != nil && f.Name() == "Put" && strings.Contains(f.String(), "sync.Pool") {
					for _, o := range poolOutcomes(ci, sets, perEdge) {
						if s := o.when; len(s) == 1 && s[0].lo == s[0].hi {
							put[s[0].lo] = o.pool
						}
					}
				}
			}
		}
	}
	if g := pkg.Func("Put"); g != nil && len(put) == 0 && idxFn != nil {
		// or the switch is on the code that Index gives for the capacity: code -> pool, and sizes through Index
		var code ssa.Value
		for _, ci := range callsIn(g) {
			if call, isC := ci.(*ssa.Call); isC && staticCallee(ci) == idxFn {
				fromCap := false
				walkBack(call.Call.Args[0], false, func(v ssa.Value) bool {
					if cc, isCall := v.(*ssa.Call); isCall {
						if bi, isB := cc.Call.Value.(*ssa.Builtin); isB && bi.Name() == "cap" {
							fromCap = true
						}
					}
					return true
				})
				if fromCap {
					code = call
				}
			}
		}
		if code != nil {
			sets, perEdge := valueSetsFull(g, func(v ssa.Value) bool { return stripSameWidth(v) == code }, code.(ssa.Instruction).Block(), 8)
			for _, ci := range callsIn(g) {
				if f := staticCallee(ci); f != nil && f.Name() == "Put" && strings.Contains(f.String(), "sync.Pool") {
					for _, o := range poolOutcomes(ci, sets, perEdge) {
						if sv := o.when; len(sv) == 1 && sv[0].lo == sv[0].hi {
							for size, k := range index {
								if k == sv[0].lo {
									put[size] = o.pool
								}
							}
						}
					}
				}
			}
		}
	}
	want := map[uint64]uint64{1 << 16: 4, 1 << 18: 5, 1 << 20: 6, 1 << 22: 7, 1 << 23: 3}
	var sizes []uint64
	for s := range want {
		sizes = append(sizes, s)
	}
	sort.Slice(sizes, func(i, j int) bool { return sizes[i] < sizes[j] })
	for _, s := range sizes {
		key := fmt.Sprintf("blocksize-table#%d", s)
		idx, okI := index[s]
		pool := get[idx]
		psz, okP := pools[pool]
		ok := okI && idx == want[s] && okP && psz == s && put[s] == pool
		c.Cond(ok, rule, key, "internal/lz4block/blocks.go", fmt.Sprintf("block size %d: Index gives code %d (frame format), Get(code) draws from a pool of exactly %d-byte buffers and Put returns buffers of that capacity to the same pool", s, want[s], s),
			fmt.Sprintf("Index=%d pool=%s poolsize=%d put=%s", idx, pool, psz, put[s]), fmt.Sprintf("Index(%d)=%d (found=%v, want %d); Get(%d) uses pool %q of size %d; Put(cap %d) uses pool %q", s, idx, okI, want[s], idx, pool, psz, s, put[s]))
	}
	c.Cond(len(index) == len(want), rule, "blocksize-table#domain", "internal/lz4block/blocks.go", "Index maps exactly the five defined sizes to non-zero codes", fmt.Sprint(index), fmt.Sprintf("Index has %d non-zero entries: %v", len(index), index))
	// NewFrameDataBlock and Writer/Reader draw their buffers through BlockSizeIndex().Get()
}

// ---------------------------------------------------------------------------
// R02.6: the sequential reader decodes into a buffer of the frame's block size
// or into a caller buffer at least that large.

func ruleReaderDst(c *Check, p *Program, rule string) {
	fn := findFn(c, p, rule, "", "Reader.read")
	if fn == nil {
		return
	}
	for _, ci := range callsIn(fn) {
		if !calleeIs(ci, pkgStream, "FrameDataBlock.Uncompress") {
			continue
		}
		c.Sites++
		dst := ci.Common().Args[2]
		ok := true
		var why []string
		var chk func(v ssa.Value, pred *ssa.BasicBlock, blk *ssa.BasicBlock)
		var full ssa.Value
		_ = full
		chk = func(v ssa.Value, pred, blk *ssa.BasicBlock) {
			switch x := v.(type) {
			case *ssa.Phi:
				for i, e := range x.Edges {
					chk(e, x.Block().Preds[i], x.Block())
				}
			case *ssa.Slice:
				// r.data[:cap(r.data)]
				if x.Low == nil && x.High != nil && loadField(x.X) == "Reader.data" {
					if call, isC := x.High.(*ssa.Call); isC {
						if b, isB := call.Call.Value.(*ssa.Builtin); isB && b.Name() == "cap" && loadField(call.Call.Args[0]) == "Reader.data" {
							full = x
							return
						}
					}
				}
				ok = false
				why = append(why, "destination "+shortVal(v)+" is not the block buffer extended to its capacity")
			case *ssa.Parameter:
				// caller buffer: needs len(buf) >= len(full buffer) on this edge
				good := false
				var ats []Atom
				if pred != nil {
					ats = edgeAtoms(pred, blk)
				}
				for _, a := range ats {
					if b, isB := a.V.(*ssa.BinOp); isB && a.Kind == "cmp" {
						l, r := b.X, b.Y
						op := b.Op
						if !a.Val {
							continue
						}
						isLen := func(v ssa.Value, of ssa.Value) bool {
							call, isC := v.(*ssa.Call)
							if !isC {
								return false
							}
							bi, isB := call.Call.Value.(*ssa.Builtin)
							return isB && bi.Name() == "len" && (of == nil || call.Call.Args[0] == of)
						}
						if (op == token.GEQ && isLen(l, x) && isLen(r, nil)) || (op == token.LEQ && isLen(r, x) && isLen(l, nil)) {
							good = true
						}
					}
				}
				if !good {
					ok = false
					why = append(why, "the caller's buffer is used as destination without len(buf) >= block buffer size")
				}
			default:
				if loadField(v) == "Reader.data" {
					ok = false
					why = append(why, "destination is r.data as last re-sliced (a short previous block shrinks it); it must be r.data[:cap(r.data)]")
					return
				}
				ok = false
				why = append(why, "unrecognised destination "+shortVal(v))
			}
		}
		chk(dst, nil, ci.Block())
		c.Cond(ok, rule, "Reader.read#decode-destination", p.InstrPos(ci), "each block is decoded into the pooled block buffer at full capacity, or directly into a caller buffer that is at least as large", "destination is phi(r.data[:cap(r.data)], buf under len(buf) >= len(dst))", strings.Join(why, "; "))
	}
}

// ---------------------------------------------------------------------------
// R02.7: in Writer.Write the caller's buffer is compressed in place only when
// nothing is buffered (order of data) and the Writer is sequential.

func ruleDirectWrite(c *Check, p *Program, rule string) {
	fn := findFn(c, p, rule, "", "Writer.Write")
	if fn == nil || len(fn.Params) < 2 {
		return
	}
	buf := fn.Params[1]
	n := 0
	for _, ci := range callsIn(fn) {
		if !calleeIs(ci, pkgRoot, "Writer.write") {
			continue
		}
		data := ci.Common().Args[1]
		fromCaller := false
		walkBack(data, false, func(v ssa.Value) bool {
			if v == buf {
				fromCaller = true
			}
			return true
		})
		if !fromCaller {
			continue
		}
		n++
		c.Sites++
		ats := atomsOfBlock(ci.Block())
		seq, empty, full := false, false, false
		for _, a := range ats {
			if a.Kind == "call" && strings.HasSuffix(a.Name, "isNotConcurrent") && a.Val {
				seq = true
			}
			if z := atomSaysZero(a); z != nil && loadField(z) == "Writer.idx" {
				empty = true
			}
			if big, small := atomSaysGeq(a); big != nil {
				// len(caller buffer) >= block length (the length of the accumulation buffer)
				isLenOfBuf := func(v ssa.Value) bool {
					call, isC := v.(*ssa.Call)
					if !isC {
						return false
					}
					bi, isB := call.Call.Value.(*ssa.Builtin)
					if !isB || bi.Name() != "len" {
						return false
					}
					from := false
					walkBack(call.Call.Args[0], false, func(x ssa.Value) bool {
						if x == buf {
							from = true
						}
						return true
					})
					return from
				}
				isLenOfData := func(v ssa.Value) bool {
					ok := false
					walkBack(v, false, func(x ssa.Value) bool {
						if call, isC := x.(*ssa.Call); isC {
							if bi, isB := call.Call.Value.(*ssa.Builtin); isB && (bi.Name() == "len" || bi.Name() == "cap") && derivesFromField(call.Call.Args[0], "Writer.data") {
								ok = true
							}
							return false
						}
						return true
					})
					return ok
				}
				if isLenOfBuf(big) && isLenOfData(small) {
					full = true
				}
			}
		}
		// safe flag must be false: the caller's buffer is not ours to put into the pool
		safeFalse := false
		if k, isK := ci.Common().Args[2].(*ssa.Const); isK && k.Value != nil && k.Value.Kind() == constant.Bool && !constant.BoolVal(k.Value) {
			safeFalse = true
		}
		// or no release function is handed over (a nil callback)
		if _, isFn := ci.Common().Args[2].Type().Underlying().(*types.Signature); isFn && isNilConst(ci.Common().Args[2]) {
			safeFalse = true
		}
		c.Cond(seq && empty && full && safeFalse, rule, "Writer.Write#direct-block", p.InstrPos(ci), "a block is compressed straight from the caller's buffer only when the Writer is sequential, nothing is pending (w.idx == 0: data order and block boundaries), a full block is available, and the buffer is not released to the pool",
			"guards {sequential, idx==0, len(buf)>=blocksize}, safe=false", fmt.Sprintf("sequential guard: %v; w.idx == 0 guard: %v; full-block guard: %v; safe=false: %v", seq, empty, full, safeFalse))
	}
	if n == 0 {
		c.OK(rule, "Writer.Write#direct-block", p.Pos(fn.Pos()), "no direct (zero-copy) path present", "nothing to check", false)
	}
}

// ---------------------------------------------------------------------------
// R02.8 / R09.7: the raw-block flag is set exactly when the stored bytes are the
// source, cleared exactly when they are the compressed buffer; the size word is
// len(b.Data).

func ruleRawFlagPairing(c *Check, p *Program, rule string) {
	fn := findFn(c, p, rule, "internal/lz4stream", "FrameDataBlock.Compress")
	if fn == nil || len(fn.Params) < 3 {
		return
	}
	src := fn.Params[2]
	// the function may have been split: the stores live in a helper that receives the source
	{
		has := func(g *ssa.Function) bool {
			found := false
			allInstrs(g, func(in ssa.Instruction) {
				if st, ok := in.(*ssa.Store); ok && lastField(st.Addr) == "FrameDataBlock.Data" {
					found = true
				}
			})
			return found
		}
		if !has(fn) {
			for _, g := range deepFuncs(fn, 2)[1:] {
				if !has(g) {
					continue
				}
				for _, ci := range callSitesOf(g) {
					if ci.Parent() != fn {
						continue
					}
					for i, arg := range ci.Common().Args {
						if i < len(g.Params) && derivesFromValue(arg, src) && isSliceType(arg.Type()) {
							fn, src = g, g.Params[i]
						}
					}
				}
				break
			}
		}
	}
	type site struct {
		blk     *ssa.BasicBlock
		fromSrc bool
		pos     string
	}
	var stores []site
	allInstrs(fn, func(in ssa.Instruction) {
		if st, ok := in.(*ssa.Store); ok && lastField(st.Addr) == "FrameDataBlock.Data" {
			stores = append(stores, site{in.Block(), derivesFromValue(st.Val, src), p.InstrPos(in)})
		}
	})
	if len(stores) == 0 {
		c.Fail(rule, "Compress#data-store", p.Pos(fn.Pos()), "Compress selects the bytes to store", "no store to FrameDataBlock.Data")
		return
	}
	// for every path from entry to exit: last Data store and last UncompressedSet call agree
	type st struct {
		dataSrc int // -1 unknown, 0 compressed, 1 source
		flag    int
	}
	bad := false
	var why string
	// bit 31 of a size word assembled in place (flag | len&mask), on the path being walked: 1, 0, or -2 (unknown)
	var bit31 func(v ssa.Value, phis map[*ssa.Phi]ssa.Value, depth int) int
	bit31 = func(v ssa.Value, phis map[*ssa.Phi]ssa.Value, depth int) int {
		if depth > 6 {
			return -2
		}
		switch x := v.(type) {
		case *ssa.Const:
			if k, ok := constUint(x); ok {
				return int(k >> 31 & 1)
			}
		case *ssa.Phi:
			if e, ok := phis[x]; ok {
				return bit31(e, phis, depth+1)
			}
		case *ssa.Convert:
			return bit31(x.X, phis, depth+1)
		case *ssa.ChangeType:
			return bit31(x.X, phis, depth+1)
		case *ssa.BinOp:
			l, r := bit31(x.X, phis, depth+1), bit31(x.Y, phis, depth+1)
			switch x.Op {
			case token.OR:
				if l == 1 || r == 1 {
					return 1
				}
				if l == 0 && r == 0 {
					return 0
				}
			case token.AND:
				if l == 0 || r == 0 {
					return 0
				}
				if l == 1 && r == 1 {
					return 1
				}
			case token.AND_NOT:
				if r == 1 || l == 0 {
					return 0
				}
			}
		}
		return -2
	}
	var walk func(b, from *ssa.BasicBlock, s st, phis map[*ssa.Phi]ssa.Value, seen map[*ssa.BasicBlock]bool)
	walk = func(b, from *ssa.BasicBlock, s st, phis map[*ssa.Phi]ssa.Value, seen map[*ssa.BasicBlock]bool) {
		if seen[b] {
			return
		}
		seen[b] = true
		defer delete(seen, b)
		if from != nil {
			np := map[*ssa.Phi]ssa.Value{}
			for k, v := range phis {
				np[k] = v
			}
			for pi, pr := range b.Preds {
				if pr != from {
					continue
				}
				for _, in := range b.Instrs {
					ph, isPhi := in.(*ssa.Phi)
					if !isPhi {
						break
					}
					np[ph] = ph.Edges[pi]
				}
				break
			}
			phis = np
		}
		for _, in := range b.Instrs {
			switch x := in.(type) {
			case *ssa.Store:
				if lastField(x.Addr) == "FrameDataBlock.Data" {
					if derivesFromValue(x.Val, src) {
						s.dataSrc = 1
					} else {
						s.dataSrc = 0
					}
				}
				if lastField(x.Addr) == "FrameDataBlock.Size" {
					// the whole size word written at once: its top bit is the raw flag
					s.flag = bit31(x.Val, phis, 0)
				}
			case ssa.CallInstruction:
				if calleeIs(x, pkgStream, "DataBlockSize.UncompressedSet") {
					if k, isK := x.Common().Args[1].(*ssa.Const); isK && k.Value != nil && k.Value.Kind() == constant.Bool {
						if constant.BoolVal(k.Value) {
							s.flag = 1
						} else {
							s.flag = 0
						}
					} else {
						s.flag = -2
					}
				}
			case *ssa.Return:
				if s.dataSrc != s.flag {
					bad = true
					why = fmt.Sprintf("on a path to the return at %s the stored bytes are %s but the raw flag is %s", p.InstrPos(in), map[int]string{-1: "unset", 0: "the compressed buffer", 1: "the source"}[s.dataSrc], map[int]string{-1: "left as it was (sticky from the previous block)", 0: "cleared", 1: "set", -2: "non-constant"}[s.flag])
				}
			}
		}
		for _, su := range b.Succs {
			walk(su, b, s, phis, seen)
		}
	}
	walk(fn.Blocks[0], nil, st{-1, -1}, map[*ssa.Phi]ssa.Value{}, map[*ssa.BasicBlock]bool{})
	c.Cond(!bad, rule, "Compress#raw-flag-matches-data", stores[0].pos, "on every path through Compress the raw-block flag is set exactly when b.Data is the source and cleared exactly when it is the compressed buffer (the FrameDataBlock is reused across blocks)", "all paths agree", why)
	// the source is stored raw exactly when the compressor returned 0
	okZero := false
	for _, s := range stores {
		if s.fromSrc {
			for _, a := range atomsOfBlock(s.blk) {
				if v := atomSaysZero(a); v != nil {
					okZero = true
				}
			}
		}
	}
	c.Cond(okZero, rule, "Compress#raw-iff-zero", stores[0].pos, "the source is stored raw exactly when the block compressor reported 0 bytes", "guard n == 0", "the raw store is not guarded by n == 0")
	// sizeSet(len(b.Data)) after the stores
	okSize := false
	for _, ci := range callsIn(fn) {
		if calleeIs(ci, pkgStream, "DataBlockSize.sizeSet") {
			if call, isC := ci.Common().Args[1].(*ssa.Call); isC {
				if b, isB := call.Call.Value.(*ssa.Builtin); isB && b.Name() == "len" && loadField(call.Call.Args[0]) == "FrameDataBlock.Data" {
					// must come after all Data stores on every path: no Data store reachable after it
					isStore := func(in ssa.Instruction) bool {
						st, ok := in.(*ssa.Store)
						return ok && lastField(st.Addr) == "FrameDataBlock.Data"
					}
					if r, _ := reachAvoid(fn, ci, isStore, nil); !r {
						okSize = true
					}
				}
			}
		}
	}
	// or the size word is written at once with len(b.Data) in its low bits
	allInstrs(fn, func(in ssa.Instruction) {
		st, ok := in.(*ssa.Store)
		if !ok || lastField(st.Addr) != "FrameDataBlock.Size" {
			return
		}
		hasLen := false
		walkBack(st.Val, true, func(x ssa.Value) bool {
			if call, isC := x.(*ssa.Call); isC {
				if b, isB := call.Call.Value.(*ssa.Builtin); isB && b.Name() == "len" && loadField(call.Call.Args[0]) == "FrameDataBlock.Data" {
					hasLen = true
				}
				return false
			}
			return true
		})
		isStore := func(j ssa.Instruction) bool {
			s2, ok2 := j.(*ssa.Store)
			return ok2 && lastField(s2.Addr) == "FrameDataBlock.Data"
		}
		if hasLen {
			if r, _ := reachAvoid(fn, in, isStore, nil); !r {
				okSize = true
			}
		}
	})
	c.Cond(okSize, rule, "Compress#size-is-len-data", p.Pos(fn.Pos()), "the size word is len(b.Data) of the bytes finally selected", "sizeSet(len(b.Data)) follows the last store", "no sizeSet(len(b.Data)) after the final Data store")
}

// ---------------------------------------------------------------------------
// R09.3: which bytes the checksums cover

func ruleChecksumCoverage(c *Check, p *Program, rule string) {
	cp := findFn(c, p, rule, "internal/lz4stream", "FrameDataBlock.Compress")
	un := findFn(c, p, rule, "internal/lz4stream", "FrameDataBlock.Uncompress")
	wr := findFn(c, p, rule, "internal/lz4stream", "FrameDataBlock.Write")
	if cp == nil || un == nil || wr == nil {
		return
	}
	// writer: argument of ChecksumZero stored into Checksum
	for _, ci := range callsIn(cp) {
		if calleeIs(ci, pkgXXH, "ChecksumZero") {
			c.Sites++
			arg := ci.Common().Args[0]
			stored := loadField(arg) == "FrameDataBlock.Data"
			c.Cond(stored, rule, "Compress#blockchecksum-covers-stored-bytes", p.InstrPos(ci), "the block checksum is XXH32 of the block as stored in the frame (frame specification: 'calculated on the raw (undecoded) data block')", "argument is b.Data", "argument is "+shortVal(arg)+" (the uncompressed source), not the stored block bytes b.Data")
		}
	}
	for _, ci := range callsIn(un) {
		if calleeIs(ci, pkgXXH, "ChecksumZero") {
			c.Sites++
			arg := ci.Common().Args[0]
			stored := loadField(arg) == "FrameDataBlock.data"
			c.Cond(stored, rule, "Uncompress#blockchecksum-covers-stored-bytes", p.InstrPos(ci), "the block checksum is verified over the block bytes read from the frame, before decoding", "argument is b.data", "argument is "+shortVal(arg)+" (the decoded bytes), not the stored block bytes b.data")
		}
	}
	// content checksum: fed with b.src in Write (submission order) - and b.src is the source given to Compress
	okFeed := false
	for _, ci := range callsIn(wr) {
		if calleeIs(ci, pkgXXH, "XXHZero.Write") {
			a := ci.Common().Args
			if loadField(a[len(a)-1]) == "FrameDataBlock.src" && sameSet(relAtoms(ci.Block(), nil), []string{"flag:ContentChecksum"}) {
				okFeed = true
			}
		}
	}
	okSrc := false
	allInstrsDeep(cp, func(in ssa.Instruction) {
		if st, ok := in.(*ssa.Store); ok && lastField(st.Addr) == "FrameDataBlock.src" && len(cp.Params) > 2 && derivesFromValue(st.Val, cp.Params[2]) && len(relAtoms(in.Block(), nil)) == 0 {
			okSrc = true
		}
	})
	c.Cond(okFeed && okSrc, rule, "Write#contentchecksum-covers-source", p.Pos(wr.Pos()), "the content checksum is fed, in write order and exactly under the ContentChecksum flag, with the uncompressed source of each block (b.src, stored unconditionally by Compress)", "checksum.Write(b.src) under {flag:ContentChecksum}; b.src = src unconditionally", fmt.Sprintf("feed of b.src under the flag only: %v; b.src = src unconditional: %v", okFeed, okSrc))
}

// ---------------------------------------------------------------------------
// R09.4: legacy frames have no raw blocks

func ruleLegacyNoRaw(c *Check, p *Program, rule string) {
	cp := findFn(c, p, rule, "internal/lz4stream", "FrameDataBlock.Compress")
	if cp == nil {
		return
	}
	// the raw fallback (UncompressedSet(true)) must be excluded under legacy: either a !legacy guard,
	// or the destination handed to the block compressor in legacy mode has len >= CompressBlockBound(len(src)).
	for _, ci := range callsIn(cp) {
		if !calleeIs(ci, pkgStream, "DataBlockSize.UncompressedSet") {
			continue
		}
		k, isK := ci.Common().Args[1].(*ssa.Const)
		if !isK || k.Value == nil || !constant.BoolVal(k.Value) {
			continue
		}
		c.Sites++
		guarded := hasAtom(atomsOfBlock(ci.Block()), "legacy", "", false)
		// bound-sized destination in legacy mode?
		bound := false
		allInstrs(cp, func(in ssa.Instruction) {
			if call, ok := in.(*ssa.Call); ok && calleeIs(call, pkgBlock, "CompressBlockBound") && hasAtom(atomsOfBlock(in.Block()), "legacy", "", true) {
				bound = true
			}
		})
		// or the legacy pool buffers themselves are bound-sized (Block8Mb >= CompressBlockBound(8 MiB))
		if !bound {
			if pkg := p.Pkg("internal/lz4block"); pkg != nil {
				if cst, ok := pkg.Pkg.Scope().Lookup("Block8Mb").(*types.Const); ok {
					if v, exact := constant.Uint64Val(cst.Val()); exact && v >= (8<<20)+(8<<20)/255+16 {
						bound = true
					}
				} else if pkg.Pkg.Scope().Lookup("Block8Mb") != nil {
					// a variable initialised from CompressBlockBound
					if init := pkg.Func("init"); init != nil {
						allInstrs(init, func(in ssa.Instruction) {
							if call, ok := in.(*ssa.Call); ok && calleeIs(call, pkgBlock, "CompressBlockBound") {
								bound = true
							}
						})
					}
				}
			}
		}
		c.Cond(guarded || bound, rule, "Compress#legacy-has-no-raw-blocks", p.InstrPos(ci), "in legacy mode the raw-block fallback is unreachable (the legacy format has no raw flag): either the fallback is guarded by !legacy or the legacy destination is at least CompressBlockBound(8 MiB) so that the compressor cannot return 0",
			fmt.Sprintf("guarded by !legacy: %v; bound-sized legacy destination: %v", guarded, bound), "the fallback is reachable in legacy mode: 8 MiB of incompressible data is compressed into an 8 MiB buffer, the compressor returns 0 and the block is written with the raw flag, which legacy readers interpret as a size >= 2^31")
	}
	// In legacy mode the compressor gets the whole block buffer, not a destination cut to len(src): the cut is the
	// device that makes the compressor give up on incompressible data, which is what selects the raw fallback.
	whole, cut := false, ""
	allInstrsDeep(cp, func(in ssa.Instruction) {
		sl, ok := in.(*ssa.Slice)
		if !ok || sl.High == nil || !(loadField(sl.X) == "FrameDataBlock.data" || derivesFromField(sl.X, "FrameDataBlock.data")) {
			return
		}
		judge := func(h ssa.Value, ats []Atom) {
			call, isC := h.(*ssa.Call)
			if !isC {
				return
			}
			bi, isB := call.Call.Value.(*ssa.Builtin)
			if !isB {
				return
			}
			switch bi.Name() {
			case "cap":
				if hasAtom(ats, "legacy", "", true) {
					whole = true
				}
			case "len":
				if prm, isPrm := call.Call.Args[0].(*ssa.Parameter); isPrm && isSliceType(prm.Type()) && !hasAtom(ats, "legacy", "", false) {
					cut = p.InstrPos(in)
				}
			}
		}
		if ph, isPhi := sl.High.(*ssa.Phi); isPhi {
			// the length chosen in branches: each choice is judged with the guards of the edge it arrives on
			for i, e := range ph.Edges {
				pb := ph.Block().Preds[i]
				ats := append([]Atom{}, atomsOfBlock(pb)...)
				if ifi, isIf := pb.Instrs[len(pb.Instrs)-1].(*ssa.If); isIf && len(pb.Succs) == 2 && pb.Succs[0] != pb.Succs[1] {
					ats = append(ats, atomOf(ifi.Cond, pb.Succs[0] == ph.Block()))
				}
				judge(e, ats)
			}
			return
		}
		judge(sl.High, atomsOfBlock(in.Block()))
	})
	c.Cond(whole && cut == "", rule, "Compress#legacy-destination-not-cut-to-source", p.Pos(cp.Pos()), "for a legacy frame the block compressor is given the whole block buffer; the destination is cut to len(src) (to provoke the raw fallback on incompressible data) only for non-legacy frames", "data[:cap(data)] under legacy; data[:len(src)] only under !legacy", fmt.Sprintf("whole buffer used under legacy: %v; destination cut to len(src) without a !legacy guard at: %s - every incompressible legacy block, not only a full 8 MiB one, is stored with the raw flag", whole, cut))
}

// ---------------------------------------------------------------------------
// R09.5: trailer layout: end mark, then (optionally) the content checksum, one write

func ruleTrailerLayout(c *Check, p *Program, rule string) {
	cw := findFn(c, p, rule, "internal/lz4stream", "Frame.CloseW")
	if cw == nil {
		return
	}
	var em ssa.Value
	var sum *ssa.Call
	var wr *ssa.CallCommon
	var wrIn ssa.Instruction
	emIsPut := false
	scan := func(fn *ssa.Function) {
		em, sum, wr, wrIn, emIsPut = nil, nil, nil, nil, false
		allInstrs(fn, func(in ssa.Instruction) {
			if cc, ok := isBuiltinCall(in, "append"); ok && len(cc.Args) == 2 && isFourZeros(cc.Args[1]) {
				em = in.(ssa.Value)
			}
			// or the first four bytes of the buffer filled with PutUint32(buf, 0)
			if ci, ok := in.(ssa.CallInstruction); ok && isBinaryLE(ci, "PutUint32") {
				if k, isK := constUint(leValueArg(ci)); isK && k == 0 {
					args := ci.Common().Args
					if sl, isS := args[len(args)-2].(*ssa.Slice); isS && sl.Low == nil && sl.High != nil {
						if h, isH := constUint(sl.High); isH && h == 4 {
							em, emIsPut = sl, true
						}
					}
				}
			}
			if call, ok := in.(*ssa.Call); ok && calleeIs(call, pkgXXH, "XXHZero.Sum") {
				sum = call
			}
			if cc, ok := isSinkWrite(in); ok {
				wr, wrIn = cc, in
			}
		})
	}
	scan(cw)
	if em == nil && wr == nil {
		// the trailer may be written by a helper CloseW ends with
		for _, g := range deepFuncs(cw, 1)[1:] {
			scan(g)
			if em != nil && wr != nil {
				c.Funcs[fname(g)] = true
				break
			}
		}
	}
	ok := em != nil && wr != nil
	var why []string
	if em == nil {
		why = append(why, "no 4-byte zero end mark appended")
	}
	if wr == nil {
		why = append(why, "no sink write")
	}
	if ok {
		// end mark is appended to an empty prefix of the frame buffer
		if emIsPut {
			// buf[:4] filled with a zero word: nothing precedes it
		} else if sl, isS := em.(*ssa.Call).Call.Args[0].(*ssa.Slice); !isS || sl.High == nil {
			ok = false
			why = append(why, "the end mark is not the first thing in the trailer buffer")
		} else if k, isK := constUint(sl.High); !isK || k != 0 {
			ok = false
			why = append(why, "the end mark is not appended at offset 0 of the trailer buffer")
		}
		// the checksum is appended to the buffer holding the end mark
		if sum != nil {
			if sum.Call.Args[len(sum.Call.Args)-1] != em {
				ok = false
				why = append(why, "the content checksum is not appended after the end mark")
			}
		} else {
			ok = false
			why = append(why, "no content checksum (XXHZero.Sum) appended in CloseW")
		}
		// the written buffer is phi(end mark, end mark + checksum)
		good := false
		switch x := wr.Args[0].(type) {
		case *ssa.Phi:
			good = true
			for _, e := range x.Edges {
				if e != em && (sum == nil || e != ssa.Value(sum)) {
					good = false
				}
			}
		default:
			good = x == em
		}
		if !good {
			ok = false
			why = append(why, "the bytes written are not the end mark optionally followed by the checksum")
		}
	}
	pos := p.Pos(cw.Pos())
	if wrIn != nil {
		pos = p.InstrPos(wrIn)
	}
	c.Cond(ok, rule, "CloseW#trailer-layout", pos, "the trailer is the 4-byte zero end mark followed, when declared, by the content checksum, written once", "append(buf[:0], 0,0,0,0) then checksum.Sum(buf) then one Write", strings.Join(why, "; "))
	// Sum appends the hash little-endian
	if sf := p.Func("internal/xxh32", "XXHZero.Sum"); sf != nil {
		c.Funcs[fname(sf)] = true
		okLE := false
		allInstrs(sf, func(in ssa.Instruction) {
			if cc, isA := isBuiltinCall(in, "append"); isA && len(cc.Args) == 2 {
				if sl, isS := cc.Args[1].(*ssa.Slice); isS {
					if al, isAl := sl.X.(*ssa.Alloc); isAl {
						shifts := map[int]uint64{}
						for _, r := range *al.Referrers() {
							if ia, isIA := r.(*ssa.IndexAddr); isIA {
								idx, _ := constUint(ia.Index)
								for _, rr := range *ia.Referrers() {
									if st, isSt := rr.(*ssa.Store); isSt {
										v := st.Val
										if cv, isC := v.(*ssa.Convert); isC {
											v = cv.X
										}
										if b, isB := v.(*ssa.BinOp); isB && b.Op == token.SHR {
											k, _ := constUint(b.Y)
											shifts[int(idx)] = k
										} else {
											shifts[int(idx)] = 0
										}
									}
								}
							}
						}
						if len(shifts) == 4 && shifts[0] == 0 && shifts[1] == 8 && shifts[2] == 16 && shifts[3] == 24 {
							okLE = true
						}
						// or the four bytes are produced by binary.LittleEndian.PutUint32 into the same local array
						for _, r := range *al.Referrers() {
							if s2, isS2 := r.(*ssa.Slice); isS2 {
								for _, rr := range *s2.Referrers() {
									if ci, isCI := rr.(ssa.CallInstruction); isCI && isBinaryLE(ci, "PutUint32") && staticCallee(ci) != nil && strings.Contains(staticCallee(ci).String(), "littleEndian") {
										okLE = true
									}
								}
							}
						}
					}
				}
			}
		})
		c.Cond(okLE, rule, "XXHZero.Sum#little-endian", p.Pos(sf.Pos()), "Sum appends the 32-bit hash in little-endian byte order", "bytes h, h>>8, h>>16, h>>24", "byte order of the appended hash is not little-endian")
	}
}

// ---------------------------------------------------------------------------
// R09.6: descriptor constants

func ruleDescriptorConstants(c *Check, p *Program, rule string) {
	iw := findFn(c, p, rule, "internal/lz4stream", "FrameDescriptor.initW")
	if iw != nil {
		ver, indep := false, false
		for _, ci := range callsIn(iw) {
			if calleeIs(ci, pkgStream, "DescriptorFlags.VersionSet") {
				if k, isK := constUint(ci.Common().Args[1]); isK && k == 1 && len(relAtoms(ci.Block(), nil)) == 0 {
					ver = true
				}
			}
			if calleeIs(ci, pkgStream, "DescriptorFlags.BlockIndependenceSet") {
				if k, isK := ci.Common().Args[1].(*ssa.Const); isK && k.Value != nil && constant.BoolVal(k.Value) && len(relAtoms(ci.Block(), nil)) == 0 {
					indep = true
				}
			}
		}
		c.Cond(ver, rule, "initW#version-01", p.Pos(iw.Pos()), "the descriptor version is set to 01 unconditionally", "VersionSet(1)", "VersionSet(1) missing or conditional")
		c.Cond(indep, rule, "initW#block-independence", p.Pos(iw.Pos()), "emitted blocks are independent and the descriptor says so (BlockIndependenceSet(true))", "BlockIndependenceSet(true)", "BlockIndependenceSet(true) missing or conditional: the Writer emits independent blocks only")
	}
	// InitW calls Descriptor.initW on the non-legacy path
	if f := findFn(c, p, rule, "internal/lz4stream", "Frame.InitW"); f != nil {
		ok := false
		for _, ci := range callsIn(f) {
			if calleeIs(ci, pkgStream, "FrameDescriptor.initW") {
				for _, l := range guardsOf(ci.Block()) {
					if pr, isP := l.Cond.(*ssa.Parameter); isP && pr.Name() == "legacy" && !l.Val {
						ok = true
					}
				}
			}
		}
		c.Cond(ok, rule, "InitW#descriptor-init", p.Pos(f.Pos()), "non-legacy frames initialise version and independence bits", "Descriptor.initW() under !legacy", "Descriptor.initW() not called on the non-legacy path")
		// the content hash is reset for every frame
		rs := false
		for _, ci := range callsIn(f) {
			if calleeIs(ci, pkgXXH, "XXHZero.Reset") && len(relAtoms(ci.Block(), nil)) == 0 {
				rs = true
			}
		}
		c.Cond(rs, rule, "InitW#content-hash-reset", p.Pos(f.Pos()), "the running content hash is reset at the start of every frame", "checksum.Reset() unconditional", "checksum.Reset() missing or conditional in InitW")
	}
	// header check byte: bits 8..15 of XXH32 over the descriptor, shared by writer and reader
	dc := p.Func("internal/lz4stream", "descriptorChecksum")
	if dc == nil {
		// no shared helper: writer and reader compute the check byte in place; the same two facts are decided at
		// each of the two computations (bits 8..15 of the hash; the writer hashes everything after the magic)
		secondByte := func(fn *ssa.Function) (found, good bool, arg ssa.Value) {
			for _, ci := range callsInDeep(fn) {
				call, isC := ci.(*ssa.Call)
				if !isC || !calleeIs(call, pkgXXH, "ChecksumZero") {
					continue
				}
				found = true
				arg = call.Call.Args[0]
				allInstrsDeep(fn, func(in ssa.Instruction) {
					cv, isCv := in.(*ssa.Convert)
					if !isCv || widthOf(cv.Type()) != 8 {
						return
					}
					uses := false
					walkBack(cv, true, func(v ssa.Value) bool {
						if v == ssa.Value(call) {
							uses = true
						}
						return true
					})
					if !uses {
						return
					}
					env := &bitEnv{vals: map[ssa.Value]bitvec{call: inputVec('i', 32)}, ok: true}
					bv := env.eval(cv)
					okBits := env.ok
					for i := 0; i < 8; i++ {
						if bv[i].kind != 'i' || bv[i].idx != i+8 {
							okBits = false
						}
					}
					if okBits {
						good = true
					}
				})
			}
			return
		}
		dwF := p.Func("internal/lz4stream", "FrameDescriptor.Write")
		drF := p.Func("internal/lz4stream", "FrameDescriptor.initR")
		fw, gw, aw := false, false, ssa.Value(nil)
		fr, gr := false, false
		if dwF != nil {
			fw, gw, aw = secondByte(dwF)
		}
		if drF != nil {
			fr, gr, _ = secondByte(drF)
		}
		c.Cond(fw && fr && gw && gr, rule, "descriptorChecksum#second-byte", "internal/lz4stream/frame.go", "the header check byte is byte(XXH32(descriptor) >> 8), in the writer and in the reader", "byte(ChecksumZero(...) >> 8) at both computations", fmt.Sprintf("hash computed in Write: %v (second byte: %v); in initR: %v (second byte: %v)", fw, gw, fr, gr))
		okRange := false
		if sl, isS := aw.(*ssa.Slice); isS && sl.Low != nil && sl.High == nil {
			if k, isK := constUint(sl.Low); isK && k == 4 {
				okRange = true
			}
		}
		if dwF != nil {
			c.Cond(okRange, rule, "FrameDescriptor.Write#hash-range", p.Pos(dwF.Pos()), "the writer computes the check byte over the descriptor (everything after the 4-byte magic)", "ChecksumZero(buf[4:])", "the hashed range is not buf[4:]")
		}
	}
	if dc != nil {
		c.Funcs[fname(dc)] = true
		// bit provenance: the returned byte is bits 8..15 of ChecksumZero(whole argument)
		ok := false
		var hcall *ssa.Call
		for _, ci := range callsIn(dc) {
			if call, isC := ci.(*ssa.Call); isC && calleeIs(call, pkgXXH, "ChecksumZero") && len(dc.Params) > 0 && call.Call.Args[0] == ssa.Value(dc.Params[0]) {
				hcall = call
			}
		}
		if hcall != nil {
			allInstrs(dc, func(in ssa.Instruction) {
				if r, isR := in.(*ssa.Return); isR && len(r.Results) == 1 {
					env := &bitEnv{vals: map[ssa.Value]bitvec{hcall: inputVec('i', 32)}, ok: true}
					bv := env.eval(r.Results[0])
					good := env.ok
					for i := 0; i < 8; i++ {
						if bv[i].kind != 'i' || bv[i].idx != i+8 {
							good = false
						}
					}
					for i := 8; i < 64; i++ {
						if bv[i].kind != '0' {
							good = false
						}
					}
					if good {
						ok = true
					}
				}
			})
		}
		c.Cond(ok, rule, "descriptorChecksum#second-byte", p.Pos(dc.Pos()), "the header check byte is byte(XXH32(descriptor) >> 8)", "byte(ChecksumZero(buf) >> 8)", "the check byte is not bits 8..15 of the hash of the whole argument")
	}
	// writer hashes buf[4:] i.e. FLG, BD and content size, not the magic
	dw := findFn(c, p, rule, "internal/lz4stream", "FrameDescriptor.Write")
	if dw != nil && dc != nil {
		ok := false
		for _, ci := range callsInDeep(dw) {
			if staticCallee(ci) == dc {
				if sl, isS := ci.Common().Args[0].(*ssa.Slice); isS && sl.Low != nil && sl.High == nil {
					if k, isK := constUint(sl.Low); isK && k == 4 {
						ok = true
					}
				}
			}
		}
		c.Cond(ok, rule, "FrameDescriptor.Write#hash-range", p.Pos(dw.Pos()), "the writer computes the check byte over the descriptor (everything after the 4-byte magic)", "descriptorChecksum(buf[4:])", "the hashed range is not buf[4:]")
	}
	// header write: store of Checksum precedes its append; 'already written' latch uses Checksum > 0 (noted)
}

// atomSaysZero: the guard atom states that a non-negative count is zero, in any
// of the equivalent comparison forms (x == 0, !(x != 0), x <= 0, x < 1, !(x > 0),
// !(x >= 1), and the mirrored operand orders). Returns the value, or nil.
func atomSaysZero(a Atom) ssa.Value {
	if a.Kind != "cmp" {
		return nil
	}
	b, ok := a.V.(*ssa.BinOp)
	if !ok {
		return nil
	}
	op, x, y := b.Op, b.X, b.Y
	if _, isK := constUint(x); isK {
		// mirror: k OP x  ->  x OP' k
		x, y = y, x
		switch op {
		case token.LSS:
			op = token.GTR
		case token.LEQ:
			op = token.GEQ
		case token.GTR:
			op = token.LSS
		case token.GEQ:
			op = token.LEQ
		}
	}
	k, isK := constUint(y)
	if !isK {
		return nil
	}
	if op == token.EQL || op == token.NEQ {
		// atomOf normalises (in)equalities: Val says whether equality holds
		if a.Val {
			op = token.EQL
		} else {
			op = token.NEQ
		}
	} else if !a.Val {
		switch op {
		case token.LSS:
			op = token.GEQ
		case token.LEQ:
			op = token.GTR
		case token.GTR:
			op = token.LEQ
		case token.GEQ:
			op = token.LSS
		}
	}
	switch {
	case op == token.EQL && k == 0, op == token.LEQ && k == 0, op == token.LSS && k == 1:
		return x
	}
	return nil
}

// atomSaysGeq: the guard atom states big >= small for two integer values, in
// any comparison form (>=, <= mirrored, !(<), !(>) mirrored). Returns (big, small) or nils.
func atomSaysGeq(a Atom) (ssa.Value, ssa.Value) {
	if a.Kind != "cmp" {
		return nil, nil
	}
	b, ok := a.V.(*ssa.BinOp)
	if !ok {
		return nil, nil
	}
	switch {
	case b.Op == token.GEQ && a.Val, b.Op == token.LSS && !a.Val:
		return b.X, b.Y
	case b.Op == token.LEQ && a.Val, b.Op == token.GTR && !a.Val:
		return b.Y, b.X
	}
	return nil, nil
}

// globalPointerTable: for a package-level array of pointers initialised with
// addresses of other package-level variables, the element names by index (read
// from the stores of the package initialiser; constant propagation, nothing is run).
func globalPointerTable(g *ssa.Global) map[uint64]string {
	out := map[uint64]string{}
	if g.Pkg == nil {
		return out
	}
	init := g.Pkg.Func("init")
	if init == nil {
		return out
	}
	allInstrs(init, func(in ssa.Instruction) {
		st, ok := in.(*ssa.Store)
		if !ok {
			return
		}
		ia, ok := st.Addr.(*ssa.IndexAddr)
		if !ok || ia.X != ssa.Value(g) {
			return
		}
		k, isK := constUint(ia.Index)
		if !isK {
			return
		}
		if tg, isG := st.Val.(*ssa.Global); isG {
			out[k] = tg.Name()
		}
	})
	return out
}

// ruleBlockChecksumOnEveryPath: the block object is reused from block to block, so whatever path Compress takes
// after it has selected the bytes to store (a store to b.Data) must come to the block-checksum decision
// (Flags.BlockChecksum()) and, where the flag is set, store b.Checksum before it returns: a path that returns early
// leaves the checksum of the previous block (or zero) to be written behind this block's bytes.
func ruleBlockChecksumOnEveryPath(c *Check, p *Program, rule string) {
	cp := findFn(c, p, rule, "internal/lz4stream", "FrameDataBlock.Compress")
	if cp == nil {
		return
	}
	isDataStore := func(j ssa.Instruction) bool {
		st, ok := j.(*ssa.Store)
		return ok && lastField(st.Addr) == "FrameDataBlock.Data"
	}
	isDecisionHere := func(j ssa.Instruction) bool {
		if s2, isS := j.(*ssa.Store); isS && lastField(s2.Addr) == "FrameDataBlock.Checksum" {
			return true
		}
		ci, isC := j.(ssa.CallInstruction)
		if !isC {
			return false
		}
		f := staticCallee(ci)
		return f != nil && recvTypeName(f) == "DescriptorFlags" && f.Name() == "BlockChecksum"
	}
	// a helper of the package stands for what its body (and the helpers it calls) does
	helperHas := func(j ssa.Instruction, pred func(ssa.Instruction) bool) bool {
		ci, isC := j.(ssa.CallInstruction)
		if !isC {
			return false
		}
		h := staticCallee(ci)
		if h == nil || h.Pkg != cp.Pkg || len(h.Blocks) == 0 || h == cp {
			return false
		}
		hit := false
		for _, g := range deepFuncs(h, 1) {
			allInstrs(g, func(k ssa.Instruction) {
				if pred(k) {
					hit = true
				}
			})
		}
		return hit
	}
	n := 0
	allInstrs(cp, func(in ssa.Instruction) {
		if !isDataStore(in) && !helperHas(in, isDataStore) {
			return
		}
		n++
		c.Sites++
		miss, trail := reachAvoid(cp, in, isReturn, func(j ssa.Instruction) bool { return isDecisionHere(j) || helperHas(j, isDecisionHere) })
		if miss && helperHas(in, isDecisionHere) {
			miss = false // the helper that selects the bytes also decides the checksum
		}
		c.Cond(!miss, rule, fmt.Sprintf("Compress#blockchecksum-decided-after-data#%d", n), p.InstrPos(in), "after the bytes to store have been selected, every path to a return passes the block-checksum decision (the block object is reused: a stale checksum would follow this block)", "every path passes Flags.BlockChecksum() or a store to b.Checksum", "a return is reachable without it ("+strings.Join(trail, " -> ")+"): with block checksums enabled the block is followed by the checksum of an earlier block")
	})
	if n == 0 {
		c.Fail(rule, "Compress#blockchecksum-decided-after-data", p.Pos(cp.Pos()), "the stores to b.Data in Compress are resolved", "no store to FrameDataBlock.Data (anchor unresolved)")
		return
	}
	// where the flag is set the checksum is stored
	found := 0
	defer func() {
		if found == 0 {
			// the flag may travel to a helper as an argument: the store is then looked for, its guard is not judged
			stored := false
			for _, g := range deepFuncs(cp, 2) {
				allInstrs(g, func(k ssa.Instruction) {
					if s2, isS := k.(*ssa.Store); isS && lastField(s2.Addr) == "FrameDataBlock.Checksum" {
						stored = true
					}
				})
			}
			if stored {
				c.Cond(true, rule, "Compress#blockchecksum-stored-when-declared", p.Pos(cp.Pos()), "where the BlockChecksum flag is set, b.Checksum is stored before Compress returns", "the flag does not govern a branch of Compress directly; a store to b.Checksum exists in its helpers (guard not judged)", "")
			} else {
				c.Unknown(rule, "Compress#blockchecksum-stored-when-declared", p.Pos(cp.Pos()), "where the BlockChecksum flag is set, b.Checksum is stored before Compress returns", "neither a branch on Flags.BlockChecksum() nor a store to b.Checksum is found")
			}
		}
	}()
	for _, g := range deepFuncs(cp, 1) {
		for _, ci := range callsIn(g) {
			f := staticCallee(ci)
			if f == nil || recvTypeName(f) != "DescriptorFlags" || f.Name() != "BlockChecksum" {
				continue
			}
			b := ci.Block()
			ifi, isIf := b.Instrs[len(b.Instrs)-1].(*ssa.If)
			if !isIf || len(b.Succs) != 2 {
				continue
			}
			tb := b.Succs[0]
			if ifi.Cond != ssa.Value(ci.Value()) {
				if u, isU := ifi.Cond.(*ssa.UnOp); isU && u.Op == token.NOT && u.X == ssa.Value(ci.Value()) {
					tb = b.Succs[1]
				} else {
					continue
				}
			}
			found++
			c.Sites++
			miss, _ := reachAvoid(g, tb.Instrs[0], isReturn, func(j ssa.Instruction) bool {
				s2, isS := j.(*ssa.Store)
				return isS && lastField(s2.Addr) == "FrameDataBlock.Checksum"
			})
			first := false
			if s2, isS := tb.Instrs[0].(*ssa.Store); isS && lastField(s2.Addr) == "FrameDataBlock.Checksum" {
				first = true
			}
			c.Cond(first || !miss, rule, "Compress#blockchecksum-stored-when-declared", p.InstrPos(ci), "where the BlockChecksum flag is set, b.Checksum is stored before Compress returns", "store on every path of the flag's branch", "a return is reachable on the flag's branch without a store to b.Checksum")
		}
	}
}
