package main

import (
	"go/token"
	"strings"

	"golang.org/x/tools/go/ssa"
)

func init() {
	register("C05", checkC05)
	register("C06", checkC06)
}

var trustedSSA = []string{"go/packages + go/types + go/ssa (x/tools v0.29.0)", "rule code in /verif/tool (edge-deletion reachability, guard atoms, provenance walks)"}

func checkC05(c *Check) {
	c.Explain = "No path of the Reader reaches a clean end of stream without the integrity comparisons: header check byte (R05.1), block checksum for stored and compressed blocks alike (R05.2), content checksum in CloseR (R05.3) which every end-of-stream branch of Read/WriteTo calls and whose error becomes the result (R05.3b), the content hash is fed with exactly the delivered bytes, in order, before delivery (R05.4), the concurrent error latch keeps the first error (R05.5), and a raw io.EOF from a mandatory field can never be taken for an end mark (R05.6 = R06.1). Decided by edge-deletion reachability and guard-atom comparison over go/ssa. The values of the hashes are not evaluated."
	c.Uncov = []string{"equality of the computed checksums with an independent XXH32 (C13 decides constants and structure)", "which bytes the block checksum should cover per specification (C09 R09.3)", "all interleavings of the concurrent pipeline (C08 decides its structural discipline)"}
	c.Trusted = trustedSSA
	c.RuleDoc["R05.1"] = "header acceptance gate (same rule as R19.2)"
	c.RuleDoc["R05.2"] = "block checksum comparison dominates acceptance when declared"
	c.RuleDoc["R05.3"] = "content checksum comparison in CloseR; end-of-stream branches call CloseR and return its error"
	c.RuleDoc["R05.4"] = "content hash fed with the delivered bytes before delivery, in order"
	c.RuleDoc["R05.5"] = "error latch keeps the first error"
	c.RuleDoc["R05.6"] = "EOF provenance (R06.1)"
	c.RuleDoc["R05.7"] = "Blocks.close hands the latched (checksum) error to its caller on every branch"
	c.RuleDoc["R05.10"] = "a decode worker closes its block channel (the collector's signal to discard the rest of the stream) only after the error has been latched"
	c.RuleDoc["R05.8"] = "a pending error of the reading path is never absorbed"
	p := loadOrTrouble(c, cfgAMD64)
	if p == nil {
		return
	}
	ruleHeaderGate(c, p, "R05.1")
	ruleBlockChecksumVerified(c, p, "R05.2")
	ruleEveryBlockDecoded(c, p, "R05.20")
	ruleZeroCountMeansBuffered(c, p, "R05.21")
	c.RuleDoc["R05.21"] = "a zero count of Reader.read means the block is in r.data: an empty block decoded directly does not make Read deliver the old contents of the block buffer"
	c.RuleDoc["R05.20"] = "every block the reading goroutine takes from the source reaches a decoder (where its checksum is compared) before the next block is read"
	ruleContentChecksumVerified(c, p, "R05.3")
	ruleEOSCallsCloseR(c, p, "R05.3")
	ruleContentHashFeed(c, p, "R05.4")
	ruleErrLatch(c, p, "R05.5")
	ruleEOFProvenance(c, p, "R05.6", true)
	ruleBlocksCloseLatch(c, p, "R05.7")
	ruleErrorsNotAbsorbed(c, p, "R05.8", readerSideFuncs(p), errAbsorbExempt)
	ruleSyntheticEOF(c, p, "R05.9")
	ruleMagicDispatch(c, p, "R05.13")
	c.RuleDoc["R05.13"] = "= R19.1: exact value sets of the magic dispatch (a corrupted magic is not taken for a skippable frame)"
	ruleWindowRetention(c, p, "R05.14")
	c.RuleDoc["R05.14"] = "= R16.3/R16.4: earlier output is offered to the block decoder as history only for frames that declare dependent blocks (for independent blocks an offset reaching before the block start is corruption, which history would resolve silently)"
	ruleIsValid(c, p, "R05.15")
	c.RuleDoc["R05.15"] = "= R19.4: the block-size codes a descriptor may carry are exactly 4..7 (a reserved code is refused even when the check byte matches)"
	ruleObserversPure(c, p, "R05.12")
	c.RuleDoc["R05.12"] = "observer methods are pure (= R17.15): Size() cannot consume or judge a header"
	ruleReaderDst(c, p, "R05.18")
	c.RuleDoc["R05.18"] = "= R02.6: each block is decoded into the whole block buffer (a stored block copied into a destination left short by the previous block is cut silently)"
	ruleWindowNumeric(c, p, "R05.19", "")
	c.RuleDoc["R05.19"] = "= R16.3, numeric part: the history kept for dependent blocks is the end of what was decoded"
	ruleStreamsThroughInterface(c, p, "R05.16")
	c.RuleDoc["R05.16"] = "= R07.10: the source is only read through io.Reader (a Seek over a skippable frame does not notice that the announced bytes are missing)"
	ruleStreamFieldsRearmed(c, p, "R05.17")
	c.RuleDoc["R05.17"] = "= R17.9: per-stream fields of the Reader (position in the pending block, running counts) are re-initialised for every stream: a stale position makes Read hand out bytes that no checksum covered"
	ruleHeaderParsers(c, p, "R05.11")
	c.RuleDoc["R05.11"] = "the header is parsed only by Reader.init (error latched) and ValidFrameHeader (private frame, whole input)"
	c.only(func(k string) bool { return strings.HasPrefix(k, "initR.worker#") }, func() { ruleReleaseAfterUse(c, p, "R05.10") })
	c.RuleDoc["R05.9"] = "io.EOF is synthesised only at the known end-of-stream decisions under their guards (an error of a mandatory field is never rewritten to a clean end)"
}

func checkC06(c *Check) {
	c.Explain = "Truncation can only be mistaken for completeness if a source read that hits the end of input yields an io.EOF that reaches the Reader's end-of-frame decision. R06.1 enumerates every source read of the reader side (classified by the field it reads, 9 confirmed roles), follows its error value forward through phis, cells, wrappers and calls, and requires that an unconverted io.EOF can leave the function only for the first magic word and, in legacy frames, for the block size; R06.2 requires all source access to go through io.ReadFull / io.CopyN; R06.3 (=R15.4) requires the constant io.EOF to be produced only at the three known end-of-stream decisions under their guards."
	c.Uncov = []string{"that the bytes delivered before the error are a prefix of the original content (value-level)"}
	c.Trusted = trustedSSA
	c.RuleDoc["R06.1"] = "EOF provenance per read site"
	c.RuleDoc["R06.2"] = "source access only via io.ReadFull / io.CopyN (direct reads are reported by R06.1 as role 'direct')"
	c.RuleDoc["R06.3"] = "synthetic io.EOF sites and guards"
	c.RuleDoc["R06.4"] = "end-of-stream branches call CloseR"
	c.RuleDoc["R06.5"] = "a pending (truncation) error of the reading path is never absorbed: once a source read failed, every path to a return yields a non-nil error"
	c.RuleDoc["R06.6"] = "Blocks.close hands the latched error of the concurrent decoder to its caller on every branch"
	p := loadOrTrouble(c, cfgAMD64)
	if p == nil {
		return
	}
	ruleEOFProvenance(c, p, "R06.1", true)
	ruleSyntheticEOF(c, p, "R06.3")
	ruleEOSCallsCloseR(c, p, "R06.4")
	ruleErrorsNotAbsorbed(c, p, "R06.5", readerSideFuncs(p), errAbsorbExempt)
	ruleBlocksCloseLatch(c, p, "R06.6")
	ruleStreamsThroughInterface(c, p, "R06.8")
	c.RuleDoc["R06.8"] = "= R07.10: the source is only read (no Seek past its end): truncation inside a skipped region is seen"
	c.only(func(k string) bool { return strings.HasPrefix(k, "reader#") }, func() { ruleWireFields(c, p, "R06.9") })
	c.RuleDoc["R06.9"] = "= R02.1, read side: every declared trailer and block field is consumed under exactly its own descriptor flag (a field skipped for some option combination is a place where a cut goes unnoticed)"
	ruleReaderShutdown(c, p, "R06.10")
	c.RuleDoc["R06.10"] = "= R07.6: the reading goroutine signals the end of the blocks on every exit, a read error included (a truncated stream whose error is latched but never signalled leaves Read blocked: the truncation is never reported)"
	ruleLegacyDescriptor(c, p, "R06.7")
	c.RuleDoc["R06.7"] = "the synthetic descriptor of a legacy frame declares only the block size (legacy frames stay on the sequential path)"
}

// R05.5: closeR stores only when the latch is empty, under the mutex.
func ruleErrLatch(c *Check, p *Program, rule string) {
	fn := findFn(c, p, rule, "internal/lz4stream", "Blocks.closeR")
	if fn == nil {
		return
	}
	ok := false
	n := 0
	for _, f := range withAnon(fn) {
		allInstrs(f, func(in ssa.Instruction) {
			st, isSt := in.(*ssa.Store)
			if !isSt || lastField(st.Addr) != "Blocks.err" {
				return
			}
			n++
			for _, a := range atomsOfBlock(in.Block()) {
				if a.Kind == "errnil" && a.Val && loadField(a.V) == "Blocks.err" {
					ok = true
				}
			}
		})
	}
	if n == 0 {
		// the latch is handed by address to a helper that performs the guarded store: *p = err under *p == nil
		for _, ci := range callsIn(fn) {
			g := staticCallee(ci)
			if g == nil || !inModule(g) || len(g.Blocks) == 0 {
				continue
			}
			for i, a := range ci.Common().Args {
				if lastField(a) != "Blocks.err" || i >= len(g.Params) {
					continue
				}
				prm := g.Params[i+len(g.Params)-len(ci.Common().Args)]
				allInstrs(g, func(in ssa.Instruction) {
					st, isSt := in.(*ssa.Store)
					if !isSt || st.Addr != ssa.Value(prm) {
						return
					}
					n++
					for _, at := range atomsOfBlock(in.Block()) {
						if ld, isL := at.V.(*ssa.UnOp); at.Kind == "errnil" && at.Val && isL && ld.Op == token.MUL && ld.X == ssa.Value(prm) {
							ok = true
						}
					}
				})
			}
		}
	}
	if n == 0 {
		// closeR only forwards to a function that receives the latch by address (findFn has followed the forward)
		for i, prm := range fn.Params {
			passesLatch := false
			for _, cs := range callSitesOf(fn) {
				if a := cs.Common().Args; i < len(a) && lastField(a[i]) == "Blocks.err" {
					passesLatch = true
				}
			}
			if !passesLatch {
				continue
			}
			allInstrs(fn, func(in ssa.Instruction) {
				st, isSt := in.(*ssa.Store)
				if !isSt || st.Addr != ssa.Value(prm) {
					return
				}
				n++
				for _, at := range atomsOfBlock(in.Block()) {
					if ld, isL := at.V.(*ssa.UnOp); at.Kind == "errnil" && at.Val && isL && ld.Op == token.MUL && ld.X == ssa.Value(prm) {
						ok = true
					}
				}
			})
		}
	}
	c.Cond(ok && n == 1, rule, "Blocks.closeR#first-error-wins", p.Pos(fn.Pos()), "the concurrent error latch is written only while it is still nil", "single store guarded by b.err == nil", "the latch store is not guarded by b.err == nil (a later error or io.EOF could replace the first error)")
}
