package main

import (
	"fmt"
	"go/token"
	"go/types"
	"strings"

	"golang.org/x/tools/go/ssa"
)

// ---------------------------------------------------------------------------
// R18.11: byte accounting of the compressing reader's output adapter, decided with the bounds prover.
//
// The adapter (ovWriter) receives the frame's bytes through Write and hands them to the callers of Read in the
// buffers they supply; what does not fit is kept in an overflow slice and replayed. With
//     pending = len(ov) - ovPos + dataPos
// (bytes held in the overflow slice and not yet replayed, plus bytes placed in the caller's buffer and not yet
// returned) every method has an exact account:
//     Write(p):          pending' = pending + len(p), result len(p)
//     reset(out), false: pending' = pending - len(out)    (the caller returns len(out) bytes, all replayed)
//     reset(out), true:  pending' = pending, data' is out, dataPos' <= len(out)
//     clear():           pending' = 0
// together with the object invariant 0 <= dataPos <= len(data), 0 <= ovPos <= len(ov), assumed at entry and shown
// at every return. At entry of reset the previous call has returned what it placed (dataPos = 0, R18.7).
// The field roles are read from the code (destination of the copy in Write, operand of its append, source of the
// copy in reset), not from field names. A byte lost or delivered twice by the index arithmetic breaks the account.

type adapterRoles struct {
	typ                     string
	write, reset, clear     *ssa.Function
	data, dataPos, ov, ovPos string
}

func loadOfField(v ssa.Value, recv *ssa.Parameter) string {
	ld, ok := v.(*ssa.UnOp)
	if !ok || ld.Op != token.MUL {
		return ""
	}
	fa, ok := ld.X.(*ssa.FieldAddr)
	if !ok || fa.X != ssa.Value(recv) {
		return ""
	}
	return fieldName(fa.X.Type(), fa.Field)
}

func findAdapter(p *Program) *adapterRoles {
	for _, fn := range p.SrcFuncs() {
		if fn.Name() != "Write" || fn.Signature.Recv() == nil || fn.Pkg == nil || fn.Pkg.Pkg.Path() != pkgRoot || len(fn.Params) != 2 {
			continue
		}
		tn := recvTypeName(fn)
		if tn == "Writer" || tn == "" {
			continue
		}
		r := &adapterRoles{typ: tn, write: fn}
		recv := fn.Params[0]
		allInstrs(fn, func(in ssa.Instruction) {
			call, ok := in.(*ssa.Call)
			if !ok {
				return
			}
			bi, isB := call.Call.Value.(*ssa.Builtin)
			if !isB {
				return
			}
			switch bi.Name() {
			case "copy":
				if sl, isS := call.Call.Args[0].(*ssa.Slice); isS && sl.Low != nil {
					if f := loadOfField(sl.X, recv); f != "" {
						r.data = f
						r.dataPos = loadOfField(sl.Low, recv)
					}
				}
			case "append":
				if f := loadOfField(call.Call.Args[0], recv); f != "" {
					r.ov = f
				}
			}
		})
		if r.data == "" || r.dataPos == "" || r.ov == "" {
			continue
		}
		for _, m := range p.SrcFuncs() {
			if recvTypeName(m) != tn || m.Pkg != fn.Pkg || m == fn || m.Parent() != nil {
				continue
			}
			res := m.Signature.Results()
			if len(m.Params) == 2 && isSliceType(m.Params[1].Type()) && res.Len() == 1 {
				if b, isB := res.At(0).Type().Underlying().(*types.Basic); isB && b.Kind() == types.Bool {
					mr := m.Params[0]
					allInstrs(m, func(in ssa.Instruction) {
						if call, ok := in.(*ssa.Call); ok {
							if bi, isB := call.Call.Value.(*ssa.Builtin); isB && bi.Name() == "copy" {
								if sl, isS := call.Call.Args[1].(*ssa.Slice); isS && sl.Low != nil && loadOfField(sl.X, mr) == r.ov {
									if f := loadOfField(sl.Low, mr); f != "" {
										r.ovPos = f
										r.reset = m
									}
								}
							}
						}
					})
				}
			}
			if len(m.Params) == 1 && res.Len() == 0 {
				r.clear = m
			}
		}
		if r.reset != nil && r.ovPos != "" {
			return r
		}
	}
	return nil
}

func ruleAdapterAccounting(c *Check, p *Program, rule string) {
	if !bndArch() {
		return
	}
	r := findAdapter(p)
	if r == nil {
		c.OK(rule, "adapter#accounting", "", "byte accounting of the output adapter", "no adapter of the recognised shape (a type with Write([]byte) that copies into a caller buffer at a position field and appends the rest to an overflow slice, and a bool method that replays the overflow): rule not applicable to this tree", false)
		return
	}
	type cells struct{ dp, op, dl, ol Lin }
	run := func(fn *ssa.Function, label string, resetPre bool, atReturn func(g *goProg, a *AbsState, ret *ssa.Return, e cells, cur func(string) (Lin, bool), curLen func(string) (Lin, bool))) {
		if fn == nil {
			return
		}
		c.Funcs[fname(fn)] = true
		coll := newCollector()
		var e cells
		recv := fn.Params[0]
		key := func(g *goProg, f string) string { return "fld:" + g.ctx + "p:" + recv.Name() + ":" + r.typ + "." + f }
		goPre = func(g *goProg, a *AbsState) {
			mkInt := func(f string) Lin {
				v := g.havocR(a, "in_"+f, qi(0), lenLimit(), true)
				a.vals[key(g, f)] = v
				return v
			}
			mkSl := func(f string) Lin {
				L := g.havocR(a, "inlen_"+f, qi(0), lenLimit(), true)
				C := g.havocR(a, "incap_"+f, qi(0), lenLimit(), true)
				a.st.leq(L, C)
				k := key(g, f)
				a.vals[k+".len"], a.vals[k+".cap"], a.vals[k+".off"] = L, C, linI(0)
				return L
			}
			e.dp, e.op = mkInt(r.dataPos), mkInt(r.ovPos)
			e.dl, e.ol = mkSl(r.data), mkSl(r.ov)
			// object invariant at entry
			a.st.leq(e.dp, e.dl)
			a.st.leq(e.op, e.ol)
			if resetPre {
				a.st.eqq(e.dp, linI(0))
			}
		}
		hooks := goHooks{noInline: true, onReturn: func(g *goProg, a *AbsState, ret *ssa.Return) {
			cur := func(f string) (Lin, bool) { v, ok := a.vals[key(g, f)]; return v, ok }
			curLen := func(f string) (Lin, bool) { v, ok := a.vals[key(g, f)+".len"]; return v, ok }
			atReturn(g, a, ret, e, cur, curLen)
		}}
		lp0 := lpCount
		res, _, err := analyseGoFunc(p, fn, label, []string{"field:" + r.typ + "." + r.data, "field:" + r.typ + "." + r.ov}, hooks, coll)
		c.LPQ += lpCount - lp0
		if err != nil {
			c.TroubleF("%s: %v", label, err)
			return
		}
		if res.trouble != "" {
			c.TroubleF("%s: %s", label, res.trouble)
		}
		if emitObls(c, coll, "", map[string]string{"account": rule, "invariant": rule, "nopanic": rule}) == 0 {
			c.Fail(rule, label+"#accounting", p.Pos(fn.Pos()), "byte accounting of "+label, "no return of "+label+" was reached by the analysis")
		}
	}
	final := func(g *goProg, a *AbsState, e cells, cur, curLen func(string) (Lin, bool)) (dp, op, dl, ol Lin, ok bool) {
		var o1, o2, o3, o4 bool
		dp, o1 = cur(r.dataPos)
		op, o2 = cur(r.ovPos)
		dl, o3 = curLen(r.data)
		ol, o4 = curLen(r.ov)
		return dp, op, dl, ol, o1 && o2 && o3 && o4
	}
	invariant := func(g *goProg, a *AbsState, site, pos string, dp, op, dl, ol Lin) {
		g.coll.check("invariant", site+"#invariant", pos, "the adapter's positions stay inside their slices ("+r.dataPos+" <= len("+r.data+"), "+r.ovPos+" <= len("+r.ov+")) at every return", a.st.entailsLeq(dp, dl) && a.st.entailsLeq(op, ol), func() string {
			return fmt.Sprintf("%s = %s vs len(%s) = %s; %s = %s vs len(%s) = %s", r.dataPos, dp.Str(g.tab), r.data, dl.Str(g.tab), r.ovPos, op.Str(g.tab), r.ov, ol.Str(g.tab))
		})
	}
	pendingDesc := "pending = len(" + r.ov + ") - " + r.ovPos + " + " + r.dataPos
	// Write
	run(r.write, r.typ+".Write", false, func(g *goProg, a *AbsState, ret *ssa.Return, e cells, cur, curLen func(string) (Lin, bool)) {
		site, pos := r.typ+".Write", g.prog.InstrPos(ret)
		dp, op, dl, ol, ok := final(g, a, e, cur, curLen)
		if !ok {
			g.coll.check("account", site+"#account", pos, "every byte passed to Write is accounted for", false, func() string { return "a field of the adapter is unknown at the return (written through an untracked route)" })
			return
		}
		plen := g.lenSym[r.write.Params[1].Name()]
		before := e.ol.Sub(e.op).Add(e.dp)
		after := ol.Sub(op).Add(dp)
		g.coll.check("account", site+"#account", pos, "every byte passed to Write is placed in the caller's buffer or kept in the overflow slice: "+pendingDesc+" grows by exactly len(p)", a.st.entailsEq(after.Sub(before), plen), func() string {
			return "pending' - pending = " + after.Sub(before).Str(g.tab) + " is not len(p): bytes are lost or duplicated between the caller's buffer and the overflow slice"
		})
		if len(ret.Results) >= 1 {
			if _, _, isI := isIntType(ret.Results[0].Type()); isI {
				n := g.val(a, ret.Results[0])
				g.coll.check("account", site+"#returns-len", pos, "Write reports all of p as written (io.Writer: n < len(p) only with an error)", a.st.entailsEq(n, plen), func() string { return "the count returned is " + n.Str(g.tab) + ", not len(p)" })
			}
		}
		invariant(g, a, site, pos, dp, op, dl, ol)
	})
	// reset
	run(r.reset, r.typ+"."+r.reset.Name(), true, func(g *goProg, a *AbsState, ret *ssa.Return, e cells, cur, curLen func(string) (Lin, bool)) {
		site, pos := r.typ+"."+r.reset.Name(), g.prog.InstrPos(ret)
		dp, op, dl, ol, ok := final(g, a, e, cur, curLen)
		if !ok {
			g.coll.check("account", site+"#account", pos, "replayed bytes are accounted for", false, func() string { return "a field of the adapter is unknown at the return" })
			return
		}
		olen := g.lenSym[r.reset.Params[1].Name()]
		delta := ol.Sub(op).Add(dp).Sub(e.ol.Sub(e.op).Add(e.dp))
		k, isK := ret.Results[0].(*ssa.Const)
		full := a.st.entailsEq(delta, olen.Neg()) && a.st.entailsEq(dp, e.dp)
		cont := a.st.entailsEq(delta, linI(0)) && a.st.entailsEq(dl, olen) && a.st.entailsLeq(dp, olen)
		switch {
		case isK && k.Value != nil && k.Value.String() == "false":
			g.coll.check("account", site+"#account-filled", pos, "when the buffer was filled from the overflow slice alone (result false, the caller returns len(out)) exactly len(out) pending bytes were consumed: "+pendingDesc, full, func() string {
				return "pending' - pending = " + delta.Str(g.tab) + ", expected -len(out): replayed bytes are delivered twice or skipped"
			})
		case isK:
			g.coll.check("account", site+"#account-continue", pos, "when reading continues (result true) no pending byte was dropped or invented, the caller's buffer is installed and the bytes already placed in it are counted: "+pendingDesc+" unchanged, len("+r.data+") = len(out), "+r.dataPos+" <= len(out)", cont, func() string {
				return fmt.Sprintf("pending' - pending = %s (expected 0); len(%s) = %s (expected len(out)); %s = %s", delta.Str(g.tab), r.data, dl.Str(g.tab), r.dataPos, dp.Str(g.tab))
			})
		default:
			g.coll.check("account", site+"#account", pos, "replayed bytes are accounted for (filled: -len(out); continue: unchanged)", full || cont, func() string {
				return "pending' - pending = " + delta.Str(g.tab)
			})
		}
		invariant(g, a, site, pos, dp, op, dl, ol)
	})
	// clear
	if r.clear != nil {
		run(r.clear, r.typ+"."+r.clear.Name(), false, func(g *goProg, a *AbsState, ret *ssa.Return, e cells, cur, curLen func(string) (Lin, bool)) {
			site, pos := r.typ+"."+r.clear.Name(), g.prog.InstrPos(ret)
			dp, op, dl, ol, ok := final(g, a, e, cur, curLen)
			if !ok {
				g.coll.check("account", site+"#account", pos, "nothing is pending after "+r.clear.Name(), false, func() string { return "a field of the adapter is unknown at the return" })
				return
			}
			g.coll.check("account", site+"#account", pos, "nothing of the previous stream is pending after "+r.clear.Name()+": "+pendingDesc+" = 0", a.st.entailsEq(ol.Sub(op).Add(dp), linI(0)), func() string {
				return "pending' = " + ol.Sub(op).Add(dp).Str(g.tab)
			})
			invariant(g, a, site, pos, dp, op, dl, ol)
		})
	}
	// Outside the adapter's own methods its fields are only reset: the buffer field to nil, the position to 0.
	// With the invariant above (position <= len(buffer)) and "the buffer is the caller's p or nil" this gives
	// n <= len(p) for every count that Read takes from the position field.
	own := map[*ssa.Function]bool{}
	for _, fn := range p.SrcFuncs() {
		if recvTypeName(fn) == r.typ && fn.Parent() == nil {
			own[fn] = true
		}
	}
	nOut := 0
	for _, fn := range moduleFuncs(p, pkgRoot) {
		top := fn
		for top.Parent() != nil {
			top = top.Parent()
		}
		allInstrs(fn, func(in ssa.Instruction) {
			st, ok := in.(*ssa.Store)
			if !ok {
				return
			}
			lf := lastField(st.Addr)
			if !strings.HasPrefix(lf, r.typ+".") {
				return
			}
			f := strings.TrimPrefix(lf, r.typ+".")
			if own[top] {
				if f == r.data && top != r.reset {
					k, isK := st.Val.(*ssa.Const)
					c.Cond(isK && k.IsNil(), rule, r.typ+"#buffer-writers:"+shortFn(top), p.InstrPos(st), "the adapter's buffer field is the caller's buffer installed by "+r.reset.Name()+", or nil", "nil", "a method other than "+r.reset.Name()+" installs a buffer: the count returned by Read is no longer bounded by len(p)")
				}
				return
			}
			nOut++
			okV := false
			switch v := st.Val.(type) {
			case *ssa.Const:
				if f == r.data {
					okV = v.IsNil()
				} else if kk, isI := constUint(v); isI {
					okV = kk == 0
				}
			}
			c.Cond(okV, rule, r.typ+"#outside-writers:"+shortFn(top)+":"+f, p.InstrPos(st), "outside its methods the adapter's fields are only reset (buffer to nil, positions to 0)", "constant nil / 0", shortFn(top)+" stores "+shortVal(st.Val)+" into "+lf+": the adapter's accounting no longer holds")
		})
	}
	// the count returned by Read: len(p), the position field, or 0
	if rd := p.Func("", "CompressingReader.Read"); rd != nil {
		bad := ""
		nRet := 0
		allInstrs(rd, func(in ssa.Instruction) {
			ret, ok := in.(*ssa.Return)
			if !ok || len(ret.Results) == 0 {
				return
			}
			nRet++
			okAll := true
			walkBack(ret.Results[0], true, func(x ssa.Value) bool {
				switch v := x.(type) {
				case *ssa.Phi:
					return true
				case *ssa.Const:
					if k, isK := constUint(v); !isK || k != 0 {
						okAll = false
					}
					return false
				case *ssa.Call:
					if bi, isB := v.Call.Value.(*ssa.Builtin); isB && bi.Name() == "len" {
						if _, isP := v.Call.Args[0].(*ssa.Parameter); isP {
							return false
						}
					}
					// a method of the adapter, or a helper of the reader, that hands back the position
					if f := staticCallee(v); f != nil && inModule(f) && f.Pkg == rd.Pkg && len(f.Blocks) > 0 {
						good := true
						allInstrs(f, func(j ssa.Instruction) {
							rr, isR := j.(*ssa.Return)
							if !isR || len(rr.Results) == 0 {
								return
							}
							res := rr.Results[0]
							if k, isK := constUint(res); isK && k == 0 {
								return
							}
							walkBack(res, true, func(y ssa.Value) bool {
								switch w := y.(type) {
								case *ssa.Phi:
									return true
								case *ssa.Const:
									if kk, isKK := constUint(w); !isKK || kk != 0 {
										good = false
									}
									return false
								case *ssa.UnOp:
									if w.Op == token.MUL && lastField(w.X) == r.typ+"."+r.dataPos {
										return false
									}
								}
								good = false
								return false
							})
						})
						if good {
							return false
						}
					}
					okAll = false
					return false
				case *ssa.Extract:
					return true
				case *ssa.UnOp:
					if v.Op == token.MUL {
						if lf := lastField(v.X); lf == r.typ+"."+r.dataPos {
							return false
						}
						if _, isAl := v.X.(*ssa.Alloc); isAl {
							return true // named result cell: follow its stores
						}
					}
					okAll = false
					return false
				}
				okAll = false
				return false
			})
			if !okAll {
				bad = p.InstrPos(ret)
			}
		})
		c.Cond(nRet > 0 && bad == "", rule, "CompressingReader.Read#count-source", p.Pos(rd.Pos()), "the count returned by Read is len(p), the adapter's position (at most len(p) by the invariant), or 0", fmt.Sprintf("%d returns", nRet), "the count returned at "+bad+" derives from something else: n <= len(p) is not established")
	}
}
