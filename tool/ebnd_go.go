package main

import (
	"fmt"
	"go/constant"
	"go/token"
	"go/types"
	"sort"
	"strings"

	"golang.org/x/tools/go/ssa"
)

// Go SSA front end of the bounds prover: integer scalars and slices of one
// function. Slices carry (len, cap, off, root); panicking operations become
// assumptions in functions whose panics are recovered into an error, and
// obligations elsewhere (for destination-rooted operations).

type goHooks struct {
	// called in check mode
	onStore  func(g *goProg, a *AbsState, st *ssa.Store)
	// mustNotPanic: instructions whose panic is not an acceptable outcome even under a recovering defer (an operand of
	// an over-copying shortcut: its guard is there to make the shortcut safe, a recovered panic rejects a valid input)
	mustNotPanic func(in ssa.Instruction) bool
	onCopy   func(g *goProg, a *AbsState, call *ssa.Call, n Lin, dstOff, dstLen, srcOff, srcLen Lin, dstRoot, srcRoot string, srcHigh bool)
	onReturn func(g *goProg, a *AbsState, r *ssa.Return)
	onEdge   func(g *goProg, a *AbsState, from, to *ssa.BasicBlock)
	onCall   func(g *goProg, a *AbsState, call ssa.CallInstruction)
	onInstr  func(g *goProg, a *AbsState, in ssa.Instruction)
	noInline bool // do not analyse callees in place (their results and effects are unknown)
	// inlineOnly, when set, restricts in-place analysis to the callees it accepts
	inlineOnly func(g *goProg, a *AbsState, call *ssa.Call, f *ssa.Function) bool
	onAppend   func(g *goProg, a *AbsState, call *ssa.Call, dst, src sliceAbs)
	// keepFields: the (not inlined) callee is known not to write the fields the analysis tracks
	keepFields func(g *goProg, call *ssa.Call, f *ssa.Function) bool
	// freshField: a tracked field was (re)loaded as an unknown value (first use, or after a call that may have
	// written it): the object invariant of the analysed type may be assumed here
	freshField func(g *goProg, a *AbsState, fk string)
	// afterCall: contracts of callees that are not analysed in place (results keyed k, or k#i for tuples)
	afterCall func(g *goProg, a *AbsState, call *ssa.Call, f *ssa.Function)
}

type goProg struct {
	fn       *ssa.Function
	prog     *Program
	tab      *symTab
	coll     *collector
	hooks    goHooks
	recovers bool            // panics are recovered into an error result
	recoverDefer *ssa.Defer  // the defer statement that installs the recovering handler
	pre      func(g *goProg, a *AbsState) // extra preconditions on the parameters
	// inlined instance of a module-local callee (nil parent for the analysed function)
	ctx       string
	parent    *goProg
	callSite  *ssa.Call
	paramRoot map[string]string
	paramBase map[string]string // pointer parameters of an inlined callee that are the caller's own base pointers
	depth     int
	start     *AbsState // state at the call, parameters bound
	rets      []*AbsState
	assertRoots map[string]bool // roots whose index/slice operations are obligations (no-panic); others are assumptions
	lenSym   map[string]Lin  // root -> original length symbol of parameter slices
	capSym   map[string]Lin
	live     []map[string]bool
	ordinal  map[ssa.Instruction]int
	two63, two64 Q
	name     string
	globalsC []Lin
}

func (g *goProg) numBlocks() int  { return len(g.fn.Blocks) }
func (g *goProg) entryBlock() int { return 0 }
func (g *goProg) succs(b int) []int {
	var out []int
	for _, s := range g.fn.Blocks[b].Succs {
		out = append(out, s.Index)
	}
	return out
}
func (g *goProg) blockName(b int) string { return fmt.Sprintf("b%d(%s)", b, g.fn.Blocks[b].Comment) }

const lenLimitLog64 = 46

// goWordBits is the width of int/uint/uintptr in the configuration being analysed.
var goWordBits uint = 64

// lenLimit: assumed upper bound of every slice length and capacity (address-space assumption):
// 2^46 on 64-bit targets, 2^29 on 32-bit targets (so that the sum of three lengths still fits an int).
func lenLimit() Q {
	if goWordBits == 32 {
		return qPow2(29)
	}
	return qPow2(lenLimitLog64)
}

func isIntType(t types.Type) (bitsN uint, unsigned bool, ok bool) {
	b, isB := t.Underlying().(*types.Basic)
	if !isB || b.Info()&types.IsInteger == 0 {
		return 0, false, false
	}
	unsigned = b.Info()&types.IsUnsigned != 0
	switch b.Kind() {
	case types.Int8, types.Uint8:
		bitsN = 8
	case types.Int16, types.Uint16:
		bitsN = 16
	case types.Int32, types.Uint32:
		bitsN = 32
	case types.Int64, types.Uint64:
		bitsN = 64
	default:
		bitsN = goWordBits
	}
	return bitsN, unsigned, true
}

func isSliceType(t types.Type) bool {
	_, ok := t.Underlying().(*types.Slice)
	return ok
}

func (g *goProg) typeRange(t types.Type) (lo, hi Q, ok bool) {
	n, u, isI := isIntType(t)
	if !isI {
		return Q{}, Q{}, false
	}
	if u {
		return qi(0), qPow2(n).Sub(qi(1)), true
	}
	return qPow2(n - 1).Neg(), qPow2(n - 1).Sub(qi(1)), true
}

// fresh symbol constrained to the range of type t (64-bit bounds are left implicit).
func (g *goProg) havocT(a *AbsState, name string, t types.Type) Lin {
	s := g.tab.fresh(name)
	l := linS(s)
	n, u, ok := isIntType(t)
	if !ok {
		g.tab.signed[s] = true
		return l
	}
	lo, hi, _ := g.typeRange(t)
	if !u {
		g.tab.signed[s] = true
	}
	if n < goWordBits {
		// sub-word types: explicit rows
		if u {
			a.st.le(l.Sub(linK(hi)))
		} else {
			a.st.rng(l, lo, hi)
		}
		return l
	}
	if u {
		g.tab.implHi[s] = hi
	} else {
		g.tab.implLo[s], g.tab.implHi[s] = lo, hi
	}
	return l
}

func (g *goProg) havocR(a *AbsState, name string, lo, hi Q, hasHi bool) Lin {
	s := g.tab.fresh(name)
	l := linS(s)
	if lo.Sign() < 0 {
		g.tab.signed[s] = true
		a.st.le(linK(lo).Sub(l))
	} else if lo.Sign() > 0 {
		a.st.le(linK(lo).Sub(l))
	}
	if hasHi {
		a.st.le(l.Sub(linK(hi)))
	}
	return l
}

func vkey(v ssa.Value) string {
	switch x := v.(type) {
	case *ssa.Parameter:
		return "p:" + x.Name()
	case *ssa.FreeVar:
		return "fv:" + x.Name()
	}
	return v.Name()
}

// k: state key of an SSA value in this (possibly inlined) function instance.
func (g *goProg) k(v ssa.Value) string { return g.ctx + vkey(v) }

func (g *goProg) cellKey(al *ssa.Alloc) string { return "cell:" + g.ctx + al.Name() }

// rootOf: which underlying buffer a slice value belongs to (syntactic).
func (g *goProg) rootOf(v ssa.Value) string {
	seen := map[ssa.Value]bool{}
	var rec func(v ssa.Value) string
	rec = func(v ssa.Value) string {
		if seen[v] {
			return ""
		}
		seen[v] = true
		switch x := v.(type) {
		case *ssa.Parameter:
			if g.parent != nil {
				return g.paramRoot[x.Name()]
			}
			return x.Name()
		case *ssa.Slice:
			return rec(x.X)
		case *ssa.Phi:
			r := ""
			for _, e := range x.Edges {
				er := rec(e)
				if er == "" {
					continue
				}
				if r == "" {
					r = er
				} else if r != er {
					return "?"
				}
			}
			return r
		case *ssa.UnOp:
			if x.Op == token.MUL {
				if lf := lastField(x.X); lf != "" {
					return "field:" + lf
				}
				if al, ok := x.X.(*ssa.Alloc); ok {
					return "cell:" + al.Comment
				}
			}
		case *ssa.Alloc:
			return "alloc:" + x.Comment
		case *ssa.FieldAddr:
			return "field:" + lastField(x)
		case *ssa.Call:
			if b, ok := x.Call.Value.(*ssa.Builtin); ok && b.Name() == "append" {
				return rec(x.Call.Args[0])
			}
			return "call"
		case *ssa.Extract:
			return "call"
		}
		return "?"
	}
	return rec(v)
}

func (g *goProg) initial() *AbsState {
	if g.parent != nil {
		return g.start.clone()
	}
	a := newAbs()
	lim := lenLimit()
	for _, p := range g.fn.Params {
		k := g.k(p)
		switch {
		case isSliceType(p.Type()):
			L := g.tab.get("len(" + p.Name() + ")")
			C := g.tab.get("cap(" + p.Name() + ")")
			g.tab.global[L], g.tab.global[C] = true, true
			a.st.le(linS(L).Sub(linS(C)))
			a.st.le(linS(C).Sub(linK(lim)))
			a.st.le(linS(L).Sub(linK(lim)))
			a.vals[k+".len"] = linS(L)
			a.vals[k+".cap"] = linS(C)
			a.vals[k+".off"] = linI(0)
			g.lenSym[p.Name()] = linS(L)
			g.capSym[p.Name()] = linS(C)
		default:
			if _, _, ok := isIntType(p.Type()); ok {
				s := g.tab.get("arg:" + p.Name())
				g.tab.global[s] = true
				n, u, _ := isIntType(p.Type())
				if !u {
					g.tab.signed[s] = true
				}
				lo, hi, _ := g.typeRange(p.Type())
				if n < goWordBits {
					a.st.rng(linS(s), lo, hi)
				} else if goWordBits < 64 {
					g.tab.implLo[s], g.tab.implHi[s] = lo, hi
				}
				a.vals[k] = linS(s)
			}
		}
	}
	if g.pre != nil {
		g.pre(g, a)
	}
	return a
}

// val returns the linear value of an integer SSA value in state a.
func (g *goProg) val(a *AbsState, v ssa.Value) Lin {
	if c, ok := v.(*ssa.Const); ok {
		if c.Value != nil && c.Value.Kind() == constant.Int {
			if i, exact := constant.Int64Val(c.Value); exact {
				return linI(i)
			}
			if u, exact := constant.Uint64Val(c.Value); exact {
				return linK(qPow2(63).Add(qi(int64(u - 1<<63))))
			}
		}
		return linI(0)
	}
	if l, ok := a.vals[g.k(v)]; ok {
		return l
	}
	// unknown (defined on a path not taken into account, e.g. dropped at a merge): fresh
	l := g.havocT(a, "unk_"+v.Name(), v.Type())
	a.vals[g.k(v)] = l
	return l
}

var debugWrap func(g *goProg, a *AbsState, v ssa.Value, m Lin)

type sliceAbs struct {
	len, cap, off Lin
	root          string
	known         bool
}

func (g *goProg) sliceOf(a *AbsState, v ssa.Value) sliceAbs {
	k := g.k(v)
	if l, ok := a.vals[k+".len"]; ok {
		return sliceAbs{l, a.vals[k+".cap"], a.vals[k+".off"], g.rootOf(v), true}
	}
	if c, ok := v.(*ssa.Const); ok && c.IsNil() {
		return sliceAbs{linI(0), linI(0), linI(0), "nil", true}
	}
	// unknown slice (loaded from memory, call result): fresh length/capacity
	L := g.havocR(a, "len_"+v.Name(), qi(0), lenLimit(), true)
	C := g.havocR(a, "cap_"+v.Name(), qi(0), lenLimit(), true)
	a.st.leq(L, C)
	a.vals[k+".len"], a.vals[k+".cap"], a.vals[k+".off"] = L, C, linI(0)
	return sliceAbs{L, C, linI(0), g.rootOf(v), true}
}

func (g *goProg) setSlice(a *AbsState, v ssa.Value, s sliceAbs) {
	k := g.k(v)
	a.vals[k+".len"], a.vals[k+".cap"], a.vals[k+".off"] = s.len, s.cap, s.off
}

// need records a condition that must hold for execution to continue without a
// panic. For assert-roots it is an obligation; otherwise an assumption.
func (g *goProg) need(a *AbsState, in ssa.Instruction, root, what string, cond Lin, check bool) {
	// cond <= 0 required
	if g.recovers && !g.assertRoots[root] && !g.covered(in) {
		// recover mode, but the handler is not installed yet on some path to this
		// instruction: a panic here would escape, so absence of the panic is an obligation
		if check {
			g.coll.check("uncovered", g.siteKey(in, what), g.prog.InstrPos(in), what+" cannot panic (it is not covered by the deferred recover)", a.st.entails(cond), func() string {
				st, mx := a.st.max(cond)
				return fmt.Sprintf("%s: max violation %v/%s over state from block %d; the deferred recover does not dominate this instruction", cond.Str(g.tab), st, mx.String(), a.from)
			})
		}
	}
	if check && g.hooks.mustNotPanic != nil && !g.assertRoots[root] && g.hooks.mustNotPanic(in) {
		g.coll.check("shortcut", g.siteKey(in, what+"-in-shortcut"), g.prog.InstrPos(in), what+" on an operand of an over-copying shortcut cannot panic: the shortcut's guard makes it safe, a (recovered) panic would reject an input the general path decodes", a.st.entails(cond), func() string {
			st, mx := a.st.max(cond)
			return fmt.Sprintf("%s: max violation %v/%s over state from block %d", cond.Str(g.tab), st, mx.String(), a.from)
		})
	}
	if g.assertRoots[root] {
		if check {
			g.coll.check("nopanic", g.siteKey(in, what), g.prog.InstrPos(in), what+" cannot panic", a.st.entails(cond), func() string {
				st, mx := a.st.max(cond)
				return fmt.Sprintf("%s: max violation %v/%s over state from block %d", cond.Str(g.tab), st, mx.String(), a.from)
			})
		}
	}
	a.st.le(cond)
}

// covered: the recovering defer statement is executed on every path to in.
func (g *goProg) covered(in ssa.Instruction) bool {
	if g.parent != nil {
		return g.parent.covered(g.callSite)
	}
	d := g.recoverDefer
	if d == nil {
		return false
	}
	if d.Block() == in.Block() {
		return idxOf(d) < idxOf(in)
	}
	return d.Block().Dominates(in.Block())
}

func (g *goProg) siteKey(in ssa.Instruction, what string) string {
	return fmt.Sprintf("%s#%s#%d", g.name, what, g.ordinal[in])
}

// arith: exact result when it fits the type, otherwise split (unsigned
// subtraction) or havoc.
func (g *goProg) arith(a *AbsState, v ssa.Value, m Lin) []*AbsState {
	k := g.k(v)
	n, u, ok := isIntType(v.Type())
	if !ok {
		a.vals[k] = m
		return []*AbsState{a}
	}
	if u {
		hi := qPow2(n).Sub(qi(1))
		inHi := a.st.maxLE(m, hi)
		inLo := a.st.minGE(m, qi(0))
		switch {
		case inHi && inLo:
			a.vals[k] = m
			return []*AbsState{a}
		case n >= goWordBits && inHi && !inLo:
			// possible borrow: split
			if a.st.maxLE(m, qi(-1)) {
				a.vals[k] = m.Add(linK(qPow2(n)))
				return []*AbsState{a}
			}
			a2 := a.clone()
			a.st.le(m.Neg())
			a.vals[k] = m
			a2.st.le(m.AddK(1))
			a2.vals[k] = m.Add(linK(qPow2(n)))
			return []*AbsState{a, a2}
		}
		if debugWrap != nil {
			debugWrap(g, a, v, m)
		}
		a.vals[k] = g.havocT(a, "wrap_"+v.Name(), v.Type())
		return []*AbsState{a}
	}
	lo, hi, _ := g.typeRange(v.Type())
	if a.st.maxLE(m, hi) && a.st.minGE(m, lo) {
		a.vals[k] = m
	} else {
		a.vals[k] = g.havocT(a, "ovf_"+v.Name(), v.Type())
	}
	return []*AbsState{a}
}

func (g *goProg) convert(a *AbsState, v *ssa.Convert) []*AbsState {
	k := g.k(v)
	tn, tu, ok := isIntType(v.Type())
	sn, _, sok := isIntType(v.X.Type())
	if !ok || !sok {
		if ok {
			a.vals[k] = g.havocT(a, "conv_"+v.Name(), v.Type())
		}
		return []*AbsState{a}
	}
	x := g.val(a, v.X)
	if tu {
		hi := qPow2(tn).Sub(qi(1))
		inHi, inLo := a.st.maxLE(x, hi), a.st.minGE(x, qi(0))
		if inHi && inLo {
			a.vals[k] = x
			return []*AbsState{a}
		}
		if tn >= goWordBits && sn <= tn && inHi {
			// sign-extended negative value: wraps to x + 2^tn
			if a.st.maxLE(x, qi(-1)) {
				a.vals[k] = x.Add(linK(qPow2(tn)))
				return []*AbsState{a}
			}
			a2 := a.clone()
			a.st.le(x.Neg())
			a.vals[k] = x
			a2.st.le(x.AddK(1))
			a2.vals[k] = x.Add(linK(qPow2(tn)))
			return []*AbsState{a, a2}
		}
		a.vals[k] = g.havocT(a, "conv_"+v.Name(), v.Type())
		return []*AbsState{a}
	}
	lo, hi, _ := g.typeRange(v.Type())
	inHi, inLo := a.st.maxLE(x, hi), a.st.minGE(x, lo)
	if inHi && inLo {
		a.vals[k] = x
		return []*AbsState{a}
	}
	if tn >= goWordBits && sn <= tn && inLo {
		// uintN -> intN of a possibly huge value: split at 2^(N-1)
		half := qPow2(tn - 1)
		if a.st.minGE(x, half) {
			a.vals[k] = x.Sub(linK(qPow2(tn)))
			return []*AbsState{a}
		}
		a2 := a.clone()
		g.assumeLEq(a, x, hi)
		a.vals[k] = x
		g.assumeGEq(a2, x, half)
		a2.vals[k] = x.Sub(linK(qPow2(tn)))
		return []*AbsState{a, a2}
	}
	a.vals[k] = g.havocT(a, "conv_"+v.Name(), v.Type())
	return []*AbsState{a}
}

func (g *goProg) assumeLEq(a *AbsState, l Lin, K Q) {
	if a.st.maxLE(l, K) {
		return
	}
	if a.st.minGE(l, K.Add(qi(1))) {
		a.st.le(linI(1))
		return
	}
	a.st.le(l.Sub(linK(K)))
}

func (g *goProg) assumeGEq(a *AbsState, l Lin, K Q) {
	if a.st.minGE(l, K) {
		return
	}
	if a.st.maxLE(l, K.Sub(qi(1))) {
		a.st.le(linI(1))
		return
	}
	a.st.le(linK(K).Sub(l))
}

func (g *goProg) binop(a *AbsState, v *ssa.BinOp) []*AbsState {
	k := g.k(v)
	if _, _, ok := isIntType(v.Type()); !ok {
		return []*AbsState{a} // comparisons are evaluated at the branch
	}
	x, y := g.val(a, v.X), g.val(a, v.Y)
	nonneg := func(l Lin) bool { return a.st.minGE(l, qi(0)) }
	switch v.Op {
	case token.ADD:
		return g.arith(a, v, x.Add(y))
	case token.SUB:
		return g.arith(a, v, x.Sub(y))
	case token.MUL:
		if x.isConst() {
			return g.arith(a, v, y.Scale(x.k))
		}
		if y.isConst() {
			return g.arith(a, v, x.Scale(y.k))
		}
		r := g.havocT(a, "mul_"+v.Name(), v.Type())
		if nonneg(x) && nonneg(y) {
			a.st.le(r.Neg())
		}
		// d * (n / d): the largest multiple of d not above n, so n - d < d*(n/d) <= n
		for _, pr := range [][2]ssa.Value{{v.X, v.Y}, {v.Y, v.X}} {
			if q, isQ := pr[1].(*ssa.BinOp); isQ && q.Op == token.QUO && q.Y == pr[0] {
				n, d := g.val(a, q.X), g.val(a, q.Y)
				if nonneg(n) && a.st.minGE(d, qi(1)) {
					a.st.leq(r, n)
					a.st.lt(n.Sub(d), r)
				}
			}
		}
		a.vals[k] = r
	case token.QUO:
		r := g.havocT(a, "quo_"+v.Name(), v.Type())
		if nonneg(x) && a.st.minGE(y, qi(1)) {
			a.st.le(r.Neg())
			a.st.leq(r, x)
			if y.isConst() {
				// y*r <= x <= y*r + y - 1
				a.st.leq(r.Scale(y.k), x)
				a.st.leq(x, r.Scale(y.k).AddQ(y.k.Sub(qi(1))))
			}
		}
		a.vals[k] = r
	case token.REM:
		r := g.havocT(a, "rem_"+v.Name(), v.Type())
		if nonneg(x) && a.st.minGE(y, qi(1)) {
			a.st.le(r.Neg())
			a.st.leq(r, x)
			a.st.lt(r, y)
		}
		a.vals[k] = r
	case token.SHR:
		if y.isConst() && y.k.IsInt() && nonneg(x) {
			kk := uint(y.k.rat().Num().Int64())
			if kk < 63 {
				r := g.havocT(a, "shr_"+v.Name(), v.Type())
				a.st.le(r.Neg())
				a.st.leq(r.Scale(qPow2(kk)), x)
				a.st.leq(x, r.Scale(qPow2(kk)).AddQ(qPow2(kk).Sub(qi(1))))
				a.vals[k] = r
				return []*AbsState{a}
			}
		}
		r := g.havocT(a, "shr_"+v.Name(), v.Type())
		if nonneg(x) {
			a.st.le(r.Neg())
			a.st.leq(r, x)
		}
		a.vals[k] = r
	case token.SHL:
		if y.isConst() && y.k.IsInt() {
			kk := uint(y.k.rat().Num().Int64())
			if kk < 62 {
				return g.arith(a, v, x.Scale(qPow2(kk)))
			}
		}
		a.vals[k] = g.havocT(a, "shl_"+v.Name(), v.Type())
	case token.AND:
		var m *Q
		other := x
		if y.isConst() && y.k.Sign() >= 0 {
			m, other = &y.k, x
		} else if x.isConst() && x.k.Sign() >= 0 {
			m, other = &x.k, y
		}
		r := g.havocT(a, "and_"+v.Name(), v.Type())
		if m != nil {
			a.st.le(r.Neg())
			a.st.le(r.Sub(linK(*m)))
			if nonneg(other) {
				a.st.leq(r, other)
			}
		} else if nonneg(x) && nonneg(y) {
			a.st.le(r.Neg())
			a.st.leq(r, x)
			a.st.leq(r, y)
		}
		a.vals[k] = r
	case token.AND_NOT:
		r := g.havocT(a, "andnot_"+v.Name(), v.Type())
		if nonneg(x) {
			a.st.le(r.Neg())
			a.st.leq(r, x)
			// x &^ m with a non-negative constant mask clears at most m: x - r <= m
			if y.isConst() && y.k.Sign() >= 0 {
				a.st.leq(x.Sub(r), linK(y.k))
			}
		}
		a.vals[k] = r
	default:
		a.vals[k] = g.havocT(a, "op_"+v.Name(), v.Type())
	}
	return []*AbsState{a}
}

// calleeRange: for tiny helpers whose result is a zero-extended narrower value.
func calleeRange(f *ssa.Function) (uint, bool) {
	if f == nil || f.Blocks == nil || len(f.Blocks) != 1 {
		return 0, false
	}
	ret, ok := f.Blocks[0].Instrs[len(f.Blocks[0].Instrs)-1].(*ssa.Return)
	if !ok || len(ret.Results) != 1 {
		return 0, false
	}
	cv, ok := ret.Results[0].(*ssa.Convert)
	if !ok {
		return 0, false
	}
	n, u, ok := isIntType(cv.X.Type())
	if !ok || !u || n >= 64 {
		return 0, false
	}
	return n, true
}

func (g *goProg) step(a *AbsState, in ssa.Instruction, check bool) []*AbsState {
	one := []*AbsState{a}
	if check && g.hooks.onInstr != nil {
		g.hooks.onInstr(g, a, in)
	}
	switch x := in.(type) {
	case *ssa.BinOp:
		return g.binop(a, x)
	case *ssa.Convert:
		return g.convert(a, x)
	case *ssa.ChangeType:
		if _, _, ok := isIntType(x.Type()); ok {
			a.vals[g.k(x)] = g.val(a, x.X)
		} else if isSliceType(x.Type()) {
			g.setSlice(a, x, g.sliceOf(a, x.X))
		}
	case *ssa.UnOp:
		switch x.Op {
		case token.MUL:
			if al, ok := x.X.(*ssa.Alloc); ok {
				ck := g.cellKey(al)
				if _, _, isI := isIntType(x.Type()); isI {
					if v, has := a.vals[ck]; has {
						a.vals[g.k(x)] = v
					} else {
						a.vals[g.k(x)] = g.havocT(a, "ld_"+x.Name(), x.Type())
					}
				}
				return one
			}
			if fk := g.fieldCell(x.X); fk != "" {
				// a struct field of an object of this function: loads see the last store (or the
				// previous load) until a call that may write the field intervenes
				switch {
				case isSliceType(x.Type()):
					if l, has := a.vals[fk+".len"]; has {
						a.vals[g.k(x)+".len"], a.vals[g.k(x)+".cap"], a.vals[g.k(x)+".off"] = l, a.vals[fk+".cap"], a.vals[fk+".off"]
					} else {
						s := g.sliceOf(a, x)
						a.vals[fk+".len"], a.vals[fk+".cap"], a.vals[fk+".off"] = s.len, s.cap, s.off
						// snapshot of the field as first seen since the last call ("fld:orig:..."): lets a
						// property relate a later value of the field to this one
						ok := "fld:orig:" + fk[len("fld:"):]
						a.vals[ok+".len"], a.vals[ok+".off"] = s.len, s.off
						if g.hooks.freshField != nil {
							g.hooks.freshField(g, a, fk)
						}
					}
					return one
				default:
					if _, _, isI := isIntType(x.Type()); isI {
						if v, has := a.vals[fk]; has {
							a.vals[g.k(x)] = v
						} else {
							v := g.havocT(a, "ld_"+x.Name(), x.Type())
							a.vals[g.k(x)], a.vals[fk] = v, v
							if g.hooks.freshField != nil {
								g.hooks.freshField(g, a, fk)
							}
						}
						return one
					}
				}
			}
			if _, _, isI := isIntType(x.Type()); isI {
				a.vals[g.k(x)] = g.havocT(a, "ld_"+x.Name(), x.Type())
			}
		case token.SUB:
			if _, _, isI := isIntType(x.Type()); isI {
				return g.arith(a, x, g.val(a, x.X).Neg())
			}
		default:
			if _, _, isI := isIntType(x.Type()); isI {
				a.vals[g.k(x)] = g.havocT(a, "un_"+x.Name(), x.Type())
			}
		}
	case *ssa.Alloc:
		// local cells start at zero
		if pt, ok := x.Type().(*types.Pointer); ok {
			if _, _, isI := isIntType(pt.Elem()); isI {
				a.vals[g.cellKey(x)] = linI(0)
			}
		}
	case *ssa.Store:
		if al, ok := x.Addr.(*ssa.Alloc); ok {
			if _, _, isI := isIntType(x.Val.Type()); isI {
				a.vals[g.cellKey(al)] = g.val(a, x.Val)
			}
			return one
		}
		if _, isStruct := x.Val.Type().Underlying().(*types.Struct); isStruct {
			g.storeStruct(a, x)
			if check && g.hooks.onStore != nil {
				g.hooks.onStore(g, a, x)
			}
			return one
		}
		if fk := g.fieldCell(x.Addr); fk != "" {
			if !localBase(x.Addr) {
				g.killField(a, x.Addr, fk)
			}
			switch {
			case isSliceType(x.Val.Type()):
				sv := g.sliceOf(a, x.Val)
				a.vals[fk+".len"], a.vals[fk+".cap"], a.vals[fk+".off"] = sv.len, sv.cap, sv.off
			default:
				if _, _, isI := isIntType(x.Val.Type()); isI {
					a.vals[fk] = g.val(a, x.Val)
				}
			}
		} else if _, isFA := x.Addr.(*ssa.FieldAddr); isFA {
			g.killField(a, x.Addr, "")
		}
		if ia, ok := x.Addr.(*ssa.IndexAddr); ok {
			// write through an element pointer
			if off, has := a.vals[g.k(ia)+".elt"]; has {
				root := a.meta[g.k(ia)+".root"]
				if L, isParam := g.lenSym[root]; isParam && check {
					g.coll.check("write", g.siteKey(in, "store-"+root), g.prog.InstrPos(in), "element store stays below len("+root+")", a.st.entailsLt(off, L), func() string {
						_, mx := a.st.max(off.Sub(L))
						return fmt.Sprintf("offset %s, len(%s): max(offset - len) = %s", off.Str(g.tab), root, mx.String())
					})
				}
			}
		}
		if check && g.hooks.onStore != nil {
			g.hooks.onStore(g, a, x)
		}
	case *ssa.IndexAddr:
		if isSliceType(x.X.Type()) {
			s := g.sliceOf(a, x.X)
			i := g.val(a, x.Index)
			g.need(a, in, s.root, "index", i.Neg(), check)
			g.need(a, in, s.root, "index", i.Sub(s.len).AddK(1), check)
			a.vals[g.k(x)+".elt"] = s.off.Add(i)
			a.meta[g.k(x)+".root"] = s.root
		}
	case *ssa.Slice:
		g.slice(a, x, check)
	case *ssa.Phi:
		// bound on the incoming edge
	case *ssa.Call:
		return g.call(a, x, check)
	case *ssa.Extract:
		if call, ok := x.Tuple.(*ssa.Call); ok {
			_ = call
		}
		tk := g.k(x.Tuple) + fmt.Sprintf("#%d", x.Index)
		if _, _, isI := isIntType(x.Type()); isI {
			if v, has := a.vals[tk]; has {
				a.vals[g.k(x)] = v
			} else {
				a.vals[g.k(x)] = g.havocT(a, "ext_"+x.Name(), x.Type())
			}
		} else if isSliceType(x.Type()) {
			if l, has := a.vals[tk+".len"]; has {
				a.vals[g.k(x)+".len"], a.vals[g.k(x)+".cap"], a.vals[g.k(x)+".off"] = l, a.vals[tk+".cap"], a.vals[tk+".off"]
			}
		} else if v, has := a.vals[tk]; has {
			a.vals[g.k(x)] = v // boolean result of an inlined call
		}
	case *ssa.Field, *ssa.FieldAddr, *ssa.MakeInterface, *ssa.MakeClosure, *ssa.Defer, *ssa.RunDefers, *ssa.DebugRef, *ssa.Go, *ssa.Send, *ssa.MakeChan, *ssa.TypeAssert, *ssa.ChangeInterface:
	case *ssa.MakeSlice:
		L, C := g.val(a, x.Len), g.val(a, x.Cap)
		g.setSlice(a, x, sliceAbs{L, C, linI(0), "alloc", true})
	default:
		if v, ok := in.(ssa.Value); ok {
			if _, _, isI := isIntType(v.Type()); isI {
				a.vals[g.k(v)] = g.havocT(a, "v_"+v.Name(), v.Type())
			}
		}
	}
	return one
}

func (g *goProg) slice(a *AbsState, x *ssa.Slice, check bool) {
	var base sliceAbs
	switch t := x.X.Type().Underlying().(type) {
	case *types.Slice:
		base = g.sliceOf(a, x.X)
	case *types.Pointer:
		arr, ok := t.Elem().Underlying().(*types.Array)
		if !ok {
			return
		}
		n := linI(arr.Len())
		base = sliceAbs{n, n, linI(0), g.rootOf(x.X), true}
	default:
		return // strings
	}
	lo := linI(0)
	if x.Low != nil {
		lo = g.val(a, x.Low)
	}
	hi := base.len
	if x.High != nil {
		hi = g.val(a, x.High)
	}
	mx := base.cap
	if x.Max != nil {
		mx = g.val(a, x.Max)
	}
	root := base.root
	g.need(a, x, root, "slice", lo.Neg(), check)
	g.need(a, x, root, "slice", lo.Sub(hi), check)
	if x.High != nil || x.Max != nil {
		g.need(a, x, root, "slice", hi.Sub(mx), check)
	}
	if x.Max != nil {
		g.need(a, x, root, "slice", mx.Sub(base.cap), check)
	} else if x.High != nil {
		g.need(a, x, root, "slice", hi.Sub(base.cap), check)
	} else {
		// s[lo:]: lo <= len
		g.need(a, x, root, "slice", lo.Sub(base.len), check)
	}
	g.setSlice(a, x, sliceAbs{hi.Sub(lo), mx.Sub(lo), base.off.Add(lo), root, true})
	if x.High == nil {
		a.meta[g.k(x)+".open"] = "1"
	}
}

func (g *goProg) call(a *AbsState, x *ssa.Call, check bool) []*AbsState {
	k := g.k(x)
	one := []*AbsState{a}
	if b, ok := x.Call.Value.(*ssa.Builtin); ok {
		switch b.Name() {
		case "len":
			if isSliceType(x.Call.Args[0].Type()) {
				a.vals[k] = g.sliceOf(a, x.Call.Args[0]).len
			} else if pt, isP := x.Call.Args[0].Type().Underlying().(*types.Pointer); isP {
				if arr, isA := pt.Elem().Underlying().(*types.Array); isA {
					a.vals[k] = linI(arr.Len())
				}
			} else if arr, isA := x.Call.Args[0].Type().Underlying().(*types.Array); isA {
				a.vals[k] = linI(arr.Len())
			} else {
				a.vals[k] = g.havocR(a, "len_"+x.Name(), qi(0), lenLimit(), true)
			}
		case "cap":
			if isSliceType(x.Call.Args[0].Type()) {
				a.vals[k] = g.sliceOf(a, x.Call.Args[0]).cap
			} else {
				a.vals[k] = g.havocR(a, "cap_"+x.Name(), qi(0), lenLimit(), true)
			}
		case "copy":
			d := g.sliceOf(a, x.Call.Args[0])
			var s sliceAbs
			if isSliceType(x.Call.Args[1].Type()) {
				s = g.sliceOf(a, x.Call.Args[1])
			} else {
				L := g.havocR(a, "strlen", qi(0), lenLimit(), true)
				s = sliceAbs{L, L, linI(0), "string", true}
			}
			var outs []*AbsState
			emit := func(st *AbsState, n Lin) {
				st.vals[k] = n
				if L, isParam := g.lenSym[d.root]; isParam && check {
					g.coll.check("write", g.siteKey(x, "copy-"+d.root), g.prog.InstrPos(x), "copy into "+d.root+" stays within len("+d.root+")", st.st.entailsLeq(d.off.Add(n), L), func() string {
						_, mx := st.st.max(d.off.Add(n).Sub(L))
						return fmt.Sprintf("copy of %s bytes at offset %s: max(end - len(%s)) = %s", n.Str(g.tab), d.off.Str(g.tab), d.root, mx.String())
					})
				}
				if check && g.hooks.onCopy != nil {
					g.hooks.onCopy(g, st, x, n, d.off, d.len, s.off, s.len, d.root, s.root, a.meta[g.k(x.Call.Args[1])+".open"] == "1")
				}
				outs = append(outs, st)
			}
			switch {
			case a.st.entailsLeq(d.len, s.len):
				emit(a, d.len)
			case a.st.entailsLeq(s.len, d.len):
				emit(a, s.len)
			default:
				a2 := a.clone()
				a.st.leq(d.len, s.len)
				a2.st.leq(s.len, d.len)
				emit(a, d.len)
				emit(a2, s.len)
			}
			return outs
		case "append":
			d := g.sliceOf(a, x.Call.Args[0])
			L := g.havocR(a, "applen", qi(0), lenLimit(), true)
			a.st.leq(d.len, L)
			if len(x.Call.Args) > 1 && isSliceType(x.Call.Args[1].Type()) {
				s := g.sliceOf(a, x.Call.Args[1])
				a.st.eqq(L, d.len.Add(s.len))
				if check && g.hooks.onAppend != nil {
					g.hooks.onAppend(g, a, x, d, s)
				}
			}
			C := g.havocR(a, "appcap", qi(0), lenLimit().Add(lenLimit()), true)
			a.st.leq(L, C)
			g.setSlice(a, x, sliceAbs{L, C, linI(0), "alloc", true})
		default:
			if _, _, isI := isIntType(x.Type()); isI {
				a.vals[k] = g.havocT(a, "bi_"+x.Name(), x.Type())
			}
		}
		return one
	}
	f := staticCallee(x)
	if check && g.hooks.onCall != nil {
		g.hooks.onCall(g, a, x)
	}
	if f != nil && f.Pkg != nil && f.Pkg.Pkg.Path() == "encoding/binary" {
		nbytes := int64(0)
		switch strings.TrimPrefix(f.Name(), "Put") {
		case "Uint16":
			nbytes = 2
		case "Uint32":
			nbytes = 4
		case "Uint64":
			nbytes = 8
		}
		if nbytes > 0 && len(x.Call.Args) >= 2 {
			s := g.sliceOf(a, x.Call.Args[1])
			g.need(a, x, s.root, "binary."+f.Name(), linI(nbytes).Sub(s.len), check)
			if strings.HasPrefix(f.Name(), "Put") {
				if L, isParam := g.lenSym[s.root]; isParam && check {
					g.coll.check("write", g.siteKey(x, "put-"+s.root), g.prog.InstrPos(x), f.Name()+" into "+s.root+" stays within len("+s.root+")", a.st.entailsLeq(s.off.AddK(nbytes), L), func() string { return "offset " + s.off.Str(g.tab) })
				}
			} else if _, _, isI := isIntType(x.Type()); isI {
				a.vals[k] = g.havocT(a, "le_"+x.Name(), x.Type())
			}
			return one
		}
	}
	if f != nil && f.Pkg != nil && f.Pkg.Pkg.Path() == "math/bits" && strings.HasPrefix(f.Name(), "TrailingZeros") {
		a.vals[k] = g.havocR(a, "tz", qi(0), qi(64), true)
		return one
	}
	if f != nil && f.Pkg != nil && f.Pkg.Pkg.Path() == pkgBlock && f.Name() == "CompressBlockBound" && len(x.Call.Args) == 1 {
		n := g.val(a, x.Call.Args[0])
		if a.st.minGE(n, qi(0)) {
			q := g.havocR(a, "div255", qi(0), lenLimit(), true)
			a.st.leq(q.Scale(qi(255)), n)
			a.st.leq(n, q.Scale(qi(255)).AddK(254))
			a.vals[k] = n.Add(q).AddK(16)
			return one
		}
	}
	if bitsN, ok := calleeRange(f); ok {
		// e.g. u16(src[si:]): needs 2 bytes
		if len(x.Call.Args) == 1 && isSliceType(x.Call.Args[0].Type()) {
			s := g.sliceOf(a, x.Call.Args[0])
			g.need(a, x, s.root, "read", linI(int64(bitsN/8)).Sub(s.len), check)
		}
		a.vals[k] = g.havocR(a, f.Name(), qi(0), qPow2(bitsN).Sub(qi(1)), true)
		return one
	}
	if outs, ok := g.inlineCall(a, x, f, check); ok {
		return outs
	}
	if !pureCallee(f) && !(g.hooks.keepFields != nil && g.hooks.keepFields(g, x, f)) {
		g.killAllFields(a)
	}
	if check && inModule(f) {
		for _, arg := range x.Call.Args {
			if isSliceType(arg.Type()) && g.sliceOf(a, arg).root == "dst" {
				g.coll.check("unanalysed", g.siteKey(x, "callee-"+f.Name()), g.prog.InstrPos(x), "a helper that receives (part of) dst is analysed together with its caller", false, func() string {
					return "the callee " + f.Name() + " could not be inlined (recursion, defer, or size); its writes into dst are not checked"
				})
			}
		}
	}
	// generic call: results by type
	if tup, ok := x.Type().(*types.Tuple); ok {
		for i := 0; i < tup.Len(); i++ {
			if _, _, isI := isIntType(tup.At(i).Type()); isI {
				a.vals[k+fmt.Sprintf("#%d", i)] = g.havocT(a, fmt.Sprintf("ret%d_%s", i, x.Name()), tup.At(i).Type())
			}
		}
	} else if _, _, isI := isIntType(x.Type()); isI {
		a.vals[k] = g.havocT(a, "ret_"+x.Name(), x.Type())
	}
	if g.hooks.afterCall != nil {
		g.hooks.afterCall(g, a, x, f)
	}
	return one
}

// cmpRefine adds the constraint of a comparison being true/false.
func (g *goProg) cmpRefine(a *AbsState, b *ssa.BinOp, val bool) {
	if _, _, ok := isIntType(b.X.Type()); !ok {
		return
	}
	x, y := g.val(a, b.X), g.val(a, b.Y)
	op := b.Op
	if !val {
		op = map[token.Token]token.Token{token.EQL: token.NEQ, token.NEQ: token.EQL, token.LSS: token.GEQ, token.GEQ: token.LSS, token.GTR: token.LEQ, token.LEQ: token.GTR}[op]
	}
	switch op {
	case token.EQL:
		a.st.eqq(x, y)
	case token.NEQ:
		if a.st.entailsLeq(x, y) {
			a.st.lt(x, y)
		} else if a.st.entailsLeq(y, x) {
			a.st.lt(y, x)
		}
	case token.LSS:
		a.st.lt(x, y)
	case token.LEQ:
		a.st.leq(x, y)
	case token.GTR:
		a.st.lt(y, x)
	case token.GEQ:
		a.st.leq(y, x)
	}
}

// condRefine: refine by a boolean SSA value.
func (g *goProg) condRefine(a *AbsState, cond ssa.Value, val bool, blk *ssa.BasicBlock) bool {
	switch c := cond.(type) {
	case *ssa.Const:
		if c.Value != nil && c.Value.Kind() == constant.Bool && constant.BoolVal(c.Value) != val {
			return false
		}
	case *ssa.UnOp:
		if c.Op == token.NOT {
			return g.condRefine(a, c.X, !val, blk)
		}
	case *ssa.BinOp:
		g.cmpRefine(a, c, val)
	case *ssa.Call, *ssa.Extract:
		if v, has := a.vals[g.k(cond)]; has && v.isConst() {
			return (v.k.Sign() != 0) == val
		}
	case *ssa.Phi:
		if c.Block() == blk && a.from >= 0 {
			for i, p := range blk.Preds {
				if p.Index == a.from {
					return g.condRefine(a, c.Edges[i], val, nil)
				}
			}
		}
		// a boolean phi bound earlier: use the recorded edge choice if any
		if pick, ok := a.meta["bphi:"+g.ctx+c.Name()]; ok {
			var idx int
			fmt.Sscanf(pick, "%d", &idx)
			if idx < len(c.Edges) {
				return g.condRefine(a, c.Edges[idx], val, nil)
			}
		}
	}
	return true
}

func (g *goProg) transfer(b int, in *AbsState, check bool) [][]*AbsState {
	blk := g.fn.Blocks[b]
	states := []*AbsState{in}
	for _, ins := range blk.Instrs[:len(blk.Instrs)-1] {
		var next []*AbsState
		for _, a := range states {
			next = append(next, g.step(a, ins, check)...)
		}
		states = next
	}
	outs := make([][]*AbsState, len(blk.Succs))
	last := blk.Instrs[len(blk.Instrs)-1]
	bind := func(a *AbsState, k int) *AbsState {
		// bind the phis of the successor for this edge
		succ := blk.Succs[k]
		pi := -1
		for i, p := range succ.Preds {
			if p == blk {
				pi = i
				// duplicate edges: first match is fine when both carry the same values
				break
			}
		}
		if check && g.hooks.onEdge != nil {
			g.hooks.onEdge(g, a, blk, succ)
		}
		newVals := map[string]Lin{}
		for _, ins := range succ.Instrs {
			ph, ok := ins.(*ssa.Phi)
			if !ok {
				break
			}
			e := ph.Edges[pi]
			switch {
			case isSliceType(ph.Type()):
				s := g.sliceOf(a, e)
				newVals[g.k(ph)+".len"], newVals[g.k(ph)+".cap"], newVals[g.k(ph)+".off"] = s.len, s.cap, s.off
			default:
				if _, _, isI := isIntType(ph.Type()); isI {
					newVals[g.k(ph)] = g.val(a, e)
				} else if bt, isB := ph.Type().Underlying().(*types.Basic); isB && bt.Kind() == types.Bool {
					a.meta["bphi:"+g.ctx+ph.Name()] = fmt.Sprint(pi)
				}
			}
		}
		for k2, v := range newVals {
			a.vals[k2] = v
		}
		return a
	}
	switch x := last.(type) {
	case *ssa.If:
		for _, a := range states {
			t, f := a.clone(), a
			okT := g.condRefine(t, x.Cond, true, blk)
			okF := g.condRefine(f, x.Cond, false, blk)
			if okT && t.st.feasible() {
				outs[0] = append(outs[0], bind(t, 0))
			}
			if okF && f.st.feasible() {
				outs[1] = append(outs[1], bind(f, 1))
			}
		}
	case *ssa.Jump:
		for _, a := range states {
			outs[0] = append(outs[0], bind(a, 0))
		}
	case *ssa.Return:
		if check && g.hooks.onReturn != nil {
			for _, a := range states {
				g.hooks.onReturn(g, a, x)
			}
		}
	case *ssa.Panic:
	}
	return outs
}

// computeLive: SSA liveness of integer / slice values at block entries.
func (g *goProg) computeLive() {
	n := len(g.fn.Blocks)
	use := make([]map[string]bool, n)
	def := make([]map[string]bool, n)
	keysOf := func(v ssa.Value) []string {
		switch v.(type) {
		case *ssa.Const, *ssa.Function, *ssa.Builtin, *ssa.Global:
			return nil
		}
		k := g.k(v)
		if isSliceType(v.Type()) {
			return []string{k + ".len", k + ".cap", k + ".off"}
		}
		if _, isIA := v.(*ssa.IndexAddr); isIA {
			return []string{k + ".elt"}
		}
		return []string{k}
	}
	for i, blk := range g.fn.Blocks {
		u, d := map[string]bool{}, map[string]bool{}
		for _, ins := range blk.Instrs {
			if ph, ok := ins.(*ssa.Phi); ok {
				for _, k := range keysOf(ph) {
					d[k] = true
				}
				continue
			}
			var ops []*ssa.Value
			for _, op := range ins.Operands(ops) {
				if *op == nil {
					continue
				}
				for _, k := range keysOf(*op) {
					if !d[k] {
						u[k] = true
					}
				}
				if al, isAl := (*op).(*ssa.Alloc); isAl {
					if !d[g.cellKey(al)] {
						u[g.cellKey(al)] = true
					}
				}
			}
			if v, ok := ins.(ssa.Value); ok {
				for _, k := range keysOf(v) {
					d[k] = true
				}
			}
		}
		use[i], def[i] = u, d
	}
	live := make([]map[string]bool, n)
	for i := range live {
		live[i] = map[string]bool{}
	}
	for changed := true; changed; {
		changed = false
		for i := n - 1; i >= 0; i-- {
			blk := g.fn.Blocks[i]
			out := map[string]bool{}
			for _, s := range blk.Succs {
				for k := range live[s.Index] {
					out[k] = true
				}
				// phi operands are live out of the predecessor
				for _, ins := range s.Instrs {
					ph, ok := ins.(*ssa.Phi)
					if !ok {
						break
					}
					for pi, p := range s.Preds {
						if p == blk {
							for _, k := range keysOf(ph.Edges[pi]) {
								out[k] = true
							}
						}
					}
				}
			}
			nl := map[string]bool{}
			for k := range use[i] {
				nl[k] = true
			}
			for k := range out {
				if !def[i][k] {
					nl[k] = true
				}
			}
			if len(nl) != len(live[i]) {
				changed = true
				live[i] = nl
			}
		}
	}
	// phis of a block are live at its entry (they are bound on the incoming edges)
	for i, blk := range g.fn.Blocks {
		for _, ins := range blk.Instrs {
			ph, ok := ins.(*ssa.Phi)
			if !ok {
				break
			}
			for _, k := range keysOf(ph) {
				live[i][k] = true
			}
		}
	}
	g.live = live
}

// analyseGoFunc runs the prover on one function.
// goPre: preconditions for the next analyseGoFunc call (consumed by it).
var goPre func(g *goProg, a *AbsState)

func analyseGoFunc(p *Program, fn *ssa.Function, name string, assertRoots []string, hooks goHooks, coll *collector) (*bndResult, *goProg, error) {
	tab := newSymTab()
	tab.allNonneg = true
	defaultTab = tab
	g := &goProg{fn: fn, prog: p, tab: tab, coll: coll, hooks: hooks, assertRoots: map[string]bool{}, lenSym: map[string]Lin{}, capSym: map[string]Lin{}, ordinal: map[ssa.Instruction]int{}, two63: qPow2(63), two64: qPow2(64), name: name, pre: goPre}
	goPre = nil
	for _, r := range assertRoots {
		g.assertRoots[r] = true
	}
	g.prepare()
	res, err := g.run()
	return res, g, err
}

// prepare computes instruction ordinals, finds the recovering defer and the liveness sets.
func (g *goProg) prepare() {
	fn := g.fn
	// ordinals by source position within the function, per instruction kind
	var all []ssa.Instruction
	allInstrs(fn, func(in ssa.Instruction) { all = append(all, in) })
	sort.SliceStable(all, func(i, j int) bool { return all[i].Pos() < all[j].Pos() })
	cnt := map[string]int{}
	for _, in := range all {
		kind := fmt.Sprintf("%T", in)
		cnt[kind]++
		g.ordinal[in] = cnt[kind]
	}
	// deferred recover?
	allInstrs(fn, func(in ssa.Instruction) {
		if d, ok := in.(*ssa.Defer); ok {
			var callee *ssa.Function
			if mc, isMC := d.Call.Value.(*ssa.MakeClosure); isMC {
				callee, _ = mc.Fn.(*ssa.Function)
			} else {
				callee = d.Call.StaticCallee()
			}
			if callee != nil {
				for _, f := range withAnon(callee) {
					allInstrs(f, func(j ssa.Instruction) {
						if _, isRec := isBuiltinCall(j, "recover"); isRec {
							g.recovers = true
							if g.recoverDefer == nil {
								g.recoverDefer = d
							}
						}
					})
				}
			}
		}
	})
	g.computeLive()
}

// run executes the fixpoint computation from g.initial().
func (g *goProg) run() (*bndResult, error) {
	fn, tab, coll := g.fn, g.tab, g.coll
	hc := &hullCtx{tab: tab, heads: map[int]*tmplHead{}}
	init := g.initial()
	for _, c := range init.st.cons {
		if hc.onlyGlobal(c) {
			hc.globals = append(hc.globals, c)
		}
	}
	if g.parent == nil {
		for _, prm := range fn.Params {
			if isSliceType(prm.Type()) {
				hc.anchors = append(hc.anchors, g.lenSym[prm.Name()])
			}
		}
	} else {
		var rn []string
		for r := range g.lenSym {
			rn = append(rn, r)
		}
		sort.Strings(rn)
		for _, r := range rn {
			hc.anchors = append(hc.anchors, g.lenSym[r])
		}
	}
	hc.liveAt = func(b int) map[string]bool { return g.live[b] }
	if g.parent != nil {
		// everything the caller knows stays live (and unchanged) across the callee
		outer := map[string]bool{}
		for k := range g.start.vals {
			if !strings.HasPrefix(k, g.ctx) && !strings.HasPrefix(k, "cell:"+g.ctx) {
				outer[k] = true
			}
		}
		cache := map[int]map[string]bool{}
		hc.liveAt = func(b int) map[string]bool {
			if m, ok := cache[b]; ok {
				return m
			}
			m := map[string]bool{}
			for k := range g.live[b] {
				m[k] = true
			}
			for k := range outer {
				m[k] = true
			}
			cache[b] = m
			return m
		}
	}
	keyType := map[string]types.Type{}
	for _, prm := range fn.Params {
		keyType[g.k(prm)] = prm.Type()
	}
	allInstrs(fn, func(in ssa.Instruction) {
		if v, ok := in.(ssa.Value); ok {
			keyType[g.k(v)] = v.Type()
			if al, isAl := v.(*ssa.Alloc); isAl {
				if pt, isP := al.Type().(*types.Pointer); isP {
					keyType[g.cellKey(al)] = pt.Elem()
				}
			}
		}
	})
	hc.diffAnchors = true
	hc.idPairs = true
	// widening thresholds: constants that comparisons of this function use
	{
		seenT := map[string]bool{}
		allInstrs(fn, func(in ssa.Instruction) {
			bo, ok := in.(*ssa.BinOp)
			if !ok {
				return
			}
			switch bo.Op {
			case token.LSS, token.LEQ, token.GTR, token.GEQ, token.EQL, token.NEQ:
			default:
				return
			}
			for _, o := range []ssa.Value{bo.X, bo.Y} {
				k, isK := o.(*ssa.Const)
				if !isK || k.Value == nil || k.Value.Kind() != constant.Int {
					continue
				}
				if _, _, isI := isIntType(k.Type()); !isI {
					continue
				}
				v := g.val(newAbs(), k)
				if !v.isConst() || v.k.Sign() <= 0 {
					continue
				}
				for _, q := range []Q{v.k.Sub(qi(1)), v.k, v.k.Add(qi(1))} {
					if !seenT[q.String()] {
						seenT[q.String()] = true
						hc.thresholds = append(hc.thresholds, q)
					}
				}
			}
		})
		sort.Slice(hc.thresholds, func(i, j int) bool { return hc.thresholds[i].Cmp(hc.thresholds[j]) < 0 })
	}
	hc.onPhi = func(key string, s Sym) {
		// integer SSA values of signed type may be negative
		g.tab.signed[s] = true
		g.tab.implLo[s], g.tab.implHi[s] = qPow2(63).Neg(), qPow2(64).Sub(qi(1))
		if t, ok := keyType[key]; ok {
			if lo, hi, isI := g.typeRange(t); isI {
				g.tab.implLo[s], g.tab.implHi[s] = lo, hi
				if lo.Sign() >= 0 {
					delete(g.tab.signed, s)
				}
			}
		} else if strings.HasSuffix(key, ".len") || strings.HasSuffix(key, ".cap") || strings.HasSuffix(key, ".off") || strings.HasSuffix(key, ".elt") {
			g.tab.implLo[s], g.tab.implHi[s] = lenLimit().Add(lenLimit()).Neg(), lenLimit().Add(lenLimit())
		}
	}
	var res *bndResult
	var err error
	func() {
		defer func() {
			if r := recover(); r != nil {
				if t, ok := r.(asmTrouble); ok {
					err = fmt.Errorf("%s", t.msg)
					return
				}
				panic(r)
			}
		}()
		res = runBnd(g, hc, coll, defaultIncs)
	}()
	return res, err
}

// ---------------------------------------------------------------------------
// Inlining of module-local helpers. A statically resolved, non-recursive callee
// of this module without defer/go is analysed in place: a nested fixpoint is run
// on its SSA from the state at the call (parameters bound to the arguments), and
// the states reaching its return statements, with the results bound to the call
// value, are the outcome of the call. Obligations inside the callee (accesses,
// writes, hooks) are recorded like those of the caller.

const inlineMaxBlocks = 80

func (g *goProg) onStack(f *ssa.Function) bool {
	for x := g; x != nil; x = x.parent {
		if x.fn == f {
			return true
		}
	}
	return false
}

func inlinable(f *ssa.Function) bool {
	if !inModule(f) || len(f.Blocks) > inlineMaxBlocks || len(f.FreeVars) > 0 {
		return false
	}
	ok := true
	allInstrs(f, func(in ssa.Instruction) {
		switch in.(type) {
		case *ssa.Defer, *ssa.Go, *ssa.Select, *ssa.Panic:
			ok = false
		}
	})
	return ok
}

func (g *goProg) inlineCall(a *AbsState, x *ssa.Call, f *ssa.Function, check bool) ([]*AbsState, bool) {
	if f == nil || g.hooks.noInline || x.Call.IsInvoke() || g.depth >= 2 || !inlinable(f) || g.onStack(f) {
		return nil, false
	}
	if g.hooks.inlineOnly != nil && !g.hooks.inlineOnly(g, a, x, f) {
		return nil, false
	}
	if len(x.Call.Args) != len(f.Params) {
		return nil, false
	}
	sub := &goProg{fn: f, prog: g.prog, tab: g.tab, hooks: g.hooks, recovers: g.recovers, assertRoots: g.assertRoots,
		lenSym: g.lenSym, capSym: g.capSym, ordinal: map[ssa.Instruction]int{}, two63: g.two63, two64: g.two64,
		name: g.name + "/" + f.Name(), parent: g, callSite: x, depth: g.depth + 1, paramRoot: map[string]string{},
		ctx: fmt.Sprintf("%si%d.%s/", g.ctx, g.ordinal[x], f.Name())}
	if check {
		sub.coll = g.coll
	} else {
		sub.coll = newCollector()
	}
	sub.hooks.onEdge = nil
	from := a.from
	resKey := g.k(x)
	tup, isTup := x.Type().(*types.Tuple)
	sub.hooks.onReturn = func(sg *goProg, st *AbsState, r *ssa.Return) {
		outs := []*AbsState{st.clone()}
		for i, res := range r.Results {
			key := resKey
			if isTup && tup.Len() > 1 {
				key = resKey + fmt.Sprintf("#%d", i)
			}
			var next []*AbsState
			for _, o := range outs {
				switch {
				case isSliceType(res.Type()):
					s := sg.sliceOf(o, res)
					o.vals[key+".len"], o.vals[key+".cap"], o.vals[key+".off"] = s.len, s.cap, s.off
					next = append(next, o)
				default:
					if _, _, isI := isIntType(res.Type()); isI {
						o.vals[key] = sg.val(o, res)
						next = append(next, o)
					} else if bt, isB := res.Type().Underlying().(*types.Basic); isB && bt.Kind() == types.Bool {
						next = append(next, sg.boolStates(o, res, key, r.Block())...)
					} else {
						next = append(next, o)
					}
				}
			}
			outs = next
		}
		for _, o := range outs {
			// drop the callee's local values
			for k := range o.vals {
				if strings.HasPrefix(k, sub.ctx) || strings.HasPrefix(k, "cell:"+sub.ctx) {
					delete(o.vals, k)
				}
			}
			for k := range o.meta {
				if strings.HasPrefix(k, sub.ctx) || strings.HasPrefix(k, "bphi:"+sub.ctx) {
					delete(o.meta, k)
				}
			}
			o.from = from
			sub.rets = append(sub.rets, o)
		}
	}
	// bind parameters
	st := a.clone()
	for i, prm := range f.Params {
		arg := x.Call.Args[i]
		pk := sub.k(prm)
		switch {
		case isSliceType(prm.Type()):
			s := g.sliceOf(st, arg)
			st.vals[pk+".len"], st.vals[pk+".cap"], st.vals[pk+".off"] = s.len, s.cap, s.off
			sub.paramRoot[prm.Name()] = s.root
			if st.meta[g.k(arg)+".open"] == "1" {
				st.meta[pk+".open"] = "1"
			}
		default:
			if _, _, isI := isIntType(prm.Type()); isI {
				st.vals[pk] = g.val(st, arg)
			}
			if _, isPtr := prm.Type().Underlying().(*types.Pointer); isPtr {
				if ap, isP := arg.(*ssa.Parameter); isP {
					bk := g.ctx + "p:" + ap.Name()
					if pb, ok := g.paramBase[ap.Name()]; ok {
						bk = pb
					}
					if sub.paramBase == nil {
						sub.paramBase = map[string]string{}
					}
					sub.paramBase[prm.Name()] = bk
				}
			}
		}
	}
	sub.start = st
	sub.prepare()
	sub.recovers = g.recovers
	res, err := sub.run()
	if err != nil || res == nil || res.trouble != "" {
		if check {
			g.coll.check("unanalysed", g.siteKey(x, "callee-"+f.Name()), g.prog.InstrPos(x), "the helper "+f.Name()+" is analysed together with its caller", false, func() string {
				if err != nil {
					return err.Error()
				}
				if res != nil {
					return res.trouble
				}
				return "nested analysis failed"
			})
		}
		return nil, false
	}
	var feas []*AbsState
	for _, o := range sub.rets {
		if o.st.feasible() {
			feas = append(feas, o)
		}
	}
	// keep the number of outcomes bounded: merge beyond the disjunct limit is left to the caller's joins
	return feas, true
}

// boolStates: the states in which the boolean value v is true / false, with the
// truth value recorded under key (1 / 0). Unknown shapes leave the key unset.
func (g *goProg) boolStates(a *AbsState, v ssa.Value, key string, blk *ssa.BasicBlock) []*AbsState {
	switch c := v.(type) {
	case *ssa.Const:
		if c.Value != nil && c.Value.Kind() == constant.Bool {
			if constant.BoolVal(c.Value) {
				a.vals[key] = linI(1)
			} else {
				a.vals[key] = linI(0)
			}
		}
		return []*AbsState{a}
	case *ssa.UnOp:
		if c.Op == token.NOT {
			outs := g.boolStates(a, c.X, key, blk)
			for _, o := range outs {
				if b, has := o.vals[key]; has && b.isConst() {
					if b.k.Sign() != 0 {
						o.vals[key] = linI(0)
					} else {
						o.vals[key] = linI(1)
					}
				}
			}
			return outs
		}
	case *ssa.BinOp:
		switch c.Op {
		case token.LSS, token.LEQ, token.GTR, token.GEQ, token.EQL, token.NEQ:
			if _, _, isI := isIntType(c.X.Type()); isI {
				t, f := a.clone(), a
				var outs []*AbsState
				if g.condRefine(t, c, true, nil) && t.st.feasible() {
					t.vals[key] = linI(1)
					outs = append(outs, t)
				}
				if g.condRefine(f, c, false, nil) && f.st.feasible() {
					f.vals[key] = linI(0)
					outs = append(outs, f)
				}
				return outs
			}
		}
	case *ssa.Phi:
		idx := -1
		if c.Block() == blk && a.from >= 0 {
			for i, p := range blk.Preds {
				if p.Index == a.from {
					idx = i
				}
			}
		}
		if pick, ok := a.meta["bphi:"+g.ctx+c.Name()]; ok && idx < 0 {
			fmt.Sscanf(pick, "%d", &idx)
		}
		if idx >= 0 && idx < len(c.Edges) {
			return g.boolStates(a, c.Edges[idx], key, nil)
		}
	case *ssa.Call, *ssa.Extract:
		if b, has := a.vals[g.k(v)]; has {
			a.vals[key] = b
		}
	}
	return []*AbsState{a}
}

// ---------------------------------------------------------------------------
// Field cells: a struct field reached from a pointer of this function (receiver,
// parameter, or a pointer value) by a chain of field selections is tracked like
// a local variable: key "fld:<base>:<Type.F1.F2>". A store through another base
// to the same field path, and any call that is not known to be free of writes,
// forgets it.

func (g *goProg) fieldCell(addr ssa.Value) string {
	fa, ok := addr.(*ssa.FieldAddr)
	if !ok {
		return ""
	}
	path := ""
	var base ssa.Value = fa
	for {
		x, isFA := base.(*ssa.FieldAddr)
		if !isFA {
			break
		}
		fn := fieldName(x.X.Type(), x.Field)
		if path == "" {
			path = fn
		} else {
			path = fn + "." + path
		}
		base = x.X
	}
	// base pointer: a parameter, a spilled parameter (load of a cell that only holds it), or another value
	bk := ""
	switch b := base.(type) {
	case *ssa.Parameter:
		bk = g.ctx + "p:" + b.Name()
		if pb, ok := g.paramBase[b.Name()]; ok {
			bk = pb // an inlined callee working on the caller's object
		}
	case *ssa.UnOp:
		if al, isAl := b.X.(*ssa.Alloc); isAl && b.Op == token.MUL {
			if sts := storesTo(al); len(sts) == 1 {
				if prm, isP := sts[0].Val.(*ssa.Parameter); isP {
					bk = g.ctx + "p:" + prm.Name()
				}
			}
		}
	}
	if bk == "" {
		bk = g.k(base)
	}
	return "fld:" + bk + ":" + typeName(base.Type()) + "." + path
}

// killField forgets every cell of the same field path held under another base (possible alias).
func (g *goProg) killField(a *AbsState, addr ssa.Value, keep string) {
	path := ""
	if keep != "" {
		path = keep[strings.LastIndex(keep, ":")+1:]
	} else if fa, ok := addr.(*ssa.FieldAddr); ok {
		path = typeName(fa.X.Type()) + "." + fieldName(fa.X.Type(), fa.Field)
	}
	if path == "" {
		g.killAllFields(a)
		return
	}
	fieldOnly := path[strings.Index(path, ".")+1:]
	for k := range a.vals {
		if !strings.HasPrefix(k, "fld:") || strings.HasPrefix(k, "fld:orig:") {
			continue
		}
		base := strings.TrimSuffix(strings.TrimSuffix(strings.TrimSuffix(k, ".len"), ".cap"), ".off")
		if keep != "" && base == keep {
			continue
		}
		kp := base[strings.LastIndex(base, ":")+1:]
		// same last field name: may be the same location through another route
		if kp == path || strings.HasSuffix(kp, "."+fieldOnly) || strings.HasSuffix(path, "."+kp[strings.Index(kp, ".")+1:]) {
			delete(a.vals, k)
		}
	}
}

func (g *goProg) killAllFields(a *AbsState) {
	for k := range a.vals {
		if strings.HasPrefix(k, "fld:") {
			delete(a.vals, k)
		}
	}
}

var pureMemo = map[*ssa.Function]int{}

// pureCallee: a module function without stores, sends, go/defer and with only
// pure callees (getters and small arithmetic helpers), or a known side-effect
// free library function. Unknown callees are not pure.
func pureCallee(f *ssa.Function) bool {
	if f == nil {
		return false
	}
	if f.Pkg != nil {
		switch f.Pkg.Pkg.Path() {
		case "math/bits", "encoding/binary":
			return !strings.HasPrefix(f.Name(), "Put")
		}
	}
	if !inModule(f) {
		return false
	}
	if v, ok := pureMemo[f]; ok {
		return v == 1
	}
	pureMemo[f] = 2 // in progress: recursion is not pure
	ok := true
	allInstrs(f, func(in ssa.Instruction) {
		switch x := in.(type) {
		case *ssa.Store:
			if _, isAl := x.Addr.(*ssa.Alloc); !isAl {
				ok = false
			}
		case *ssa.Send, *ssa.Go, *ssa.Defer, *ssa.MapUpdate, *ssa.Select, *ssa.Panic:
			ok = false
		case *ssa.Call:
			if _, isB := x.Call.Value.(*ssa.Builtin); isB {
				if b := x.Call.Value.(*ssa.Builtin); b.Name() == "copy" || b.Name() == "append" || b.Name() == "clear" || b.Name() == "delete" {
					ok = false
				}
				return
			}
			if !pureCallee(staticCallee(x)) {
				ok = false
			}
		}
	})
	if ok {
		pureMemo[f] = 1
	} else {
		pureMemo[f] = 0
	}
	return ok
}

// localBase: the address is a field (chain) of a local variable that does not escape: a store through it cannot
// alias a field reached through a parameter.
func localBase(addr ssa.Value) bool {
	for {
		switch x := addr.(type) {
		case *ssa.FieldAddr:
			addr = x.X
		case *ssa.Alloc:
			return !x.Heap
		default:
			return false
		}
	}
}

// baseKeyOf: the key prefix under which the field cells of the object that ptr points to are kept.
func (g *goProg) baseKeyOf(ptr ssa.Value) string {
	switch b := ptr.(type) {
	case *ssa.Parameter:
		if pb, ok := g.paramBase[b.Name()]; ok {
			return pb
		}
		return g.ctx + "p:" + b.Name()
	case *ssa.UnOp:
		if al, isAl := b.X.(*ssa.Alloc); isAl && b.Op == token.MUL {
			if sts := storesTo(al); len(sts) == 1 {
				if prm, isP := sts[0].Val.(*ssa.Parameter); isP {
					if pb, ok := g.paramBase[prm.Name()]; ok {
						return pb
					}
					return g.ctx + "p:" + prm.Name()
				}
			}
		}
	}
	return g.k(ptr)
}

// storeStruct: *dst = v for a struct value. When v is the content of a local composite literal (a load of a
// non-escaping Alloc) the field cells of the literal become the field cells of *dst, fields the literal does not
// mention are zero; otherwise the cells of *dst are forgotten.
func (g *goProg) storeStruct(a *AbsState, st *ssa.Store) {
	if _, isFA := st.Addr.(*ssa.FieldAddr); isFA {
		// a struct-valued field: forget what is known below it
		pfx := g.fieldCell(st.Addr)
		for k := range a.vals {
			if pfx != "" && strings.HasPrefix(k, pfx+".") {
				delete(a.vals, k)
			}
		}
		return
	}
	dstBase := g.baseKeyOf(st.Addr)
	tn := typeName(st.Addr.Type())
	pfx := "fld:" + dstBase + ":" + tn + "."
	for k := range a.vals {
		if strings.HasPrefix(k, pfx) {
			delete(a.vals, k)
		}
	}
	stt, _ := st.Val.Type().Underlying().(*types.Struct)
	if stt == nil {
		return
	}
	srcPfx := ""
	if _, isZero := st.Val.(*ssa.Const); isZero {
		// the zero value (the builder initialises a composite literal in place: zero, then field stores)
		srcPfx = "fld:\x00none:"
	} else {
		ld, ok := st.Val.(*ssa.UnOp)
		if !ok || ld.Op != token.MUL {
			return
		}
		al, ok := ld.X.(*ssa.Alloc)
		if !ok || al.Heap {
			return
		}
		srcPfx = "fld:" + g.k(al) + ":" + tn + "."
	}
	for i := 0; i < stt.NumFields(); i++ {
		f := stt.Field(i)
		sk, dk := srcPfx+f.Name(), pfx+f.Name()
		switch {
		case isSliceType(f.Type()):
			if l, has := a.vals[sk+".len"]; has {
				a.vals[dk+".len"], a.vals[dk+".cap"], a.vals[dk+".off"] = l, a.vals[sk+".cap"], a.vals[sk+".off"]
			} else {
				a.vals[dk+".len"], a.vals[dk+".cap"], a.vals[dk+".off"] = linI(0), linI(0), linI(0)
			}
		default:
			if _, _, isI := isIntType(f.Type()); isI {
				if v, has := a.vals[sk]; has {
					a.vals[dk] = v
				} else {
					a.vals[dk] = linI(0)
				}
			}
		}
	}
}
