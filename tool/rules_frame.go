package main

import (
	"fmt"
	"go/token"
	"go/types"
	"sort"
	"strings"

	"golang.org/x/tools/go/ssa"
)

// Rules over the frame layer (internal/lz4stream) shared by C02, C05, C06,
// C09, C15. Each rule function takes the rule id under which the calling
// property reports it.

// ---------------------------------------------------------------------------
// helpers

// structural atoms: everything except error checks.
func structAtoms(b *ssa.BasicBlock) []Atom {
	var out []Atom
	all := atomsOfBlockLocal(b)
	if b != nil && b.Parent() != nil {
		// exact guard sets: only the flag / legacy guards common to all call sites are inherited
		all = append(all, inheritedAtoms(b.Parent(), 2, false)...)
	}
	for _, a := range all {
		if a.Kind == "errnil" {
			continue
		}
		out = append(out, a)
	}
	return out
}

// relAtoms: atoms of site that are not atoms of anchor.
func relAtoms(site, anchor *ssa.BasicBlock) []string {
	have := map[string]bool{}
	if anchor != nil {
		for _, a := range structAtoms(anchor) {
			have[a.String()] = true
		}
	}
	var out []string
	for _, a := range structAtoms(site) {
		if !have[a.String()] {
			out = append(out, a.String())
		}
	}
	sort.Strings(out)
	// de-duplicate
	var d []string
	for i, s := range out {
		if i == 0 || out[i-1] != s {
			d = append(d, s)
		}
	}
	return d
}

func sameSet(a, b []string) bool {
	if len(a) != len(b) {
		return false
	}
	x := append([]string{}, a...)
	y := append([]string{}, b...)
	sort.Strings(x)
	sort.Strings(y)
	for i := range x {
		if x[i] != y[i] {
			return false
		}
	}
	return true
}

func isBinaryLE(ci ssa.CallInstruction, name string) bool {
	f := staticCallee(ci)
	return f != nil && f.Pkg != nil && f.Pkg.Pkg.Path() == "encoding/binary" && f.Name() == name
}

// leValueArg returns the value argument of a PutUintNN call.
func leValueArg(ci ssa.CallInstruction) ssa.Value {
	a := ci.Common().Args
	return a[len(a)-1]
}

// isSinkWrite: an interface invoke of io.Writer.Write.
func isSinkWrite(in ssa.Instruction) (*ssa.CallCommon, bool) {
	ci, ok := in.(ssa.CallInstruction)
	if !ok {
		return nil, false
	}
	c := ci.Common()
	if c.IsInvoke() && c.Method.Name() == "Write" && c.Method.Pkg() == nil || (c.IsInvoke() && c.Method.Name() == "Write" && c.Method.Pkg() != nil && c.Method.Pkg().Path() == "io") {
		return c, true
	}
	return nil, false
}

func findFn(c *Check, p *Program, rule, rel, name string) *ssa.Function {
	fn := p.Func(rel, name)
	if fn == nil {
		c.Fail(rule, name, "", "anchor function must exist", "function "+name+" not found in "+rel+" (anchor unresolved)")
		return nil
	}
	c.Funcs[fname(fn)] = true
	if t := forwardTarget(fn); t != nil {
		// the anchor only forwards to an unexported function of its package: that one carries the logic
		c.Funcs[fname(t)] = true
		return t
	}
	return fn
}

// ---------------------------------------------------------------------------
// R02.1 / R09.1: presence of optional wire fields, writer vs reader guards

func ruleWireFields(c *Check, p *Program, rule string) {
	wr := findFn(c, p, rule, "internal/lz4stream", "FrameDataBlock.Write")
	rd := findFn(c, p, rule, "internal/lz4stream", "FrameDataBlock.Read")
	dw := findFn(c, p, rule, "internal/lz4stream", "FrameDescriptor.Write")
	dr := findFn(c, p, rule, "internal/lz4stream", "FrameDescriptor.initR")
	cw := findFn(c, p, rule, "internal/lz4stream", "Frame.CloseW")
	cr := findFn(c, p, rule, "internal/lz4stream", "Frame.CloseR")
	if wr == nil || rd == nil || dw == nil || dr == nil || cw == nil || cr == nil {
		return
	}
	// --- block checksum
	var wSite, wAnchor *ssa.BasicBlock
	var wPos string
	// in Write itself first (a word-emitting helper called with the field counts there); only when the field is not
	// emitted there, in the helpers Write was split into
	for pass, calls := range [][]ssa.CallInstruction{callsIn(wr), callsInDeep(wr)} {
		if pass == 1 && wSite != nil {
			break
		}
		for _, ci := range calls {
			if v := leEmits(ci, "PutUint32"); v != nil {
				switch {
				case derivesFromField(v, "FrameDataBlock.Checksum"):
					if wSite == nil {
						wSite = ci.Block()
						wPos = p.InstrPos(ci)
					}
				case derivesFromField(v, "FrameDataBlock.Size"):
					if wAnchor == nil {
						wAnchor = ci.Block()
					}
				}
			}
		}
	}
	// the same words written out byte by byte into the frame's scratch buffer
	allInstrsDeep(wr, func(in ssa.Instruction) {
		st, ok := in.(*ssa.Store)
		if !ok {
			return
		}
		ia, isIA := st.Addr.(*ssa.IndexAddr)
		if !isIA || !(lastField(ia.X) == "Frame.buf" || derivesFromField(ia.X, "Frame.buf")) {
			return
		}
		switch {
		case derivesFromFieldArith(st.Val, "FrameDataBlock.Checksum"):
			if wSite == nil {
				wSite, wPos = in.Block(), p.InstrPos(in)
			}
		case derivesFromFieldArith(st.Val, "FrameDataBlock.Size"):
			if wAnchor == nil {
				wAnchor = in.Block()
			}
		}
	})
	var rSite, rAnchor *ssa.BasicBlock
	var rPos string
	allInstrsDeep(rd, func(in ssa.Instruction) {
		if st, ok := in.(*ssa.Store); ok {
			switch lastField(st.Addr) {
			case "FrameDataBlock.Checksum":
				if derivesFromCall(st.Val, func(f *ssa.Function) bool {
					return isSourceRead32(f) || (f.Pkg != nil && f.Pkg.Pkg.Path() == "encoding/binary" && strings.HasPrefix(f.Name(), "Uint"))
				}) {
					rSite = in.Block()
					rPos = p.InstrPos(in)
				}
			}
		}
		// anchor: the mandatory payload read that precedes the optional checksum
		if ci, ok := in.(ssa.CallInstruction); ok && calleeIs(ci, "io", "ReadFull") && derivesFromField(ci.Common().Args[1], "FrameDataBlock.data") {
			rAnchor = in.Block()
		}
	})
	checkField := func(name string, site, anchor *ssa.BasicBlock, pos string, want []string, side string) {
		key := side + "#" + name
		desc := fmt.Sprintf("%s of the %s is governed exactly by {%s}", map[string]string{"writer": "emission", "reader": "consumption"}[side], name, strings.Join(want, ", "))
		if site == nil {
			c.Fail(rule, key, "", desc, "site not found: the "+side+" has no "+name+" field access (anchor unresolved)")
			return
		}
		c.Sites++
		got := relAtoms(site, anchor)
		c.Cond(sameSet(got, want), rule, key, pos, desc, "guards {"+strings.Join(got, ", ")+"}", "guards are {"+strings.Join(got, ", ")+"}, expected {"+strings.Join(want, ", ")+"}")
	}
	checkField("block checksum", wSite, wAnchor, wPos, []string{"!legacy", "flag:BlockChecksum"}, "writer")
	// reader: legacy frames have their flags zeroed by initR (checked by R02.2), so the flag alone governs
	checkField("block checksum", rSite, rAnchor, rPos, []string{"flag:BlockChecksum"}, "reader")

	// --- content size and descriptor bytes
	var sSite, sAnchor, fSite *ssa.BasicBlock
	var sPos, fPos string
	for _, ci := range callsInDeep(dw) {
		switch {
		case isBinaryLE(ci, "PutUint64") && derivesFromField(leValueArg(ci), "FrameDescriptor.ContentSize"):
			sSite, sPos = ci.Block(), p.InstrPos(ci)
		case isBinaryLE(ci, "PutUint32") && derivesFromField(leValueArg(ci), "Frame.Magic"):
			sAnchor = ci.Block()
		case isBinaryLE(ci, "PutUint16") && derivesFromField(leValueArg(ci), "FrameDescriptor.Flags"):
			fSite, fPos = ci.Block(), p.InstrPos(ci)
		}
	}
	checkField("descriptor flags", fSite, sAnchor, fPos, []string{"!legacy"}, "writer")
	checkField("content size", sSite, sAnchor, sPos, []string{"!legacy", "flag:Size"}, "writer")
	var rsSite, rfSite *ssa.BasicBlock
	var rsPos, rfPos string
	allInstrsDeep(dr, func(in ssa.Instruction) {
		if st, ok := in.(*ssa.Store); ok {
			switch lastField(st.Addr) {
			case "FrameDescriptor.ContentSize":
				rsSite, rsPos = in.Block(), p.InstrPos(in)
			case "FrameDescriptor.Flags":
				if _, isConst := st.Val.(*ssa.Const); !isConst {
					rfSite, rfPos = in.Block(), p.InstrPos(in)
				}
			}
		}
	})
	checkField("descriptor flags", rfSite, nil, rfPos, []string{"!legacy"}, "reader")
	checkField("content size", rsSite, nil, rsPos, []string{"!legacy", "flag:Size"}, "reader")

	// --- end mark and content checksum
	var emSite, ccSite, finalWrite *ssa.BasicBlock
	var emPos, ccPos string
	allInstrsDeep(cw, func(in ssa.Instruction) {
		if cc, ok := isBuiltinCall(in, "append"); ok && len(cc.Args) == 2 {
			if isFourZeros(cc.Args[1]) {
				emSite, emPos = in.Block(), p.InstrPos(in)
			}
		}
		if ci, ok := in.(ssa.CallInstruction); ok && isBinaryLE(ci, "PutUint32") {
			if k, isK := constUint(leValueArg(ci)); isK && k == 0 {
				emSite, emPos = in.Block(), p.InstrPos(in)
			}
		}
		if ci, ok := in.(ssa.CallInstruction); ok {
			if f := staticCallee(ci); f != nil && f.Pkg != nil && f.Pkg.Pkg.Path() == pkgXXH && (f.Name() == "Sum" || f.Name() == "Sum32") {
				ccSite, ccPos = in.Block(), p.InstrPos(in)
			}
		}
		if _, ok := isSinkWrite(in); ok {
			finalWrite = in.Block()
		}
	})
	checkField("end mark", emSite, nil, emPos, []string{"!legacy"}, "writer")
	checkField("content checksum", ccSite, nil, ccPos, []string{"!legacy", "flag:ContentChecksum"}, "writer")
	if finalWrite == nil {
		c.Fail(rule, "writer#trailer-write", p.Pos(cw.Pos()), "the trailer is written to the sink", "no sink write in CloseW")
	} else {
		got := relAtoms(finalWrite, nil)
		c.Cond(sameSet(got, []string{"!legacy"}), rule, "writer#trailer-write", p.InstrPos(finalWrite.Instrs[0]), "the trailer write is governed exactly by {!legacy}", "guards {"+strings.Join(got, ", ")+"}", "guards are {"+strings.Join(got, ", ")+"}")
	}
	var rcSite *ssa.BasicBlock
	var rcPos string
	allInstrsDeep(cr, func(in ssa.Instruction) {
		if st, ok := in.(*ssa.Store); ok && lastField(st.Addr) == "Frame.Checksum" && derivesFromCall(st.Val, isSourceRead32) {
			rcSite, rcPos = in.Block(), p.InstrPos(in)
		}
	})
	checkField("content checksum", rcSite, nil, rcPos, []string{"!legacy", "flag:ContentChecksum"}, "reader")
	// reader end mark: the synthetic EOF on x == 0 must be governed by !legacy and x==0
	var emr *ssa.BasicBlock
	var emrPos string
	var xval ssa.Value
	allInstrsDeep(rd, func(in ssa.Instruction) {
		if r, ok := in.(*ssa.Return); ok && len(r.Results) == 2 && isGlobalLoad(r.Results[1], "io", "EOF") {
			ats := atomsOfBlock(in.Block())
			if hasAtom(ats, "legacy", "", false) {
				emr, emrPos = in.Block(), p.InstrPos(in)
			}
		}
		if st, ok := in.(*ssa.Store); ok && lastField(st.Addr) == "FrameDataBlock.Size" {
			xval = stripConv(st.Val)
		}
	})
	if emr == nil {
		c.Fail(rule, "reader#end mark", p.Pos(rd.Pos()), "a zero block size ends a non-legacy frame", "no io.EOF return under !legacy in FrameDataBlock.Read")
	} else {
		okx := false
		for _, l := range guardsOf(emr) {
			if b, ok := l.Cond.(*ssa.BinOp); ok && b.Op == token.EQL && l.Val {
				if k, isK := constUint(b.Y); isK && k == 0 && (xval == nil || stripConv(b.X) == xval) {
					okx = true
				}
			}
		}
		got := relAtoms(emr, nil)
		c.Cond(okx && len(got) == 2, rule, "reader#end mark", emrPos, "the end mark is recognised exactly when the size word is 0 in a non-legacy frame", "guards {"+strings.Join(got, ", ")+"}", "guards are {"+strings.Join(got, ", ")+"}; expected {!legacy, size word == 0}")
	}
}

func isFourZeros(v ssa.Value) bool {
	sl, ok := v.(*ssa.Slice)
	if !ok {
		return false
	}
	al, ok := sl.X.(*ssa.Alloc)
	if !ok {
		return false
	}
	pt, ok := al.Type().(*types.Pointer)
	if !ok {
		return false
	}
	arr, ok := pt.Elem().(*types.Array)
	if !ok || arr.Len() != 4 {
		return false
	}
	n := 0
	for _, r := range *al.Referrers() {
		if ia, ok := r.(*ssa.IndexAddr); ok {
			for _, rr := range *ia.Referrers() {
				if st, ok := rr.(*ssa.Store); ok {
					if k, isK := constUint(st.Val); isK && k == 0 {
						n++
					} else {
						return false
					}
				}
			}
		}
	}
	return n == 4
}

// isSourceRead32: the frame's 4-byte source read helper (a function of lz4stream
// that calls io.ReadFull and returns (uint32, error)).
func isSourceRead32(f *ssa.Function) bool {
	if f == nil || f.Pkg == nil || f.Pkg.Pkg.Path() != pkgStream || f.Blocks == nil {
		return false
	}
	r := f.Signature.Results()
	if r.Len() != 2 || widthOf(r.At(0).Type()) != 32 || !isErrorType(r.At(1).Type()) {
		return false
	}
	if !callsFunc(f, "io", "ReadFull") {
		return false
	}
	// a pure wrapper: nothing but the read and the little-endian decoding
	for _, ci := range callsIn(f) {
		g := staticCallee(ci)
		if g == nil || g.Pkg == nil {
			return false
		}
		if pp := g.Pkg.Pkg.Path(); pp != "io" && pp != "encoding/binary" {
			return false
		}
	}
	return true
}

// ---------------------------------------------------------------------------
// R02.2 / R09.2: legacy neutrality on the read side (the write side is covered
// by the !legacy atoms demanded by ruleWireFields)

func ruleLegacyNeutral(c *Check, p *Program, rule string) {
	dr := findFn(c, p, rule, "internal/lz4stream", "FrameDescriptor.initR")
	if dr == nil {
		return
	}
	// in the legacy branch the flags word is reset before the block-size index is set
	var zeroStore, idxSet ssa.Instruction
	allInstrs(dr, func(in ssa.Instruction) {
		if !hasAtom(atomsOfBlock(in.Block()), "legacy", "", true) {
			return
		}
		if st, ok := in.(*ssa.Store); ok && lastField(st.Addr) == "FrameDescriptor.Flags" {
			if k, isK := constUint(st.Val); isK && k == 0 {
				zeroStore = in
			}
		}
		if ci, ok := in.(ssa.CallInstruction); ok && callReaches(ci, func(x ssa.CallInstruction) bool { return calleeIs(x, pkgStream, "DescriptorFlags.BlockSizeIndexSet") }) {
			idxSet = in
		}
	})
	ok := zeroStore != nil && idxSet != nil && zeroStore.Block() == idxSet.Block() && idxOf(zeroStore) < idxOf(idxSet)
	pos := p.Pos(dr.Pos())
	if zeroStore != nil {
		pos = p.InstrPos(zeroStore)
	}
	c.Cond(ok, rule, "initR#legacy-resets-flags", pos, "on the legacy path the descriptor flags are cleared (no checksums, no size) before the 8 MiB block-size code is set",
		"Flags = 0 precedes BlockSizeIndexSet under the legacy guard", "the legacy branch of initR does not clear stale descriptor flags before setting the block-size index")
	// legacy block size index is the 8Mb one on both sides
	for _, fnName := range []string{"FrameDescriptor.initR", "Frame.InitW"} {
		fn := findFn(c, p, rule, "internal/lz4stream", fnName)
		if fn == nil {
			continue
		}
		good := false
		deepCalls(fn, 2, func(ci ssa.CallInstruction, chain []ssa.CallInstruction) {
			if !calleeIs(ci, pkgStream, "DescriptorFlags.BlockSizeIndexSet") {
				return
			}
			legacyGuard := false
			blocks := []*ssa.BasicBlock{ci.Block()}
			for _, cc := range chain {
				blocks = append(blocks, cc.Block())
			}
			for _, blk := range blocks {
				if hasAtom(atomsOfBlockLocal(blk), "legacy", "", true) {
					legacyGuard = true
				}
				// InitW: guarded by the `legacy` parameter
				for _, l := range guardsOf(blk) {
					if pr, isP := l.Cond.(*ssa.Parameter); isP && pr.Name() == "legacy" && l.Val {
						legacyGuard = true
					}
				}
			}
			if !legacyGuard {
				return
			}
			arg := ci.Common().Args[len(ci.Common().Args)-1]
			if call, isC := arg.(*ssa.Call); isC && calleeIs(call, pkgBlock, "Index") {
				if k, isK := constUint(call.Call.Args[0]); isK && k == 8<<20 {
					good = true
				}
			}
		})
		c.Cond(good, rule, fnName+"#legacy-blocksize", p.Pos(fn.Pos()), "legacy frames use the 8 MiB block-size code", "BlockSizeIndexSet(Index(8 MiB)) under the legacy guard", "no BlockSizeIndexSet(Index(8388608)) under the legacy guard")
	}
	// InitW legacy: magic constants
	iw := p.Func("internal/lz4stream", "Frame.InitW")
	if iw != nil {
		var leg, mod bool
		allInstrs(iw, func(in ssa.Instruction) {
			if st, ok := in.(*ssa.Store); ok && lastField(st.Addr) == "Frame.Magic" {
				k, isK := constUint(st.Val)
				if !isK {
					return
				}
				lg := false
				lgNeg := false
				for _, l := range guardsOf(in.Block()) {
					if pr, isP := l.Cond.(*ssa.Parameter); isP && pr.Name() == "legacy" {
						lg = l.Val
						lgNeg = !l.Val
					}
				}
				if lg && k == magicLegacy {
					leg = true
				}
				if lgNeg && k == magicFrame {
					mod = true
				}
			}
		})
		c.Cond(leg && mod, rule, "Frame.InitW#magic", p.Pos(iw.Pos()), "InitW stores the legacy magic exactly in legacy mode and the frame magic otherwise", "both constant stores found under the right polarity", "magic constants or their guards differ from the specification")
	}
}

// ---------------------------------------------------------------------------
// R05.2: block checksum comparison on every accepting path of Uncompress

func ruleBlockChecksumVerified(c *Check, p *Program, rule string) {
	fn := findFn(c, p, rule, "internal/lz4stream", "FrameDataBlock.Uncompress")
	if fn == nil {
		return
	}
	isSum := func(v ssa.Value) bool {
		return derivesFromCall(v, func(f *ssa.Function) bool { return f.Pkg != nil && f.Pkg.Pkg.Path() == pkgXXH && f.Name() == "ChecksumZero" })
	}
	isStored := func(v ssa.Value) bool { return !isSum(v) && loadField(v) == "FrameDataBlock.Checksum" }
	edges := findEqEdges(fn, isSum, isStored)
	pos := p.Pos(fn.Pos())
	if len(edges) != 1 {
		c.Fail(rule, "Uncompress#blockchecksum-compare", pos, "the block checksum read from the frame is compared with the hash of the block", fmt.Sprintf("found %d comparisons of ChecksumZero(...) with FrameDataBlock.Checksum (need 1)", len(edges)))
		return
	}
	e := edges[0]
	c.Sites++
	// With the equal edge removed, every reachable non-error return must lie on a path where the flag is off.
	reach := reachWithoutEdge(fn, e.ifi.Block(), e.eqIx)
	ok := true
	var why []string
	accepting := 0
	allInstrs(fn, func(in ssa.Instruction) {
		r, isR := in.(*ssa.Return)
		if !isR || len(r.Results) != 2 || !mayBeNilErr(r.Results[1], in.Block()) {
			return
		}
		accepting++
		if !reach[in.Block()] {
			return
		}
		// reachable without equality: is there a path with flag on? -> check by deleting, in addition, the flag-off edges
		if reachableAvoidingFlagOff(fn, in.Block(), e, "BlockChecksum") {
			ok = false
			why = append(why, "the accepting return at "+p.InstrPos(in)+" is reachable with block checksums declared but without the comparison having succeeded")
		}
	})
	if accepting == 0 {
		ok = false
		why = append(why, "no accepting return")
	}
	c.Cond(ok, rule, "Uncompress#accept-needs-blockchecksum-equal", p.InstrPos(e.cmp), "with the BlockChecksum flag set, every accepting return of Uncompress lies behind the equal edge of the block checksum comparison (stored and compressed blocks alike)",
		fmt.Sprintf("%d accepting return(s); none reachable with the flag on once the equal edge is deleted", accepting), strings.Join(why, "; "))
	// the comparison is guarded by the flag only
	got := relAtoms(e.ifi.Block(), nil)
	c.Cond(sameSet(got, []string{"flag:BlockChecksum"}), rule, "Uncompress#blockchecksum-guard", p.InstrPos(e.cmp), "the comparison is governed exactly by {flag:BlockChecksum}", "guards {"+strings.Join(got, ", ")+"}", "guards are {"+strings.Join(got, ", ")+"}")
	// failure return wraps the block checksum sentinel
	bc, _ := errSentinel(p, "ErrInvalidBlockChecksum")
	saw := false
	unreach := reachWithoutEdge(fn, e.ifi.Block(), 1-e.eqIx)
	allInstrs(fn, func(in ssa.Instruction) {
		if r, isR := in.(*ssa.Return); isR && len(r.Results) == 2 && !unreach[in.Block()] {
			for _, s := range sentinelsIn(r.Results[1]) {
				if s == bc {
					saw = true
				}
			}
		}
	})
	c.Cond(saw, rule, "Uncompress#blockchecksum-sentinel", p.InstrPos(e.cmp), "a mismatch is reported as ErrInvalidBlockChecksum", "the unequal edge leads to a return wrapping the sentinel", "the unequal edge does not return ErrInvalidBlockChecksum")
}

// reachableAvoidingFlagOff: is `target` reachable from the entry when the equal
// edge e is deleted and every edge on which flag `name` is false is deleted too?
func reachableAvoidingFlagOff(fn *ssa.Function, target *ssa.BasicBlock, e eqEdge, name string) bool {
	seen := map[*ssa.BasicBlock]bool{fn.Blocks[0]: true}
	stack := []*ssa.BasicBlock{fn.Blocks[0]}
	for len(stack) > 0 {
		b := stack[len(stack)-1]
		stack = stack[:len(stack)-1]
		if b == target {
			return true
		}
		for k, s := range b.Succs {
			if b == e.ifi.Block() && k == e.eqIx {
				continue
			}
			if ifi, ok := b.Instrs[len(b.Instrs)-1].(*ssa.If); ok {
				a := atomOf(ifi.Cond, k == 0)
				if a.Kind == "flag" && a.Name == name && !a.Val {
					continue
				}
			}
			if !seen[s] {
				seen[s] = true
				stack = append(stack, s)
			}
		}
	}
	return false
}

// ---------------------------------------------------------------------------
// R05.3: content checksum comparison in CloseR and its use on every end-of-stream path

func ruleContentChecksumVerified(c *Check, p *Program, rule string) {
	cr := findFn(c, p, rule, "internal/lz4stream", "Frame.CloseR")
	if cr == nil {
		return
	}
	isSum := func(v ssa.Value) bool {
		return derivesFromCall(v, func(f *ssa.Function) bool { return f.Pkg != nil && f.Pkg.Pkg.Path() == pkgXXH && f.Name() == "Sum32" })
	}
	// the stored value: the word read from the source here, through the field or directly
	isStored := func(v ssa.Value) bool {
		return !isSum(v) && (loadField(v) == "Frame.Checksum" || derivesFromCall(v, isSourceRead32))
	}
	edges := findEqEdges(cr, isSum, isStored)
	if len(edges) != 1 {
		c.Fail(rule, "CloseR#contentchecksum-compare", p.Pos(cr.Pos()), "the content checksum read from the frame is compared with the running hash", fmt.Sprintf("found %d comparisons of checksum.Sum32() with Frame.Checksum (need 1)", len(edges)))
		return
	}
	e := edges[0]
	c.Sites++
	// search from the entry without the equal edge, without the legacy edge and without the
	// "no content checksum" edge: no accepting return may be reachable
	ok := true
	var why []string
	{
		seen := map[*ssa.BasicBlock]bool{}
		var walk func(b *ssa.BasicBlock)
		walk = func(b *ssa.BasicBlock) {
			if seen[b] {
				return
			}
			seen[b] = true
			for _, in := range b.Instrs {
				if r, isR := in.(*ssa.Return); isR && len(r.Results) == 1 && mayBeNilErr(r.Results[0], b) {
					ok = false
					why = append(why, "the accepting return at "+p.InstrPos(in)+" is reachable without the content checksum comparison having succeeded and is not confined to legacy / checksum-less frames")
				}
			}
			ifi, isIf := b.Instrs[len(b.Instrs)-1].(*ssa.If)
			for k, s := range b.Succs {
				if b == e.ifi.Block() && k == e.eqIx {
					continue
				}
				if isIf {
					a := atomOf(ifi.Cond, k == 0)
					if (a.Kind == "legacy" && a.Val) || (a.Kind == "flag" && a.Name == "ContentChecksum" && !a.Val) {
						continue
					}
				}
				walk(s)
			}
		}
		walk(cr.Blocks[0])
	}
	c.Cond(ok, rule, "CloseR#accept-needs-contentchecksum-equal", p.InstrPos(e.cmp), "every accepting return of CloseR is behind the equal edge of the content checksum comparison, or confined to legacy frames / frames without content checksum", "edge deletion leaves only the legacy and flag-off returns", strings.Join(why, "; "))
	fcs, _ := errSentinel(p, "ErrInvalidFrameChecksum")
	saw := false
	unreach := reachWithoutEdge(cr, e.ifi.Block(), 1-e.eqIx)
	allInstrs(cr, func(in ssa.Instruction) {
		if r, isR := in.(*ssa.Return); isR && len(r.Results) == 1 && !unreach[in.Block()] {
			for _, s := range sentinelsIn(r.Results[0]) {
				if s == fcs {
					saw = true
				}
			}
		}
	})
	c.Cond(saw, rule, "CloseR#contentchecksum-sentinel", p.InstrPos(e.cmp), "a mismatch is reported as ErrInvalidFrameChecksum", "the unequal edge leads to a return wrapping the sentinel", "the unequal edge does not return ErrInvalidFrameChecksum")
}

// ---------------------------------------------------------------------------
// R05.4 content hash fed before data is handed out (sequential and concurrent)

func ruleContentHashFeed(c *Check, p *Program, rule string) {
	un := findFn(c, p, rule, "internal/lz4stream", "FrameDataBlock.Uncompress")
	if un != nil {
		// the hash feed is governed by {sum, flag:ContentChecksum} and hashes the returned slice
		var site *ssa.BasicBlock
		var arg ssa.Value
		for _, ci := range callsIn(un) {
			if calleeIs(ci, pkgXXH, "XXHZero.Write") {
				site = ci.Block()
				arg = ci.Common().Args[len(ci.Common().Args)-1]
			}
		}
		if site == nil {
			c.Fail(rule, "Uncompress#hash-feed", p.Pos(un.Pos()), "decoded data is fed to the content hash", "no checksum.Write call in Uncompress")
		} else {
			got := relAtoms(site, nil)
			// `sum` parameter shows up as an "other" atom named sum
			want := []string{"flag:ContentChecksum", "other:sum"}
			okRet := true
			allInstrs(un, func(in ssa.Instruction) {
				if r, isR := in.(*ssa.Return); isR && len(r.Results) == 2 && isNilConst(r.Results[1]) {
					if r.Results[0] != arg {
						okRet = false
					}
				}
			})
			c.Cond(sameSet(got, want) && okRet, rule, "Uncompress#hash-feed", p.InstrPos(site.Instrs[0]), "when sum is requested and the frame has a content checksum, exactly the returned bytes are hashed", "guards {"+strings.Join(got, ", ")+"}, hashed value is the returned slice", fmt.Sprintf("guards {%s} (want {%s}); hashed value is the returned slice: %v", strings.Join(got, ", "), strings.Join(want, ", "), okRet))
			// on every accepting path with sum && flag the feed is passed
			isFeed := func(in ssa.Instruction) bool {
				ci, ok := in.(ssa.CallInstruction)
				return ok && calleeIs(ci, pkgXXH, "XXHZero.Write")
			}
			bad := false
			allInstrs(un, func(in ssa.Instruction) {
				if r, isR := in.(*ssa.Return); isR && len(r.Results) == 2 && isNilConst(r.Results[1]) {
					// reachable from entry avoiding the feed, with sum && flag both true?
					if pathAvoiding(un, in.Block(), isFeed, map[string]bool{"other:sum": true, "flag:ContentChecksum": true}) {
						bad = true
					}
				}
			})
			c.Cond(!bad, rule, "Uncompress#hash-feed-all-paths", p.InstrPos(site.Instrs[0]), "no accepting path with sum && ContentChecksum bypasses the hash feed", "path search found none", "an accepting return is reachable with sum && ContentChecksum without feeding the hash")
		}
	}
	// sequential reader passes sum=true
	rr := findFn(c, p, rule, "", "Reader.read")
	if rr != nil {
		n := 0
		okSeq := true
		for _, ci := range callsInDeep(rr) {
			if calleeIs(ci, pkgStream, "FrameDataBlock.Uncompress") {
				n++
				a := ci.Common().Args
				k, isK := a[len(a)-1].(*ssa.Const)
				if !isK || k.Value == nil || k.Value.String() != "true" {
					okSeq = false
				}
			}
		}
		c.Cond(n > 0 && okSeq, rule, "Reader.read#sum-true", p.Pos(rr.Pos()), "the sequential reader asks Uncompress to feed the content hash", fmt.Sprintf("%d call(s), all with sum=true", n), "a sequential Uncompress call does not pass sum=true")
	}
	// concurrent: in initR's collector, checksum.Write(buf) precedes the send of buf on the data channel
	ir := findFn(c, p, rule, "internal/lz4stream", "Blocks.initR")
	if ir == nil {
		return
	}
	found := false
	for _, fn := range familyFns(ir)[1:] {
		var send *ssa.Send
		var feed ssa.Instruction
		allInstrs(fn, func(in ssa.Instruction) {
			if s, ok := in.(*ssa.Send); ok {
				if _, isSlice := s.X.Type().Underlying().(*types.Slice); isSlice {
					if _, isConst := s.X.(*ssa.Const); !isConst {
						send = s
					}
				}
			}
			if ci, ok := in.(ssa.CallInstruction); ok && calleeIs(ci, pkgXXH, "XXHZero.Write") {
				feed = in
			}
		})
		if send == nil || feed == nil {
			continue
		}
		found = true
		c.Funcs[fname(fn)] = true
		ci := feed.(ssa.CallInstruction)
		sameBuf := ci.Common().Args[len(ci.Common().Args)-1] == send.X
		// every path from entry to the send with flag on passes the feed
		isFeed := func(in ssa.Instruction) bool { return in == feed }
		bypass := pathAvoiding(fn, send.Block(), isFeed, map[string]bool{"flag:ContentChecksum": true})
		got := relAtoms(feed.Block(), send.Block())
		c.Cond(sameBuf && !bypass && sameSet(got, []string{"flag:ContentChecksum"}), rule, "initR.collector#hash-before-deliver", p.InstrPos(feed),
			"in the collector goroutine each buffer is hashed (when the frame has a content checksum) before it is sent to the consumer, in queue order",
			"checksum.Write(buf) precedes data <- buf on every flag-on path", fmt.Sprintf("same buffer: %v; bypass path exists: %v; feed guards relative to the send: {%s}", sameBuf, bypass, strings.Join(got, ", ")))
		// the worker passes sum=false (hashing is the collector's job, in order)
	}
	if !found {
		c.Fail(rule, "initR.collector#hash-before-deliver", p.Pos(ir.Pos()), "collector goroutine hashes then forwards", "no closure in initR both hashes and forwards decoded buffers")
	}
	for _, fn := range familyFns(ir)[1:] {
		for _, ci := range callsIn(fn) {
			if calleeIs(ci, pkgStream, "FrameDataBlock.Uncompress") {
				a := ci.Common().Args
				k, isK := a[len(a)-1].(*ssa.Const)
				c.Cond(isK && k.Value != nil && k.Value.String() == "false", rule, "initR.worker#sum-false", p.InstrPos(ci), "concurrent workers do not touch the shared content hash (sum=false); only the in-order collector does", "sum=false", "a concurrent worker calls Uncompress with sum != false: the shared hash would be fed out of order and racily")
			}
		}
	}
}

// pathAvoiding: is target reachable from the entry without executing an
// instruction satisfying avoid, taking only edges compatible with the required
// atom polarities (an edge that makes a required atom false is not taken)?
func pathAvoiding(fn *ssa.Function, target *ssa.BasicBlock, avoid iPred, require map[string]bool) bool {
	seen := map[*ssa.BasicBlock]bool{}
	var rec func(b *ssa.BasicBlock) bool
	rec = func(b *ssa.BasicBlock) bool {
		if seen[b] {
			return false
		}
		seen[b] = true
		if b == target {
			// must reach the start of target; instructions in target before its end are not considered
			return true
		}
		for _, in := range b.Instrs {
			if avoid(in) {
				return false
			}
		}
		for k, s := range b.Succs {
			if ifi, ok := b.Instrs[len(b.Instrs)-1].(*ssa.If); ok && len(b.Succs) == 2 {
				a := atomOf(ifi.Cond, k == 0)
				key := a.Kind
				if a.Name != "" {
					key += ":" + a.Name
				}
				if want, has := require[key]; has && want != a.Val {
					continue
				}
			}
			if rec(s) {
				return true
			}
		}
		return false
	}
	if len(fn.Blocks) == 0 {
		return false
	}
	// avoid-instructions inside the target block before the end do count when target holds them first
	return rec(fn.Blocks[0])
}

// ---------------------------------------------------------------------------
// R05.3b / R05.6: end-of-stream paths of the Reader call CloseR and return its error

func ruleEOSCallsCloseR(c *Check, p *Program, rule string) {
	for _, name := range []string{"Reader.Read", "Reader.WriteTo"} {
		fn := findFn(c, p, rule, "", name)
		if fn == nil {
			continue
		}
		fns := deepFuncs(fn, 2)
		var closeCalls []ssa.CallInstruction
		for _, g := range fns {
			for _, ci := range callsIn(g) {
				if calleeIs(ci, pkgStream, "Frame.CloseR") {
					closeCalls = append(closeCalls, ci)
				}
			}
		}
		key := name + "#eos-closeR"
		if len(closeCalls) == 0 {
			c.Fail(rule, key, p.Pos(fn.Pos()), "the end-of-stream branch verifies the trailer with Frame.CloseR", "no call of Frame.CloseR")
			continue
		}
		c.Sites += len(closeCalls)
		// Every return reachable from an `err == io.EOF` true edge must be preceded by a CloseR call
		// (directly or in a helper that calls it on all its paths).
		isClose := func(in ssa.Instruction) bool {
			ci, ok := in.(ssa.CallInstruction)
			return ok && calleeIs(ci, pkgStream, "Frame.CloseR")
		}
		nEdges := 0
		bad := false
		var where string
		for _, g := range fns {
			for _, b := range g.Blocks {
				ifi, ok := b.Instrs[len(b.Instrs)-1].(*ssa.If)
				if !ok {
					continue
				}
				for k := 0; k < 2; k++ {
					a := atomOf(ifi.Cond, k == 0)
					if a.Kind != "eofcmp" || !a.Val {
						continue
					}
					nEdges++
					if okc, _ := mustFromBlock(p, b.Succs[k], isClose, false, 2); !okc {
						bad = true
						where = p.InstrPos(ifi)
					}
				}
			}
		}
		c.Cond(nEdges > 0 && !bad, rule, key, p.InstrPos(closeCalls[0]), "every path from the `err == io.EOF` decision to a return passes through Frame.CloseR", fmt.Sprintf("%d end-of-stream edge(s), all pass CloseR", nEdges), fmt.Sprintf("end-of-stream edges found: %d; a return is reachable from the io.EOF branch at %s without calling CloseR", nEdges, where))
		// conversely, the trailer decision is taken only when the block reader's error is identical to io.EOF: with the
		// equal edges of the `err == io.EOF` tests deleted, no call of CloseR is reachable (an unexpected end of input, or
		// any other error, must not be turned into "the frame ended here")
		{
			skipEOF := func(b *ssa.BasicBlock, k int) bool {
				ifi, ok := b.Instrs[len(b.Instrs)-1].(*ssa.If)
				if !ok {
					return false
				}
				a := atomOf(ifi.Cond, k == 0)
				return a.Kind == "eofcmp" && a.Val
			}
			var badAt ssa.Instruction
			var judge func(target ssa.Instruction, depth int)
			judge = func(target ssa.Instruction, depth int) {
				g := target.Parent()
				if !reachWithFacts(g, skipEOF)[target.Block()] {
					return
				}
				if g == fn || depth <= 0 {
					badAt = target
					return
				}
				// a helper that closes unconditionally: its calls must lie behind the io.EOF test
				for _, cs := range callSitesOf(g) {
					for _, h := range fns {
						if cs.Parent() == h {
							judge(cs, depth-1)
						}
					}
				}
			}
			for _, ci := range closeCalls {
				judge(ci, 2)
			}
			why := ""
			if badAt != nil {
				why = "the call at " + p.InstrPos(badAt) + " is reachable without the block reader's error having compared equal to io.EOF (e.g. on io.ErrUnexpectedEOF): a frame cut inside a block is finished as if it had ended, and for frames without a content checksum Read/WriteTo report success"
			}
			c.Cond(badAt == nil, rule, name+"#closeR-only-on-eof", p.InstrPos(closeCalls[0]), "Frame.CloseR (the end-of-frame decision) is reached only through an `err == io.EOF` identity test", "unreachable once the equal edges are deleted", why)
		}
		// the error of CloseR reaches the result: it is stored to err / returned, not discarded
		for _, ci := range closeCalls {
			v := ci.Value()
			used := false
			if v != nil && v.Referrers() != nil {
				for _, r := range *v.Referrers() {
					switch x := r.(type) {
					case *ssa.Store:
						used = true
					case *ssa.Return:
						used = true
					case *ssa.BinOp:
						// tested against nil: then must be stored on the non-nil edge
						for _, rr := range *x.Referrers() {
							if _, isIf := rr.(*ssa.If); isIf {
								// find a store of v in a block guarded by v != nil
								for _, r2 := range *v.Referrers() {
									if st, isSt := r2.(*ssa.Store); isSt && st.Val == v {
										used = true
									}
								}
							}
						}
					case *ssa.Phi:
						used = true
					}
				}
			}
			c.Cond(used, rule, name+"#closeR-error-used", p.InstrPos(ci), "the error of Frame.CloseR becomes the result of the call", "stored into / returned as err", "the result of Frame.CloseR is discarded")
		}
	}
}

func reachFromBlockAvoid(start *ssa.BasicBlock, to, avoid iPred) (bool, []string) {
	seen := map[*ssa.BasicBlock]bool{}
	var rec func(b *ssa.BasicBlock) bool
	rec = func(b *ssa.BasicBlock) bool {
		if seen[b] {
			return false
		}
		seen[b] = true
		for _, in := range b.Instrs {
			if avoid(in) {
				return false
			}
			if to(in) {
				return true
			}
		}
		for _, s := range b.Succs {
			if rec(s) {
				return true
			}
		}
		return false
	}
	return rec(start), nil
}

// callReaches: the call instruction itself satisfies pred, or it calls a module
// helper that (transitively, bounded) contains a call satisfying pred.
func callReaches(ci ssa.CallInstruction, pred func(ssa.CallInstruction) bool) bool {
	if pred(ci) {
		return true
	}
	if _, isGo := ci.(*ssa.Go); isGo {
		return false
	}
	f := staticCallee(ci)
	if !inModule(f) {
		return false
	}
	found := false
	deepCalls(f, 2, func(x ssa.CallInstruction, _ []ssa.CallInstruction) {
		if pred(x) {
			found = true
		}
	})
	return found
}

// leEmits: the value that the call writes to the wire in little-endian form
// with the given binary.LittleEndian method: the value argument of a direct
// call, or the argument bound to the parameter that a module helper (e.g. a
// writeUint32) encodes that way. nil if the call does neither.
func leEmits(ci ssa.CallInstruction, method string) ssa.Value {
	if isBinaryLE(ci, method) {
		return leValueArg(ci)
	}
	f := staticCallee(ci)
	if !inModule(f) {
		return nil
	}
	var out ssa.Value
	for _, inner := range callsIn(f) {
		if !isBinaryLE(inner, method) {
			continue
		}
		v := leValueArg(inner)
		for i, prm := range f.Params {
			if i < len(ci.Common().Args) && derivesFromValue(v, prm) {
				out = ci.Common().Args[i]
			}
		}
	}
	return out
}

// derivesFromFieldArith: v is computed (conversions, shifts, masks included) from a load of the field.
func derivesFromFieldArith(v ssa.Value, field string) bool {
	found := false
	walkBack(v, true, func(x ssa.Value) bool {
		if loadField(x) == field {
			found = true
			return false
		}
		return !found
	})
	return found
}
