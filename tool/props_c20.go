package main

import (
	"fmt"
	"go/constant"
	"go/token"
	"go/types"
	"sort"
	"strings"

	"golang.org/x/tools/go/ssa"
)

func init() { register("C20", checkC20) }

func constString(v ssa.Value) (string, bool) {
	k, ok := v.(*ssa.Const)
	if !ok || k.Value == nil || k.Value.Kind() != constant.String {
		return "", false
	}
	return constant.StringVal(k.Value), true
}

func isLz4(f *ssa.Function, name string) bool {
	return f != nil && f.Pkg != nil && f.Pkg.Pkg.Path() == modPath && (f.Name() == name || recvTypeName(f)+"."+f.Name() == name)
}

type flagVar struct {
	cell  ssa.Value // *ssa.Alloc (a local captured by the handler) or *ssa.FieldAddr (a field of a command struct)
	key   string    // "Type.field" for a struct field, "" for a local
	name  string
	usage string
	kind  string // BoolVar, UintVar, ...
	ptr   bool   // registered with fs.Bool / fs.Int / ...: the variable holds a pointer to the flag value
}

func checkC20(c *Check) {
	if archSubst != "" {
		return // cmd/lz4c has no architecture-specific files
	}
	c.Explain = "Static rules over cmd/lz4c, loaded from a scratch copy whose go.mod is pointed at the analysed tree (the pinned go.mod resolves the library to release v4.1.19; reported under R20.6): (R20.1) a boolean flag whose usage starts with enable/disable reaches its Option un-negated/negated; (R20.2) the level switch maps k to lz4.Level_k and everything else to Fast; (R20.3) flag variables are read only inside the handler that runs after parsing; (R20.4) each flag flows into the Option its usage names; (R20.5) the output file is created with exactly the input's mode bits, in compress and uncompress; (R20.7) the Writer that receives the options is the one that compresses, on the stdin path and the file path; (R20.8) client typestate: every Apply on the shared Writer/Reader happens in a state that accepts options."
	c.Uncov = []string{"the file round trip itself (value-level)", "behaviour of the pinned release v4.1.19 that the shipped go.mod selects"}
	c.Trusted = append(trustedSSA, "scratch module resolution of cmd/lz4c against /repo (replace directive added to a copy of go.mod)")
	for k, v := range map[string]string{"R20.1": "flag polarity", "R20.2": "level mapping", "R20.3": "flags read after parsing", "R20.4": "flag to option mapping", "R20.5": "mode bits", "R20.6": "module resolution", "R20.7": "configured writer is the one used", "R20.8": "client typestate"} {
		c.RuleDoc[k] = v
	}
	p, resolved, err := loadLz4c()
	if err != nil {
		c.TroubleF("cannot load cmd/lz4c against the tree: %v", err)
		return
	}
	c.Configs = append(c.Configs, "cmd/lz4c (scratch module, library => "+resolved+")")
	c.Cond(resolved == repoDir, "R20.6", "lz4c#library-resolution", "cmd/lz4c/go.mod", "the analysed lz4c is type-checked against the analysed library tree", "library resolved to "+resolved, "library resolved to "+resolved)
	var main *ssa.Package
	for path, sp := range p.SSA {
		if strings.HasSuffix(path, "cmd/lz4c") {
			main = sp
		}
	}
	if main == nil {
		c.TroubleF("package cmd/lz4c not found")
		return
	}
	comp := main.Func("Compress")
	unc := main.Func("Uncompress")
	if comp == nil || unc == nil {
		c.Fail("R20.3", "lz4c#anchors", "cmd/lz4c", "Compress and Uncompress exist", "function(s) missing")
		return
	}
	c.Funcs[fname(comp)] = true
	// flag variables
	var flags []flagVar
	for _, ci := range callsIn(comp) {
		f := staticCallee(ci)
		if f == nil || recvTypeName(f) != "FlagSet" {
			continue
		}
		if call, isCall := ci.(*ssa.Call); isCall && !strings.HasSuffix(f.Name(), "Var") && len(call.Call.Args) == 4 {
			// fs.Bool(name, value, usage) and its siblings return a pointer kept in a local variable
			if _, isPtr := call.Type().Underlying().(*types.Pointer); isPtr {
				name, okN := constString(call.Call.Args[1])
				usage, _ := constString(call.Call.Args[3])
				for _, r := range *call.Referrers() {
					if st, isS := r.(*ssa.Store); isS && st.Val == ssa.Value(call) && okN {
						if al, isAl := st.Addr.(*ssa.Alloc); isAl {
							flags = append(flags, flagVar{al, "", name, usage, f.Name() + "Var", true})
						}
					}
				}
			}
			continue
		}
		if !strings.HasSuffix(f.Name(), "Var") {
			continue
		}
		a := ci.Common().Args
		name, _ := constString(a[2])
		usage, _ := constString(a[len(a)-1])
		switch cell := a[1].(type) {
		case *ssa.Alloc:
			flags = append(flags, flagVar{cell, "", name, usage, f.Name(), false})
		case *ssa.FieldAddr:
			flags = append(flags, flagVar{cell, typeName(cell.X.Type()) + "." + fieldName(cell.X.Type(), cell.Field), name, usage, f.Name(), false})
		}
	}
	if len(flags) < 5 {
		c.Fail("R20.3", "lz4c#flags", p.Pos(comp.Pos()), "the five compress flags are resolved", fmt.Sprintf("only %d flag registrations found", len(flags)))
	}
	handlerOf := func(reg *ssa.Function) *ssa.Function {
		var h *ssa.Function
		allInstrs(reg, func(in ssa.Instruction) {
			if mc, ok := in.(*ssa.MakeClosure); ok {
				h = mc.Fn.(*ssa.Function)
			}
		})
		if h != nil && h.Synthetic != "" {
			// a bound method value (cmd.run): the handler is the method itself
			for _, ci := range callsIn(h) {
				if f := staticCallee(ci); f != nil && f.Pkg == reg.Pkg && len(f.Blocks) > 0 {
					return f
				}
			}
		}
		if h == nil && len(reg.AnonFuncs) > 0 {
			h = reg.AnonFuncs[0] // a function literal that captures nothing is not a closure
		}
		return h
	}
	handler := handlerOf(comp)
	if handler == nil {
		c.Fail("R20.3", "lz4c#handler", p.Pos(comp.Pos()), "Compress returns a handler closure", "no closure")
		return
	}
	c.Funcs[fname(handler)] = true
	// R20.3: loads of flag cells only inside closures
	for _, fv := range flags {
		early := ""
		if fv.key == "" {
			for _, r := range *fv.cell.Referrers() {
				if u, ok := r.(*ssa.UnOp); ok && u.Op == token.MUL {
					if !fv.ptr {
						early = p.InstrPos(u)
						continue
					}
					// the variable holds the pointer: reading the flag is dereferencing it
					for _, rr := range *u.Referrers() {
						if uu, ok := rr.(*ssa.UnOp); ok && uu.Op == token.MUL {
							early = p.InstrPos(uu)
						}
					}
				}
				if st, ok := r.(*ssa.Store); ok && fv.ptr && st.Addr == fv.cell {
					if refs := st.Val.Referrers(); refs != nil {
						for _, rr := range *refs {
							if uu, ok := rr.(*ssa.UnOp); ok && uu.Op == token.MUL {
								early = p.InstrPos(uu)
							}
						}
					}
				}
			}
		} else {
			// a field of the command struct: no load of that field in the registering function
			allInstrs(comp, func(in ssa.Instruction) {
				if u, ok := in.(*ssa.UnOp); ok && u.Op == token.MUL {
					if fa, isFA := u.X.(*ssa.FieldAddr); isFA && typeName(fa.X.Type())+"."+fieldName(fa.X.Type(), fa.Field) == fv.key {
						early = p.InstrPos(u)
					}
				}
			})
		}
		c.Sites++
		c.Cond(early == "", "R20.3", "lz4c.compress#flag-read-after-parse:-"+fv.name, p.InstrPos(fv.cell.(ssa.Instruction)), "the variable bound to flag -"+fv.name+" is read only inside the handler, i.e. after the command line has been parsed", "no load in Compress itself", "the variable of -"+fv.name+" is read at "+early+" while the flag set is still being defined: the flag can never have an effect")
	}
	// map: free variable of the handler -> flag
	fvOf := map[string]flagVar{}
	for _, fv := range flags {
		if al, isAl := fv.cell.(*ssa.Alloc); isAl {
			fvOf[al.Comment] = fv
		} else {
			fvOf[fv.key] = fv
		}
	}
	// the functions of package main that run for the command: the handler and the helpers it calls
	family := []*ssa.Function{handler}
	{
		seenF := map[*ssa.Function]bool{handler: true}
		for i := 0; i < len(family) && i < 40; i++ {
			g := family[i]
			for _, a := range g.AnonFuncs {
				if !seenF[a] {
					seenF[a] = true
					family = append(family, a)
				}
			}
			for _, ci := range callsIn(g) {
				if f := staticCallee(ci); f != nil && f.Pkg == handler.Pkg && len(f.Blocks) > 0 && !seenF[f] {
					seenF[f] = true
					family = append(family, f)
				}
			}
		}
	}
	var flagOfValueD func(v ssa.Value, depth int) (flagVar, bool, bool)
	flagOfValueD = func(v ssa.Value, depth int) (flagVar, bool, bool) { // flag, negated, ok
		neg := false
		for {
			switch x := v.(type) {
			case *ssa.UnOp:
				if x.Op == token.NOT {
					neg = !neg
					v = x.X
					continue
				}
				if x.Op == token.MUL {
					switch ad := x.X.(type) {
					case *ssa.UnOp:
						// *p where p is the pointer a flag was registered with
						if fvr, isFV := ad.X.(*ssa.FreeVar); isFV && ad.Op == token.MUL {
							fv, ok2 := fvOf[fvr.Name()]
							return fv, neg, ok2 && fv.ptr
						}
					case *ssa.FreeVar:
						fv, ok2 := fvOf[ad.Name()]
						return fv, neg, ok2 && !fv.ptr
					case *ssa.FieldAddr:
						fv, ok2 := fvOf[typeName(ad.X.Type())+"."+fieldName(ad.X.Type(), ad.Field)]
						return fv, neg, ok2
					}
				}
			case *ssa.Convert:
				v = x.X
				continue
			case *ssa.ChangeType:
				v = x.X
				continue
			case *ssa.Parameter:
				// a helper of the command: the same flag, with the same polarity, at every call
				g := x.Parent()
				if depth <= 0 || g == nil || g == handler {
					return flagVar{}, false, false
				}
				idx := -1
				for i, pr := range g.Params {
					if pr == x {
						idx = i
					}
				}
				var got flagVar
				gotNeg, n := false, 0
				for _, h := range family {
					for _, ci := range callsIn(h) {
						if staticCallee(ci) != g || idx < 0 || idx >= len(ci.Common().Args) {
							continue
						}
						fv, ng, ok := flagOfValueD(ci.Common().Args[idx], depth-1)
						if !ok || (n > 0 && (fv.name != got.name || ng != gotNeg)) {
							return flagVar{}, false, false
						}
						got, gotNeg = fv, ng
						n++
					}
				}
				if n == 0 {
					return flagVar{}, false, false
				}
				return got, neg != gotNeg, true
			}
			return flagVar{}, false, false
		}
	}
	flagOfValue := func(v ssa.Value) (flagVar, bool, bool) { return flagOfValueD(v, 3) }
	// option constructor calls in the handler
	wantOpt := map[string]string{"bc": "BlockChecksumOption", "sc": "ChecksumOption", "c": "ConcurrencyOption", "size": "BlockSizeOption", "l": "CompressionLevelOption"}
	seenOpt := map[string]string{}
	var famCalls []ssa.CallInstruction
	for _, g := range family {
		famCalls = append(famCalls, callsIn(g)...)
	}
	for _, ci := range famCalls {
		f := staticCallee(ci)
		if f == nil || f.Pkg == nil || f.Pkg.Pkg.Path() != modPath || !strings.HasSuffix(f.Name(), "Option") || len(ci.Common().Args) != 1 {
			continue
		}
		arg := ci.Common().Args[0]
		c.Sites++
		if fv, neg, ok := flagOfValue(arg); ok {
			seenOpt[fv.name] = f.Name()
			if fv.kind == "BoolVar" {
				u := strings.ToLower(strings.TrimSpace(fv.usage))
				switch {
				case strings.HasPrefix(u, "enable"):
					c.Cond(!neg, "R20.1", "lz4c.compress#polarity:-"+fv.name, p.InstrPos(ci), "flag -"+fv.name+" ('"+fv.usage+"') enables: its value reaches "+f.Name()+" un-negated", "passed as is", "the value of an 'enable' flag is negated before "+f.Name())
				case strings.HasPrefix(u, "disable"):
					c.Cond(neg, "R20.1", "lz4c.compress#polarity:-"+fv.name, p.InstrPos(ci), "flag -"+fv.name+" ('"+fv.usage+"') disables: its value reaches "+f.Name()+" negated", "passed negated", "the value of a 'disable' flag is passed un-negated to "+f.Name()+": the flag does the opposite of what it says")
				}
			}
			continue
		}
		// derived values: size via bytefmt.ToBytes(blockMaxSize), level via the switch
		switch f.Name() {
		case "BlockSizeOption":
			if derivesFromCall(arg, func(g *ssa.Function) bool { return g.Name() == "ToBytes" }) {
				// ToBytes argument is the size flag
				ok := false
				walkBack(arg, true, func(v ssa.Value) bool {
					if call, isC := v.(*ssa.Call); isC {
						if g := staticCallee(call); g != nil && g.Name() == "ToBytes" {
							if fv, _, okk := flagOfValue(call.Call.Args[0]); okk && fv.name == "size" {
								ok = true
							}
						}
						return false
					}
					return true
				})
				if ok {
					seenOpt["size"] = f.Name()
				}
			}
		case "CompressionLevelOption":
			// the level may reach the option through parameters of helpers: follow them to the value computed from the flag
			for hops := 0; hops < 3; hops++ {
				prm, isP := arg.(*ssa.Parameter)
				if !isP || prm.Parent() == handler {
					break
				}
				idx, g := -1, prm.Parent()
				for i, pr := range g.Params {
					if pr == prm {
						idx = i
					}
				}
				var sites []ssa.CallInstruction
				for _, h := range family {
					for _, cj := range callsIn(h) {
						if staticCallee(cj) == g {
							sites = append(sites, cj)
						}
					}
				}
				if idx < 0 || len(sites) != 1 {
					break
				}
				arg = sites[0].Common().Args[idx]
			}
			if ph, isPhi := arg.(*ssa.Phi); isPhi {
				ruleLevelSwitch(c, p, ph.Parent(), ph, flagOfValue)
				seenOpt["l"] = f.Name()
			} else if call, isCall := arg.(*ssa.Call); isCall && inModuleOrMain(staticCallee(call), handler) && flagArgIndex(call, flagOfValue, "l") >= 0 {
				ruleLevelHelper(c, p, call, staticCallee(call), flagArgIndex(call, flagOfValue, "l"))
				seenOpt["l"] = f.Name()
			} else if k, isK := arg.(*ssa.Const); isK {
				c.Fail("R20.2", "lz4c.compress#level-map", p.InstrPos(ci), "the -l flag selects the compression level", "CompressionLevelOption receives the constant "+k.String()+": the level flag has no effect")
			} else {
				c.Unknown("R20.2", "lz4c.compress#level-map", p.InstrPos(ci), "the -l flag selects the compression level", "level argument "+shortVal(arg)+" not recognised")
			}
		}
	}
	for name, opt := range wantOpt {
		got := seenOpt[name]
		c.Cond(got == opt, "R20.4", "lz4c.compress#flag-to-option:-"+name, p.Pos(handler.Pos()), "flag -"+name+" flows into lz4."+opt, "found", "flag -"+name+" flows into '"+got+"' (expected "+opt+")")
	}
	// R20.7: one writer, options applied to it, then used
	ruleConfiguredWriter(c, p, family)
	// R20.5: mode bits
	uh := handlerOf(unc)
	for hi, h := range []*ssa.Function{handler, uh} {
		if h == nil {
			continue
		}
		cmdName := []string{"Compress", "Uncompress"}[hi]
		c.Funcs[fname(h)] = true
		n := 0
		var hcalls []ssa.CallInstruction
		{
			// the per-file work may have been moved into helpers of package main
			seenF := map[*ssa.Function]bool{h: true}
			work := []*ssa.Function{h}
			for d := 0; d < 3 && len(work) > 0; d++ {
				var next []*ssa.Function
				for _, g := range work {
					for _, ci := range callsIn(g) {
						hcalls = append(hcalls, ci)
						if f := staticCallee(ci); f != nil && f.Pkg == h.Pkg && len(f.Blocks) > 0 && !seenF[f] {
							seenF[f] = true
							next = append(next, f)
						}
					}
				}
				work = next
			}
		}
		for _, ci := range hcalls {
			if !calleeIs(ci, "os", "OpenFile") {
				continue
			}
			n++
			c.Sites++
			mode := originOfVar(ci.Common().Args[2])
			exact := false
			if call, isC := mode.(*ssa.Call); isC && call.Call.IsInvoke() && call.Call.Method.Name() == "Mode" {
				// FileInfo from Stat() of a file opened from the input name
				if derivesFromCall(call.Call.Value, func(g *ssa.Function) bool { return g.Name() == "Stat" }) {
					exact = true
				}
			}
			c.Cond(exact, "R20.5", fmt.Sprintf("lz4c.%s#output-mode#%d", cmdName, n), p.InstrPos(ci), "the output file is created with exactly the permission bits of the input file (Stat().Mode(), unmodified)", "mode argument is inputInfo.Mode()", "the mode argument is "+shortVal(mode)+", not the unmodified Mode() of the input")
		}
		if n == 0 {
			c.Fail("R20.5", "lz4c."+cmdName+"#output-mode", p.Pos(h.Pos()), "output files are created with os.OpenFile", "no os.OpenFile call")
		}
	}
	// R20.9: the extension appended by compress is removed by uncompress as a suffix
	c.RuleDoc["R20.9"] = "output name of uncompress: the extension is removed as an exact suffix"
	if uh != nil {
		ruleSuffixInverse(c, p, handler, uh, "R20.9")
	}
	// R20.11: what shapes the frame is configured once, from the flags
	c.RuleDoc["R20.11"] = "every option other than the progress callback is applied in the one Apply that receives the flag-derived options (an option applied per file persists across Reset and leaks into later files)"
	{
		// the Apply with the most options is the configuration; every *Option constructor call of the family must
		// feed it, except OnBlockDoneOption
		var mainApply ssa.CallInstruction
		most := 0
		optsOf := func(ci ssa.CallInstruction) []ssa.Value {
			var out []ssa.Value
			a := ci.Common().Args
			if len(a) < 2 {
				return nil
			}
			if sl, ok := a[len(a)-1].(*ssa.Slice); ok {
				if al, isAl := sl.X.(*ssa.Alloc); isAl && al.Referrers() != nil {
					for _, r := range *al.Referrers() {
						if ia, isIA := r.(*ssa.IndexAddr); isIA && ia.Referrers() != nil {
							for _, rr := range *ia.Referrers() {
								if st, isS := rr.(*ssa.Store); isS {
									out = append(out, st.Val)
								}
							}
						}
					}
				}
			}
			return out
		}
		for _, ci := range famCalls {
			if isLz4(staticCallee(ci), "Writer.Apply") {
				if n := len(optsOf(ci)); n > most {
					most, mainApply = n, ci
				}
			}
		}
		inMain := map[ssa.Value]bool{}
		if mainApply != nil {
			for _, v := range optsOf(mainApply) {
				inMain[v] = true
				// a slice of options built first and passed as options...
				walkBack(v, false, func(x ssa.Value) bool { inMain[x] = true; return true })
			}
			// options... passed as an existing slice: the elements stored into its backing array
			if a := mainApply.Common().Args; len(a) >= 2 {
				walkBack(a[len(a)-1], false, func(x ssa.Value) bool {
					if al, isAl := x.(*ssa.Alloc); isAl && al.Referrers() != nil {
						for _, r := range *al.Referrers() {
							if ia, isIA := r.(*ssa.IndexAddr); isIA && ia.Referrers() != nil {
								for _, rr := range *ia.Referrers() {
									if st, isS := rr.(*ssa.Store); isS {
										inMain[st.Val] = true
									}
								}
							}
						}
					}
					return true
				})
			}
		}
		bad := ""
		nOpt := 0
		for _, ci := range famCalls {
			f := staticCallee(ci)
			if f == nil || f.Pkg == nil || f.Pkg.Pkg.Path() != modPath || !strings.HasSuffix(f.Name(), "Option") || f.Name() == "OnBlockDoneOption" {
				continue
			}
			call, isCall := ci.(*ssa.Call)
			if !isCall {
				continue
			}
			nOpt++
			if !inMain[ssa.Value(call)] {
				bad = f.Name() + " at " + p.InstrPos(ci)
			}
		}
		c.Cond(mainApply != nil && bad == "", "R20.11", "lz4c.compress#options-applied-once", p.Pos(handler.Pos()), "every frame-shaping option is part of the single configuration Apply; per-file Apply calls carry only the progress callback", fmt.Sprintf("%d option constructor calls, all feeding the configuration Apply", nOpt), "an option outside the configuration Apply: "+bad+" - options survive Reset, so what one file sets stays in force for the files after it (for example a content size)")
	}
	// R20.10: the shared object is pointed at this iteration's file before it is used
	c.RuleDoc["R20.10"] = "the shared Writer/Reader is Reset onto the file opened for this argument before the copy"
	ruleSinkBound(c, p, handler, "Writer", "compress", "R20.10")
	if uh != nil {
		ruleSinkBound(c, p, uh, "Reader", "uncompress", "R20.10")
	}
	// R20.8 client typestate
	ruleClientTypestate(c, p, handler, "Writer", "compress")
	ruleFramesFinished(c, p, handler)
	ruleChunkReadEOF(c, p, handler, "compress")
	c.RuleDoc["R20.15"] = "a chunked read loop in the command treats io.EOF of io.ReadFull as the end of the input, not as a failure"
	ruleWholeInputCopied(c, p, handler, "Writer", "compress")
	ruleNamesUnchanged(c, p, handler, "compress")
	if uh0 := handlerOf(unc); uh0 != nil {
		ruleWholeInputCopied(c, p, uh0, "Reader", "uncompress")
		ruleNamesUnchanged(c, p, uh0, "uncompress")
		ruleInputOnlyThroughReader(c, p, uh0)
		c.RuleDoc["R20.16"] = "the compressed input is read by the lz4 Reader only (no pre-check of the command's own that demands more bytes than the smallest frame has)"
	}
	c.RuleDoc["R20.13"] = "data moves into the Writer / out of the Reader only through io.Copy (to the end of the source)"
	c.RuleDoc["R20.14"] = "the file opened is the file named on the command line (plus or minus the extension)"
	c.RuleDoc["R20.12"] = "every frame lz4c starts is finished: Close before the Writer is re-targeted and before success is reported"
	if uh != nil {
		ruleClientTypestate(c, p, uh, "Reader", "uncompress")
	}
}

func ruleLevelSwitch(c *Check, p *Program, h *ssa.Function, ph *ssa.Phi, flagOfValue func(ssa.Value) (flagVar, bool, bool)) {
	// the switched word: a load of the level flag in the handler
	var w ssa.Value
	allInstrs(h, func(in ssa.Instruction) {
		if u, ok := in.(*ssa.UnOp); ok && u.Op == token.MUL && w == nil {
			if fv, _, isF := flagOfValue(u); isF && fv.name == "l" {
				w = u
			}
		}
	})
	if w == nil {
		c.Fail("R20.2", "lz4c.compress#level-map", p.InstrPos(ph), "the level switch reads the -l flag", "no load of the level variable in the handler")
		return
	}
	_, perEdge := valueSetsFull(h, func(v ssa.Value) bool { return stripSameWidth(v) == w }, w.(ssa.Instruction).Block(), 64)
	var outs []levelOutcome
	for i, e := range ph.Edges {
		outs = append(outs, levelOutcome{perEdge[cfgEdge{ph.Block().Preds[i], ph.Block()}], e})
	}
	levelMapCheck(c, p.InstrPos(ph), outs)
}

type levelOutcome struct {
	when vset      // values of -l
	val  ssa.Value // level passed to the option
}

func levelMapCheck(c *Check, pos string, outs []levelOutcome) {
	ok := true
	var why []string
	covered := vset{}
	for _, o := range outs {
		s := o.when
		k, isK := constUint(o.val)
		if !isK {
			// a lookup in a package-level table indexed by the flag: table[v] for every v of this edge
			if tab, n, isT := levelTableOf(o.val); isT {
				for _, iv := range s {
					if iv.hi >= n {
						ok = false
						why = append(why, fmt.Sprintf("the level table has %d entries but is indexed with values up to %d", n, iv.hi))
						continue
					}
					for v := iv.lo; v <= iv.hi; v++ {
						want := uint64(0)
						if v >= 1 && v <= 9 {
							want = 1 << (8 + v)
						}
						if got, has := tab[v]; (has && got != want) || (!has && want != 0) {
							ok = false
							why = append(why, fmt.Sprintf("-l %d selects level constant %d from the table, expected %d", v, tab[v], want))
						}
					}
				}
				covered = covered.union(s)
				continue
			}
			ok = false
			why = append(why, "non-constant level on an edge")
			continue
		}
		for _, iv := range s {
			for v := iv.lo; v <= iv.hi && v-iv.lo < 12; v++ {
				want := uint64(0)
				if v >= 1 && v <= 9 {
					want = 1 << (8 + v)
				}
				if k != want {
					ok = false
					why = append(why, fmt.Sprintf("-l %d selects level constant %d, expected %d", v, k, want))
				}
			}
			if iv.hi-iv.lo >= 12 && k != 0 {
				ok = false
				why = append(why, "values above 9 do not fall back to Fast")
			}
		}
		covered = covered.union(s)
	}
	if !covered.equal(fullSet(64)) {
		ok = false
		why = append(why, "some values of -l reach no assignment")
	}
	c.Cond(ok, "R20.2", "lz4c.compress#level-map", pos, "-l k selects lz4.Level_k (1<<(8+k)) for k in 1..9 and lz4.Fast otherwise", "value sets of the switch arms match the level constants", strings.Join(why, "; "))
}

// ruleLevelHelper: the level is computed by a local helper called with the -l
// flag: the helper's returns, with the value set of its parameter at each
// return, are the outcomes of the mapping.
func ruleLevelHelper(c *Check, p *Program, call *ssa.Call, f *ssa.Function, argIdx int) {
	prm := f.Params[argIdx]
	sets, perEdge := valueSetsFull(f, func(v ssa.Value) bool { return stripSameWidth(v) == ssa.Value(prm) }, f.Blocks[0], 64)
	var outs []levelOutcome
	allInstrs(f, func(in ssa.Instruction) {
		r, ok := in.(*ssa.Return)
		if !ok || len(r.Results) != 1 {
			return
		}
		res := r.Results[0]
		if ph, isPhi := res.(*ssa.Phi); isPhi && ph.Block() == r.Block() {
			for i, e := range ph.Edges {
				outs = append(outs, levelOutcome{perEdge[cfgEdge{ph.Block().Preds[i], ph.Block()}], e})
			}
			return
		}
		outs = append(outs, levelOutcome{sets[r.Block()], res})
	})
	levelMapCheck(c, p.InstrPos(call), outs)
}

func ruleConfiguredWriter(c *Check, p *Program, family []*ssa.Function) {
	var news []*ssa.Call
	var h *ssa.Function // the function that creates the Writer (the handler or one of its helpers)
	for _, g := range family {
		for _, ci := range callsIn(g) {
			if call, ok := ci.(*ssa.Call); ok && isLz4(staticCallee(call), "NewWriter") {
				news = append(news, call)
				h = g
			}
		}
	}
	if len(news) != 1 {
		var pos string
		if len(news) > 1 {
			pos = p.InstrPos(news[1])
		}
		c.Fail("R20.7", "lz4c.compress#single-configured-writer", pos, "one Writer is created, configured from the flags, and used for every output", fmt.Sprintf("%d lz4.NewWriter calls in the handler: a Writer created after the options were applied compresses with library defaults", len(news)))
		return
	}
	zw := news[0]
	// Apply(options...) with >= 5 options on zw dominates every other use
	var apply ssa.Instruction
	nOpts := 0
	for _, ci := range callsIn(h) {
		if isLz4(staticCallee(ci), "Writer.Apply") && originOfVar(ci.Common().Args[0]) == ssa.Value(zw) {
			if sl, ok := ci.Common().Args[1].(*ssa.Slice); ok {
				if al, isAl := sl.X.(*ssa.Alloc); isAl {
					n := 0
					for _, r := range *al.Referrers() {
						if _, isIA := r.(*ssa.IndexAddr); isIA {
							n++
						}
					}
					if n > nOpts {
						nOpts = n
						apply = ci
					}
				}
			}
		}
	}
	ok := apply != nil && nOpts >= 5
	why := fmt.Sprintf("Apply with %d options found", nOpts)
	if ok {
		uses := append([]ssa.Instruction{}, *zw.Referrers()...)
		// a Writer kept in a variable that a function literal captures: the uses are the loads of that variable
		for _, r := range *zw.Referrers() {
			if st, isSt := r.(*ssa.Store); isSt && st.Val == ssa.Value(zw) {
				if refs := st.Addr.Referrers(); refs != nil {
					for _, rr := range *refs {
						if ld, isLd := rr.(*ssa.UnOp); isLd && ld.Op == token.MUL && ld.Parent() == h && ld.Referrers() != nil {
							uses = append(uses, *ld.Referrers()...)
						}
					}
				}
			}
		}
		for _, r := range uses {
			in, isIn := r.(ssa.Instruction)
			if !isIn || in == apply {
				continue
			}
			if st, isSt := r.(*ssa.Store); isSt && st.Val == ssa.Value(zw) {
				continue
			}
			if _, isDbg := r.(*ssa.DebugRef); isDbg {
				continue
			}
			tgt := in
			if rr, _ := reachAvoid(h, nil, func(j ssa.Instruction) bool { return j == tgt }, func(j ssa.Instruction) bool { return j == apply }); rr {
				ok = false
				why = "the Writer is used at " + p.InstrPos(in) + " on a path that does not pass Apply(options...)"
			}
		}
	}
	c.Cond(ok, "R20.7", "lz4c.compress#single-configured-writer", p.InstrPos(zw), "the single Writer receives all five flag-derived options before any use (stdin/stdout path and file path alike)", why, why)
	// errors of Apply are returned
}

// ruleClientTypestate abstractly executes the handler over the lifecycle of the
// shared Writer/Reader: states {new, active, closed}; Apply needs `new`.
func ruleClientTypestate(c *Check, p *Program, h *ssa.Function, typ, cmd string) {
	const (
		sNew = 1 << iota
		sActive
		sClosed
	)
	name := func(m int) string {
		var s []string
		if m&sNew != 0 {
			s = append(s, "new")
		}
		if m&sActive != 0 {
			s = append(s, "active")
		}
		if m&sClosed != 0 {
			s = append(s, "closed")
		}
		return "{" + strings.Join(s, ",") + "}"
	}
	in := map[*ssa.BasicBlock]int{}
	work := []*ssa.BasicBlock{h.Blocks[0]}
	in[h.Blocks[0]] = sNew
	type viol struct {
		at    ssa.Instruction
		state int
	}
	bad := map[ssa.Instruction]int{}
	applies := 0
	for len(work) > 0 {
		b := work[len(work)-1]
		work = work[:len(work)-1]
		cur := in[b]
		for _, i := range b.Instrs {
			ci, ok := i.(ssa.CallInstruction)
			if !ok {
				continue
			}
			f := staticCallee(ci)
			switch {
			case isLz4(f, "NewWriter"), isLz4(f, "NewReader"):
				cur = sNew
			case isLz4(f, typ+".Reset"):
				cur = sNew
			case isLz4(f, typ+".Apply"):
				if cur&^sNew != 0 {
					bad[i] |= cur &^ sNew
				}
				cur = sNew
			case isLz4(f, typ+".Close"):
				cur = sClosed
			case calleeIs(ci, "io", "Copy"):
				// the shared object is source or destination
				for _, a := range ci.Common().Args {
					if mi, isMI := a.(*ssa.MakeInterface); isMI && strings.Contains(mi.X.Type().String(), "lz4/v4."+typ) {
						if typ == "Reader" {
							cur = sClosed // read to the end
						} else {
							cur = sActive
						}
					}
				}
			}
			if isLz4(f, typ+".Apply") {
				applies++
			}
		}
		for _, s := range b.Succs {
			if in[s]|cur != in[s] {
				in[s] |= cur
				work = append(work, s)
			}
		}
	}
	if len(bad) == 0 {
		c.OK("R20.8", "lz4c."+cmd+"#apply-in-new-state", p.Pos(h.Pos()), "every Apply on the shared "+typ+" happens while it accepts options (after NewX or Reset, before any I/O)", fmt.Sprintf("abstract execution over {new, active, closed}: %d Apply call(s) all in state new", applies), true)
	}
	n := 0
	for at, st := range bad {
		n++
		c.Fail("R20.8", fmt.Sprintf("lz4c.%s#apply-in-new-state", cmd), p.InstrPos(at), "every Apply on the shared "+typ+" happens while it accepts options (after NewX or Reset, before any I/O)", "Apply can run while the "+typ+" is in "+name(st)+" (second and later files of one invocation): the library rejects it with 'cannot apply options on closed or in error object' and the remaining files are not processed")
	}
}

// inModuleOrMain: f is defined in the same package as the handler (cmd/lz4c).
func inModuleOrMain(f *ssa.Function, handler *ssa.Function) bool {
	return f != nil && f.Pkg != nil && handler.Pkg != nil && f.Pkg == handler.Pkg && len(f.Blocks) > 0
}

// flagArgIndex: index of the argument of call that is (a conversion of) the named flag, or -1.
func flagArgIndex(call *ssa.Call, flagOfValue func(ssa.Value) (flagVar, bool, bool), name string) int {
	for i, a := range call.Call.Args {
		if fv, _, ok := flagOfValue(a); ok && fv.name == name {
			return i
		}
	}
	return -1
}

// ruleSinkBound: the handler shares one lz4 object over all arguments and points it at each file with Reset. Every
// io.Copy through the object is preceded on all paths by a Reset; and for every file opened for the object (the output
// file of compress, the input file of uncompress) no copy is reachable from the open call without the Reset onto that
// file - otherwise the data of this argument goes to (or comes from) the file of the previous one.
func ruleSinkBound(c *Check, p *Program, h *ssa.Function, typ, cmd, rule string) {
	// the per-file work may live in helpers of package main: analyse every function of the handler's family that resets the object
	seen := map[*ssa.Function]bool{h: true}
	work := []*ssa.Function{h}
	found := false
	for d := 0; d < 4 && len(work) > 0; d++ {
		var next []*ssa.Function
		for _, g := range work {
			if ruleSinkBoundIn(c, p, g, typ, cmd, rule) {
				found = true
			}
			for _, ci := range callsIn(g) {
				if f := staticCallee(ci); f != nil && f.Pkg == h.Pkg && len(f.Blocks) > 0 && !seen[f] {
					seen[f] = true
					next = append(next, f)
				}
			}
			for _, a := range g.AnonFuncs {
				if !seen[a] {
					seen[a] = true
					next = append(next, a)
				}
			}
		}
		work = next
	}
	if !found {
		c.Fail(rule, "lz4c."+cmd+"#reset-per-file", p.Pos(h.Pos()), "the shared "+typ+" is pointed at each file with Reset", "no "+typ+".Reset call in the handler or its helpers")
	}
}

func ruleSinkBoundIn(c *Check, p *Program, h *ssa.Function, typ, cmd, rule string) bool {
	stripIface := func(v ssa.Value) ssa.Value {
		for i := 0; i < 4; i++ {
			switch x := v.(type) {
			case *ssa.MakeInterface:
				v = x.X
				continue
			case *ssa.ChangeInterface:
				v = x.X
				continue
			}
			break
		}
		return v
	}
	openOf := func(v ssa.Value) *ssa.Call {
		v = stripIface(v)
		if ex, ok := v.(*ssa.Extract); ok && ex.Index == 0 {
			if call, isC := ex.Tuple.(*ssa.Call); isC && (calleeIs(call, "os", "OpenFile") || calleeIs(call, "os", "Open") || calleeIs(call, "os", "Create")) {
				return call
			}
		}
		return nil
	}
	var resets []ssa.CallInstruction
	var obj ssa.Value
	for _, ci := range callsIn(h) {
		if isLz4(staticCallee(ci), typ+".Reset") {
			resets = append(resets, ci)
			obj = ci.Common().Args[0]
		}
	}
	if len(resets) == 0 {
		return false
	}
	var copies []ssa.Instruction
	for _, ci := range callsIn(h) {
		if !calleeIs(ci, "io", "Copy") {
			continue
		}
		for _, a := range ci.Common().Args {
			if originOfVar(stripIface(a)) == originOfVar(obj) {
				copies = append(copies, ci)
			}
		}
	}
	isCopy := func(in ssa.Instruction) bool {
		for _, x := range copies {
			if x == in {
				return true
			}
		}
		return false
	}
	isAnyReset := func(in ssa.Instruction) bool {
		for _, r := range resets {
			if r == in {
				return true
			}
		}
		return false
	}
	c.Sites += len(copies)
	unbound, _ := reachAvoid(h, nil, isCopy, isAnyReset)
	c.Cond(len(copies) > 0 && !unbound, rule, "lz4c."+cmd+"#copy-after-reset", p.Pos(h.Pos()), "every io.Copy through the shared "+typ+" is preceded by a Reset (the object is created with a nil stream)", fmt.Sprintf("%d copies, each dominated by a Reset", len(copies)), fmt.Sprintf("copies through the %s: %d; one of them is reachable without any Reset: %v", typ, len(copies), unbound))
	// per opened file
	nBound, nOpen := 0, 0
	wantOut := typ == "Writer"
	for _, ci := range callsIn(h) {
		call, ok := ci.(*ssa.Call)
		if !ok || !(calleeIs(ci, "os", "OpenFile") || calleeIs(ci, "os", "Open") || calleeIs(ci, "os", "Create")) {
			continue
		}
		isOut := false
		if calleeIs(ci, "os", "Create") {
			isOut = true
		} else if calleeIs(ci, "os", "OpenFile") {
			if k, isK := constUint(call.Call.Args[1]); isK && k&3 != 0 {
				isOut = true
			}
		}
		var mine []ssa.Instruction
		for _, r := range resets {
			if openOf(r.Common().Args[1]) == call {
				mine = append(mine, r)
			}
		}
		if isOut != wantOut && len(mine) == 0 {
			continue // the other side's file
		}
		isMine := func(in ssa.Instruction) bool {
			for _, r := range mine {
				if r == in {
					return true
				}
			}
			return false
		}
		nOpen++
		stale, _ := reachAvoid(h, call, isCopy, isMine)
		if !stale {
			nBound++
		}
		c.Cond(!stale, rule, "lz4c."+cmd+"#reset-onto-opened-file", p.InstrPos(call), "between opening the file of this argument and the copy, the shared "+typ+" is Reset onto that file on every path", "every path from the open call to a copy passes Reset(file)", "a copy through the "+typ+" is reachable from this open call without Reset onto the opened file: the data of this argument is written to / read from the stream of the previous argument (or the nil stream)")
	}
	c.Cond(nBound >= 1 || nOpen == 0, rule, "lz4c."+cmd+"#reset-per-file", p.Pos(h.Pos()), "the handler opens a file per argument and binds the "+typ+" to it", fmt.Sprintf("%d opened files bound", nBound), "no opened file is bound to the "+typ+" by Reset before the copy")
	return true
}

// levelTableOf: v is a load of an element of a package-level array; returns the constant elements written by the
// package initialiser (by index; absent entries are zero) and the array length.
func levelTableOf(v ssa.Value) (map[uint64]uint64, uint64, bool) {
	ld, ok := v.(*ssa.UnOp)
	if !ok || ld.Op != token.MUL {
		return nil, 0, false
	}
	ia, ok := ld.X.(*ssa.IndexAddr)
	if !ok {
		return nil, 0, false
	}
	g, ok := ia.X.(*ssa.Global)
	if !ok || g.Pkg == nil {
		return nil, 0, false
	}
	pt, ok := g.Type().Underlying().(*types.Pointer)
	if !ok {
		return nil, 0, false
	}
	arr, ok := pt.Elem().Underlying().(*types.Array)
	if !ok {
		return nil, 0, false
	}
	init := g.Pkg.Func("init")
	if init == nil {
		return nil, 0, false
	}
	tab := map[uint64]uint64{}
	good := true
	allInstrs(init, func(in ssa.Instruction) {
		st, isS := in.(*ssa.Store)
		if !isS {
			return
		}
		sa, isIA := st.Addr.(*ssa.IndexAddr)
		if !isIA {
			return
		}
		if sa.X != ssa.Value(g) {
			// the literal is built in a temporary that is then copied into the variable
			al, isAl := sa.X.(*ssa.Alloc)
			if !isAl || al.Referrers() == nil {
				return
			}
			copied := false
			for _, r := range *al.Referrers() {
				if ld, isLd := r.(*ssa.UnOp); isLd && ld.Op == token.MUL && ld.Referrers() != nil {
					for _, rr := range *ld.Referrers() {
						if s2, isS2 := rr.(*ssa.Store); isS2 && s2.Addr == ssa.Value(g) {
							copied = true
						}
					}
				}
			}
			if !copied {
				return
			}
		}
		i, okI := constUint(sa.Index)
		k, okK := constUint(st.Val)
		if !okI || !okK {
			good = false
			return
		}
		tab[i] = k
	})
	// the table must not be written anywhere else
	for _, m := range g.Pkg.Members {
		if f, isF := m.(*ssa.Function); isF && f != init {
			for _, h := range withAnon(f) {
				allInstrs(h, func(in ssa.Instruction) {
					if st, isS := in.(*ssa.Store); isS {
						if sa, isIA := st.Addr.(*ssa.IndexAddr); isIA && sa.X == ssa.Value(g) {
							good = false
						}
					}
				})
			}
		}
	}
	return tab, uint64(arr.Len()), good
}

// R20.12: every frame lz4c starts is finished. Abstract execution of the
// compress handler over the shared Writer's client-side states {idle, open}:
// io.Copy into the Writer opens a frame, Writer.Close (called directly, or
// through a slice of io.Closer that is ranged over calling Close) finishes it.
// A frame must not be open when the Writer is pointed at another file (Reset
// discards what has not been flushed and never writes the end mark), nor when
// the handler returns without an error.
func ruleFramesFinished(c *Check, p *Program, h *ssa.Function) {
	const (
		sIdle = 1 << iota
		sOpen
	)
	isWriterVal := func(v ssa.Value) bool {
		return strings.HasSuffix(v.Type().String(), "lz4/v4.Writer")
	}
	// stores that put the Writer into a list of closers whose elements are closed by a loop
	closerStores := map[ssa.Instruction]bool{}
	var famInstrs []ssa.Instruction
	for _, famFn := range lz4cFamily(h) {
		allInstrs(famFn, func(in ssa.Instruction) { famInstrs = append(famInstrs, in) })
	}
	forFam := func(visit func(in ssa.Instruction)) {
		for _, in := range famInstrs {
			visit(in)
		}
	}
	forFam(func(in ssa.Instruction) {
		st, ok := in.(*ssa.Store)
		if !ok {
			return
		}
		mi, isMI := st.Val.(*ssa.MakeInterface)
		ia, isIA := st.Addr.(*ssa.IndexAddr)
		if !isMI || !isIA || !isWriterVal(mi.X) {
			return
		}
		arr := ia.X
		// an invoke of Close on an element of (a slice of) the same array
		closed := false
		allInstrsDeep(h, func(j ssa.Instruction) {
			ci, isC := j.(ssa.CallInstruction)
			if !isC || !ci.Common().IsInvoke() || ci.Common().Method.Name() != "Close" {
				return
			}
			walkBack(ci.Common().Value, false, func(v ssa.Value) bool {
				if v == arr {
					closed = true
				}
				return true
			})
		})
		if closed {
			closerStores[in] = true
		}
	})
	bad := map[ssa.Instruction]string{}
	nCopy, nClose := 0, 0
	seenEv := map[ssa.Instruction]bool{}
	deferredClose := false
	outState := map[*ssa.BasicBlock]int{}
	var run func(h *ssa.Function, entry int, top bool, depth int) int
	run = func(h *ssa.Function, entry int, top bool, depth int) int {
		exit := 0
		in := map[*ssa.BasicBlock]int{}
		work := []*ssa.BasicBlock{h.Blocks[0]}
		in[h.Blocks[0]] = entry
		for len(work) > 0 {
			b := work[len(work)-1]
			work = work[:len(work)-1]
			cur := in[b]
			for _, i := range b.Instrs {
				if closerStores[i] {
					if !seenEv[i] {
						seenEv[i] = true
						nClose++
					}
					cur = sIdle
					continue
				}
				if _, isRD := i.(*ssa.RunDefers); isRD && deferredClose {
					cur = sIdle
					continue
				}
				if r, isR := i.(*ssa.Return); isR {
					// what a caller continues with is the state of the returns that can report success
					succ := true
					if nr := len(r.Results); nr > 0 && isErrorType(r.Results[nr-1].Type()) {
						if !mayBeNilErr(r.Results[nr-1], b) {
							succ = false
						}
						for _, a := range atomsOfBlock(b) {
							if a.Kind == "errnil" && !a.Val && a.V == r.Results[nr-1] {
								succ = false
							}
						}
					}
					if succ {
						exit |= cur
					}
					if top && cur&sOpen != 0 && len(r.Results) > 0 {
						e := r.Results[len(r.Results)-1]
						// with defer statements in the function the results travel through result cells
						if ld, isL := e.(*ssa.UnOp); isL && ld.Op == token.MUL {
							if _, isAl := ld.X.(*ssa.Alloc); isAl {
								for _, j := range b.Instrs {
									if st, isS := j.(*ssa.Store); isS && st.Addr == ld.X {
										e = st.Val
									}
								}
							}
						}
						if call, isCall := e.(*ssa.Call); isCall && isLz4(staticCallee(call), "Writer.Close") {
							continue
						}
						if ph, isPhi := e.(*ssa.Phi); isPhi && ph.Block() == b {
							// one verdict per incoming edge: the state that arrives on it, and the value it carries
							anyBad := false
							for pi, pb := range b.Preds {
								ev := ph.Edges[pi]
								if !mayBeNilErr(ev, pb) {
									continue
								}
								nonNil := false
								ats := append([]Atom{}, atomsOfBlock(pb)...)
								if ifi, isIf := pb.Instrs[len(pb.Instrs)-1].(*ssa.If); isIf && len(pb.Succs) == 2 && pb.Succs[0] != pb.Succs[1] {
									ats = append(ats, atomOf(ifi.Cond, pb.Succs[0] == b))
								}
								for _, a := range ats {
									if a.Kind == "errnil" && !a.Val && a.V == ev {
										nonNil = true
									}
								}
								if !nonNil && outState[pb]&sOpen != 0 {
									anyBad = true
								}
							}
							if anyBad {
								bad[i] = "the handler can return without an error while the frame written by io.Copy has not been closed: no end mark and no content checksum reach the output"
							}
							continue
						}
						if isErrorType(e.Type()) && mayBeNilErr(e, b) {
							definitelyFailed := false
							for _, a := range atomsOfBlock(b) {
								if a.Kind == "errnil" && !a.Val && a.V == e {
									definitelyFailed = true
								}
							}
							if !definitelyFailed {
								bad[i] = "the handler can return without an error while the frame written by io.Copy has not been closed: no end mark and no content checksum reach the output"
							}
						}
					}
					continue
				}
				ci, ok := i.(ssa.CallInstruction)
				if !ok {
					continue
				}
				f := staticCallee(ci)
				switch {
				case isLz4(f, "NewWriter"):
					cur = sIdle
				case isLz4(f, "Writer.Reset"):
					if cur&sOpen != 0 {
						bad[i] = "the Writer is pointed at the next output while the previous frame may still be open: Reset discards it without writing the end mark (every output file but the last is truncated)"
					}
					cur = sIdle
				case isLz4(f, "Writer.Close"):
					if _, isDefer := i.(*ssa.Defer); isDefer {
						// runs when the handler returns, not here
						if i.Block() == h.Blocks[0] || i.Block().Dominates(i.Block()) {
							// only a registration outside any loop finishes the one frame of the run
							inLoop := false
							seen := map[*ssa.BasicBlock]bool{}
							var dfs func(x *ssa.BasicBlock)
							dfs = func(x *ssa.BasicBlock) {
								if seen[x] {
									return
								}
								seen[x] = true
								for _, s := range x.Succs {
									if s == i.Block() {
										inLoop = true
									}
									dfs(s)
								}
							}
							dfs(i.Block())
							if !inLoop {
								deferredClose = true
							}
						}
						continue
					}
					if !seenEv[i] {
						seenEv[i] = true
						nClose++
					}
					cur = sIdle
				case calleeIs(ci, "io", "Copy"):
					if len(ci.Common().Args) > 0 {
						if mi, isMI := ci.Common().Args[0].(*ssa.MakeInterface); isMI && isWriterVal(mi.X) {
							if !seenEv[i] {
								seenEv[i] = true
								nCopy++
							}
							cur = sOpen
						}
					}
				default:
					// a helper of the command: its effect on the Writer is that of its body
					if _, isCall := i.(*ssa.Call); isCall && f != nil && f.Pkg == h.Pkg && len(f.Blocks) > 0 && depth > 0 && f != h {
						if out := run(f, cur, false, depth-1); out != 0 {
							cur = out
						}
					}
				}
			}
			outState[b] |= cur
			for _, s := range b.Succs {
				if in[s]|cur != in[s] {
					in[s] |= cur
					work = append(work, s)
				}
			}
		}
		return exit
	}
	run(h, sIdle, true, 2)
	// returns judged per incoming edge need the final out-states: a second pass with them in place
	for k := range bad {
		delete(bad, k)
	}
	run(h, sIdle, true, 2)
	if nCopy == 0 {
		c.Fail("R20.12", "lz4c.compress#frames-finished", p.Pos(h.Pos()), "the copies into the shared Writer are resolved", "no io.Copy into the Writer found in the compress handler (anchor unresolved)")
		return
	}
	c.Sites += nCopy + nClose
	if len(bad) == 0 {
		c.OK("R20.12", "lz4c.compress#frames-finished", p.Pos(h.Pos()), "every frame started by io.Copy into the Writer is closed before the Writer is re-targeted and before the handler reports success", fmt.Sprintf("abstract execution over {idle, open}: %d copy site(s), %d close site(s)", nCopy, nClose), true)
		return
	}
	var keys []ssa.Instruction
	for at := range bad {
		keys = append(keys, at)
	}
	sort.Slice(keys, func(a, b int) bool { return keys[a].Pos() < keys[b].Pos() })
	var all []string
	for _, k := range keys {
		all = append(all, p.InstrPos(k)+": "+bad[k])
	}
	c.Fail("R20.12", "lz4c.compress#frames-finished", p.InstrPos(keys[0]), "every frame started by io.Copy into the Writer is closed before the Writer is re-targeted and before the handler reports success", strings.Join(all, " | "))
}

// lz4cFamily: the handler, its function literals and the functions of package main it reaches.
func lz4cFamily(h *ssa.Function) []*ssa.Function {
	seen := map[*ssa.Function]bool{h: true}
	out := []*ssa.Function{h}
	for i := 0; i < len(out) && i < 60; i++ {
		g := out[i]
		for _, a := range g.AnonFuncs {
			if !seen[a] {
				seen[a] = true
				out = append(out, a)
			}
		}
		for _, ci := range callsIn(g) {
			if f := staticCallee(ci); f != nil && f.Pkg == h.Pkg && len(f.Blocks) > 0 && !seen[f] {
				seen[f] = true
				out = append(out, f)
			}
		}
	}
	return out
}

// R20.13: the whole input goes through the codec. Every call that moves data
// into the Writer or out of the Reader is io.Copy (which reads to the end of
// its source); a copy bounded by a number obtained elsewhere (the size reported
// by Stat, say) drops what the number does not cover - pipes, /proc files and
// files still being written report less than they deliver.
func ruleWholeInputCopied(c *Check, p *Program, h *ssa.Function, typ, cmd string) {
	isObj := func(v ssa.Value) bool {
		for i := 0; i < 4; i++ {
			switch x := v.(type) {
			case *ssa.MakeInterface:
				v = x.X
				continue
			case *ssa.ChangeInterface:
				v = x.X
				continue
			}
			break
		}
		return strings.HasSuffix(v.Type().String(), "lz4/v4."+typ)
	}
	n := 0
	bad := ""
	for _, g := range lz4cFamily(h) {
		for _, ci := range callsIn(g) {
			f := staticCallee(ci)
			if f == nil || f.Pkg == nil || f.Pkg == h.Pkg || isLz4(f, typ+"."+f.Name()) {
				continue // helpers of the command are walked themselves; methods of the object are not data movers
			}
			uses := false
			for _, a := range ci.Common().Args {
				if isObj(a) {
					uses = true
				}
			}
			if !uses {
				continue
			}
			n++
			c.Sites++
			if !calleeIs(ci, "io", "Copy") && bad == "" {
				bad = p.InstrPos(ci) + " (" + f.Pkg.Pkg.Path() + "." + f.Name() + ")"
			}
		}
	}
	if n == 0 {
		c.Fail("R20.13", "lz4c."+cmd+"#whole-input-copied", p.Pos(h.Pos()), "the data movers of the "+cmd+" handler are resolved", "no call that is handed the "+typ+" found (anchor unresolved)")
		return
	}
	c.Cond(bad == "", "R20.13", "lz4c."+cmd+"#whole-input-copied", p.Pos(h.Pos()), "data moves into the Writer / out of the Reader only through io.Copy, i.e. to the end of the source", fmt.Sprintf("%d data-moving call(s), all io.Copy", n), "the call at "+bad+" moves a bounded or otherwise filtered amount: what the bound does not cover is silently left out of the output")
}

// R20.14: the file that is opened is the file that was named. The name handed
// to os.Open / os.OpenFile / os.Create derives from the handler's argument
// list only through selection of an element, fmt.Sprintf and
// strings.TrimSuffix (the extension is appended or removed), or string
// concatenation - never through a function that may substitute another name
// (pattern expansion, cleaning, lookup).
func ruleNamesUnchanged(c *Check, p *Program, h *ssa.Function, cmd string) {
	fam := lz4cFamily(h)
	inFam := map[*ssa.Function]bool{}
	for _, g := range fam {
		inFam[g] = true
	}
	var okName func(v ssa.Value, depth int) (bool, string)
	onStack := map[ssa.Value]bool{}
	okName = func(v ssa.Value, depth int) (bool, string) {
		if depth > 30 {
			return false, "derivation too deep"
		}
		if _, isPhi := v.(*ssa.Phi); isPhi {
			// a loop-carried variable (rest = rest[1:]): the value coming round the loop adds nothing new
			if onStack[v] {
				return true, ""
			}
			onStack[v] = true
			defer delete(onStack, v)
		}
		switch x := v.(type) {
		case *ssa.Const:
			return true, ""
		case *ssa.Global:
			return true, ""
		case *ssa.Parameter:
			g := x.Parent()
			if g == h {
				return true, ""
			}
			if srcs := capturedSources(x); len(srcs) > 0 {
				_ = srcs
			}
			idx := -1
			for i, pr := range g.Params {
				if pr == x {
					idx = i
				}
			}
			nSites := 0
			for _, cand := range fam {
				for _, ci := range callsIn(cand) {
					if staticCallee(ci) == g && idx >= 0 && idx < len(ci.Common().Args) {
						nSites++
						if ok, why := okName(ci.Common().Args[idx], depth+1); !ok {
							return false, why
						}
					}
				}
			}
			if nSites == 0 {
				return false, "parameter " + x.Name() + " of " + shortFn(g) + " has no resolved call site"
			}
			return true, ""
		case *ssa.MakeInterface:
			return okName(x.X, depth+1)
		case *ssa.ChangeType:
			return okName(x.X, depth+1)
		case *ssa.Convert:
			return okName(x.X, depth+1)
		case *ssa.Slice:
			return okName(x.X, depth+1)
		case *ssa.IndexAddr:
			return okName(x.X, depth+1)
		case *ssa.Phi:
			for _, e := range x.Edges {
				if e == ssa.Value(x) {
					continue
				}
				if ok, why := okName(e, depth+1); !ok {
					return false, why
				}
			}
			return true, ""
		case *ssa.BinOp:
			if x.Op == token.ADD {
				if ok, why := okName(x.X, depth+1); !ok {
					return false, why
				}
				return okName(x.Y, depth+1)
			}
		case *ssa.Alloc:
			// a local array or variable: everything stored into it
			for _, r := range *x.Referrers() {
				switch y := r.(type) {
				case *ssa.Store:
					if y.Addr == ssa.Value(x) {
						if ok, why := okName(y.Val, depth+1); !ok {
							return false, why
						}
					}
				case *ssa.IndexAddr:
					for _, rr := range *y.Referrers() {
						if st, isS := rr.(*ssa.Store); isS && st.Addr == ssa.Value(y) {
							if ok, why := okName(st.Val, depth+1); !ok {
								return false, why
							}
						}
					}
				}
			}
			return true, ""
		case *ssa.UnOp:
			if x.Op == token.MUL {
				if srcs := capturedSources(x); len(srcs) > 0 {
					for _, sv := range srcs {
						if ok, why := okName(sv, depth+1); !ok {
							return false, why
						}
					}
					return true, ""
				}
				return okName(x.X, depth+1)
			}
		case *ssa.Extract:
			return okName(x.Tuple, depth+1)
		case *ssa.Next:
			return okName(x.Iter, depth+1)
		case *ssa.Range:
			return okName(x.X, depth+1)
		case *ssa.Call:
			f := staticCallee(x)
			if f != nil && f.Pkg != nil {
				pp := f.Pkg.Pkg.Path()
				if (pp == "fmt" && f.Name() == "Sprintf") || (pp == "strings" && f.Name() == "TrimSuffix") {
					for _, a := range x.Call.Args {
						if ok, why := okName(a, depth+1); !ok {
							return false, why
						}
					}
					return true, ""
				}
				if inFam[f] {
					// a helper of the command that returns a name: its results
					var why string
					ok := true
					allInstrs(f, func(in ssa.Instruction) {
						if r, isR := in.(*ssa.Return); isR {
							for _, res := range r.Results {
								if bt, isB := res.Type().Underlying().(*types.Basic); isB && bt.Kind() == types.String {
									if o, w := okName(res, depth+1); !o {
										ok, why = false, w
									}
								}
							}
						}
					})
					return ok, why
				}
				return false, "the name passes through " + pp + "." + f.Name()
			}
			if bi, isB := x.Call.Value.(*ssa.Builtin); isB {
				return false, "the name passes through the builtin " + bi.Name() + " (a list built at run time)"
			}
		}
		return false, "the name derives from " + shortVal(v)
	}
	n := 0
	for _, g := range fam {
		for _, ci := range callsIn(g) {
			if !(calleeIs(ci, "os", "Open") || calleeIs(ci, "os", "OpenFile") || calleeIs(ci, "os", "Create")) {
				continue
			}
			n++
			c.Sites++
			ok, why := okName(ci.Common().Args[0], 0)
			c.Cond(ok, "R20.14", fmt.Sprintf("lz4c.%s#name-as-given#%d", cmd, n), p.InstrPos(ci), "the name opened derives from the argument list only by selecting an element and adding or removing the extension", "argument element, fmt.Sprintf / strings.TrimSuffix of it", why+": a name that contains pattern or path syntax is replaced by another file's name, which is then read or overwritten instead")
		}
	}
	if n < 2 {
		c.Fail("R20.14", "lz4c."+cmd+"#open-sites", p.Pos(h.Pos()), "the input and output files of the "+cmd+" handler are opened in it", fmt.Sprintf("only %d os.Open/OpenFile/Create call(s) found", n))
	}
}

// R20.15: where the command reads its input itself (io.ReadFull / io.ReadAtLeast
// in a loop instead of io.Copy), the clean end of the input is not reported as a
// failure: io.ReadFull returns io.EOF when the input ends on a chunk boundary,
// so an error of such a read reaches a return only behind a test that has
// excluded io.EOF. No instance on the current tree (lz4c copies with io.Copy).
func ruleChunkReadEOF(c *Check, p *Program, h *ssa.Function, cmd string) {
	n := 0
	for _, g := range lz4cFamily(h) {
		for _, ci := range callsIn(g) {
			call, isCall := ci.(*ssa.Call)
			if !isCall || !(calleeIs(ci, "io", "ReadFull") || calleeIs(ci, "io", "ReadAtLeast")) {
				continue
			}
			n++
			c.Sites++
			bad := ""
			seen := map[*ssa.BasicBlock]bool{}
			var walk func(b *ssa.BasicBlock, from int)
			walk = func(b *ssa.BasicBlock, from int) {
				if from == 0 {
					if seen[b] {
						return
					}
					seen[b] = true
				}
				for _, in := range b.Instrs[from:] {
					if r, isR := in.(*ssa.Return); isR && bad == "" {
						for _, res := range r.Results {
							if !isErrorType(res.Type()) {
								continue
							}
							v := res
							if ld, isL := v.(*ssa.UnOp); isL && ld.Op == token.MUL {
								for _, j := range b.Instrs {
									if st, isS := j.(*ssa.Store); isS && st.Addr == ld.X {
										v = st.Val
									}
								}
							}
							if resultIndexOf(v, call) == 1 || derivesFromValue(v, call) {
								bad = p.InstrPos(in)
							}
						}
					}
				}
				ifi, isIf := b.Instrs[len(b.Instrs)-1].(*ssa.If)
				for k, s := range b.Succs {
					if isIf && len(b.Succs) == 2 {
						a := atomOf(ifi.Cond, k == 0)
						if a.Kind == "eofcmp" && a.Val {
							continue // the end of the input is handled on this edge
						}
						if a.Kind == "errnil" && a.Val && resultIndexOf(a.V, call) == 1 {
							continue // no error
						}
					}
					walk(s, 0)
				}
			}
			walk(call.Block(), idxOf(call)+1)
			c.Cond(bad == "", "R20.15", fmt.Sprintf("lz4c.%s#chunk-read-eof#%d", cmd, n), p.InstrPos(ci), "an error of io.ReadFull is returned only where io.EOF has been excluded (the input may end exactly on a chunk boundary)", "every returning path lies behind an io.EOF test", "the return at "+bad+" can hand back io.EOF: an input whose length is a multiple of the chunk size ends the command with an error before the frame is closed")
		}
	}
	if n == 0 {
		c.OK("R20.15", "lz4c."+cmd+"#chunk-read-eof", p.Pos(h.Pos()), "the command does not read its input in chunks of its own (io.Copy does)", "no io.ReadFull / io.ReadAtLeast in the handler", false)
	}
}


// originOfVar: a value read back from a local variable that lives in a cell (because a function literal captures
// it) is the value that was stored there, when there is exactly one such store; otherwise v itself.
func originOfVar(v ssa.Value) ssa.Value {
	for i := 0; i < 4; i++ {
		ld, ok := v.(*ssa.UnOp)
		if !ok || ld.Op != token.MUL {
			return v
		}
		var srcs []ssa.Value
		switch cell := ld.X.(type) {
		case *ssa.Alloc:
			if refs := cell.Referrers(); refs != nil {
				for _, r := range *refs {
					if st, isS := r.(*ssa.Store); isS && st.Addr == ssa.Value(cell) {
						srcs = append(srcs, st.Val)
					}
				}
			}
		case *ssa.FreeVar:
			srcs = capturedSources(ld)
		default:
			return v
		}
		if len(srcs) != 1 {
			return v
		}
		v = srcs[0]
	}
	return v
}

// R20.16: the compressed input reaches the decoder untouched. In the uncompress handler the file opened for reading
// is handed to the lz4 Reader (Reset / NewReader) and is otherwise only inspected (Stat, Name, Close, Seek): a read
// of the command's own on it - a header pre-check, say - either takes bytes away from the decoder or demands more
// bytes than the smallest frame has (4 magic + 3 descriptor + 4 end mark = 11; an empty file compressed without
// content checksum is 11 bytes long). A peek of at most 11 bytes into a local array is tolerated.
func ruleInputOnlyThroughReader(c *Check, p *Program, h *ssa.Function) {
	const smallestFrame = 11
	strip := func(v ssa.Value) ssa.Value {
		for i := 0; i < 6; i++ {
			switch x := v.(type) {
			case *ssa.MakeInterface:
				v = x.X
				continue
			case *ssa.ChangeInterface:
				v = x.X
				continue
			}
			nv := originOfVar(v)
			if nv == v {
				break
			}
			v = nv
		}
		return v
	}
	isInput := func(v ssa.Value) bool {
		v = strip(v)
		ex, ok := v.(*ssa.Extract)
		if !ok || ex.Index != 0 {
			return false
		}
		call, isC := ex.Tuple.(*ssa.Call)
		if !isC {
			return false
		}
		if calleeIs(call, "os", "Open") {
			return true
		}
		// a helper of the command that opens the file and returns it among its results
		hf := staticCallee(call)
		if hf == nil || hf.Pkg != h.Pkg || len(hf.Blocks) == 0 {
			return false
		}
		all, any := true, false
		allInstrs(hf, func(in ssa.Instruction) {
			r, isR := in.(*ssa.Return)
			if !isR || ex.Index >= len(r.Results) {
				return
			}
			rv := strip(r.Results[ex.Index])
			if isNilConst(rv) {
				return
			}
			e2, ok2 := rv.(*ssa.Extract)
			c2, isC2 := (ssa.Value)(nil), false
			if ok2 && e2.Index == 0 {
				var cc *ssa.Call
				cc, isC2 = e2.Tuple.(*ssa.Call)
				if isC2 && calleeIs(cc, "os", "Open") {
					any = true
					return
				}
			}
			_ = c2
			all = false
		})
		return all && any
	}
	bufLen := func(v ssa.Value) (int64, bool) {
		sl, ok := v.(*ssa.Slice)
		if !ok || sl.Low != nil || sl.High != nil {
			return 0, false
		}
		pt, isP := sl.X.Type().Underlying().(*types.Pointer)
		if !isP {
			return 0, false
		}
		arr, isA := pt.Elem().Underlying().(*types.Array)
		if !isA {
			return 0, false
		}
		return arr.Len(), true
	}
	opens, handed, n := 0, 0, 0
	for _, g := range lz4cFamily(h) {
		for _, ci := range callsIn(g) {
			if calleeIs(ci, "os", "Open") {
				opens++
			}
			f := staticCallee(ci)
			if f == nil || f.Pkg == nil || f.Pkg == h.Pkg {
				continue
			}
			args := ci.Common().Args
			idx := -1
			for i, a := range args {
				if isInput(a) {
					idx = i
				}
			}
			if idx < 0 {
				continue
			}
			if isLz4(f, "Reader.Reset") || isLz4(f, "NewReader") {
				handed++
				continue
			}
			reads := false
			var size int64 = -1
			switch {
			case f.Pkg.Pkg.Path() == "os" && recvTypeName(f) == "File":
				switch f.Name() {
				case "Read", "ReadAt":
					reads = true
					if len(args) > 1 {
						if l, ok := bufLen(args[1]); ok {
							size = l
						}
					}
				case "ReadFrom", "WriteTo", "ReadDir", "Readdir", "Readdirnames":
					reads = true
				}
			case f.Pkg.Pkg.Path() == "io" && (f.Name() == "ReadFull" || f.Name() == "ReadAtLeast"):
				reads = true
				if len(args) > 1 {
					if l, ok := bufLen(args[1]); ok {
						size = l
					}
				}
			default:
				// handed to anything else as a reader (io.Copy, io.ReadAll, bufio.NewReader, ...)
				if _, isIface := args[idx].Type().Underlying().(*types.Interface); isIface {
					reads = true
				}
			}
			if !reads {
				continue
			}
			n++
			c.Sites++
			ok := size >= 0 && size <= smallestFrame
			c.Cond(ok, "R20.16", fmt.Sprintf("lz4c.uncompress#input-only-through-reader#%d", n), p.InstrPos(ci), "the compressed input is read by the lz4 Reader only; the command itself peeks at no more than the smallest frame (11 bytes)", fmt.Sprintf("bounded peek of %d byte(s)", size), "the handler reads the input itself through "+f.Pkg.Pkg.Path()+"."+f.Name()+func() string {
				if size >= 0 {
					return fmt.Sprintf(" (%d bytes, the smallest frame has %d)", size, smallestFrame)
				}
				return ""
			}()+": bytes are taken away from the decoder, or a short but well-formed .lz4 file is refused")
		}
	}
	c.Cond(opens > 0 && handed > 0, "R20.16", "lz4c.uncompress#input-handed-to-reader", p.Pos(h.Pos()), "the file opened for reading is handed to the lz4 Reader", fmt.Sprintf("%d os.Open call(s), %d hand-over(s) to the Reader", opens, handed), fmt.Sprintf("%d os.Open call(s), %d hand-over(s) to the Reader (anchor unresolved)", opens, handed))
}
