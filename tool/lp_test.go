package main
import "testing"
func TestLP(t *testing.T){
	tab := newSymTab(); defaultTab = tab
	x, y := linS(tab.get("x")), linS(tab.get("y"))
	s := newState()
	s.leq(x, linI(10)); s.leq(linI(3), x); s.leq(y, x.AddK(5)); s.leq(x.Scale(qi(2)), y)
	st,v := s.max(y); if st!=lpOptimal || v.Cmp(qi(10))!=0 { t.Fatal(st,v) }
	st,v = s.max(y.Neg()); if st!=lpOptimal || v.Cmp(qi(-6))!=0 { t.Fatal(st,v) }
	if !s.entails(y.Sub(linI(10))) || s.entails(y.Sub(linI(9))) { t.Fatal("entails") }
	s2 := newState(); s2.leq(x, linI(-5)); s2.leq(linI(-3), x)
	if s2.feasible() { t.Fatal("should be infeasible") }
	s3 := newState(); s3.leq(linI(0), x)
	st,_ = s3.max(x); if st!=lpUnbounded { t.Fatal(st) }
	// big numbers
	s4 := newState(); big := qPow2(64)
	s4.le(x.Sub(linK(big))); s4.leq(linK(qPow2(63)), x); s4.eqq(y, x.Sub(linK(big)))
	st,v = s4.max(y); if st!=lpOptimal || v.Sign()!=0 { t.Fatal(st,v) }
	st,v = s4.max(y.Neg()); if st!=lpOptimal || v.Cmp(qPow2(63))!=0 { t.Fatal(st,v.String()) }
	// equality + negative rhs needing phase 1
	s5 := newState(); s5.eqq(x.Add(y), linI(-7)); s5.leq(x, linI(-10))
	st,v = s5.max(y.Neg()); if st!=lpOptimal || v.Cmp(qi(-3))!=0 { t.Fatal(st,v) }
	st,_ = s5.max(y); if st!=lpUnbounded { t.Fatal(st) }
}
func TestMinGE(t *testing.T){
	tab := newSymTab(); tab.allNonneg = true; defaultTab = tab
	A, u := linS(tab.get("A")), linS(tab.get("u"))
	s := newState()
	s.le(A.Sub(linI(65535)))
	s.le(A.Sub(u))
	r := u.Sub(A)
	if s.minGE(r, qPow2(63)) { t.Fatal("minGE wrongly true") }
	if !s.feasible() { t.Fatal("infeasible") }
	st, v := s.max(r.Neg()); t.Log(st, v.String())
}
func TestMinGE2(t *testing.T){
	K := qPow2(63).Neg()
	v := qi(65535)
	t.Log("cmp", v.Cmp(K), v.Sub(K).String(), K.String(), qi(0).Cmp(K))
	a := Q{n:0,d:1}
	t.Log(a.Cmp(K), a.Sub(K).String())
}
func TestBigAdd(t *testing.T){
	tab := newSymTab(); tab.allNonneg = true; defaultTab = tab
	x, d, L := linS(tab.get("x")), linS(tab.get("d")), linS(tab.get("L"))
	s := newState()
	s.le(L.Sub(linK(qPow2(46))))
	s.leq(d, L)
	s.le(x.Sub(linK(qPow2(63).Sub(qi(1)))))
	st, v := s.max(d.Add(x)); t.Log(st, v.String())
	if !s.maxLE(d.Add(x), qPow2(64).Sub(qi(1))) { t.Fatal("maxLE failed") }
}
