package main
import ("os";"testing")
func TestDumpLz4c(t *testing.T){
	p,res,err := loadLz4c(); if err!=nil{t.Fatal(err)}
	t.Log(res)
	for path,sp := range p.SSA { t.Log(path); for _,n := range []string{"Compress"} { if f:=sp.Func(n);f!=nil{ for _,g := range withAnon(f){ if os.Getenv("ALL")!="" || g==f { g.WriteTo(os.Stdout)} } } } }
}
