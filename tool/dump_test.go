package main
import ("os";"testing";"strings")
func TestDump(t *testing.T){
	cfg := cfgAMD64
	if os.Getenv("DUMP_TAGS")!="" { cfg = Config{GOARCH:"amd64",Tags:os.Getenv("DUMP_TAGS")} }
	p,err := Load(cfg); if err!=nil{t.Fatal(err)}
	for _,spec := range strings.Split(os.Getenv("DUMP"),",") {
		i := strings.Index(spec,":")
		fn := p.Func(spec[:i],spec[i+1:])
		if fn==nil { t.Log("not found",spec); continue }
		for _,f := range withAnon(fn) { f.WriteTo(os.Stdout) }
	}
}
