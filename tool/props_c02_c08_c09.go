package main

import (
	"strings"

	"golang.org/x/tools/go/ssa"
)

func init() {
	register("C02", checkC02)
	register("C08", checkC08)
	register("C09", checkC09)
}

func checkC02(c *Check) {
	c.Explain = "Necessary conditions of every frame round trip, decided for the whole option matrix at once because the rules quantify over guards rather than option values: (R02.1) each optional wire field is emitted and consumed under exactly the same descriptor guards; (R02.2) legacy frames carry none of them; (R02.3) Close flushes before the trailer; (R02.4) block-size code, pool and buffer size tables agree; (R02.5) a buffer handed to a compression goroutine is never written again (Flush/Write/ReadFrom); (R02.6) each block is decoded into a buffer of the frame's block size; (R02.7) a caller's buffer is compressed in place only when nothing is pending; (R02.8) the raw-block flag matches the stored bytes on every path; (R02.9) block channel ordering (R08.2)."
	c.Uncov = []string{"equality of decoded and original bytes (value-level)", "block cutting arithmetic of Writer.Write beyond R02.7", "Read buffer-size independence beyond R02.6"}
	c.Trusted = trustedSSA
	for k, v := range map[string]string{"R02.1": "wire-field presence agreement", "R02.2": "legacy neutrality", "R02.3": "Close flushes before trailer", "R02.4": "size tables agree", "R02.5": "ownership hand-off", "R02.6": "decode destination size", "R02.7": "direct write only when nothing pending", "R02.8": "raw flag pairing", "R02.9": "enqueue before spawn"} {
		c.RuleDoc[k] = v
	}
	p := loadOrTrouble(c, cfgAMD64)
	if p == nil {
		return
	}
	ruleWireFields(c, p, "R02.1")
	ruleLegacyNeutral(c, p, "R02.2")
	ruleCloseFlushes(c, p, "R02.3")
	ruleSizeTables(c, p, "R02.4")
	ruleHandOff(c, p, "R02.5")
	ruleReaderDst(c, p, "R02.6")
	ruleDirectWrite(c, p, "R02.7")
	ruleRawFlagPairing(c, p, "R02.8")
	ruleEnqueueBeforeSpawn(c, p, "R02.9")
	ruleBuffersRefetched(c, p, "R02.10", "Writer", "Reader", "CompressingReader")
	ruleContentHashDiscipline(c, p, "R02.11")
	c.RuleDoc["R02.10"] = "block-sized buffers agree with the frame's block size: re-fetched at frame start"
	ruleChunkAccounting(c, p, "R02.16")
	ruleReadContract(c, p, "R02.16")
	c.RuleDoc["R02.16"] = "chunking arithmetic of Writer.Write and Reader.Read (bounds prover): counts, cursor stores, no panic"
	ruleNoEmptyBlock(c, p, "R02.17", "")
	c.RuleDoc["R02.17"] = "no empty data block is emitted (= R09.14): its size word is the end mark, and the sequential Reader takes a zero-length block for 'block left in its own buffer' and hands out stale bytes"
	ruleInitTransition(c, p, "R02.18")
	c.RuleDoc["R02.18"] = "the first-use initialisation is followed by the state transition on every path (= R17.10): otherwise the header is written twice and the frame no longer decodes"
	ruleConcurrencyAtLeastOne(c, p, "R02.21")
	c.RuleDoc["R02.21"] = "= R08.14: the stored concurrency is at least 1 (0 selects the concurrent path with a nil queue: the first block blocks forever)"
	ruleBlockChecksumOnEveryPath(c, p, "R02.22")
	c.RuleDoc["R02.22"] = "every path through Compress decides (and where declared stores) the block checksum after the stored bytes are selected (the block object is reused)"
	ruleNoAppendOntoBlockBytes(c, p, "R02.20")
	c.RuleDoc["R02.20"] = "nothing is appended to a slice of block bytes (borrowed from the caller or from the pool)"
	ruleCloseWAlwaysCloses(c, p, "R02.19")
	c.RuleDoc["R02.19"] = "= R08.15: Close waits for the block pipeline on every path, legacy frames included (blocks still queued when Close returns never reach the sink)"
	ruleOwnBufferNotAliased(c, p, "R02.15")
	c.RuleDoc["R02.15"] = "the Reader's block buffer never becomes the caller's buffer"
	ruleLegacyDescriptor(c, p, "R02.14")
	c.RuleDoc["R02.14"] = "the synthetic legacy descriptor declares only the block size (= R06.7)"
	rulePendingConsumedOnce(c, p, "R02.13")
	c.RuleDoc["R02.13"] = "the accumulation buffer is consumed exactly once and in call order: w.idx reset after every hand-over, ReadFrom flushes pending bytes first"
	ruleSizeGuardExact(c, p, "R02.12")
	c.RuleDoc["R02.12"] = "the oversize exit of the block reader is strict: blocks of exactly the maximum size are accepted"
	c.RuleDoc["R02.11"] = "content hash fed in stream order only, reset at frame start only"
}

func checkC08(c *Check) {
	c.Explain = "No static argument here covers all interleavings; the check decides the structural discipline the pipelines rely on, each a necessary condition of the property: lockset of the shared error latch (R08.1), enqueue-before-spawn ordering (R08.2), exactly-once close of per-block channels in the ordering goroutine (R08.3), buffers released only after their last use and workers always answering (R08.4), ownership hand-off of the accumulation buffer (R08.5), sentinel only to a live goroutine (R08.6), no owner access after the last synchronisation (R08.7), reader shutdown protocol on every exit (R08.8), latch cleared on close (R08.9)."
	c.Uncov = []string{"race freedom and deadlock freedom in general (all schedules)", "buffer use-after-release beyond the orderings above", "goroutine counts"}
	c.Trusted = trustedSSA
	for k, v := range map[string]string{"R08.1": "lockset for Blocks.err", "R08.2": "enqueue before spawn", "R08.3": "close exactly once", "R08.4": "release after last use / workers always answer", "R08.5": "ownership hand-off", "R08.6": "sentinel needs live goroutine", "R08.7": "joined epilogue", "R08.8": "reader shutdown protocol", "R08.9": "Blocks.close returns and clears the latch"} {
		c.RuleDoc[k] = v
	}
	p := loadOrTrouble(c, cfgAMD64)
	if p == nil {
		return
	}
	ruleLockset(c, p, "R08.1")
	ruleEnqueueBeforeSpawn(c, p, "R08.2")
	ruleCloseOnce(c, p, "R08.3")
	ruleReleaseAfterUse(c, p, "R08.4")
	ruleHandOff(c, p, "R08.5")
	ruleLiveness(c, p, "R08.6")
	ruleJoinedEpilogue(c, p, "R08.7")
	ruleReaderShutdown(c, p, "R08.8")
	ruleBlocksCloseLatch(c, p, "R08.9")
	ruleOrderingGoroutineLatch(c, p, "R08.10")
	ruleContentHashDiscipline(c, p, "R08.11")
	ruleContentHashFeed(c, p, "R08.12")
	ruleReadFromRelease(c, p, "R08.18")
	ruleOrderingDrains(c, p, "R08.19")
	c.RuleDoc["R08.19"] = "the ordering goroutine returns only on a closed queue or on the sentinel (it keeps draining after a failed write)"
	c.RuleDoc["R08.18"] = "ReadFrom does not release a buffer it has handed to the pipeline (finite-state exploration of its loop)"
	ruleCollectorStopsAfterFailure(c, p, "R08.17")
	c.RuleDoc["R08.17"] = "the collector of the concurrent decoder forwards nothing after a failed block (finite-state exploration of its loop)"
	ruleCloseWAlwaysCloses(c, p, "R08.15")
	c.RuleDoc["R08.15"] = "Frame.CloseW performs the pipeline shutdown on every path"
	ruleNoDoubleRelease(c, p, "R08.16")
	c.RuleDoc["R08.16"] = "a field-held pool buffer is released once: the field is overwritten after Put"
	ruleConcurrencyAtLeastOne(c, p, "R08.14")
	c.RuleDoc["R08.14"] = "the stored concurrency is at least 1"
	c.RuleDoc["R08.13"] = "a caller's buffer is compressed in place only in sequential mode (= R02.7): the pipeline goroutines never read a slice the caller may reuse after Write returns"
	ruleDirectWrite(c, p, "R08.13")
	c.RuleDoc["R08.11"] = "the shared running hash is touched only by the ordered path (no per-block worker feeds or resets it)"
	c.RuleDoc["R08.12"] = "the collector does not use a block after handing it to the consumer"
}

func checkC09(c *Check) {
	c.Explain = "Shape-visible clauses of frame-format conformance: field presence and guards (R09.1, R09.2), which bytes each checksum covers, by provenance of the hashed argument (R09.3), legacy frames cannot contain raw blocks (R09.4), trailer layout and byte order (R09.5), descriptor constants, check-byte definition and hashed range (R09.6), raw flag / size word pairing (R09.7), accessor bit layout (R09.8 = R19.3), magic constants (R09.9)."
	c.Uncov = []string{"numeric equality of checksums and decoded content with an independent implementation", "that blocks are no larger than the declared maximum beyond the buffer-size tables (R02.4)"}
	c.Trusted = trustedSSA
	for k, v := range map[string]string{"R09.1": "wire-field presence", "R09.2": "legacy neutrality", "R09.3": "checksum coverage by provenance", "R09.4": "legacy has no raw blocks", "R09.5": "trailer layout", "R09.6": "descriptor constants", "R09.7": "raw flag pairing and size word", "R09.8": "bit layout of descriptor accessors", "R09.9": "size tables"} {
		c.RuleDoc[k] = v
	}
	p := loadOrTrouble(c, cfgAMD64)
	if p == nil {
		return
	}
	ruleWireFields(c, p, "R09.1")
	ruleLegacyNeutral(c, p, "R09.2")
	ruleChecksumCoverage(c, p, "R09.3")
	ruleLegacyNoRaw(c, p, "R09.4")
	ruleTrailerLayout(c, p, "R09.5")
	ruleDescriptorConstants(c, p, "R09.6")
	ruleRawFlagPairing(c, p, "R09.7")
	ruleFlagBits(c, p, "R09.8")
	ruleSizeTables(c, p, "R09.9")
	ruleResetRearms(c, p, "R09.10")
	ruleContentHashDiscipline(c, p, "R09.11")
	ruleContentSizeWriters(c, p, "R09.12")
	c.RuleDoc["R09.18"] = "the running length of the content hash is 64 bits wide and used unconverted (= R13.1/R13.2): the content checksum of a frame of 4 GiB or more is the XXH32 of its content"
	c.as("R09.18", func() { ruleXXHLength(c, p) })
	ruleSizeOptionArms(c, p, "R09.15", "Writer")
	c.RuleDoc["R09.15"] = "SizeOption sets flag and size unconditionally for every object kind (the header announces the configured size, 0 = none)"
	rulePendingConsumedOnce(c, p, "R09.16")
	c.RuleDoc["R09.16"] = "= R02.13 (pending bytes emitted once, in call order)"
	ruleBuffersRefetched(c, p, "R09.17", "Writer")
	c.RuleDoc["R09.17"] = "the Writer's block buffer is sized from the block-size code of the frame being started (legacy: 8 MiB of content per block)"
	ruleCloseWAlwaysCloses(c, p, "R09.21")
	c.RuleDoc["R09.21"] = "= R08.15: Close waits for the pipeline on every path (a legacy frame closed early is cut short)"
	var wfns []*ssa.Function
	for _, fn := range moduleFuncs(p, pkgRoot, pkgStream) {
		s := shortFn(fn)
		if strings.HasPrefix(s, "Writer.") || strings.HasPrefix(s, "Frame.InitW") || strings.HasPrefix(s, "Frame.CloseW") || strings.HasPrefix(s, "FrameDescriptor.Write") || strings.HasPrefix(s, "FrameDataBlock.Write") || strings.HasPrefix(s, "Blocks.initW") {
			wfns = append(wfns, fn)
		}
	}
	ruleErrorsNotAbsorbed(c, p, "R09.22", wfns, errAbsorbExempt)
	c.RuleDoc["R09.22"] = "= R15.E on the writing side: once a write to the sink has failed, every path returns a non-nil error (a frame with a hole is never reported as written)"
	ruleBlockChecksumOnEveryPath(c, p, "R09.23")
	c.RuleDoc["R09.23"] = "= R02.22: every path through Compress decides (and where declared stores) the block checksum after the stored bytes are selected"
	ruleDirectWrite(c, p, "R09.19")
	c.RuleDoc["R09.19"] = "= R02.7: a caller's block is compressed in place only when nothing is pending (otherwise the frame is well formed but carries the content in another order)"
	ruleInitTransition(c, p, "R09.20")
	c.RuleDoc["R09.20"] = "= R17.10: the first-use initialisation is followed by the state transition on every path (otherwise magic and descriptor are emitted twice)"
	ruleNoEmptyBlock(c, p, "R09.14", "")
	c.RuleDoc["R09.14"] = "no empty data block is emitted: prefix slices handed to the block compressor have a positive length"
	ruleNestedRearm(c, p, "R09.13")
	c.RuleDoc["R09.13"] = "a struct-valued field re-initialised through its own method is re-initialised completely (the overflow writer of the CompressingReader: the byte count handed back to the caller restarts at zero)"
	c.RuleDoc["R09.12"] = "the announced content size is written only by SizeOption (writer) and by the header parser (reader)"
	c.RuleDoc["R09.10"] = "Reset re-arms the header gate: every frame starts with its magic and descriptor"
	c.RuleDoc["R09.11"] = "content hash fed in stream order only, reset at frame start only"
}
