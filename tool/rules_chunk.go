package main

import (
	"go/token"
	"fmt"
	"strings"

	"golang.org/x/tools/go/ssa"
)

// ---------------------------------------------------------------------------
// R02.16: chunking arithmetic of Writer.Write and Reader.Read, decided with the bounds prover.
//
// Write(buf) cuts the caller's bytes into the accumulation buffer and whole-block hand-overs; Read(buf) fills the
// caller's buffer from the current block. That every byte is accepted / delivered exactly once for any split of the
// data over calls is a matter of a few linear facts:
//   * a return without error reports all of buf (n = len(buf)); any return reports n <= len(buf);
//   * the cursor into the block buffer (w.idx, r.idx) stays within it, and every store to it is either
//     "advance by exactly what the copy moved, from where the copy started" or a rewind to 0 taken only when the
//     cursor has reached the end of the buffer;
//   * no index or slice expression on the caller's buffer or the block buffer can panic.
// Callees that do not write the cursor or the buffer (decided by scanning them) keep the tracked fields.

func storesFieldsDeep(f *ssa.Function, fields map[string]bool, depth int, seen map[*ssa.Function]bool) bool {
	if f == nil || len(f.Blocks) == 0 || seen[f] || depth < 0 {
		return false
	}
	seen[f] = true
	hit := false
	for _, g := range withAnon(f) {
		allInstrs(g, func(in ssa.Instruction) {
			switch x := in.(type) {
			case *ssa.Store:
				if fields[lastField(x.Addr)] {
					hit = true
				}
			case ssa.CallInstruction:
				if h := staticCallee(x); h != nil && inModule(h) && storesFieldsDeep(h, fields, depth-1, seen) {
					hit = true
				}
			}
		})
	}
	return hit
}

type chunkSpec struct {
	fn, owner, idx, data string
}

func ruleChunkAccounting(c *Check, p *Program, rule string) {
	if !bndArch() {
		return
	}
	for _, sp := range []chunkSpec{{"Writer.Write", "Writer", "idx", "data"}, {"Reader.Read", "Reader", "idx", "data"}} {
		fn := findFn(c, p, rule, "", sp.fn)
		if fn == nil {
			continue
		}
		// the loop over the caller's buffer may have been moved into a method of its own (Write: dispatch, then
		// `return w.consume(buf)`): the function analysed is the one of the family that loops and has the
		// (count, error) results and a byte-slice parameter
		hasLoop := func(f *ssa.Function) bool {
			for _, b := range f.Blocks {
				for _, s := range b.Succs {
					if s.Index <= b.Index && s.Dominates(b) {
						return true
					}
				}
			}
			return false
		}
		if !hasLoop(fn) {
			for _, g := range deepFuncs(fn, 2) {
				res := g.Signature.Results()
				if g == fn || g.Parent() != nil || !hasLoop(g) || res.Len() != 2 || !isErrorType(res.At(1).Type()) || len(g.Params) < 2 || !isSliceType(g.Params[1].Type()) {
					continue
				}
				if recvTypeName(g) == sp.owner {
					c.Funcs[fname(g)] = true
					fn = g
					break
				}
			}
		}
		recv, buf := fn.Params[0], fn.Params[1]
		fIdx, fData := sp.owner+"."+sp.idx, sp.owner+"."+sp.data
		tracked := map[string]bool{fIdx: true, fData: true}
		coll := newCollector()
		key := func(g *goProg, f string) string { return "fld:" + g.ctx + "p:" + recv.Name() + ":" + sp.owner + "." + f }
		goPre = func(g *goProg, a *AbsState) {
			i := g.havocR(a, "in_idx", qi(0), lenLimit(), true)
			a.vals[key(g, sp.idx)] = i
			L := g.havocR(a, "inlen_data", qi(0), lenLimit(), true)
			C := g.havocR(a, "incap_data", qi(0), lenLimit(), true)
			a.st.leq(L, C)
			k := key(g, sp.data)
			a.vals[k+".len"], a.vals[k+".cap"], a.vals[k+".off"] = L, C, linI(0)
			a.st.leq(i, L)
			if sp.owner == "Writer" {
				a.st.leq(linI(1), L) // the accumulation buffer is a pool buffer of the block size (R17.8)
			}
		}
		// the count result: a named result cell, or the values returned
		var nCell *ssa.Alloc
		allInstrs(fn, func(in ssa.Instruction) {
			if r, ok := in.(*ssa.Return); ok && len(r.Results) == 2 {
				if ld, isLd := r.Results[0].(*ssa.UnOp); isLd {
					if al, isAl := ld.X.(*ssa.Alloc); isAl {
						nCell = al
					}
				}
			}
		})
		hasLC := func(a *AbsState) bool {
			_, h1 := a.vals["$lc.rel"]
			_, h2 := a.vals["$lc.n"]
			return h1 && h2
		}
		hooks := goHooks{
			// pure accessors, and small helpers of the same object that touch the cursor or the buffer (they are part
			// of the arithmetic); the block-level writer/reader and init are not analysed in place
			inlineOnly: func(g *goProg, a *AbsState, call *ssa.Call, f *ssa.Function) bool {
				if pureCallee(f) {
					return true
				}
				switch shortFn(f) {
				case "Writer.write", "Writer.init", "Reader.read", "Reader.init", "Writer.Flush":
					return false
				}
				return recvTypeName(f) == sp.owner && len(f.Blocks) <= 12 && storesFieldsDeep(f, tracked, 1, map[*ssa.Function]bool{})
			},
			// the object invariant 0 <= cursor <= len(buffer) (established by init: cursor 0; every store in this
			// function is checked against it below) holds whenever the fields are read afresh
			freshField: func(g *goProg, a *AbsState, fk string) {
				// the cell may be read inside an inlined helper of the object: it is the caller's cell all the same
				var ki, kd string
				switch {
				case strings.HasSuffix(fk, ":"+fIdx):
					ki, kd = fk, strings.TrimSuffix(fk, sp.idx)+sp.data
				case strings.HasSuffix(fk, ":"+fData):
					ki, kd = strings.TrimSuffix(fk, sp.data)+sp.idx, fk
				default:
					return
				}
				i, hasI := a.vals[ki]
				l, hasL := a.vals[kd+".len"]
				if hasI {
					a.st.le(i.Neg())
				}
				if hasI && hasL {
					a.st.leq(i, l)
				}
				if hasL && sp.owner == "Writer" {
					a.st.leq(linI(1), l)
				}
			},
			keepFields: func(g *goProg, call *ssa.Call, f *ssa.Function) bool {
				return inModule(f) && !storesFieldsDeep(f, tracked, 3, map[*ssa.Function]bool{})
			},
			// contract of the block-level reader (shown below on Reader.read itself): 0 <= count <= len(buf)
			afterCall: func(g *goProg, a *AbsState, call *ssa.Call, f *ssa.Function) {
				if f == nil || shortFn(f) != "Reader.read" || len(call.Call.Args) < 2 {
					return
				}
				k := g.k(call) + "#0"
				if v, has := a.vals[k]; has {
					a.st.le(v.Neg())
					a.st.leq(v, g.sliceOf(a, call.Call.Args[1]).len)
				}
			},
			onCopy: func(g *goProg, a *AbsState, call *ssa.Call, n Lin, dstOff, dstLen, srcOff, srcLen Lin, dstRoot, srcRoot string, srcHigh bool) {
				// kept in the abstract state itself: the copy splits the state (which operand is shorter)
				k := key(g, sp.data)
				off, has := a.vals[k+".off"]
				if !has {
					off = linI(0)
				}
				a.vals["$lc.n"] = n
				switch {
				case len(srcRoot) >= len(fData) && srcRoot[len(srcRoot)-len(fData):] == fData:
					a.vals["$lc.rel"] = srcOff.Sub(off)
				case len(dstRoot) >= len(fData) && dstRoot[len(dstRoot)-len(fData):] == fData:
					a.vals["$lc.rel"] = dstOff.Sub(off)
				default:
					delete(a.vals, "$lc.rel")
				}
			},
			onInstr: func(g *goProg, a *AbsState, in ssa.Instruction) {
				st, ok := in.(*ssa.Store)
				if ok && lastField(st.Addr) == fData {
					// the block buffer is replaced: a cursor into the old one is meaningless from here on
					a.vals["$freshbuf"] = linI(1)
					return
				}
				if !ok || lastField(st.Addr) != fIdx {
					return
				}
				newV := g.val(a, st.Val)
				// keys of the cells as seen from the function the store is in (an inlined helper of the object
				// works on the caller's cells)
				kIdx := g.fieldCell(st.Addr)
				kData := strings.TrimSuffix(kIdx, sp.idx) + sp.data
				old, hasOld := a.vals[kIdx]
				dl, hasLen := a.vals[kData+".len"]
				site := fmt.Sprintf("%s#cursor-store#%d", sp.fn, g.ordinal[in])
				pos := g.prog.InstrPos(in)
				okS, why := false, ""
				switch {
				case hasLC(a) && a.st.entailsEq(newV, a.vals["$lc.rel"].Add(a.vals["$lc.n"])):
					okS = true
				case a.st.entailsEq(newV, linI(0)):
					// a rewind: only when the cursor has reached the end of the buffer (everything consumed / the
					// full buffer handed over)
					_, fresh := a.vals["$freshbuf"]
					okS = fresh || (hasOld && hasLen && a.st.entailsEq(old, dl))
					if !okS && hasLen && hasLC(a) {
						// the rewind replaces the advance: the copy that started at the cursor ended at the end of the buffer
						okS = a.st.entailsEq(a.vals["$lc.rel"].Add(a.vals["$lc.n"]), dl)
					}
					why = "the cursor is rewound to 0 while it may not be at the end of the block buffer: bytes between the cursor and the end are dropped or emitted again"
					if !hasOld || !hasLen {
						why = "the cursor or the buffer length is unknown at the rewind"
					}
				case hasLC(a):
					rel, n := a.vals["$lc.rel"], a.vals["$lc.n"]
					okS = a.st.entailsEq(newV, rel.Add(n))
					why = "the new cursor " + newV.Str(g.tab) + " is not (start of the last copy in the block buffer) + (bytes copied) = " + rel.Add(n).Str(g.tab)
				default:
					why = "the cursor is set to " + newV.Str(g.tab) + ", neither 0 nor the end of the last copy"
				}
				g.coll.check("chunk", site, pos, "every store to the block-buffer cursor advances it by exactly what the last copy moved, or rewinds it once the buffer is exhausted", okS, func() string { return why })
				if hasLen {
					g.coll.check("chunk", sp.fn+"#cursor-in-buffer", pos, "the cursor stays within the block buffer", a.st.entailsLeq(newV, dl) && a.st.entailsLeq(linI(0), newV), func() string {
						return "cursor " + newV.Str(g.tab) + " vs buffer length " + dl.Str(g.tab)
					})
				}
			},
			onReturn: func(g *goProg, a *AbsState, ret *ssa.Return) {
				var n Lin
				if nCell != nil {
					v, ok := a.vals[g.cellKey(nCell)]
					if !ok {
						return
					}
					n = v
				} else if len(ret.Results) == 2 {
					n = g.val(a, ret.Results[0])
				} else {
					return
				}
				blen := g.lenSym[buf.Name()]
				g.coll.check("chunk", sp.fn+"#count-at-most-len", g.prog.InstrPos(ret), "the count returned never exceeds len(buf)", a.st.entailsLeq(n, blen) && a.st.entailsLeq(linI(0), n), func() string {
					return "n = " + n.Str(g.tab) + " is not shown to lie in [0, len(buf)]"
				})
				// a return that is not taken on an error path reports the whole buffer
				errPath := false
				for _, at := range atomsOfBlockLocal(ret.Block()) {
					if (at.Kind == "errnil" && !at.Val) || at.Kind == "eofcmp" {
						errPath = true
					}
				}
				if sp.owner == "Writer" && !errPath && !stateDispatchReturn(ret) && afterLoopHead(ret) {
					g.coll.check("chunk", sp.fn+"#accepts-all", g.prog.InstrPos(ret), "a return of Write without error reports every byte of buf as accepted (n = len(buf))", a.st.entailsEq(n, blen), func() string {
						return "n = " + n.Str(g.tab) + " may differ from len(buf) on a return that carries no error: bytes are dropped or counted twice"
					})
				}
			},
		}
		// every copy that starts at the cursor is followed by a store to the cursor before the function returns or
		// copies again (what the store must be is decided above)
		for _, g := range deepFuncs(fn, 1) {
			for _, ci := range callsIn(g) {
				cc, isCopy := isBuiltinCall(ci.(ssa.Instruction), "copy")
				if !isCopy || len(cc.Args) != 2 {
					continue
				}
				atCursor := false
				for _, arg := range cc.Args {
					if sl, isS := arg.(*ssa.Slice); isS && sl.Low != nil && loadField(sl.Low) == fIdx && (loadField(sl.X) == fData || derivesFromField(sl.X, fData)) {
						atCursor = true
					}
				}
				if !atCursor {
					continue
				}
				c.Sites++
				isStoreIdx := func(in ssa.Instruction) bool {
					st, ok := in.(*ssa.Store)
					return ok && lastField(st.Addr) == fIdx
				}
				stop := func(in ssa.Instruction) bool {
					if isReturn(in) {
						return true
					}
					_, again := isBuiltinCall(in, "copy")
					return again && in != ci.(ssa.Instruction)
				}
				miss, _ := reachAvoid(g, ci.(ssa.Instruction), stop, isStoreIdx)
				c.Cond(!miss, rule, sp.fn+"#cursor-advanced-after-copy", p.InstrPos(ci), "after a copy that starts at the cursor the cursor is stored before the function returns or copies again", "every path passes a store to "+fIdx, "a return or the next copy is reachable without the cursor having been updated: the same bytes of the block buffer are used again")
			}
		}
		lp0 := lpCount
		res, _, err := analyseGoFunc(p, fn, sp.fn, []string{buf.Name(), "field:" + fData}, hooks, coll)
		c.LPQ += lpCount - lp0
		if err != nil {
			c.TroubleF("%s: %v", sp.fn, err)
			continue
		}
		if res.trouble != "" {
			c.TroubleF("%s: %s", sp.fn, res.trouble)
		}
		if emitObls(c, coll, "", map[string]string{"chunk": rule, "nopanic": rule}) == 0 {
			c.Fail(rule, sp.fn+"#chunking", p.Pos(fn.Pos()), "chunking arithmetic of "+sp.fn, "no obligation was reached by the analysis")
		}
	}
}

// ruleReadContract: the contract Reader.Read relies on: Reader.read returns a count in [0, len(buf)]. The decoded
// slice is a re-slice of the destination handed to FrameDataBlock.Uncompress (shown on Uncompress: its slice result
// is cut from its dst parameter), so its length is at most that destination's.
func ruleReadContract(c *Check, p *Program, rule string) {
	if !bndArch() {
		return
	}
	fn := findFn(c, p, rule, "", "Reader.read")
	un := findFn(c, p, rule, "internal/lz4stream", "FrameDataBlock.Uncompress")
	if fn == nil || un == nil {
		return
	}
	// Uncompress: every non-nil slice result derives from the dst parameter by slicing
	var pDst *ssa.Parameter
	for _, prm := range un.Params {
		if prm.Name() == "dst" {
			pDst = prm
		}
	}
	okU := pDst != nil
	allInstrs(un, func(in ssa.Instruction) {
		r, ok := in.(*ssa.Return)
		if !ok || len(r.Results) == 0 || !isSliceType(r.Results[0].Type()) {
			return
		}
		res := r.Results[0]
		if isNilConst(res) {
			return
		}
		walkBack(res, false, func(x ssa.Value) bool {
			switch y := x.(type) {
			case *ssa.Slice, *ssa.Phi:
				return true
			case *ssa.Parameter:
				if y != pDst {
					okU = false
				}
				return false
			case *ssa.Const:
				return false
			}
			okU = false
			return false
		})
	})
	c.Cond(okU, rule, "Uncompress#result-is-reslice-of-dst", p.Pos(un.Pos()), "the slice Uncompress returns is cut from its dst argument (so it is no longer than that)", "every non-nil result derives from dst by slicing", "a result of Uncompress is not a re-slice of dst: the count Reader.read reports is not bounded by the caller's buffer")
	coll := newCollector()
	buf := fn.Params[1]
	hooks := goHooks{
		inlineOnly: func(g *goProg, a *AbsState, call *ssa.Call, f *ssa.Function) bool {
			return pureCallee(f) || (recvTypeName(f) == "Reader" && f.Pkg == fn.Pkg && shortFn(f) != "Reader.init")
		},
		afterCall: func(g *goProg, a *AbsState, call *ssa.Call, f *ssa.Function) {
			if f == nil || pDst == nil || !(f == un || forwardTarget(f) == un) {
				return
			}
			// the returned slice is a re-slice of the destination argument
			idx := -1
			for i, prm := range f.Params {
				if prm.Name() == pDst.Name() {
					idx = i
				}
			}
			if idx < 0 || idx >= len(call.Call.Args) {
				return
			}
			d := g.sliceOf(a, call.Call.Args[idx])
			k := g.k(call) + "#0"
			L := g.havocR(a, "unlen", qi(0), lenLimit(), true)
			a.st.leq(L, d.len)
			a.vals[k+".len"], a.vals[k+".cap"], a.vals[k+".off"] = L, d.cap, d.off
		},
		onReturn: func(g *goProg, a *AbsState, ret *ssa.Return) {
			if len(ret.Results) != 2 {
				return
			}
			n := g.val(a, ret.Results[0])
			g.coll.check("chunk", "Reader.read#count-at-most-len", g.prog.InstrPos(ret), "Reader.read reports at most len(buf) bytes as placed in the caller's buffer", a.st.entailsLeq(n, g.lenSym[buf.Name()]) && a.st.entailsLeq(linI(0), n), func() string {
				return "count " + n.Str(g.tab) + " is not shown to lie in [0, len(buf)]"
			})
		},
	}
	lp0 := lpCount
	res, _, err := analyseGoFunc(p, fn, "Reader.read", nil, hooks, coll)
	c.LPQ += lpCount - lp0
	if err != nil {
		c.TroubleF("Reader.read: %v", err)
		return
	}
	if res.trouble != "" {
		c.TroubleF("Reader.read: %s", res.trouble)
	}
	if emitObls(c, coll, "", map[string]string{"chunk": rule}) == 0 {
		c.Fail(rule, "Reader.read#count-at-most-len", p.Pos(fn.Pos()), "contract of Reader.read", "no return reached by the analysis")
	}
}

// stateDispatchReturn: the return sits in the lifecycle dispatch at the top of the method (a block guarded by a
// comparison of the state word), where nothing has been accepted yet.
func stateDispatchReturn(ret *ssa.Return) bool {
	for _, l := range guardsOf(ret.Block()) {
		if bo, ok := l.Cond.(*ssa.BinOp); ok {
			if loadField(bo.X) == "_State.state" || loadField(bo.Y) == "_State.state" {
				return true
			}
		}
	}
	return false
}

var _ = fmt.Sprintf

// afterLoopHead: the return is dominated by the head of a loop of its function (it is taken once the loop over the
// caller's buffer has been entered, not in the preamble of the method).
func afterLoopHead(ret *ssa.Return) bool {
	fn := ret.Parent()
	for _, b := range fn.Blocks {
		for _, s := range b.Succs {
			if s.Index <= b.Index && s.Dominates(b) && s.Dominates(ret.Block()) {
				return true
			}
		}
	}
	return false
}

// ruleZeroCountMeansBuffered (R05.21): Reader.Read tells "the block went straight into the caller's buffer" from
// "the block is waiting in r.data" by the count Reader.read returns (0 = look in r.data). A return of Reader.read
// without error therefore either has put this block into r.data (a store to the field on the way), or reports a
// count known to be positive. A direct decode of an empty block that returns 0 with r.data untouched makes Read
// deliver whatever the block buffer held before: bytes that are not in the stream, under a clean end of stream.
func ruleZeroCountMeansBuffered(c *Check, p *Program, rule string) {
	fn := findFn(c, p, rule, "", "Reader.read")
	if fn == nil {
		return
	}
	sameLen := func(a, b ssa.Value) bool {
		if a == b {
			return true
		}
		ca, okA := a.(*ssa.Call)
		cb, okB := b.(*ssa.Call)
		if !okA || !okB {
			return false
		}
		ba, isA := ca.Call.Value.(*ssa.Builtin)
		bb, isB := cb.Call.Value.(*ssa.Builtin)
		return isA && isB && ba.Name() == "len" && bb.Name() == "len" && ca.Call.Args[0] == cb.Call.Args[0]
	}
	n := 0
	allInstrs(fn, func(in ssa.Instruction) {
		r, ok := in.(*ssa.Return)
		if !ok || len(r.Results) != 2 || !isNilConst(r.Results[1]) {
			return
		}
		n++
		c.Sites++
		cnt := r.Results[0]
		key := fmt.Sprintf("Reader.read#zero-count-means-buffered#%d", n)
		desc := "a return of Reader.read without error has stored this block in r.data, or reports a count known to be positive (Read takes 0 to mean: the block is in r.data)"
		if k, isK := constUint(cnt); isK && k > 0 {
			c.Cond(true, rule, key, p.InstrPos(in), desc, "positive constant", "")
			return
		}
		type st struct {
			b  *ssa.BasicBlock
			ok bool
		}
		seen := map[st]bool{}
		bad := false
		var walk func(s st)
		walk = func(s st) {
			if seen[s] || bad {
				return
			}
			seen[s] = true
			okNow := s.ok
			for _, j := range s.b.Instrs {
				if sto, isS := j.(*ssa.Store); isS && lastField(sto.Addr) == "Reader.data" {
					okNow = true
				}
				if j == in {
					if !okNow {
						bad = true
					}
					return
				}
				if isReturn(j) {
					return
				}
			}
			ifi, isIf := s.b.Instrs[len(s.b.Instrs)-1].(*ssa.If)
			for k, nx := range s.b.Succs {
				e := okNow
				if isIf && len(s.b.Succs) == 2 {
					if bo, isB := ifi.Cond.(*ssa.BinOp); isB {
						x, y := bo.X, bo.Y
						op := bo.Op
						if _, isK := constUint(x); isK {
							x, y = y, x
							switch op {
							case token.LSS:
								op = token.GTR
							case token.GTR:
								op = token.LSS
							case token.LEQ:
								op = token.GEQ
							case token.GEQ:
								op = token.LEQ
							}
						}
						if kv, isK := constUint(y); isK && sameLen(x, cnt) {
							pos := false
							switch {
							case kv == 0 && (op == token.GTR || op == token.NEQ):
								pos = k == 0
							case kv == 0 && (op == token.EQL || op == token.LEQ):
								pos = k == 1
							case kv == 1 && op == token.GEQ:
								pos = k == 0
							case kv == 1 && op == token.LSS:
								pos = k == 1
							}
							if pos {
								e = true
							}
						}
					}
				}
				walk(st{nx, e})
			}
		}
		walk(st{fn.Blocks[0], false})
		c.Cond(!bad, rule, key, p.InstrPos(in), desc, "every path to the return stores r.data or passes a test that the count is positive", "the return can report 0 (an empty block decoded straight into the caller's buffer) while r.data still holds what it held before: Reader.Read then copies the old contents of the block buffer - bytes that are not in the stream - to the caller and ends with a clean io.EOF")
	})
	if n == 0 {
		c.Fail(rule, "Reader.read#zero-count-means-buffered", p.Pos(fn.Pos()), "the error-free returns of Reader.read are resolved", "no return with a nil error constant found (anchor unresolved)")
	}
}
