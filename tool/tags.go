package main

import (
	"bufio"
	"fmt"
	"go/ast"
	"go/build"
	"go/build/constraint"
	"go/parser"
	"go/token"
	"os"
	"path/filepath"
	"regexp"
	"sort"
	"strings"
)

// E-TAGS: build-constraint evaluation. For a directory and a set of symbols
// that must be defined exactly once per build configuration, enumerate every
// (GOARCH, compiler, tag subset) assignment, ask go/build which files are
// selected (the very matcher the go tool uses), and check that each symbol has
// exactly one Go declaration, with an assembly body present exactly when that
// declaration is a body-less prototype.

type symDef struct {
	file  string
	proto bool // Go declaration without body
	asm   bool // TEXT ·sym(SB) in a .s file
}

var textRe = regexp.MustCompile(`^\s*TEXT\s+·([A-Za-z0-9_]+)\(SB\)`)

func scanDefs(dir string, syms []string) (map[string][]symDef, []string, error) {
	want := map[string]bool{}
	for _, s := range syms {
		want[s] = true
	}
	defs := map[string][]symDef{}
	ents, err := os.ReadDir(dir)
	if err != nil {
		return nil, nil, err
	}
	var files []string
	for _, e := range ents {
		n := e.Name()
		if e.IsDir() || strings.HasSuffix(n, "_test.go") {
			continue
		}
		switch {
		case strings.HasSuffix(n, ".go"):
			files = append(files, n)
			fset := token.NewFileSet()
			f, err := parser.ParseFile(fset, filepath.Join(dir, n), nil, parser.SkipObjectResolution)
			if err != nil {
				return nil, nil, err
			}
			for _, d := range f.Decls {
				if fd, ok := d.(*ast.FuncDecl); ok && fd.Recv == nil && want[fd.Name.Name] {
					defs[fd.Name.Name] = append(defs[fd.Name.Name], symDef{file: n, proto: fd.Body == nil})
				}
			}
		case strings.HasSuffix(n, ".s"):
			files = append(files, n)
			fh, err := os.Open(filepath.Join(dir, n))
			if err != nil {
				return nil, nil, err
			}
			sc := bufio.NewScanner(fh)
			for sc.Scan() {
				if m := textRe.FindStringSubmatch(sc.Text()); m != nil && want[m[1]] {
					defs[m[1]] = append(defs[m[1]], symDef{file: n, asm: true})
				}
			}
			fh.Close()
		}
	}
	sort.Strings(files)
	return defs, files, nil
}

// tagsUsed collects the tag names occurring in the build constraints of the
// given files (excluding GOOS/GOARCH/compiler names handled separately).
func tagsUsed(dir string, files []string) ([]string, error) {
	set := map[string]bool{}
	for _, n := range files {
		b, err := os.ReadFile(filepath.Join(dir, n))
		if err != nil {
			return nil, err
		}
		for _, line := range strings.Split(string(b), "\n") {
			t := strings.TrimSpace(line)
			if t == "" {
				continue
			}
			if !strings.HasPrefix(t, "//") {
				break
			}
			if constraint.IsGoBuild(t) || constraint.IsPlusBuild(t) {
				x, err := constraint.Parse(t)
				if err != nil {
					return nil, fmt.Errorf("%s: %v", n, err)
				}
				x.Eval(func(tag string) bool { set[tag] = true; return false })
				// Eval short-circuits; walk the expression fully.
				var walk func(e constraint.Expr)
				walk = func(e constraint.Expr) {
					switch e := e.(type) {
					case *constraint.AndExpr:
						walk(e.X)
						walk(e.Y)
					case *constraint.OrExpr:
						walk(e.X)
						walk(e.Y)
					case *constraint.NotExpr:
						walk(e.X)
					case *constraint.TagExpr:
						set[e.Tag] = true
					}
				}
				walk(x)
			}
		}
	}
	var out []string
	for t := range set {
		out = append(out, t)
	}
	sort.Strings(out)
	return out, nil
}

var archList = []string{"amd64", "arm", "arm64", "386", "riscv64", "ppc64le", "s390x", "wasm"}

func isArchOrOS(t string) bool {
	for _, a := range archList {
		if a == t {
			return true
		}
	}
	switch t {
	case "linux", "darwin", "windows", "gc", "gccgo", "cgo", "unix", "mips", "mips64", "mipsle", "mips64le", "ppc64", "loong64", "js", "wasip1":
		return true
	}
	return strings.HasPrefix(t, "go1.")
}

// checkPartition runs the partition rule and records one obligation per
// (symbol, assignment).
func checkPartition(c *Check, rule, relDir string, syms []string, compilers []string) {
	if archSubst != "" {
		return // the partition rule enumerates every configuration by itself
	}
	dir := filepath.Join(repoDir, relDir)
	defs, files, err := scanDefs(dir, syms)
	if err != nil {
		c.TroubleF("%s: %v", rule, err)
		return
	}
	for _, s := range syms {
		if len(defs[s]) == 0 {
			c.Fail(rule, relDir+"#"+s, relDir, "symbol must be defined in every build configuration", "no declaration of "+s+" found in "+relDir)
		}
	}
	used, err := tagsUsed(dir, files)
	if err != nil {
		c.TroubleF("%s: %v", rule, err)
		return
	}
	var free []string
	for _, t := range used {
		if !isArchOrOS(t) {
			free = append(free, t)
		}
	}
	if len(free) > 6 {
		c.TroubleF("%s: too many free tags %v", rule, free)
		return
	}
	n := 0
	for _, arch := range archList {
		for _, comp := range compilers {
			for mask := 0; mask < 1<<len(free); mask++ {
				var tags []string
				for i, t := range free {
					if mask&(1<<i) != 0 {
						tags = append(tags, t)
					}
				}
				ctx := build.Default
				ctx.GOARCH = arch
				ctx.GOOS = "linux"
				ctx.Compiler = comp
				ctx.BuildTags = tags
				ctx.CgoEnabled = false
				ctx.ReleaseTags = build.Default.ReleaseTags
				sel := map[string]bool{}
				for _, f := range files {
					ok, err := ctx.MatchFile(dir, f)
					if err != nil {
						c.TroubleF("%s: MatchFile %s: %v", rule, f, err)
						return
					}
					sel[f] = ok
				}
				asg := fmt.Sprintf("GOARCH=%s compiler=%s tags=%s", arch, comp, strings.Join(tags, ","))
				for _, s := range syms {
					var goBody, goProto, asm []string
					for _, d := range defs[s] {
						if !sel[d.file] {
							continue
						}
						switch {
						case d.asm:
							asm = append(asm, d.file)
						case d.proto:
							goProto = append(goProto, d.file)
						default:
							goBody = append(goBody, d.file)
						}
					}
					n++
					key := relDir + "#" + s + "#" + asg
					desc := "exactly one Go declaration of " + s + "; assembly body present iff the declaration is a prototype"
					got := fmt.Sprintf("Go bodies %v, prototypes %v, assembly %v", goBody, goProto, asm)
					ok := false
					switch {
					case len(goBody) == 1 && len(goProto) == 0 && len(asm) == 0:
						ok = true
					case len(goBody) == 0 && len(goProto) == 1 && len(asm) == 1:
						ok = true
					}
					// gccgo cannot assemble Plan 9 files at all: an asm body there is a violation as well.
					if comp == "gccgo" && len(asm) > 0 {
						ok = false
					}
					if ok {
						c.OK(rule, key, relDir, desc, got, true)
					} else {
						c.Fail(rule, key, relDir, desc, got)
					}
				}
			}
		}
	}
	c.Extra[rule+"_assignments"] = n
	c.Extra[rule+"_files"] = files
	c.Extra[rule+"_free_tags"] = free
}
