package main
import ("testing";"fmt";"os";"time";"sort";"strings";"golang.org/x/tools/go/ssa")
func init(){ if r := os.Getenv("REPO"); r != "" { repoDir = r } }
func TestGoFn(t *testing.T){
	cfg := cfgAMD64
	if os.Getenv("NOASM")!="" { cfg = cfgNoasm }
	if a := os.Getenv("ARCH"); a != "" { cfg.GOARCH = a; if a=="386"||a=="arm" { goWordBits = 32 } }
	p,err := Load(cfg); if err!=nil{t.Fatal(err)}
	name := os.Getenv("FN"); if name=="" { name = "Compressor.CompressBlock" }
	fn := p.Func("internal/lz4block", name)
	coll := newCollector()
	if w := os.Getenv("DBGDIR"); w != "" {
		debugDir = func(key int, hd *tmplHead, i int, v Q, in *AbsState){
			ds := hd.dirs[i].Str(defaultTab)
			if fmt.Sprintf("%d:%s",key,ds) != w { return }
			fmt.Print("DIR ",w," round ",hd.rounds," from ",in.from," value ",v.String())
			for _,k := range []string{"t24","t26","t95","t99"} { if x,ok := in.vals[k]; ok { fmt.Print(" ",k,"=",x.Str(defaultTab)) } }
			fmt.Println()
		}
	}
	if os.Getenv("DBGHEAD")!="" {
		debugHull = func(blk int, hd *tmplHead, ins []*AbsState){
			if fmt.Sprint(blk)!=os.Getenv("DBGHEAD") { return }
			fmt.Println("== hull blk",blk,"round",hd.rounds,"ins",len(ins))
			for _,in := range ins { fmt.Print("   in from ",in.from, " ncons ", len(in.st.cons)); for _,k := range strings.Split(os.Getenv("DBGVARS"),",") { if v,ok := in.vals[k]; ok { fmt.Print(" ",k,"=",v.Str(defaultTab)) } }; fmt.Println() }
			for i,d := range hd.dirs { if hd.has[i] && !hd.dropped[i] { fmt.Println("   ",d.Str(defaultTab),"<=",hd.bound[i].String(), "unst",hd.unstable[i]) } }
			var ks []string; for k := range hd.keep { ks = append(ks,k+"="+hd.keep[k].Str(defaultTab)) }; sort.Strings(ks); fmt.Println("   keep",ks)
			var ps []string; for k := range hd.phiSym { ps = append(ps,k) }; sort.Strings(ps); fmt.Println("   phis",ps)
		}
	}
	h := &compHooks{hc: name!="Compressor.CompressBlock", name: name, boundV: findBoundCall(fn)}
	roots := []string{"dst"}; if h.hc { roots = nil }
	t0 := time.Now()
	res,g,err := analyseGoFunc(p, fn, name, roots, h.hooks(), coll)
	if err!=nil{t.Fatal(err)}
	fmt.Println("rounds",res.rounds,"lp",lpCount,"time",time.Since(t0),"maxdisj",res.maxDisj,res.trouble,"recovers",g.recovers)
	for b,hd := range res.heads { if b>=100000 {continue}; n:=0; for i := range hd.dirs { if hd.has[i]&&!hd.dropped[i]{n++} }; fmt.Println("head",b,fn.Blocks[b].Comment,"phis",len(hd.phiSym),"dirs",len(hd.dirs),"kept",n,"rounds",hd.rounds) }
	bad:=0
	for _,k := range coll.order { o := coll.obls[k]; if !o.ok { bad++; fmt.Println("FAIL",o.kind,o.site,o.pos,"\n    ",o.fail) } }
	fmt.Println("obligations",len(coll.order),"failed",bad)
}

func TestDec(t *testing.T){
	if os.Getenv("DBGHEAD")!="" {
		debugHull = func(blk int, hd *tmplHead, ins []*AbsState){
			if fmt.Sprint(blk)!=os.Getenv("DBGHEAD") { return }
			fmt.Println("== hull blk",blk,"round",hd.rounds,"ins",len(ins))
			for _,in := range ins { fmt.Print("   in from ",in.from, " ncons ", len(in.st.cons)); for _,k := range strings.Split(os.Getenv("DBGVARS"),",") { if v,ok := in.vals[k]; ok { fmt.Print(" ",k,"=",v.Str(defaultTab)) } }; fmt.Println() }
			for i,d := range hd.dirs { if hd.has[i] && !hd.dropped[i] { fmt.Println("   ",d.Str(defaultTab),"<=",hd.bound[i].String(), "unst",hd.unstable[i]) } }
		}
	}
	if w := os.Getenv("DBGWRAP"); w != "" {
		debugWrap = func(g *goProg, a *AbsState, v ssa.Value, m Lin){
			if v.Name() != w { return }
			st, mx := a.st.max(m)
			fmt.Println("WRAP",v.Name(),"m=",m.Str(g.tab),"max",st,mx.String(),"from",a.from)
			for _,c := range a.st.cons { for sy := range m.t { if _,ok := c.t[sy]; ok { fmt.Println("    ",c.Str(g.tab)); break } } }
		}
	}
	if a := os.Getenv("ARCH"); a != "" { archSubst = a; if a=="386"||a=="arm" { goWordBits = 32 } }
	c := NewCheck("C03","quick")
	portableDecoderRulesImpl(c, "R03")
	portableDecoderRulesImpl(c, "R04")
	for _,o := range c.Obls { if o.Status!=Discharged { fmt.Println("FAIL",o.Rule,o.Key,o.Pos,"\n    ",o.How) } }
	fmt.Println("obls",len(c.Obls), c.Trouble)
}
