package main

import (
	"fmt"
	"go/constant"
	"go/token"
	"go/types"
	"strings"

	"golang.org/x/tools/go/ssa"
)

// R15.E "a pending error is never absorbed": once a call has produced an error
// value that is known (or assumed) non-nil and is not the expected end-of-input
// marker, every path to a return yields a non-nil error; the value may be
// replaced only by another value that is certainly non-nil.
//
// The walk is path-sensitive with respect to (a) boolean phis / phi results
// (resolved by the incoming edge), (b) the named-result cell of functions that
// defer state.check(&err): the cell is followed through stores and loads.

type absorbReport struct {
	at  ssa.Instruction
	why string
}

// isNilTestFunc recognises functions such as _State.next(err) bool that return
// true exactly when their error parameter is non-nil.
func isNilTestFunc(f *ssa.Function) int {
	if f == nil || f.Blocks == nil || f.Signature.Results().Len() != 1 {
		return -1
	}
	if b, ok := f.Signature.Results().At(0).Type().Underlying().(*types.Basic); !ok || b.Kind() != types.Bool {
		return -1
	}
	pi := -1
	for i, p := range f.Params {
		if isErrorType(p.Type()) {
			if pi >= 0 {
				return -1
			}
			pi = i
		}
	}
	if pi < 0 {
		return -1
	}
	prm := f.Params[pi]
	ok := true
	n := 0
	allInstrs(f, func(in ssa.Instruction) {
		r, isR := in.(*ssa.Return)
		if !isR {
			return
		}
		k, isK := r.Results[0].(*ssa.Const)
		if !isK || k.Value == nil || k.Value.Kind() != constant.Bool {
			ok = false
			return
		}
		n++
		want := !constant.BoolVal(k.Value) // errnil atom value expected
		good := false
		for _, a := range atomsOfBlock(in.Block()) {
			if a.Kind == "errnil" && a.V == prm && a.Val == want {
				good = true
			}
		}
		if !good {
			ok = false
		}
	})
	if !ok || n < 2 {
		return -1
	}
	return pi
}

func isEOFLike(v ssa.Value) bool {
	return isGlobalLoad(v, "io", "EOF") || isGlobalLoad(v, "io", "ErrUnexpectedEOF")
}

// definitelyNonNil: v is certainly a non-nil error in block b given tracked set T.
func definitelyNonNil(v ssa.Value, b *ssa.BasicBlock, T map[ssa.Value]bool) bool {
	if T[v] {
		return true
	}
	switch x := v.(type) {
	case *ssa.MakeInterface:
		return true
	case *ssa.Call:
		if f := staticCallee(x); f != nil {
			if f.Pkg != nil && f.Pkg.Pkg.Path() == "fmt" && f.Name() == "Errorf" {
				return true
			}
			if f.Pkg != nil && f.Pkg.Pkg.Path() == "errors" && f.Name() == "New" {
				return true
			}
			if pi := nonNilPreserving(f); pi >= 0 && pi < len(x.Call.Args) {
				return definitelyNonNil(x.Call.Args[pi], b, T)
			}
			if fn := f.Name(); fn == "fail" && recvTypeName(f) == "_State" {
				return true
			}
		}
	case *ssa.UnOp:
		if x.Op == token.MUL {
			if g, ok := x.X.(*ssa.Global); ok && g.Pkg != nil && (g.Pkg.Pkg.Path() == "io" || g.Pkg.Pkg.Path() == "errors") {
				return true
			}
		}
	}
	for _, a := range atomsOfBlock(b) {
		if a.Kind == "errnil" && !a.Val && a.V == v {
			return true
		}
	}
	return false
}

// walkPending explores paths from `start` (the instruction after which the
// pending error exists). cell is the named-result cell holding it (or nil), T the
// set of SSA values equal to the pending error.
func walkPending(fn *ssa.Function, start ssa.Instruction, cell *ssa.Alloc, T map[ssa.Value]bool, errIdx int) []absorbReport {
	var reps []absorbReport
	type key struct {
		b, prev *ssa.BasicBlock
		holds   bool
		phis    string // which phis carry the pending error on the path being walked
	}
	seen := map[key]bool{}
	var phiList []*ssa.Phi
	allInstrs(fn, func(in ssa.Instruction) {
		if ph, ok := in.(*ssa.Phi); ok {
			phiList = append(phiList, ph)
		}
	})
	phiSig := func() string {
		var sb strings.Builder
		for _, ph := range phiList {
			if T[ph] {
				sb.WriteString(ph.Name())
				sb.WriteByte(',')
			}
		}
		return sb.String()
	}
	var walk func(b, prev *ssa.BasicBlock, from int, holds bool)
	walk = func(b, prev *ssa.BasicBlock, from int, holds bool) {
		if from == 0 {
			// a phi carries the error exactly when the edge taken into the block does (per path, not once and for all)
			if prev != nil {
				for _, in := range b.Instrs {
					ph, isPhi := in.(*ssa.Phi)
					if !isPhi {
						break
					}
					for k, pb := range b.Preds {
						if pb == prev {
							T[ph] = T[ph.Edges[k]]
						}
					}
				}
			}
			k := key{b, prev, holds, phiSig()}
			if seen[k] {
				return
			}
			seen[k] = true
		}
		// the taint of phis is path state: restore it when this activation returns to its caller
		saved := map[*ssa.Phi]bool{}
		for _, ph := range phiList {
			saved[ph] = T[ph]
		}
		defer func() {
			for ph, v := range saved {
				T[ph] = v
			}
		}()
		for i := from; i < len(b.Instrs); i++ {
			in := b.Instrs[i]
			switch x := in.(type) {
			case *ssa.Phi:
				// handled on entry
			case *ssa.UnOp:
				if x.Op == token.MUL && cell != nil && x.X == cell && holds {
					T[x] = true
				}
			case *ssa.Call:
				if f := staticCallee(x); f != nil {
					if pi := nonNilPreserving(f); pi >= 0 && pi < len(x.Call.Args) && T[x.Call.Args[pi]] {
						T[x] = true
					}
				}
			case *ssa.MakeInterface:
				if T[x.X] {
					T[x] = true
				}
			case *ssa.Store:
				if cell != nil && x.Addr == cell {
					if T[x.Val] {
						holds = true
					} else if holds {
						if definitelyNonNil(x.Val, b, T) {
							// replaced by another certain error: still pending
							T[x.Val] = true
						} else {
							reps = append(reps, absorbReport{in, "the pending error is overwritten by " + shortVal(x.Val) + ", which may be nil"})
							return
						}
					}
				}
			case *ssa.Return:
				if errIdx < len(x.Results) {
					r := x.Results[errIdx]
					ok := T[r] || definitelyNonNil(r, b, T)
					if !ok {
						if u, isU := r.(*ssa.UnOp); isU && u.Op == token.MUL && cell != nil && u.X == cell && holds {
							ok = true
						}
					}
					if !ok {
						if ph, isPhi := r.(*ssa.Phi); isPhi && ph.Block() == b && prev != nil {
							for k, pb := range b.Preds {
								if pb == prev && (T[ph.Edges[k]] || definitelyNonNil(ph.Edges[k], pb, T)) {
									ok = true
								}
							}
						}
					}
					if !ok {
						reps = append(reps, absorbReport{in, "this return may yield a nil (or unrelated) error: " + shortVal(r)})
					}
				}
				return
			case *ssa.RunDefers:
				// deferred state.check(&err) does not clear the cell (verified separately)
			case *ssa.Panic:
				return
			}
		}
		// successors
		if len(b.Instrs) == 0 {
			return
		}
		last := b.Instrs[len(b.Instrs)-1]
		if ifi, ok := last.(*ssa.If); ok && len(b.Succs) == 2 {
			cond := ifi.Cond
			if ph, isPhi := cond.(*ssa.Phi); isPhi && ph.Block() == b && prev != nil {
				for k, pb := range b.Preds {
					if pb == prev {
						cond = ph.Edges[k]
					}
				}
			}
			take := [2]bool{true, true}
			if k, isK := cond.(*ssa.Const); isK && k.Value != nil && k.Value.Kind() == constant.Bool {
				take[0], take[1] = constant.BoolVal(k.Value), !constant.BoolVal(k.Value)
			} else {
				neg := false
				cv := cond
				for {
					if u, ok := cv.(*ssa.UnOp); ok && u.Op == token.NOT {
						cv, neg = u.X, !neg
						continue
					}
					break
				}
				var truth *bool
				switch y := cv.(type) {
				case *ssa.BinOp:
					if y.Op == token.EQL || y.Op == token.NEQ {
						var other ssa.Value
						if T[y.X] {
							other = y.Y
						} else if T[y.Y] {
							other = y.X
						}
						if other != nil && (isNilConst(other) || isEOFLike(other)) {
							// pending error is non-nil and not an end-of-input marker
							t := y.Op == token.NEQ
							truth = &t
						}
					}
				case *ssa.Extract:
					// (failed, err) := helper(): failed is true exactly when err is non-nil
					if call, isC := y.Tuple.(*ssa.Call); isC {
						if bi, ei := tupleNilTest(staticCallee(call)); bi >= 0 && bi == y.Index {
							for v := range T {
								if ex, isE := v.(*ssa.Extract); isE && ex.Tuple == y.Tuple && ex.Index == ei {
									t := true
									truth = &t
								}
							}
						}
					}
				case *ssa.Call:
					if f := staticCallee(y); f != nil {
						if pi := isNilTestFunc(f); pi >= 0 && pi < len(y.Call.Args) && T[y.Call.Args[pi]] {
							t := true
							truth = &t
						}
						if f.Pkg != nil && f.Pkg.Pkg.Path() == "errors" && f.Name() == "Is" && len(y.Call.Args) == 2 && T[y.Call.Args[0]] && isEOFLike(y.Call.Args[1]) {
							t := false
							truth = &t
						}
					}
				}
				if truth != nil {
					t := *truth
					if neg {
						t = !t
					}
					take[0], take[1] = t, !t
				}
			}
			for k := 0; k < 2; k++ {
				if take[k] {
					walk(b.Succs[k], b, 0, holds)
				}
			}
			return
		}
		for _, s := range b.Succs {
			walk(s, b, 0, holds)
		}
	}
	b := start.Block()
	holds := false
	if cell != nil {
		if st, ok := start.(*ssa.Store); ok && st.Addr == cell {
			holds = true
		}
	}
	walk(b, nil, idxOf(start)+1, holds)
	return reps
}

// resultCell returns the Alloc that holds the named error result when the
// function keeps it in memory (deferred check), and the index of that result.
func resultCell(fn *ssa.Function) (*ssa.Alloc, int) {
	ei := errResultIndex(fn.Signature)
	if ei < 0 {
		return nil, -1
	}
	name := fn.Signature.Results().At(ei).Name()
	if name == "" {
		return nil, ei
	}
	var cell *ssa.Alloc
	allInstrs(fn, func(in ssa.Instruction) {
		if a, ok := in.(*ssa.Alloc); ok && a.Comment == name && isErrorType(a.Type().(*types.Pointer).Elem()) {
			cell = a
		}
	})
	return cell, ei
}

// ruleErrorsNotAbsorbed applies R15.E to the given functions. onlyIO restricts
// the starting points to errors produced by calls that may touch the source or
// the sink (callee set given), otherwise every error-producing call counts.
func ruleErrorsNotAbsorbed(c *Check, p *Program, rule string, fns []*ssa.Function, exempt map[string]string) {
	total := 0
	for _, fn := range fns {
		if fn == nil || fn.Blocks == nil {
			continue
		}
		cell, ei := resultCell(fn)
		if ei < 0 {
			continue
		}
		c.Funcs[fname(fn)] = true
		perCallee := map[string]int{}
		for _, ci := range callsIn(fn) {
			v := ci.Value()
			if v == nil {
				continue
			}
			sig, ok := callSig(ci)
			if !ok {
				continue
			}
			ri := errResultIndex(sig)
			if ri < 0 {
				continue
			}
			ev := extractOf(v, ri)
			if ev == nil || ev.Referrers() == nil {
				continue
			}
			callee := "dynamic"
			if f := staticCallee(ci); f != nil {
				callee = shortFn(f)
			} else if ci.Common().IsInvoke() {
				callee = "iface." + ci.Common().Method.Name()
			}
			// hash writes never fail
			if strings.HasPrefix(callee, "xxh32.") || callee == "fmt.Errorf" || isErrorConstructor(staticCallee(ci)) {
				continue
			}
			// a peek at the persistent error latch that is only tested against nil: nothing is consumed, the
			// latch keeps the error (it is handed out and cleared by Blocks.close, R05.7)
			if f := staticCallee(ci); f != nil && latchPeek(f) {
				onlyTested := true
				for _, r := range *ev.Referrers() {
					switch r.(type) {
					case *ssa.BinOp, *ssa.DebugRef:
					default:
						onlyTested = false
					}
				}
				if onlyTested {
					continue
				}
			}
			perCallee[callee]++
			key := fmt.Sprintf("%s#err-of:%s", shortFn(fn), callee)
			if perCallee[callee] > 1 {
				key += fmt.Sprintf("#%d", perCallee[callee])
			}
			if why, ex := exempt[key]; ex {
				c.OK(rule, key, p.InstrPos(ci), "listed exception: "+why, "exception table", false)
				continue
			}
			// starting points: stores of ev into the cell, and != nil edges on ev
			var starts []ssa.Instruction
			for _, r := range *ev.Referrers() {
				switch y := r.(type) {
				case *ssa.Store:
					if cell != nil && y.Addr == cell && y.Val == ev {
						starts = append(starts, y)
					}
				}
			}
			var reps []absorbReport
			nStarts := 0
			for _, st := range starts {
				nStarts++
				T := map[ssa.Value]bool{ev: true}
				reps = append(reps, walkPending(fn, st, cell, T, ei)...)
			}
			// SSA-value flow: from the instruction itself, assuming ev non-nil
			if len(starts) == 0 {
				// only if the value is branched on or returned somewhere
				used := false
				for _, r := range *ev.Referrers() {
					switch r.(type) {
					case *ssa.BinOp, *ssa.Return, *ssa.Phi, ssa.CallInstruction, *ssa.Store:
						used = true
					}
				}
				if !used {
					continue
				}
				nStarts++
				T := map[ssa.Value]bool{ev: true}
				var startIn ssa.Instruction = ev.(ssa.Instruction)
				reps = append(reps, walkPending(fn, startIn, cell, T, ei)...)
			}
			total++
			c.Sites++
			desc := "once " + callee + " has failed in " + shortFn(fn) + ", every path returns a non-nil error (the failure is never cleared or replaced by a possibly-nil value)"
			if len(reps) == 0 {
				c.OK(rule, key, p.InstrPos(ci), desc, fmt.Sprintf("path walk from %d start point(s): all returns carry an error", nStarts), true)
			} else {
				var w []string
				for _, r := range reps {
					w = append(w, p.InstrPos(r.at)+": "+r.why)
				}
				c.Fail(rule, key, p.InstrPos(ci), desc, strings.Join(w, "; "))
			}
		}
	}
	c.Extra[rule+"_error_sites"] = total
}

// ruleErrorsNotDiscarded (R15.1/R15.2): an error result of a call that may reach
// the sink or the source is never dropped on the floor (assigned to _ or unused).
func ruleErrorsNotDiscarded(c *Check, p *Program, rule string, fns []*ssa.Function, mayIO func(*ssa.Function) bool, exempt map[string]string) {
	n := 0
	for _, fn := range fns {
		if fn == nil || fn.Blocks == nil {
			continue
		}
		per := map[string]int{}
		for _, ci := range callsIn(fn) {
			sig, ok := callSig(ci)
			if !ok {
				continue
			}
			ri := errResultIndex(sig)
			if ri < 0 {
				continue
			}
			f := staticCallee(ci)
			isIO := false
			callee := "dynamic"
			if f != nil {
				callee = shortFn(f)
				isIO = mayIO(f)
			} else if ci.Common().IsInvoke() {
				callee = "iface." + ci.Common().Method.Name()
				m := ci.Common().Method.Name()
				isIO = (m == "Write" || m == "Read" || m == "Close") && !strings.Contains(ci.Common().Value.Type().String(), "hash")
			}
			if !isIO {
				continue
			}
			per[callee]++
			key := fmt.Sprintf("%s#discard:%s", shortFn(fn), callee)
			if per[callee] > 1 {
				key += fmt.Sprintf("#%d", per[callee])
			}
			n++
			c.Sites++
			// go / defer statements have no value
			var ev ssa.Value
			if v := ci.Value(); v != nil {
				ev = extractOf(v, ri)
			}
			used := ev != nil && ev.Referrers() != nil && len(*ev.Referrers()) > 0
			if _, isGo := ci.(*ssa.Go); isGo {
				used = true
			}
			if why, ex := exempt[key]; ex {
				c.OK(rule, key, p.InstrPos(ci), "listed exception: "+why, "exception table", false)
				continue
			}
			c.Cond(used, rule, key, p.InstrPos(ci), "the error of "+callee+" is used (returned, latched or tested)", "error value has uses", "the error result of "+callee+" is discarded")
		}
	}
	c.Extra[rule+"_io_calls"] = n
}

// tupleNilTest recognises module helpers returning (..., bool, ..., error) in
// which the boolean result is true exactly when the error result is non-nil:
// at every return the boolean is a nil-test call (such as _State.next) on the
// very value returned as the error, or a constant that agrees with a constant
// nil / certainly non-nil error. Returns the two result indexes or (-1, -1).
func tupleNilTest(f *ssa.Function) (int, int) {
	if !inModule(f) {
		return -1, -1
	}
	res := f.Signature.Results()
	bi, ei := -1, -1
	for i := 0; i < res.Len(); i++ {
		if b, ok := res.At(i).Type().Underlying().(*types.Basic); ok && b.Kind() == types.Bool {
			if bi >= 0 {
				return -1, -1
			}
			bi = i
		}
		if isErrorType(res.At(i).Type()) {
			if ei >= 0 {
				return -1, -1
			}
			ei = i
		}
	}
	if bi < 0 || ei < 0 {
		return -1, -1
	}
	ok, n := true, 0
	allInstrs(f, func(in ssa.Instruction) {
		r, isR := in.(*ssa.Return)
		if !isR || len(r.Results) <= bi || len(r.Results) <= ei {
			return
		}
		n++
		bv, ev := r.Results[bi], r.Results[ei]
		if k, isK := bv.(*ssa.Const); isK && k.Value != nil && k.Value.Kind() == constant.Bool {
			if constant.BoolVal(k.Value) {
				if mayBeNilErr(ev, in.Block()) {
					ok = false
				}
			} else if !isNilConst(ev) {
				// false with a possibly non-nil error
				if !hasAtom(atomsOfBlock(in.Block()), "errnil", "", true) {
					ok = false
				}
			}
			return
		}
		if call, isC := bv.(*ssa.Call); isC {
			if g := staticCallee(call); g != nil {
				if pi := isNilTestFunc(g); pi >= 0 && pi < len(call.Call.Args) && call.Call.Args[pi] == ev {
					return
				}
			}
		}
		ok = false
	})
	if !ok || n == 0 {
		return -1, -1
	}
	return bi, ei
}

// latchPeek: a module function that only reads the error latch of the block pipeline: its error results
// derive from Blocks.err, it stores nothing and calls nothing but the mutex.
func latchPeek(f *ssa.Function) bool {
	if !inModule(f) || len(f.Blocks) == 0 {
		return false
	}
	found, pure := false, true
	allInstrs(f, func(in ssa.Instruction) {
		switch x := in.(type) {
		case *ssa.Return:
			for _, res := range x.Results {
				if isErrorType(res.Type()) && (loadField(res) == "Blocks.err" || derivesFromField(res, "Blocks.err")) {
					found = true
				}
			}
		case *ssa.Store:
			if _, isAl := x.Addr.(*ssa.Alloc); !isAl {
				pure = false
			}
		case ssa.CallInstruction:
			g := staticCallee(x)
			if g == nil || g.Pkg == nil || g.Pkg.Pkg.Path() != "sync" {
				pure = false
			}
		}
	})
	return found && pure
}

// ---------------------------------------------------------------------------
// R15.10: the word produced by a source read is used only once the read is
// known to have succeeded. Between the call and the test of its error nothing
// looks at the value: a decision taken on the word of a failed read (a
// checksum comparison, a size test) replaces the source's error by a verdict
// about data that was never read.

// resultIndexOf: w is result #i of call - the Extract itself, or the load of a
// cell (named result, captured variable) assigned from that Extract right after
// the call. -1 otherwise.
func resultIndexOf(w ssa.Value, call *ssa.Call) int {
	if ex, ok := w.(*ssa.Extract); ok && ex.Tuple == ssa.Value(call) {
		return ex.Index
	}
	if ld, ok := w.(*ssa.UnOp); ok && ld.Op == token.MUL {
		if refs := ld.X.Referrers(); refs != nil {
			for _, r := range *refs {
				if st, isS := r.(*ssa.Store); isS && st.Addr == ld.X && st.Block() == call.Block() {
					if ex, isE := st.Val.(*ssa.Extract); isE && ex.Tuple == ssa.Value(call) {
						return ex.Index
					}
				}
			}
		}
	}
	return -1
}

func ruleReadValueAfterCheck(c *Check, p *Program, rule string) {
	n := 0
	var fns []*ssa.Function
	seenFn := map[*ssa.Function]bool{}
	for _, top := range readerSideFuncs(p) {
		for _, g := range deepFuncs(top, 2) {
			if !seenFn[g] && !isSourceRead32(g) {
				seenFn[g] = true
				fns = append(fns, g)
			}
		}
	}
	for _, fn := range fns {
		nf := 0
		for _, ci := range callsIn(fn) {
			call, isCall := ci.(*ssa.Call)
			if !isCall || !isSourceRead32(staticCallee(ci)) {
				continue
			}
			n++
			nf++
			c.Sites++
			// where the word lives: the Extract and the cells / fields it is stored into
			var val *ssa.Extract
			for _, r := range *call.Referrers() {
				if ex, ok := r.(*ssa.Extract); ok && ex.Index == 0 {
					val = ex
				}
			}
			if val == nil {
				continue
			}
			homes := map[string]bool{}
			cells := map[ssa.Value]bool{}
			for _, r := range *val.Referrers() {
				if st, ok := r.(*ssa.Store); ok && st.Val == ssa.Value(val) {
					if lf := lastField(st.Addr); lf != "" {
						homes[lf] = true
					} else {
						cells[st.Addr] = true
					}
				}
			}
			isUse := func(in ssa.Instruction) bool {
				switch x := in.(type) {
				case *ssa.Store, *ssa.Extract, *ssa.DebugRef:
					return false
				case *ssa.UnOp:
					if x.Op == token.MUL {
						if cells[x.X] {
							return true
						}
						if lf := lastField(x.X); lf != "" && homes[lf] {
							return true
						}
					}
				}
				for _, op := range in.Operands(nil) {
					if *op == ssa.Value(val) {
						return true
					}
				}
				return false
			}
			// blocks reachable from the call while the error may still be non-nil
			bad := ""
			seen := map[*ssa.BasicBlock]bool{}
			var walk func(b *ssa.BasicBlock, from int)
			walk = func(b *ssa.BasicBlock, from int) {
				if from == 0 {
					if seen[b] {
						return
					}
					seen[b] = true
				}
				for _, in := range b.Instrs[from:] {
					if bad == "" && isUse(in) {
						bad = p.InstrPos(in)
					}
				}
				ifi, isIf := b.Instrs[len(b.Instrs)-1].(*ssa.If)
				for k, s := range b.Succs {
					if isIf && len(b.Succs) == 2 {
						a := atomOf(ifi.Cond, k == 0)
						if a.Kind == "errnil" && a.Val && resultIndexOf(a.V, call) == 1 {
							continue // the read succeeded on this edge
						}
					}
					walk(s, 0)
				}
			}
			walk(call.Block(), idxOf(call)+1)
			c.Cond(bad == "", rule, shortFn(fn)+"#word-used-after-check:"+shortFn(staticCallee(ci))+fmt.Sprintf("#%d", nf), p.InstrPos(ci), "the word returned by a source read is looked at only on paths where the read's error is known to be nil", "no use between the call and the error test", "the word is used at "+bad+" while the read may have failed: the caller is told something about bytes that were never read (e.g. a checksum mismatch) instead of the source's error")
		}
	}
	if n < 4 {
		c.Fail(rule, "reader-side#word-reads", "", "the 32-bit source reads of the reading path are resolved", fmt.Sprintf("only %d calls of a 32-bit source-read helper found (confirmed by reading: magic, skippable length, block size, block checksum, content checksum)", n))
	}
}

// isErrorConstructor: a module function that builds an error and cannot fail itself: every return hands back the
// result of fmt.Errorf / errors.New (or a value converted to error), never a nil constant or a parameter.
func isErrorConstructor(f *ssa.Function) bool {
	if f == nil || !inModule(f) || len(f.Blocks) == 0 || f.Signature.Results().Len() != 1 || !isErrorType(f.Signature.Results().At(0).Type()) {
		return false
	}
	ok, n := true, 0
	allInstrs(f, func(in ssa.Instruction) {
		r, isR := in.(*ssa.Return)
		if !isR || len(r.Results) != 1 {
			return
		}
		n++
		switch x := r.Results[0].(type) {
		case *ssa.Call:
			if !(calleeIs(x, "fmt", "Errorf") || calleeIs(x, "errors", "New")) {
				ok = false
			}
		case *ssa.MakeInterface:
		default:
			ok = false
		}
	})
	return ok && n > 0
}
