package main

import (
	"fmt"
	"go/constant"
	"go/token"
	"go/types"
	"sort"
	"strings"

	"golang.org/x/tools/go/ssa"
)

// Structural discipline of the goroutine pipelines (C08, parts of C02/C07/C14).

func isClose(in ssa.Instruction) (ssa.Value, bool) {
	if cc, ok := isBuiltinCall(in, "close"); ok {
		return cc.Args[0], true
	}
	return nil, false
}

func isRecv(in ssa.Instruction) (ssa.Value, bool) {
	if u, ok := in.(*ssa.UnOp); ok && u.Op == token.ARROW {
		return u.X, true
	}
	return nil, false
}

// sameChan: two SSA values denote the same channel variable (same value, or
// loads of the same captured variable / alloc).
func sameChan(a, b ssa.Value) bool {
	if a == b {
		return true
	}
	ua, ok1 := a.(*ssa.UnOp)
	ub, ok2 := b.(*ssa.UnOp)
	if ok1 && ok2 && ua.Op == token.MUL && ub.Op == token.MUL && ua.X == ub.X {
		return true
	}
	return false
}

// ---------------------------------------------------------------------------
// R08.1 lockset for Blocks.err

func ruleLockset(c *Check, p *Program, rule string) {
	n := 0
	desc := "every access to the shared error latch Blocks.err is protected: under Blocks.mu, or confined to the single ordering goroutine of the Writer, or in Blocks.close where no goroutine exists / after the shutdown hand-shake"
	// the ordering goroutine: whatever the go statement(s) of Blocks.initW start
	ordering := map[*ssa.Function]bool{}
	if iw := p.Func("internal/lz4stream", "Blocks.initW"); iw != nil {
		for _, f := range splitFns(iw) {
			allInstrs(f, func(in ssa.Instruction) {
				if g, ok := in.(*ssa.Go); ok {
					if t := goTarget(g); t != nil {
						ordering[t] = true
					}
				}
			})
		}
	}
	var fns []*ssa.Function
	seenFn := map[*ssa.Function]bool{}
	for _, fn := range moduleFuncs(p, pkgStream, pkgRoot) {
		for _, f := range withAnon(fn) {
			if !seenFn[f] {
				seenFn[f] = true
				fns = append(fns, f)
			}
		}
	}
	callersOf := func(f *ssa.Function) []ssa.CallInstruction {
		var out []ssa.CallInstruction
		for _, g := range fns {
			for _, ci := range callsIn(g) {
				if staticCallee(ci) == f {
					out = append(out, ci)
				} else if gi, isGo := ci.(*ssa.Go); isGo && goTarget(gi) == f {
					out = append(out, ci)
				}
			}
		}
		return out
	}
	var protectedAt func(fn *ssa.Function, at ssa.Instruction, depth int) (bool, string)
	protectedAt = func(fn *ssa.Function, at ssa.Instruction, depth int) (bool, string) {
		// (1) the ordering goroutine itself (or a closure nested in it)
		for f := fn; f != nil; f = f.Parent() {
			if ordering[f] {
				return true, "inside the Writer's single ordering goroutine (Blocks.close reads the latch only after the hand-shake)"
			}
		}
		// (2) under the mutex
		if lockHeldAt(fn, at) {
			return true, "Blocks.mu.Lock dominates the access with no Unlock in between"
		}
		// (3) in Blocks.close: every path to the access takes the sequential edge, the
		// no-pipeline edge, or passes the hand-shake receive
		if shortFn(fn) == "Blocks.close" {
			safeEdge := func(from *ssa.BasicBlock, k int) bool {
				ifi, ok := from.Instrs[len(from.Instrs)-1].(*ssa.If)
				if !ok {
					return false
				}
				a := atomOf(ifi.Cond, k == 0)
				if a.Kind == "cmp" && a.Val {
					if b, isB := a.V.(*ssa.BinOp); isB && b.Op == token.EQL {
						if kk, isK := constUint(b.Y); isK && kk == 1 {
							return true // num == 1: sequential, no goroutine
						}
					}
				}
				if a.Kind == "isnil" && a.Val && loadField(a.V) == "Blocks.Blocks" {
					return true // no pipeline
				}
				return false
			}
			seen := map[*ssa.BasicBlock]bool{}
			unsafe := false
			var walk func(b *ssa.BasicBlock)
			walk = func(b *ssa.BasicBlock) {
				if seen[b] || unsafe {
					return
				}
				seen[b] = true
				for _, j := range b.Instrs {
					if j == at {
						unsafe = true
						return
					}
					if _, isR := isRecv(j); isR {
						return
					}
					if ci, isC := j.(*ssa.Call); isC {
						if h := staticCallee(ci); inModule(h) && h != fn {
							if okr, _ := mustOnAllPaths(p, h, func(x ssa.Instruction) bool { _, r := isRecv(x); return r }, false, 1); okr {
								return // the hand-shake (which ends with a receive) is done by a helper
							}
						}
					}
				}
				for k, s := range b.Succs {
					if safeEdge(b, k) {
						continue
					}
					walk(s)
				}
			}
			if len(fn.Blocks) > 0 {
				walk(fn.Blocks[0])
			}
			if !unsafe {
				return true, "in Blocks.close every path to the access is sequential (num == 1), has no pipeline (Blocks == nil) or has passed the shutdown hand-shake receive"
			}
			return false, "access in Blocks.close is reachable on a path that is neither goroutine-free nor after the hand-shake"
		}
		// (4) a helper: protected at every call site
		if depth > 0 {
			cs := callersOf(fn)
			if len(cs) > 0 {
				all := true
				how := ""
				for _, ci := range cs {
					if gi, isGo := ci.(*ssa.Go); isGo {
						if !ordering[goTarget(gi)] {
							all = false
						}
						continue
					}
					if _, isDefer := ci.(*ssa.Defer); isDefer {
						// a deferred helper runs where the function returns
						for _, b := range ci.Parent().Blocks {
							for _, j := range b.Instrs {
								if _, isRD := j.(*ssa.RunDefers); isRD {
									okc, h := protectedAt(ci.Parent(), j, depth-1)
									if !okc {
										all = false
									}
									how = h
								}
							}
						}
						continue
					}
					okc, h := protectedAt(ci.Parent(), ci, depth-1)
					if !okc {
						all = false
					}
					how = h
				}
				if all {
					return true, "helper called only from protected sites: " + how
				}
			}
		}
		// (5) a function literal handed to a wrapper that only calls it, with the lock held
		if depth > 0 && fn.Parent() != nil {
			n, all := 0, true
			allInstrs(fn.Parent(), func(in ssa.Instruction) {
				mc, isMC := in.(*ssa.MakeClosure)
				if !isMC || mc.Fn != ssa.Value(fn) {
					return
				}
				for _, r := range *mc.Referrers() {
					ci, isCall := r.(*ssa.Call)
					g := (*ssa.Function)(nil)
					if isCall {
						g = staticCallee(ci)
					}
					idx := -1
					if g != nil && inModule(g) && len(g.Blocks) > 0 {
						args := ci.Call.Args
						off := len(g.Params) - len(args)
						for i, a := range args {
							if a == ssa.Value(mc) && i+off >= 0 {
								idx = i + off
							}
						}
					}
					if idx < 0 {
						all = false
						continue
					}
					n++
					for _, pr := range *g.Params[idx].Referrers() {
						pc, isPC := pr.(*ssa.Call)
						if !isPC || pc.Call.Value != ssa.Value(g.Params[idx]) {
							if _, isDbg := pr.(*ssa.DebugRef); !isDbg {
								all = false
							}
							continue
						}
						if okc, _ := protectedAt(g, pc, depth-1); !okc {
							all = false
						}
					}
				}
			})
			if n > 0 && all {
				return true, "function literal run only by a wrapper that holds Blocks.mu around the call"
			}
		}
		return false, "access to Blocks.err in " + shortFn(fn) + " without holding Blocks.mu (concurrent workers, the reader goroutine and the consumer all use the latch)"
	}
	for _, fn := range fns {
		ord := 0
		var accs []ssa.Instruction
		allInstrs(fn, func(in ssa.Instruction) {
			var addr ssa.Value
			switch x := in.(type) {
			case *ssa.Store:
				addr = x.Addr
			case *ssa.UnOp:
				if x.Op == token.MUL {
					addr = x.X
				}
			}
			if addr != nil && lastField(addr) == "Blocks.err" {
				accs = append(accs, in)
			}
		})
		sort.SliceStable(accs, func(i, j int) bool { return accs[i].Pos() < accs[j].Pos() })
		for _, in := range accs {
			kind := "load"
			if _, isSt := in.(*ssa.Store); isSt {
				kind = "store"
			}
			n++
			c.Sites++
			c.Funcs[fname(fn)] = true
			key := fmt.Sprintf("Blocks.err#%s#%s%d", shortFn(fn), kind, ord)
			ord++
			okk, how := protectedAt(fn, in, 2)
			if okk {
				c.OK(rule, key, p.InstrPos(in), desc, how, true)
			} else {
				c.Fail(rule, key, p.InstrPos(in), desc, how)
			}
		}
	}
	if n < 4 {
		c.Fail(rule, "Blocks.err#floor", "", "the accesses to Blocks.err are resolved", fmt.Sprintf("only %d accesses found (confirmed by reading: at least 7)", n))
	}
}

// lockHeldAt: a Blocks.mu.Lock call dominates at, with no Unlock on any path between them.
func lockHeldAt(fn *ssa.Function, in ssa.Instruction) bool {
	locked := false
	for _, ci := range callsIn(fn) {
		if f := staticCallee(ci); f != nil && f.Name() == "Lock" && strings.Contains(f.String(), "sync.Mutex") {
			if _, isDefer := ci.(*ssa.Defer); isDefer {
				continue
			}
			if lastField(ci.Common().Args[0]) == "Blocks.mu" {
				lb := ci.Block()
				if (lb == in.Block() && idxOf(ci) < idxOf(in)) || (lb != in.Block() && lb.Dominates(in.Block())) {
					isUnlock := func(j ssa.Instruction) bool {
						cj, ok := j.(ssa.CallInstruction)
						if !ok {
							return false
						}
						if _, isDefer := cj.(*ssa.Defer); isDefer {
							return false
						}
						g := staticCallee(cj)
						return g != nil && g.Name() == "Unlock" && strings.Contains(g.String(), "sync.Mutex")
					}
					target := func(j ssa.Instruction) bool { return j == in }
					if r, _ := reachAvoid(fn, ci, target, isUnlock); r {
						isLock := func(j ssa.Instruction) bool { return j == ci.(ssa.Instruction) }
						if r2, _ := reachAvoid(fn, nil, target, isLock); !r2 {
							locked = true
						}
					}
				}
			}
		}
	}
	return locked
}

// ---------------------------------------------------------------------------
// R08.2 enqueue before spawn (submission order = output order)

func ruleEnqueueBeforeSpawn(c *Check, p *Program, rule string) {
	type tgt struct{ rel, name string }
	n := 0
	for _, t := range []tgt{{"", "Writer.write"}, {"internal/lz4stream", "Blocks.initR"}} {
		root := findFn(c, p, rule, t.rel, t.name)
		if root == nil {
			continue
		}
		for _, fn := range familyFns(root) {
			allInstrs(fn, func(in ssa.Instruction) {
				g, ok := in.(*ssa.Go)
				if !ok {
					return
				}
				// the per-block channel: a chan made in this function and handed to the goroutine (arg or captured)
				var chans []ssa.Value
				for _, a := range g.Call.Args {
					if _, isChan := a.Type().Underlying().(*types.Chan); isChan {
						// a channel handed over with a narrower direction (chan<- T) is the same channel
						for {
							if ct, isCT := a.(*ssa.ChangeType); isCT {
								a = ct.X
								continue
							}
							if cv, isCv := a.(*ssa.Convert); isCv {
								a = cv.X
								continue
							}
							break
						}
						chans = append(chans, a)
					}
				}
				if mc, isMC := g.Call.Value.(*ssa.MakeClosure); isMC {
					for _, b := range mc.Bindings {
						if al, isAl := b.(*ssa.Alloc); isAl {
							if pt, isP := al.Type().(*types.Pointer); isP {
								if ch, isChan := pt.Elem().Underlying().(*types.Chan); isChan {
									// only per-block channels (element is not itself a channel)
									if _, inner := ch.Elem().Underlying().(*types.Chan); !inner && al.Comment == "c" {
										chans = append(chans, al)
									}
								}
							}
						}
					}
				}
				if len(chans) == 0 {
					return
				}
				n++
				c.Sites++
				c.Funcs[fname(fn)] = true
				key := shortFn(fn) + "#enqueue-before-go"
				ok2 := false
				for _, ch := range chans {
					// a send of ch (or of a load of the cell ch) on a chan-of-chan that precedes the go statement
					for _, j := range in.Block().Instrs {
						if j == in {
							break
						}
						if s, isS := j.(*ssa.Send); isS {
							x := s.X
							match := x == ch
							if u, isU := x.(*ssa.UnOp); isU && u.Op == token.MUL && u.X == ch {
								match = true
							}
							if match {
								if cht, isC := s.Chan.Type().Underlying().(*types.Chan); isC {
									if _, inner := cht.Elem().Underlying().(*types.Chan); inner {
										ok2 = true
									}
								}
							}
						}
					}
				}
				// and conversely: once a channel is on the queue a worker for it is started before the
				// submitting goroutine does anything else (otherwise the collector waits on it forever)
				if ok2 {
					for _, j := range in.Block().Instrs {
						s, isS := j.(*ssa.Send)
						if !isS {
							continue
						}
						if cht, isC := s.Chan.Type().Underlying().(*types.Chan); isC {
							if _, inner := cht.Elem().Underlying().(*types.Chan); !inner {
								continue
							}
						}
						gi := in
						orphan, _ := reachAvoid(fn, j, func(x ssa.Instruction) bool {
							if isReturn(x) {
								return true
							}
							if s2, ok := x.(*ssa.Send); ok && s2 != s {
								if cht, isC := s2.Chan.Type().Underlying().(*types.Chan); isC {
									if _, inner := cht.Elem().Underlying().(*types.Chan); inner {
										return true
									}
								}
							}
							return false
						}, func(x ssa.Instruction) bool { return x == gi })
						c.Cond(!orphan, rule, shortFn(fn)+"#enqueued-channel-gets-worker", p.InstrPos(j), "a per-block channel that has been put on the ordered queue always gets its worker goroutine (no exit or further enqueue in between): otherwise the ordering side blocks on a channel nobody answers", "the `go` statement follows the enqueue on every path", "after the enqueue a return or another enqueue is reachable without the worker having been started")
					}
				}
				c.Cond(ok2, rule, key, p.InstrPos(in), "the per-block result channel is put on the ordered queue by the submitting goroutine before the worker goroutine is started (output order = submission order)", "queue <- c precedes `go` in the same block", "the worker is started without its result channel having been enqueued first by the submitting goroutine: blocks could be written / delivered out of order")
			})
		}
	}
	if n < 2 {
		c.Fail(rule, "enqueue-before-go#floor", "", "both pipelines (Writer.write, initR reader loop) are resolved", fmt.Sprintf("found %d worker spawns with a per-block channel (need 2)", n))
	}
}

// ---------------------------------------------------------------------------
// R08.3 per-block channel closed exactly once per iteration in the ordering goroutine

func ruleCloseOnce(c *Check, p *Program, rule string) {
	iw := findFn(c, p, rule, "internal/lz4stream", "Blocks.initW")
	if iw == nil {
		return
	}
	done := false
	for _, fn := range orderingFns(iw) {
		// receive of the per-block channel from the queue: a commaok receive yielding a chan
		var ch ssa.Value
		var recv ssa.Instruction
		allInstrs(fn, func(in ssa.Instruction) {
			if ex, ok := in.(*ssa.Extract); ok && ex.Index == 0 {
				if _, isChan := ex.Type().Underlying().(*types.Chan); isChan {
					ch = ex
					recv = in
				}
			}
		})
		if ch == nil {
			continue
		}
		done = true
		c.Funcs[fname(fn)] = true
		closes := func(in ssa.Instruction) bool {
			v, ok := isClose(in)
			if ok && v == ch {
				return true
			}
			// or the channel is handed to a helper that closes its parameter exactly once on every path
			call, isCall := in.(*ssa.Call)
			if !isCall {
				return false
			}
			g := staticCallee(call)
			if g == nil || !inModule(g) || len(g.Blocks) == 0 || len(g.Params) != len(call.Call.Args) {
				return false
			}
			for i, a := range call.Call.Args {
				if a != ch {
					continue
				}
				prm := g.Params[i]
				isCl := func(j ssa.Instruction) bool {
					w, okc := isClose(j)
					return okc && w == ssa.Value(prm)
				}
				all, _ := mustOnAllPaths(nil, g, isCl, false, 0)
				twice := false
				allInstrs(g, func(j ssa.Instruction) {
					if isCl(j) {
						if r, _ := reachAvoid(g, j, isCl, nil); r {
							twice = true
						}
					}
				})
				return all && !twice
			}
			return false
		}
		// loop head: the block containing the queue receive
		head := recv.Block()
		// a return taken because the queue itself was closed (the ok result of the same receive is false) has no
		// per-block channel to close
		queueClosed := func(b *ssa.BasicBlock) bool {
			for _, l := range guardsOf(b) {
				if ex, ok := l.Cond.(*ssa.Extract); ok && ex.Index == 1 && !l.Val {
					if ex0, isE := ch.(*ssa.Extract); isE && ex0.Tuple == ex.Tuple {
						return true
					}
				}
			}
			return false
		}
		atHead := func(in ssa.Instruction) bool {
			return (in.Block() == head && idxOf(in) == 0) || (isReturn(in) && !queueClosed(in.Block()))
		}
		miss, _ := reachAvoid(fn, recv, atHead, closes)
		// twice: from a close, another close before returning to the head
		twice := false
		allInstrs(fn, func(in ssa.Instruction) {
			if closes(in) {
				if r, _ := reachAvoid(fn, in, closes, atHead); r {
					twice = true
				}
			}
		})
		c.Cond(!miss && !twice, rule, "initW.goroutine#close-per-block-once", p.InstrPos(recv), "in the ordering goroutine every path from taking a per-block channel off the queue to the next iteration or return closes that channel exactly once (workers wait on it before releasing buffers; a missing close leaks the worker, a double close panics)",
			"path search: no path misses close(c), none closes twice", fmt.Sprintf("a path without close(c): %v; a path with two closes: %v", miss, twice))
	}
	if !done {
		c.Fail(rule, "initW.goroutine#close-per-block-once", p.Pos(iw.Pos()), "ordering goroutine resolved", "no closure of initW receives per-block channels (anchor unresolved)")
	}
}

// ---------------------------------------------------------------------------
// R08.4 buffers are released only after their last use

func ruleReleaseAfterUse(c *Check, p *Program, rule string) {
	// Writer worker: Put(data) and b.Close come after the final receive on c, which follows the send of the result
	ww := findFn(c, p, rule, "", "Writer.write")
	if ww != nil {
		for _, fn := range goroutinesOf(ww) {
			var send, recv ssa.Instruction
			allInstrs(fn, func(in ssa.Instruction) {
				if _, ok := in.(*ssa.Send); ok && send == nil {
					send = in
				}
				if _, ok := isRecv(in); ok {
					recv = in
				}
			})
			if send == nil || recv == nil {
				c.Fail(rule, "Writer.write.worker#sync", p.Pos(fn.Pos()), "the worker hands over its result and waits for the ordering goroutine", "send/receive on the per-block channel not found")
				continue
			}
			c.Funcs[fname(fn)] = true
			for _, ci := range callsIn(fn) {
				rel := ""
				if calleeIs(ci, pkgBlock, "Put") {
					rel = "lz4block.Put(data)"
				} else if calleeIs(ci, pkgStream, "FrameDataBlock.Close") {
					rel = "FrameDataBlock.Close"
				} else {
					continue
				}
				c.Sites++
				target := func(in ssa.Instruction) bool { return in == ci.(ssa.Instruction) }
				avoid := func(in ssa.Instruction) bool { return in == recv }
				early, _ := reachAvoid(fn, nil, target, avoid)
				c.Cond(!early, rule, "Writer.write.worker#"+rel+"-after-final-receive", p.InstrPos(ci), "the compression worker releases "+rel+" only after the ordering goroutine has written the block and closed the per-block channel", "the release is unreachable without passing <-c", "the buffer can be released to the pool before the ordering goroutine has written it (use after release)")
			}
			// the receive follows the send
			tr := func(in ssa.Instruction) bool { return in == recv }
			av := func(in ssa.Instruction) bool { return in == send }
			r, _ := reachAvoid(fn, nil, tr, av)
			c.Cond(!r, rule, "Writer.write.worker#send-then-wait", p.InstrPos(recv), "the worker sends its result before waiting for the channel to be closed", "send dominates receive", "the final receive can happen before the result is sent")
			// safe flag governs Put of the caller-visible buffer
			for _, ci := range callsIn(fn) {
				if calleeIs(ci, pkgBlock, "Put") {
					okSafe := false
					for _, l := range guardsOf(ci.Block()) {
						// the ownership flag: the boolean parameter of the worker, or of Writer.write when captured
						if pr := capturedParam(l.Cond); pr != nil && l.Val && (pr.Parent() == fn || pr.Parent() == ww) {
							if bt, isB := pr.Type().Underlying().(*types.Basic); isB && bt.Kind() == types.Bool {
								okSafe = true
							}
						}
					}
					c.Cond(okSafe, rule, "Writer.write.worker#put-only-if-owned", p.InstrPos(ci), "the worker returns the data buffer to the pool only when it owns it (safe)", "guarded by safe", "Put(data) is not guarded by the ownership flag: a caller's buffer could enter the pool")
				}
			}
		}
	}
	// Reader consumer: in Read the previous buffer is Put before the next one is received
	rd := findFn(c, p, rule, "", "Reader.Read")
	if rd != nil {
		for _, b := range rd.Blocks {
			for i, in := range b.Instrs {
				if ch, ok := isRecv(in); ok && loadField(ch) == "Reader.reads" {
					c.Sites++
					okPut := false
					for _, j := range b.Instrs[:i] {
						if ci, isC := j.(ssa.CallInstruction); isC && calleeIs(ci, pkgBlock, "Put") && loadField(ci.Common().Args[0]) == "Reader.data" {
							okPut = true
						}
					}
					c.Cond(okPut, rule, "Reader.Read#put-before-next", p.InstrPos(in), "the consumed buffer is returned to the pool before the next one is received (no leak, and never after being overwritten by the next)", "Put(r.data) precedes r.data = <-r.reads", "the previous buffer is not released before taking the next")
				}
			}
		}
	}
	// Reader worker: the decoded buffer is sent, the compressed block released by deferred Close
	ir := findFn(c, p, rule, "internal/lz4stream", "Blocks.initR")
	if ir != nil {
		for _, fn := range familyFns(ir)[1:] {
			hasUn := false
			for _, ci := range callsIn(fn) {
				if calleeIs(ci, pkgStream, "FrameDataBlock.Uncompress") {
					hasUn = true
				}
			}
			if !hasUn {
				continue
			}
			c.Funcs[fname(fn)] = true
			deferred := false
			allInstrs(fn, func(in ssa.Instruction) {
				if d, ok := in.(*ssa.Defer); ok && calleeIs(d, pkgStream, "FrameDataBlock.Close") {
					deferred = true
				}
			})
			c.Cond(deferred, rule, "initR.worker#deferred-close", p.Pos(fn.Pos()), "the decode worker releases its compressed block on every exit (deferred Close), after decoding", "defer block.Close(f)", "no deferred FrameDataBlock.Close in the decode worker: the pooled block buffer leaks or is released before use")
			// every path ends with either send of data or close(c) after closeR
			var send ssa.Instruction
			var cl ssa.Instruction
			allInstrs(fn, func(in ssa.Instruction) {
				if _, ok := in.(*ssa.Send); ok {
					send = in
				}
				if _, ok := isClose(in); ok {
					cl = in
				}
			})
			sig := func(in ssa.Instruction) bool { return in == send || in == cl }
			miss, _ := reachAvoid(fn, nil, isReturn, sig)
			// the recover block returns without signalling: exclude returns in the Recover block
			if fn.Recover != nil {
				miss2 := false
				seen := map[*ssa.BasicBlock]bool{}
				var rec func(b *ssa.BasicBlock)
				rec = func(b *ssa.BasicBlock) {
					if seen[b] {
						return
					}
					seen[b] = true
					for _, in := range b.Instrs {
						if sig(in) {
							return
						}
						if isReturn(in) {
							miss2 = true
							return
						}
					}
					for _, s := range b.Succs {
						rec(s)
					}
				}
				rec(fn.Blocks[0])
				miss = miss2
			}
			c.Cond(send != nil && cl != nil && !miss, rule, "initR.worker#always-signals", p.Pos(fn.Pos()), "the decode worker always answers on its per-block channel: the data, or close(c) after latching the error (the collector blocks on it)", "every normal exit passes `c <- data` or `close(c)`", "a path returns without sending on or closing the per-block channel: the collector would block forever")
			// error path: closeR before close(c)
			if cl != nil {
				okOrder := false
				for _, j := range cl.Block().Instrs {
					if j == cl {
						break
					}
					if ci, isC := j.(ssa.CallInstruction); isC && calleeIs(ci, pkgStream, "Blocks.closeR") {
						okOrder = true
					}
				}
				c.Cond(okOrder, rule, "initR.worker#latch-before-close", p.InstrPos(cl), "the error is latched before the channel is closed (the consumer reads the latch when it sees the closed channel)", "closeR(err) precedes close(c)", "close(c) is not preceded by closeR(err): the consumer can observe the end of data before the error is visible")
			}
		}
	}
}

// ---------------------------------------------------------------------------
// R08.5 ownership hand-off of the accumulation buffer

func ruleHandOff(c *Check, p *Program, rule string) {
	n := 0
	for _, name := range []string{"Writer.Write", "Writer.Flush"} {
		fn := findFn(c, p, rule, "", name)
		if fn == nil {
			continue
		}
		anchor := fn
		var sites []ssa.CallInstruction
		for _, g := range deepFuncs(anchor, 2) {
			for _, ci := range callsIn(g) {
				if calleeIs(ci, pkgRoot, "Writer.write") {
					sites = append(sites, ci)
				}
			}
		}
		for _, ci := range sites {
			fn := ci.Parent()
			data := ci.Common().Args[1]
			if !derivesFromField(data, "Writer.data") {
				continue
			}
			n++
			c.Sites++
			key := name + "#handoff"
			// In concurrent mode: before the function returns or touches w.data again, w.data must be re-assigned
			// a fresh pool buffer. Search a path from the call, taking only !sequential edges, to a return or to a
			// read of Writer.data, avoiding a store of a Get() result into Writer.data.
			isFresh := func(in ssa.Instruction) bool {
				st, ok := in.(*ssa.Store)
				if !ok || lastField(st.Addr) != "Writer.data" {
					return false
				}
				call, isC := st.Val.(*ssa.Call)
				return isC && calleeIs(call, pkgBlock, "BlockSizeIndex.Get")
			}
			bad, where := handoffPath(fn, ci, isFresh)
			// the safe flag must be true whenever concurrent
			safe := ci.Common().Args[2]
			safeOK := false
			if k, isK := safe.(*ssa.Const); isK && k.Value != nil && k.Value.Kind() == constant.Bool && constant.BoolVal(k.Value) {
				safeOK = true
			}
			// "concurrent": !isNotConcurrent() or its inlined form w.num != 1
			if at := atomOf(safe, true); at.Kind == "call" && strings.HasSuffix(at.Name, "isNotConcurrent") && !at.Val {
				safeOK = true
			}
			// or ownership is expressed by a release function: lz4block.Put in concurrent mode (nil only where sequential)
			if releaseGivenWhenConcurrent(safe) {
				safeOK = true
			}
			c.Cond(!bad && safeOK, rule, key, p.InstrPos(ci), "when the accumulation buffer is handed to a compression goroutine (concurrent mode) the Writer replaces it with a fresh pool buffer before using w.data again, and the goroutine is told it owns the buffer",
				"path search under !sequential: every path to a return or to the next use of w.data passes w.data = size.Get(); safe is true when concurrent", fmt.Sprintf("path to %s without replacing w.data: %v; ownership flag true when concurrent: %v", where, bad, safeOK))
		}
	}
	// ReadFrom: the local buffer is replaced after each hand-off while more data is expected
	rf := findFn(c, p, rule, "", "Writer.ReadFrom")
	if rf != nil {
		for _, ci := range callsIn(rf) {
			if !calleeIs(ci, pkgRoot, "Writer.write") {
				continue
			}
			n++
			c.Sites++
			// explored over (block, "the current buffer has been handed over", boolean loop variables) under the
			// concurrent-mode assumption: Writer.write raises the bit, a fresh pool buffer clears it; the next read of
			// the source must not find it set
			ok := true
			why := ""
			seqEdge := func(b *ssa.BasicBlock, k int) bool {
				ifi, isIf := b.Instrs[len(b.Instrs)-1].(*ssa.If)
				if !isIf || len(b.Succs) != 2 {
					return false
				}
				a := atomOf(ifi.Cond, k == 0)
				return a.Kind == "call" && strings.HasSuffix(a.Name, "isNotConcurrent") && a.Val
			}
			exploreBoolStatesStep(rf, nil, seqEdge, func(in ssa.Instruction, handed bool) bool {
				x, isCall := in.(ssa.CallInstruction)
				if !isCall {
					return handed
				}
				if _, isDefer := in.(*ssa.Defer); isDefer {
					return handed
				}
				switch {
				case calleeIs(x, pkgRoot, "Writer.write"):
					return true
				case calleeIs(x, pkgBlock, "BlockSizeIndex.Get"):
					return false
				case calleeIs(x, "io", "ReadFull") || calleeIs(x, "io", "ReadAtLeast") || callReaches(x, func(y ssa.CallInstruction) bool { return calleeIs(y, "io", "ReadFull") }):
					if handed {
						ok = false
						why = "the source is read again at " + p.InstrPos(in) + " into a buffer that Writer.write has handed to a compression goroutine (concurrent mode, no fresh pool buffer taken in between)"
					}
				}
				return handed
			})
			c.Cond(ok, rule, "Writer.ReadFrom#handoff", p.InstrPos(ci), "in ReadFrom a buffer handed to a compression goroutine is not read into again: a fresh one is taken unless the Writer is sequential or the input is finished", "loop-carried buffer is size.Get() on concurrent, not-done paths", why)
		}
	}
	if n < 3 {
		c.Fail(rule, "handoff#floor", "", "the hand-off sites (Write full buffer, Flush, ReadFrom) are resolved", fmt.Sprintf("found %d (need 3)", n))
	}
}

// handoffPath searches, from call ci, a path that stays on edges compatible with
// concurrent mode and reaches a return or a read of Writer.data (load followed
// by copy/slice) without passing an instruction satisfying fresh.
func handoffPath(fn *ssa.Function, ci ssa.CallInstruction, fresh iPred) (bool, string) {
	return handoffWalk(ci.Block(), idxOf(ci)+1, fresh, 2)
}

// handoffWalk searches, from (start, from), a path along non-sequential,
// non-error edges to a return or to a use of w.data that does not pass an
// instruction satisfying fresh. A call to a module helper on whose every such
// path from its entry fresh holds counts as fresh (extracted helpers).
func handoffWalk(start *ssa.BasicBlock, startIdx int, fresh0 iPred, depth int) (bool, string) {
	fresh := func(in ssa.Instruction) bool {
		if fresh0(in) {
			return true
		}
		if depth > 0 {
			if call, ok := in.(*ssa.Call); ok {
				if f := staticCallee(call); f != nil && f.Pkg != nil && f.Pkg.Pkg.Path() == pkgRoot && len(f.Blocks) > 0 && f.Name() != "write" && f.Name() != "isNotConcurrent" {
					bad, _ := handoffWalk(f.Blocks[0], 0, fresh0, depth-1)
					return !bad
				}
			}
		}
		return false
	}
	seen := map[*ssa.BasicBlock]bool{}
	var found bool
	var where string
	var walk func(b *ssa.BasicBlock, from int)
	walk = func(b *ssa.BasicBlock, from int) {
		if found {
			return
		}
		if from == 0 {
			if seen[b] {
				return
			}
			seen[b] = true
		}
		for i := from; i < len(b.Instrs); i++ {
			in := b.Instrs[i]
			if fresh(in) {
				return
			}
			if isReturn(in) {
				found, where = true, "the return"
				return
			}
			if _, ok := in.(*ssa.RunDefers); ok {
				found, where = true, "the return"
				return
			}
			if u, ok := in.(*ssa.UnOp); ok && u.Op == token.MUL && lastField(u.X) == "Writer.data" {
				found, where = true, "the next use of w.data"
				return
			}
		}
		if ifi, ok := b.Instrs[len(b.Instrs)-1].(*ssa.If); ok && len(b.Succs) == 2 {
			for k, s := range b.Succs {
				a := atomOf(ifi.Cond, k == 0)
				if a.Kind == "call" && strings.HasSuffix(a.Name, "isNotConcurrent") && a.Val {
					continue // sequential edge: the buffer stays ours
				}
				// error edges end the call: returning an error after a failed hand-off is fine
				if a.Kind == "errnil" && !a.Val {
					continue
				}
				walk(s, 0)
			}
			return
		}
		for _, s := range b.Succs {
			walk(s, 0)
		}
	}
	walk(start, startIdx)
	return found, where
}

// ---------------------------------------------------------------------------
// R08.6 pipeline liveness: the sentinel hand-shake is followed by dropping the queue

func ruleLiveness(c *Check, p *Program, rule string) {
	fn := findFn(c, p, rule, "internal/lz4stream", "Blocks.close")
	if fn == nil {
		return
	}
	// the sentinel send: in Blocks.close itself, or in a helper that is handed the queue
	var sentinel ssa.Instruction // the site in Blocks.close (the send, or the call of the helper)
	var send *ssa.Send
	hsFn := fn
	allInstrs(fn, func(in ssa.Instruction) {
		if s, ok := in.(*ssa.Send); ok && derivesFromField(s.Chan, "Blocks.Blocks") {
			sentinel, send = in, s
		}
	})
	if sentinel == nil {
		for _, ci := range callsIn(fn) {
			h := staticCallee(ci)
			if !inModule(h) || h == fn {
				continue
			}
			if _, isGo := ci.(*ssa.Go); isGo {
				continue
			}
			allInstrs(h, func(in ssa.Instruction) {
				if s, ok := in.(*ssa.Send); ok && derivesFromField(s.Chan, "Blocks.Blocks") {
					if _, isCh := s.X.Type().Underlying().(*types.Chan); isCh {
						sentinel, send, hsFn = ci, s, h
					}
				}
			})
		}
	}
	if sentinel == nil {
		c.Fail(rule, "Blocks.close#sentinel", p.Pos(fn.Pos()), "Blocks.close shuts the ordering goroutine down with a sentinel", "no send on Blocks.Blocks found")
		return
	}
	c.Sites++
	// guard: only when a pipeline exists
	guarded := false
	for _, a := range atomsOfBlock(sentinel.Block()) {
		if a.Kind == "isnil" && !a.Val && loadField(a.V) == "Blocks.Blocks" {
			guarded = true
		}
	}
	// after the sentinel, every path to return marks the pipeline as gone (Blocks = nil)
	isDrop := func(in ssa.Instruction) bool {
		st, ok := in.(*ssa.Store)
		return ok && lastField(st.Addr) == "Blocks.Blocks" && isNilConst(st.Val)
	}
	leak, _ := reachAvoid(fn, sentinel, isReturn, isDrop)
	c.Cond(guarded && !leak, rule, "Blocks.close#sentinel-needs-live-goroutine", p.InstrPos(sentinel), "the shutdown sentinel is sent only when a pipeline exists, and once the ordering goroutine has answered the queue is dropped so that a later close (Close then Reset, double Close) cannot wait for a goroutine that is gone",
		"guarded by Blocks != nil; every path after the hand-shake stores Blocks = nil", fmt.Sprintf("guarded by Blocks != nil: %v; a return is reachable after the hand-shake with the queue still set: %v", guarded, leak))
	// hand-shake shape: send c on queue, send nil on c, receive on c
	var mk ssa.Value
	if send != nil {
		mk = send.X
	}
	nilSent, recvd := false, false
	allInstrs(hsFn, func(in ssa.Instruction) {
		if s, ok := in.(*ssa.Send); ok && s.Chan == mk && isNilConst(s.X) {
			nilSent = true
		}
		if ch, ok := isRecv(in); ok && ch == mk {
			recvd = true
		}
	})
	c.Cond(nilSent && recvd, rule, "Blocks.close#handshake", p.InstrPos(sentinel), "Blocks.close waits for the ordering goroutine: sentinel channel enqueued, nil sent, then a receive that completes when the goroutine closes it", "c enqueued; c <- nil; <-c", fmt.Sprintf("nil sent on the sentinel channel: %v; reply awaited: %v", nilSent, recvd))
	// initW spawns the goroutine only when num != 1 and (re)creates the queue when missing
	iw := findFn(c, p, rule, "internal/lz4stream", "Blocks.initW")
	if iw != nil {
		okk := false
		for _, piece := range splitFns(iw) {
			piece := piece
			allInstrs(piece, func(in ssa.Instruction) {
				if _, ok := in.(*ssa.Go); ok {
					// queue must be non-nil here: a make under cap(queue) != num precedes
					mkq := false
					allInstrs(piece, func(j ssa.Instruction) {
						if st, ok := j.(*ssa.Store); ok && lastField(st.Addr) == "Blocks.Blocks" {
							if _, isMk := st.Val.(*ssa.MakeChan); isMk {
								for _, a := range atomsOfBlock(j.Block()) {
									if a.Kind == "cmp" && strings.Contains(a.Name, "cap(") {
										mkq = true
									}
								}
							}
						}
					})
					okk = mkq
				}
			})
		}
		c.Cond(okk, rule, "Blocks.initW#queue-recreated", p.Pos(iw.Pos()), "initW allocates a queue whenever the current one does not have the requested capacity (in particular after it was dropped) before starting the ordering goroutine", "make under cap(queue) != num", "initW may start the goroutine on a nil or stale queue")
	}
}

// ---------------------------------------------------------------------------
// R08.7 joined epilogue: library goroutines do not touch the owner's fields after
// their last synchronisation with it

func ruleJoinedEpilogue(c *Check, p *Program, rule string) {
	ww := findFn(c, p, rule, "", "Writer.write")
	if ww == nil {
		return
	}
	for _, fn := range goroutinesOf(ww) {
		var last ssa.Instruction
		allInstrs(fn, func(in ssa.Instruction) {
			if _, ok := isRecv(in); ok {
				last = in
			}
		})
		if last == nil {
			continue
		}
		c.Funcs[fname(fn)] = true
		fields := map[string]ssa.Instruction{}
		seen := map[*ssa.BasicBlock]bool{}
		var walk func(b *ssa.BasicBlock, from int)
		walk = func(b *ssa.BasicBlock, from int) {
			if from == 0 {
				if seen[b] {
					return
				}
				seen[b] = true
			}
			for _, in := range b.Instrs[from:] {
				if u, ok := in.(*ssa.UnOp); ok && u.Op == token.MUL {
					if lf := lastField(u.X); strings.HasPrefix(lf, "Writer.") {
						if _, dup := fields[lf]; !dup {
							fields[lf] = in
						}
					}
				}
			}
			for _, s := range b.Succs {
				walk(s, 0)
			}
		}
		walk(last.Block(), idxOf(last)+1)
		if len(fields) == 0 {
			c.OK(rule, "Writer.write.worker#no-owner-access-after-last-sync", p.InstrPos(last), "after its last synchronisation with the ordering goroutine the worker does not touch the Writer", "no Writer field is read after <-c", true)
		}
		for lf, in := range fields {
			c.Sites++
			c.Fail(rule, "Writer.write.worker#owner-access-after-last-sync:"+lf, p.InstrPos(in), "after its last synchronisation (<-c, released when the ordering goroutine closes the channel) the worker does not touch the Writer: Close waits for the ordering goroutine only, so later accesses race with Apply/Reset/Close of the owner and the goroutine outlives Close",
				"the worker reads "+lf+" after <-c; Writer.Close does not join the worker")
		}
	}
}

// ---------------------------------------------------------------------------
// R07.6 concurrent reader shutdown protocol

func ruleReaderShutdown(c *Check, p *Program, rule string) {
	ir := findFn(c, p, rule, "internal/lz4stream", "Blocks.initR")
	if ir == nil {
		return
	}
	// the two long-lived goroutines of the pipeline: the one that reads blocks from the source (directly or in a
	// helper) and the one that receives the per-block channels from the queue (a channel of channels)
	var readerLoop, collector *ssa.Function
	for _, fn := range goroutinesOf(ir) {
		if fn.Parent() != nil && fn.Parent().Parent() != nil {
			continue // per-block workers started inside the reader goroutine (a function literal inside a function literal)
		}
		for _, ci := range callsInDeep(fn) {
			if calleeIs(ci, pkgStream, "FrameDataBlock.Read") {
				readerLoop = fn
			}
		}
		allInstrsDeep(fn, func(in ssa.Instruction) {
			if u, ok := in.(*ssa.UnOp); ok && u.Op == token.ARROW {
				if ch, isCh := u.X.Type().Underlying().(*types.Chan); isCh {
					if _, inner := ch.Elem().Underlying().(*types.Chan); inner && fn != readerLoop {
						collector = fn
					}
				}
			}
			if nx, ok := in.(*ssa.Next); ok && !nx.IsString {
				if rg, isR := nx.Iter.(*ssa.Range); isR {
					if ch, isCh := rg.X.Type().Underlying().(*types.Chan); isCh {
						if _, inner := ch.Elem().Underlying().(*types.Chan); inner && fn != readerLoop {
							collector = fn
						}
					}
				}
			}
		})
	}
	if readerLoop == nil || collector == nil {
		c.Fail(rule, "initR#goroutines", p.Pos(ir.Pos()), "reader and collector goroutines resolved", fmt.Sprintf("reader loop found: %v, collector found: %v", readerLoop != nil, collector != nil))
		return
	}
	c.Funcs[fname(readerLoop)] = true
	c.Funcs[fname(collector)] = true
	// reader loop: every return is preceded by: sentinel hand-shake (send nil on a fresh chan enqueued), closeR, close(data)
	// Each step may sit in the goroutine itself, in a helper, or in a function literal called on the spot.
	lift := func(direct func(ssa.Instruction) bool) func(ssa.Instruction) bool {
		return func(in ssa.Instruction) bool {
			if direct(in) {
				return true
			}
			ci, ok := in.(*ssa.Call)
			if !ok {
				return false
			}
			f := staticCallee(ci)
			if f == nil {
				if mc, isMC := ci.Call.Value.(*ssa.MakeClosure); isMC {
					f, _ = mc.Fn.(*ssa.Function)
				}
			}
			if f == nil || f.Pkg != readerLoop.Pkg || f == readerLoop {
				return false
			}
			okc, _ := mustOnAllPaths(p, f, direct, false, 1)
			return okc
		}
	}
	isNilSend := lift(func(in ssa.Instruction) bool {
		s, ok := in.(*ssa.Send)
		return ok && isNilConst(s.X)
	})
	isLatch := lift(func(in ssa.Instruction) bool {
		ci, ok := in.(ssa.CallInstruction)
		return ok && calleeIs(ci, pkgStream, "Blocks.closeR")
	})
	isCloseData := lift(func(in ssa.Instruction) bool {
		v, ok := isClose(in)
		if !ok {
			return false
		}
		// the data channel: a channel of byte slices
		if ch, isCh := v.Type().Underlying().(*types.Chan); isCh {
			if sl, isSl := ch.Elem().Underlying().(*types.Slice); isSl {
				if b, isB := sl.Elem().Underlying().(*types.Basic); isB && b.Kind() == types.Uint8 {
					return true
				}
			}
		}
		return false
	})
	for _, x := range []struct {
		name string
		pred func(ssa.Instruction) bool
		desc string
	}{
		{"sentinel", isNilSend, "the reader goroutine tells the collector that no more blocks follow (nil on a fresh per-block channel) on every exit"},
		{"latch", isLatch, "the reader goroutine latches its final error (or io.EOF) on every exit"},
		{"close-data", isCloseData, "the reader goroutine closes the data channel on every exit (the consumer blocks on it)"},
	} {
		c.Sites++
		miss, _ := reachAvoid(readerLoop, nil, isReturn, x.pred)
		c.Cond(!miss, rule, "initR.reader#"+x.name+"-on-every-exit", p.Pos(readerLoop.Pos()), x.desc, "every path to a return passes it", "a return is reachable without it: the collector / consumer would block forever (goroutine leak, Read never returns)")
	}
	// order: sentinel hand-shake completes before latch, latch before close(data)
	{
		r1, _ := reachAvoid(readerLoop, nil, isLatch, isNilSend)
		r2, _ := reachAvoid(readerLoop, nil, isCloseData, isLatch)
		c.Cond(!r1 && !r2, rule, "initR.reader#shutdown-order", p.Pos(readerLoop.Pos()), "shutdown order: collector drained (hand-shake), then error latched, then data channel closed - the consumer reads the latch when it sees the closed channel", "sentinel < closeR < close(data) on all paths", fmt.Sprintf("latch reachable before hand-shake: %v; close(data) reachable before latch: %v", r1, r2))
	}
	// the loop is left as soon as an error is latched or a read fails
	loopGuard := false
	for _, ci := range callsIn(readerLoop) {
		if calleeIs(ci, pkgStream, "Blocks.ErrorR") {
			loopGuard = true
		}
	}
	if !loopGuard {
		// through a local predicate (a function literal of the enclosing function, or a helper)
		for _, ci := range callsIn(readerLoop) {
			var t *ssa.Function
			if mc, isMC := ci.Common().Value.(*ssa.MakeClosure); isMC {
				t, _ = mc.Fn.(*ssa.Function)
			} else if f := staticCallee(ci); f != nil && inModule(f) {
				t = f
			} else if ld, isL := ci.Common().Value.(*ssa.UnOp); isL && ld.Op == token.MUL {
				for _, src := range capturedSources(ld) {
					if mc, isMC := src.(*ssa.MakeClosure); isMC {
						t, _ = mc.Fn.(*ssa.Function)
					}
				}
			} else if fv, isFV := ci.Common().Value.(*ssa.FreeVar); isFV {
				_ = fv
			}
			if t != nil {
				for _, cj := range callsIn(t) {
					if calleeIs(cj, pkgStream, "Blocks.ErrorR") {
						loopGuard = true
					}
				}
			}
		}
	}
	c.Cond(loopGuard, rule, "initR.reader#stops-on-error", p.Pos(readerLoop.Pos()), "the reader goroutine re-checks the error latch so that it stops submitting blocks after a failure", "ErrorR() consulted in the loop", "the reader loop never consults the error latch")
	// collector: answers the sentinel by close(c); closes the queue on return; closes each delivered c
	// every buffer forwarded to the consumer is followed, on all paths to the next iteration or
	// return, by closing a per-block channel; and some path answers the sentinel (close, then return)
	isChanClose := func(in ssa.Instruction) bool {
		v, ok := isClose(in)
		if !ok {
			return false
		}
		if ch, isCh := v.Type().Underlying().(*types.Chan); isCh {
			_, isSl := ch.Elem().Underlying().(*types.Slice)
			return isSl
		}
		return false
	}
	nClose, nFwd, missed := 0, 0, false
	allInstrs(collector, func(in ssa.Instruction) {
		if isChanClose(in) {
			nClose++
		}
		if s, ok := in.(*ssa.Send); ok {
			if _, isSl := s.X.Type().Underlying().(*types.Slice); isSl && !isNilConst(s.X) {
				nFwd++
				stop := func(j ssa.Instruction) bool {
					if isReturn(j) {
						return true
					}
					// next queue receive (a commaok receive yielding a channel)
					if u, isU := j.(*ssa.UnOp); isU && u.Op == token.ARROW && u.CommaOk {
						if ch, isCh := u.X.Type().Underlying().(*types.Chan); isCh {
							_, inner := ch.Elem().Underlying().(*types.Chan)
							return inner
						}
					}
					return false
				}
				if r, _ := reachAvoid(collector, in, stop, isChanClose); r {
					missed = true
				}
			}
		}
	})
	// the sentinel is the nil slice: the collector's answering exit (close, then return) is taken on nil-ness of the
	// received buffer, never on its length - a data block may decode to zero bytes and must not end the collection
	{
		fromBlockChan := func(v ssa.Value) bool {
			for i := 0; i < 4; i++ {
				switch x := v.(type) {
				case *ssa.Extract:
					v = x.Tuple
					continue
				case *ssa.UnOp:
					if x.Op == token.ARROW {
						if ch, isCh := x.X.Type().Underlying().(*types.Chan); isCh {
							_, isSl := ch.Elem().Underlying().(*types.Slice)
							return isSl
						}
					}
				}
				break
			}
			return false
		}
		nilTestOf := func(a Atom) bool {
			if a.Kind == "isnil" && a.Val && fromBlockChan(a.V) {
				return true
			}
			if a.Kind == "call" {
				if ci, ok := a.V.(*ssa.Call); ok {
					if f := staticCallee(ci); f != nil && inModule(f) && len(f.Blocks) == 1 {
						for _, arg := range ci.Call.Args {
							if !fromBlockChan(arg) {
								continue
							}
							if r, isR := f.Blocks[0].Instrs[len(f.Blocks[0].Instrs)-1].(*ssa.Return); isR && len(r.Results) == 1 {
								if at := atomOf(r.Results[0], a.Val); at.Kind == "isnil" && at.Val {
									if _, isP := at.V.(*ssa.Parameter); isP {
										return true
									}
								}
							}
						}
					}
				}
			}
			return false
		}
		lenTestOf := func(a Atom) bool {
			bo, ok := a.V.(*ssa.BinOp)
			if !ok || a.Kind != "cmp" {
				return false
			}
			for _, o := range []ssa.Value{bo.X, bo.Y} {
				if cl, isC := o.(*ssa.Call); isC {
					if bi, isB := cl.Call.Value.(*ssa.Builtin); isB && bi.Name() == "len" && len(cl.Call.Args) == 1 && fromBlockChan(cl.Call.Args[0]) {
						return true
					}
				}
			}
			return false
		}
		sendsNil := false
		for _, f := range familyFns(readerLoop) {
			allInstrs(f, func(in ssa.Instruction) {
				if sd, ok := in.(*ssa.Send); ok && isNilConst(sd.X) {
					sendsNil = true
				}
			})
		}
		nilExit, lenExit := false, ""
		allInstrs(collector, func(in ssa.Instruction) {
			if !isReturn(in) {
				return
			}
			hasNil, hasLen := false, false
			for _, a := range atomsOfBlockLocal(in.Block()) {
				if nilTestOf(a) {
					hasNil = true
				}
				if lenTestOf(a) {
					hasLen = true
				}
			}
			if hasNil {
				nilExit = true
			} else if hasLen {
				lenExit = p.InstrPos(in)
			}
		})
		if sendsNil {
			c.Cond(nilExit && lenExit == "", rule, "initR.collector#sentinel-is-nil", p.Pos(collector.Pos()), "the end-of-collection sentinel sent by the reader goroutine is the nil slice; the collector leaves on nil-ness of the received buffer, not on its length (a block may decode to zero bytes)", "the answering return is governed by a nil test of the received buffer", fmt.Sprintf("return governed by a nil test of the received buffer: %v; return governed only by a length test: %s - an empty data block would end the collection while the reader goroutine is still sending (send on closed channel, or a goroutine blocked forever)", nilExit, lenExit))
		}
	}
	c.Cond(nClose >= 2 && nFwd >= 1 && !missed, rule, "initR.collector#answers", p.Pos(collector.Pos()), "the collector closes the per-block channel after forwarding a buffer and when it receives the sentinel (the reader goroutine waits for that)", fmt.Sprintf("%d close(c) sites; every forwarded buffer is followed by a close", nClose), fmt.Sprintf("close(c) sites: %d; forwarded buffers: %d; a forwarded buffer is not followed by close(c): %v", nClose, nFwd, missed))
}

// orderingFns: the functions that run in the Writer's ordering goroutine: the
// targets of the go statements of Blocks.initW (closures or methods), closures
// nested in them, and the module helpers they call synchronously.
func orderingFns(iw *ssa.Function) []*ssa.Function {
	seen := map[*ssa.Function]bool{}
	var out []*ssa.Function
	var add func(f *ssa.Function, depth int)
	add = func(f *ssa.Function, depth int) {
		if f == nil || seen[f] || len(f.Blocks) == 0 {
			return
		}
		seen[f] = true
		out = append(out, f)
		for _, a := range f.AnonFuncs {
			add(a, depth)
		}
		if depth > 0 {
			for _, g := range calleesOf(f) {
				if g.Pkg == iw.Pkg {
					add(g, depth-1)
				}
			}
		}
	}
	for _, f := range splitFns(iw) {
		allInstrs(f, func(in ssa.Instruction) {
			if g, ok := in.(*ssa.Go); ok {
				add(goTarget(g), 2)
			}
		})
	}
	return out
}

// splitFns: the function, the unexported helpers of its package that only it
// (or such a helper) calls, and the function literals of all of them: the
// function as it reads after having been split into pieces.
func splitFns(root *ssa.Function) []*ssa.Function {
	seen := map[*ssa.Function]bool{}
	var out []*ssa.Function
	var add func(f *ssa.Function, depth int)
	add = func(f *ssa.Function, depth int) {
		if f == nil || seen[f] || len(f.Blocks) == 0 {
			return
		}
		seen[f] = true
		out = append(out, f)
		for _, a := range f.AnonFuncs {
			add(a, depth)
		}
		if depth <= 0 {
			return
		}
		for _, g := range calleesOf(f) {
			if g.Pkg != root.Pkg || !isHelper(g) {
				continue
			}
			own := true
			for _, cs := range callSitesOf(g) {
				top := cs.Parent()
				for top.Parent() != nil {
					top = top.Parent()
				}
				if !seen[top] {
					own = false
				}
			}
			if own {
				add(g, depth-1)
			}
		}
	}
	add(root, 2)
	return out
}


// capturedParam: v is a parameter, or the load of a variable captured by a
// function literal whose only assignment in the enclosing function is a
// parameter of that function (a parameter used inside a closure).
func capturedParam(v ssa.Value) *ssa.Parameter {
	if pr, ok := v.(*ssa.Parameter); ok {
		return pr
	}
	for _, src := range capturedSources(v) {
		if pr, ok := src.(*ssa.Parameter); ok {
			return pr
		}
	}
	return nil
}

// capturedSources: for the load of a captured variable, the values stored into
// its cell by the enclosing function (nil when v is not such a load or when the
// function literal itself assigns the variable).
func capturedSources(v ssa.Value) []ssa.Value {
	ld, ok := v.(*ssa.UnOp)
	if !ok || ld.Op != token.MUL {
		return nil
	}
	fv, ok := ld.X.(*ssa.FreeVar)
	if !ok {
		return nil
	}
	fn := fv.Parent()
	for _, r := range *fv.Referrers() {
		if st, isS := r.(*ssa.Store); isS && st.Addr == ssa.Value(fv) {
			return nil
		}
	}
	idx := -1
	for i, f := range fn.FreeVars {
		if f == fv {
			idx = i
		}
	}
	if idx < 0 || fn.Parent() == nil {
		return nil
	}
	var out []ssa.Value
	allInstrs(fn.Parent(), func(in ssa.Instruction) {
		mc, isMC := in.(*ssa.MakeClosure)
		if !isMC || mc.Fn != ssa.Value(fn) || idx >= len(mc.Bindings) {
			return
		}
		cell := mc.Bindings[idx]
		refs := cell.Referrers()
		if refs == nil {
			return
		}
		for _, r := range *refs {
			if st, isS := r.(*ssa.Store); isS && st.Addr == cell {
				out = append(out, st.Val)
			}
		}
	})
	return out
}

// ---------------------------------------------------------------------------
// R08.17: once the collector of the concurrent decoder has seen a failed block
// (a per-block channel closed without a buffer), it forwards nothing more: the
// blocks behind the failed one are already in flight and would otherwise reach
// the consumer (and the running content hash) out of sequence.
//
// Decided on a finite abstraction of the collector: one bit "a failure has been
// seen" and the values of its boolean loop variables (constants, copies of each
// other, or unknown), explored over the control-flow graph.

func findCollector(p *Program) *ssa.Function {
	ir := p.Func("internal/lz4stream", "Blocks.initR")
	if ir == nil {
		return nil
	}
	var readerLoop, collector *ssa.Function
	for _, fn := range goroutinesOf(ir) {
		if fn.Parent() != nil && fn.Parent().Parent() != nil {
			continue
		}
		for _, ci := range callsInDeep(fn) {
			if calleeIs(ci, pkgStream, "FrameDataBlock.Read") {
				readerLoop = fn
			}
		}
		allInstrsDeep(fn, func(in ssa.Instruction) {
			var cht types.Type
			if u, ok := in.(*ssa.UnOp); ok && u.Op == token.ARROW {
				cht = u.X.Type()
			}
			if nx, ok := in.(*ssa.Next); ok && !nx.IsString {
				if rg, isR := nx.Iter.(*ssa.Range); isR {
					cht = rg.X.Type()
				}
			}
			if cht == nil {
				return
			}
			if ch, isCh := cht.Underlying().(*types.Chan); isCh {
				if _, inner := ch.Elem().Underlying().(*types.Chan); inner && fn != readerLoop {
					collector = fn
				}
			}
		})
	}
	return collector
}

// exploreBoolStates walks fn's control-flow graph over the states (block, event
// bit, valuation of the boolean phis). raise(from, k) tells whether taking
// successor k of block from raises the event bit. visit is called for every
// instruction with the event bit of the state it is reached in.
func exploreBoolStates(fn *ssa.Function, raise func(from *ssa.BasicBlock, k int) bool, visit func(in ssa.Instruction, ev bool)) {
	exploreBoolStatesStep(fn, raise, nil, func(in ssa.Instruction, ev bool) bool {
		visit(in, ev)
		return ev
	})
}

// exploreBoolStatesStep is exploreBoolStates with an event bit that instructions may set or clear: step is called for
// every instruction with the bit of the state it is reached in and returns the bit after it.
func exploreBoolStatesStep(fn *ssa.Function, raise func(from *ssa.BasicBlock, k int) bool, skipEdge func(from *ssa.BasicBlock, k int) bool, step func(in ssa.Instruction, ev bool) bool) {
	if len(fn.Blocks) == 0 {
		return
	}
	// Tracked variables, each with a value in {'t','f','?'}:
	//  - boolean phis;
	//  - phis of pointer-like type (channel, pointer, slice, map, func, interface), where 't' means nil;
	//  - boolean variables that live in a cell (captured by a function literal): loads see the last store, a call
	//    makes a captured cell unknown, and a branch on an unknown cell is explored once per outcome with the
	//    outcome remembered until the next store or call.
	isBoolT := func(t types.Type) bool {
		bt, ok := t.Underlying().(*types.Basic)
		return ok && bt.Kind() == types.Bool
	}
	isNilable := func(t types.Type) bool {
		switch t.Underlying().(type) {
		case *types.Chan, *types.Pointer, *types.Slice, *types.Map, *types.Signature, *types.Interface:
			return true
		}
		return false
	}
	idx := map[ssa.Value]int{}
	nilPhi := map[ssa.Value]bool{}
	var cells []*ssa.Alloc
	captured := map[ssa.Value]bool{}
	allInstrs(fn, func(in ssa.Instruction) {
		switch x := in.(type) {
		case *ssa.Phi:
			if isBoolT(x.Type()) {
				idx[x] = len(idx)
			} else if isNilable(x.Type()) {
				idx[x] = len(idx)
				nilPhi[x] = true
			}
		case *ssa.Alloc:
			if pt, ok := x.Type().Underlying().(*types.Pointer); ok && isBoolT(pt.Elem()) {
				idx[x] = len(idx)
				cells = append(cells, x)
			}
		case *ssa.MakeClosure:
			for _, b := range x.Bindings {
				captured[b] = true
			}
		}
	})
	type state struct {
		b   *ssa.BasicBlock
		ev  bool
		val string
	}
	// evalBool: the value of a condition, and (when it is unknown and hinges on one cell) that cell and the polarity
	var evalBool func(v ssa.Value, val []byte) (byte, int, bool)
	evalBool = func(v ssa.Value, val []byte) (byte, int, bool) {
		neg := false
		for i := 0; i < 4; i++ {
			if u, ok := v.(*ssa.UnOp); ok && u.Op == token.NOT {
				v, neg = u.X, !neg
				continue
			}
			break
		}
		r := byte('?')
		cell := -1
		switch x := v.(type) {
		case *ssa.Const:
			if x.Value != nil && x.Value.Kind() == constant.Bool {
				if constant.BoolVal(x.Value) {
					r = 't'
				} else {
					r = 'f'
				}
			}
		case *ssa.Phi:
			if i, ok := idx[x]; ok && !nilPhi[x] {
				r = val[i]
			}
		case *ssa.UnOp:
			if x.Op == token.MUL {
				if i, ok := idx[x.X]; ok {
					r = val[i]
					if r == '?' {
						cell = i
					}
				}
			}
		case *ssa.BinOp:
			if x.Op == token.EQL || x.Op == token.NEQ {
				for _, pr := range [][2]ssa.Value{{x.X, x.Y}, {x.Y, x.X}} {
					if isNilConst(pr[1]) {
						if i, ok := idx[pr[0]]; ok && nilPhi[pr[0]] {
							r = val[i]
							if x.Op == token.NEQ {
								neg = !neg
							}
						}
					}
				}
			}
		}
		if neg {
			switch r {
			case 't':
				r = 'f'
			case 'f':
				r = 't'
			}
		}
		return r, cell, neg
	}
	// the value an incoming edge gives to a phi
	edgeVal := func(ph *ssa.Phi, e ssa.Value, old []byte) byte {
		if nilPhi[ph] {
			if isNilConst(e) {
				return 't'
			}
			if i, ok := idx[e]; ok && nilPhi[e] {
				return old[i]
			}
			switch e.(type) {
			case *ssa.MakeChan, *ssa.MakeSlice, *ssa.MakeMap, *ssa.MakeClosure, *ssa.Alloc, *ssa.MakeInterface:
				return 'f'
			}
			return '?'
		}
		r, _, _ := evalBool(e, old)
		return r
	}
	seen := map[state]bool{}
	init := make([]byte, len(idx))
	for i := range init {
		init[i] = '?'
	}
	type item struct {
		st   state
		from *ssa.BasicBlock
	}
	work := []item{{state{fn.Blocks[0], false, string(init)}, nil}}
	for steps := 0; len(work) > 0 && steps < 200000; steps++ {
		it := work[len(work)-1]
		work = work[:len(work)-1]
		b := it.st.b
		val := []byte(it.st.val)
		// phis of b take the value of the incoming edge (all at once)
		if it.from != nil {
			old := append([]byte{}, val...)
			for pi, pr := range b.Preds {
				if pr != it.from {
					continue
				}
				for _, in := range b.Instrs {
					ph, isPhi := in.(*ssa.Phi)
					if !isPhi {
						break
					}
					if i, ok := idx[ph]; ok {
						val[i] = edgeVal(ph, ph.Edges[pi], old)
					}
				}
				break
			}
		}
		st := state{b, it.st.ev, string(val)}
		if seen[st] {
			continue
		}
		seen[st] = true
		evOut := st.ev
		for _, in := range b.Instrs {
			evOut = step(in, evOut)
			switch x := in.(type) {
			case *ssa.Store:
				if i, ok := idx[x.Addr]; ok {
					val[i], _, _ = evalBool(x.Val, val)
				}
			case ssa.CallInstruction:
				if _, isB := x.Common().Value.(*ssa.Builtin); !isB {
					for _, cl := range cells {
						if captured[cl] {
							val[idx[cl]] = '?'
						}
					}
				}
			}
		}
		ifi, isIf := b.Instrs[len(b.Instrs)-1].(*ssa.If)
		for k, su := range b.Succs {
			next := val
			if isIf && len(b.Succs) == 2 {
				r, cell, neg := evalBool(ifi.Cond, val)
				switch r {
				case 't':
					if k == 1 {
						continue
					}
				case 'f':
					if k == 0 {
						continue
					}
				default:
					if cell >= 0 {
						// an unknown cell: this edge fixes its value until the next store or call
						next = append([]byte{}, val...)
						truth := k == 0
						if neg {
							truth = !truth
						}
						if truth {
							next[cell] = 't'
						} else {
							next[cell] = 'f'
						}
					}
				}
			}
			if skipEdge != nil && skipEdge(b, k) {
				continue
			}
			ev := evOut || (raise != nil && raise(b, k))
			work = append(work, item{state{su, ev, string(next)}, b})
		}
	}
}

func ruleCollectorStopsAfterFailure(c *Check, p *Program, rule string) {
	col := findCollector(p)
	if col == nil {
		c.Fail(rule, "initR.collector#nothing-forwarded-after-failure", "", "collector goroutine resolved", "the goroutine receiving the per-block channels was not found (anchor unresolved)")
		return
	}
	c.Funcs[fname(col)] = true
	// the failure signal: the second result of a receive from a per-block channel (chan []byte)
	isFailEdge := func(from *ssa.BasicBlock, k int) bool {
		ifi, ok := from.Instrs[len(from.Instrs)-1].(*ssa.If)
		if !ok || len(from.Succs) != 2 {
			return false
		}
		cond, neg := ifi.Cond, false
		if u, isU := cond.(*ssa.UnOp); isU && u.Op == token.NOT {
			cond, neg = u.X, true
		}
		ex, isE := cond.(*ssa.Extract)
		if !isE || ex.Index != 1 {
			return false
		}
		rc, isR := ex.Tuple.(*ssa.UnOp)
		if !isR || rc.Op != token.ARROW || !rc.CommaOk {
			return false
		}
		ch, isCh := rc.X.Type().Underlying().(*types.Chan)
		if !isCh {
			return false
		}
		if _, isSl := ch.Elem().Underlying().(*types.Slice); !isSl {
			return false
		}
		// the edge on which ok is false
		return (k == 1) != neg
	}
	nFail := 0
	for _, b := range col.Blocks {
		for k := range b.Succs {
			if isFailEdge(b, k) {
				nFail++
			}
		}
	}
	if nFail == 0 {
		c.Fail(rule, "initR.collector#nothing-forwarded-after-failure", p.Pos(col.Pos()), "the collector notices a failed block", "no test of the second result of a receive from a per-block channel (anchor unresolved)")
		return
	}
	c.Sites += nFail
	bad := ""
	nFwd := 0
	seenFwd := map[ssa.Instruction]bool{}
	exploreBoolStates(col, isFailEdge, func(in ssa.Instruction, ev bool) {
		fwd := false
		if s, ok := in.(*ssa.Send); ok {
			if _, isSl := s.X.Type().Underlying().(*types.Slice); isSl && !isNilConst(s.X) {
				fwd = true
			}
		}
		if ci, ok := in.(ssa.CallInstruction); ok && calleeIs(ci, pkgXXH, "XXHZero.Write") {
			fwd = true
		}
		if !fwd {
			return
		}
		if !seenFwd[in] {
			seenFwd[in] = true
			nFwd++
		}
		if ev && bad == "" {
			bad = p.InstrPos(in)
		}
	})
	c.Cond(bad == "" && nFwd >= 1, rule, "initR.collector#nothing-forwarded-after-failure", p.Pos(col.Pos()),
		"after a per-block channel was found closed (that block failed), the collector neither forwards a later block to the consumer nor feeds it to the content hash: up to `num` later blocks are already being decoded and would be delivered right after the block before the failed one",
		fmt.Sprintf("%d forwarding site(s), none reachable once a failure has been seen (boolean loop state tracked)", nFwd),
		fmt.Sprintf("forwarding sites: %d; the one at %s is reachable after a failed block has been seen", nFwd, bad))
}

// ---------------------------------------------------------------------------
// R07.13: the consumer of the concurrent decoder looks at the error latch only
// when the data channel has delivered an empty buffer (closed and drained).
// The pipeline relies on the consumer draining that channel: an error returned
// while good blocks are still queued leaves the collector, the source-reading
// goroutine and the workers blocked forever, each holding pooled buffers.

func ruleConsumerDrains(c *Check, p *Program, rule string) {
	n := 0
	for _, name := range []string{"Reader.Read", "Reader.WriteTo"} {
		fn := findFn(c, p, rule, "", name)
		if fn == nil {
			continue
		}
		for _, g := range deepFuncs(fn, 2) {
			for _, ci := range callsIn(g) {
				if !calleeIs(ci, pkgStream, "Blocks.ErrorR") {
					continue
				}
				n++
				c.Sites++
				ok, how := false, ""
				for _, a := range atomsOfBlock(ci.Block()) {
					z := atomSaysZero(a)
					if z == nil {
						continue
					}
					// len(x) == 0 with x what the data channel delivered (directly, or as kept in Reader.data), or an
					// integer that is that length
					var lenOf ssa.Value
					if lc, isL := stripConv(z).(*ssa.Call); isL {
						if bi, isB := lc.Call.Value.(*ssa.Builtin); isB && bi.Name() == "len" {
							lenOf = lc.Call.Args[0]
						}
					}
					if lenOf == nil {
						continue
					}
					fromChan := false
					walkBack(lenOf, false, func(v ssa.Value) bool {
						if u, isU := v.(*ssa.UnOp); isU && u.Op == token.ARROW {
							if ch, isCh := u.X.Type().Underlying().(*types.Chan); isCh {
								if _, isSl := ch.Elem().Underlying().(*types.Slice); isSl {
									fromChan = true
								}
							}
						}
						return true
					})
					if fromChan || loadField(lenOf) == "Reader.data" {
						ok, how = true, "guard "+a.String()
					}
				}
				c.Cond(ok, rule, shortFn(g)+"#error-latch-read-only-when-drained", p.InstrPos(ci), "the consumer reads the pipeline's error latch only after the data channel has delivered an empty buffer (the channel is closed and everything queued before has been taken)", how, "Blocks.ErrorR() is consulted while decoded blocks may still be queued: returning its error leaves the collector blocked on the data channel, the source-reading goroutine on its hand-shake and the workers on their per-block channels (goroutines and pooled buffers leak on every failed stream)")
			}
		}
	}
	if n < 2 {
		c.Fail(rule, "Reader#error-latch-reads", "", "the consumer's reads of the error latch are resolved", fmt.Sprintf("only %d call(s) of Blocks.ErrorR found in Reader.Read / Reader.WriteTo (expected one each)", n))
	}
}


// ---------------------------------------------------------------------------
// R08.18: a buffer that Writer.ReadFrom has handed to the block pipeline in
// concurrent mode (Writer.write(buf, true): the worker returns it to the pool
// after the block was written) is not returned to the pool by ReadFrom as well.
// Explored over (block, "the current buffer has been handed over", boolean loop
// variables): Writer.write raises the bit, fetching a fresh buffer clears it; a
// release - a direct Put, or a deferred one when the function returns - with
// the bit set must lie under the sequential guard.

func ruleReadFromRelease(c *Check, p *Program, rule string) {
	fn := findFn(c, p, rule, "", "Writer.ReadFrom")
	if fn == nil {
		return
	}
	sequential := func(b *ssa.BasicBlock) bool {
		for _, a := range atomsOfBlock(b) {
			if a.Kind == "call" && strings.HasSuffix(a.Name, "isNotConcurrent") && a.Val {
				return true
			}
		}
		return false
	}
	isPut := func(ci ssa.CallInstruction) bool { return calleeIs(ci, pkgBlock, "Put") }
	// deferred releases: defer Put(x), or a deferred function literal that calls Put
	var deferred []*ssa.Defer
	allInstrs(fn, func(in ssa.Instruction) {
		d, ok := in.(*ssa.Defer)
		if !ok {
			return
		}
		if isPut(d) {
			deferred = append(deferred, d)
			return
		}
		if t := deferTarget(d); t != nil && inModule(t) {
			for _, ci := range callsIn(t) {
				if isPut(ci) {
					deferred = append(deferred, d)
					return
				}
			}
		}
	})
	nWrite, nPut := 0, 0
	seenW := map[ssa.Instruction]bool{}
	bad := ""
	// the exploration assumes the concurrent mode (in sequential mode nothing is handed over): edges on which the mode
	// test says "sequential" are not followed
	seqEdge := func(b *ssa.BasicBlock, k int) bool {
		ifi, ok := b.Instrs[len(b.Instrs)-1].(*ssa.If)
		if !ok || len(b.Succs) != 2 {
			return false
		}
		a := atomOf(ifi.Cond, k == 0)
		return a.Kind == "call" && strings.HasSuffix(a.Name, "isNotConcurrent") && a.Val
	}
	exploreBoolStatesStep(fn, nil, seqEdge, func(in ssa.Instruction, handed bool) bool {
		switch x := in.(type) {
		case *ssa.RunDefers:
			if handed && bad == "" {
				for _, d := range deferred {
					if !sequential(d.Block()) {
						bad = p.InstrPos(d) + " (deferred; runs when ReadFrom returns)"
					}
				}
			}
		case ssa.CallInstruction:
			if _, isDefer := in.(*ssa.Defer); isDefer {
				return handed
			}
			switch {
			case calleeIs(x, pkgRoot, "Writer.write"):
				if !seenW[in] {
					seenW[in] = true
					nWrite++
				}
				return true
			case calleeIs(x, pkgBlock, "BlockSizeIndex.Get"):
				return false
			case isPut(x):
				if !seenW[in] {
					seenW[in] = true
					nPut++
				}
				if handed && !sequential(in.Block()) && bad == "" {
					bad = p.InstrPos(in)
				}
			}
		}
		return handed
	})
	if nWrite == 0 {
		c.Fail(rule, "Writer.ReadFrom#released-once", p.Pos(fn.Pos()), "the hand-over of the read buffer is resolved", "no call of Writer.write in Writer.ReadFrom (anchor unresolved)")
		return
	}
	c.Sites += nWrite + nPut + len(deferred)
	c.Cond(bad == "", rule, "Writer.ReadFrom#released-once", p.Pos(fn.Pos()), "outside the sequential mode ReadFrom does not release a buffer it has handed to the block pipeline (the worker releases it after the block was written)", fmt.Sprintf("%d hand-over(s), %d direct and %d deferred release(s): none reachable with a handed-over buffer outside the sequential guard", nWrite, nPut, len(deferred)), "the release at "+bad+" can run for a buffer that Writer.write has already handed to a compression goroutine: the pool gives it to another block while it is still being compressed and written, and it is released twice")
}


// isPoolPut: v is the function lz4block.Put used as a value.
func isPoolPut(v ssa.Value) bool {
	f, ok := v.(*ssa.Function)
	return ok && f.Pkg != nil && f.Pkg.Pkg.Path() == pkgBlock && f.Name() == "Put"
}

// releaseGivenWhenConcurrent: v, a release callback handed to Writer.write, is lz4block.Put whenever the Writer is
// concurrent: the function itself, or a variable that is nil only on edges taken in sequential mode.
func releaseGivenWhenConcurrent(v ssa.Value) bool {
	if isPoolPut(v) {
		return true
	}
	ph, ok := v.(*ssa.Phi)
	if !ok {
		return false
	}
	for i, e := range ph.Edges {
		if isPoolPut(e) {
			continue
		}
		if !isNilConst(e) {
			return false
		}
		pb := ph.Block().Preds[i]
		ats := append([]Atom{}, atomsOfBlock(pb)...)
		if ifi, isIf := pb.Instrs[len(pb.Instrs)-1].(*ssa.If); isIf && len(pb.Succs) == 2 && pb.Succs[0] != pb.Succs[1] {
			ats = append(ats, atomOf(ifi.Cond, pb.Succs[0] == ph.Block()))
		}
		seq := false
		for _, a := range ats {
			if a.Kind == "call" && strings.HasSuffix(a.Name, "isNotConcurrent") && a.Val {
				seq = true
			}
		}
		if !seq {
			return false
		}
	}
	return true
}

// ruleEveryBlockDecoded: in the reading goroutine of the concurrent Reader every block that FrameDataBlock.Read
// delivered is handed to a decoding goroutine (which compares its checksum) before the next block is read. A path
// from the read back to the next read without the spawn consumes a block - and the checksum declared for it -
// without anyone looking at it.
func ruleEveryBlockDecoded(c *Check, p *Program, rule string) {
	fn := findFn(c, p, rule, "internal/lz4stream", "Blocks.initR")
	if fn == nil {
		return
	}
	n := 0
	// the pipeline's functions: initR, the functions it is split into, the goroutines they start, their literals
	family := []*ssa.Function{fn}
	inFam := map[*ssa.Function]bool{fn: true}
	for i := 0; i < len(family) && i < 40; i++ {
		g := family[i]
		for _, a := range g.AnonFuncs {
			if !inFam[a] {
				inFam[a] = true
				family = append(family, a)
			}
		}
		for _, ci := range callsIn(g) {
			h := ci.Common().StaticCallee()
			if h != nil && h.Pkg == fn.Pkg && len(h.Blocks) > 0 && !inFam[h] && (isHelper(h) || recvTypeName(h) == "Blocks") && h.Name() != "closeR" && h.Name() != "ErrorR" {
				inFam[h] = true
				family = append(family, h)
			}
		}
	}
	readsBlock := func(ci ssa.CallInstruction) bool {
		if _, isCall := ci.(*ssa.Call); !isCall {
			return false
		}
		if calleeIs(ci, pkgStream, "FrameDataBlock.Read") {
			return true
		}
		// a helper of the pipeline that reads the next block for its caller
		h := ci.Common().StaticCallee()
		if h == nil || !inFam[h] || h == fn {
			return false
		}
		for _, cj := range callsIn(h) {
			if _, isCall := cj.(*ssa.Call); isCall && calleeIs(cj, pkgStream, "FrameDataBlock.Read") {
				return true
			}
		}
		return false
	}
	for _, g := range family {
		for _, ci := range callsIn(g) {
			if !readsBlock(ci) {
				continue
			}
			n++
			c.Sites++
			isSpawn := func(in ssa.Instruction) bool {
				gi, ok := in.(*ssa.Go)
				if !ok {
					return false
				}
				// the function started: a literal, or a named function or method of the module
				var f *ssa.Function
				if mc, isMC := gi.Call.Value.(*ssa.MakeClosure); isMC {
					f, _ = mc.Fn.(*ssa.Function)
				} else {
					f = gi.Call.StaticCallee()
				}
				if f == nil || !inModule(f) {
					return false
				}
				for _, h := range deepFuncs(f, 1) {
					for _, cj := range callsIn(h) {
						if calleeIs(cj, pkgStream, "FrameDataBlock.Uncompress") {
							return true
						}
					}
				}
				return false
			}
			again, trail := reachAvoid(g, ci.(ssa.Instruction), func(in ssa.Instruction) bool { return in == ci.(ssa.Instruction) }, isSpawn)
			c.Cond(!again, rule, "initR.reader#every-block-decoded", p.InstrPos(ci), "every block read from the source is handed to a decoding goroutine before the next one is read (its checksum is compared there)", "no path from the read to the next read avoids the spawn", "the next block can be read without the previous one having been handed to a decoder ("+strings.Join(trail, " -> ")+"): the block and its declared checksum are consumed unverified")
		}
	}
	if n == 0 {
		c.Fail(rule, "initR.reader#every-block-decoded", p.Pos(fn.Pos()), "the block read of the reading goroutine is resolved", "no call of FrameDataBlock.Read in Blocks.initR (anchor unresolved)")
	}
}

// ---------------------------------------------------------------------------
// R08.19: the ordering goroutine of the concurrent Writer leaves its loop over
// the queue only because the queue was closed or because it took the sentinel
// (a per-block channel that delivered nil). In particular it does not return
// after a failed write to the destination: Writer.write keeps queueing blocks,
// the workers wait for their per-block channel to be closed and Blocks.close
// waits for its sentinel to be answered - with the goroutine gone all of them
// block forever (every later Write, Close and Reset hangs, workers and pooled
// buffers leak).

func ruleOrderingDrains(c *Check, p *Program, rule string) {
	iw := findFn(c, p, rule, "internal/lz4stream", "Blocks.initW")
	if iw == nil {
		return
	}
	done := false
	for _, fn := range orderingFns(iw) {
		var ch *ssa.Extract
		allInstrs(fn, func(in ssa.Instruction) {
			if ex, ok := in.(*ssa.Extract); ok && ex.Index == 0 {
				if _, isChan := ex.Type().Underlying().(*types.Chan); isChan {
					ch = ex
				}
			}
		})
		if ch == nil {
			continue
		}
		done = true
		c.Funcs[fname(fn)] = true
		// v is what the channel chv delivered
		delivered := func(v, chv ssa.Value) bool {
			ok := false
			walkBack(v, false, func(w ssa.Value) bool {
				if u, isU := w.(*ssa.UnOp); isU && u.Op == token.ARROW && u.X == chv {
					ok = true
				}
				if ex, isE := w.(*ssa.Extract); isE && ex.Index == 0 {
					if u, isU := ex.Tuple.(*ssa.UnOp); isU && u.Op == token.ARROW && u.X == chv {
						ok = true
					}
				}
				return true
			})
			return ok
		}
		// block b is entered only when what chv delivered is nil
		sentinelGuarded := func(b *ssa.BasicBlock, chv ssa.Value) bool {
			for _, l := range guardsOf(b) {
				if bo, ok := l.Cond.(*ssa.BinOp); ok && (bo.Op == token.EQL && l.Val || bo.Op == token.NEQ && !l.Val) {
					if isNilConst(bo.Y) && delivered(bo.X, chv) || isNilConst(bo.X) && delivered(bo.Y, chv) {
						return true
					}
				}
			}
			return false
		}
		// a boolean helper that takes the per-block channel: it yields `val` only when its channel delivered the sentinel
		helperSaysSentinel := func(call *ssa.Call, val bool) bool {
			g := staticCallee(call)
			if g == nil || !inModule(g) || len(g.Params) != len(call.Call.Args) || g.Signature.Results().Len() != 1 {
				return false
			}
			pi := -1
			for i, a := range call.Call.Args {
				if a == ssa.Value(ch) {
					pi = i
				}
			}
			if pi < 0 {
				return false
			}
			prm := ssa.Value(g.Params[pi])
			all, any := true, false
			var judge func(v ssa.Value, b *ssa.BasicBlock)
			judge = func(v ssa.Value, b *ssa.BasicBlock) {
				switch x := v.(type) {
				case *ssa.Const:
					if x.Value != nil && constant.BoolVal(x.Value) == val {
						any = true
						if !sentinelGuarded(b, prm) {
							all = false
						}
					}
				case *ssa.Phi:
					for i, e := range x.Edges {
						if _, isC := e.(*ssa.Const); isC {
							judge(e, x.Block().Preds[i])
						} else {
							all = false
						}
					}
				default:
					all = false
				}
			}
			allInstrs(g, func(in ssa.Instruction) {
				if r, ok := in.(*ssa.Return); ok && len(r.Results) == 1 {
					judge(r.Results[0], r.Block())
				}
			})
			return all && any
		}
		nRet := 0
		allInstrs(fn, func(in ssa.Instruction) {
			if !isReturn(in) {
				return
			}
			nRet++
			c.Sites++
			why := ""
			for _, l := range guardsOf(in.Block()) {
				if ex, ok := l.Cond.(*ssa.Extract); ok && ex.Index == 1 && !l.Val && ex.Tuple == ch.Tuple {
					why = "the queue was closed"
				}
				if call, ok := l.Cond.(*ssa.Call); ok && helperSaysSentinel(call, l.Val) {
					why = "a helper reports that the per-block channel delivered the sentinel (nil)"
				}
			}
			if sentinelGuarded(in.Block(), ssa.Value(ch)) {
				why = "the per-block channel delivered the sentinel (nil)"
			}
			c.Cond(why != "", rule, "initW.goroutine#leaves-only-on-close-or-sentinel", p.InstrPos(in),
				"the ordering goroutine returns only when the queue is closed or when it has taken the sentinel; after a failed write it keeps taking (and closing) per-block channels, so that Writer.write, the workers and Blocks.close's hand-shake are all answered",
				why, "this return is reachable while the queue is open and without the sentinel having been taken: from then on nothing receives from the queue - the next Write blocks once the queue is full, workers block on their per-block channel, Close and Reset block on the sentinel hand-shake (deadlock; goroutines and pooled buffers leak)")
		})
		if nRet == 0 {
			c.Fail(rule, "initW.goroutine#leaves-only-on-close-or-sentinel", p.Pos(fn.Pos()), "returns of the ordering goroutine resolved", "no return instruction found")
		}
	}
	if !done {
		c.Fail(rule, "initW.goroutine#leaves-only-on-close-or-sentinel", p.Pos(iw.Pos()), "ordering goroutine resolved", "no closure of initW receives per-block channels (anchor unresolved)")
	}
}
