package main

import (
	"encoding/json"
	"fmt"
	"io"
	"io/fs"
	"os"
	"os/exec"
	"path/filepath"
	"regexp"
	"sort"
	"strings"
	"sync"
)

// Thorough tier only: the checker is validated against the seeded changes kept
// under /verif/seeded. For every seeded change whose recorded detection list
// names this property, a scratch copy of the analysed tree is made in the
// system temp directory (outside /repo and /verif, removed straight away), the
// change is applied with `git apply`, and this binary's quick check of the
// property is run on the copy. A change that no longer applies (the tree was
// edited there) is skipped; a change that applies must be reported under one of
// the rules recorded for it. The outcome is written to the evidence file and
// printed; it never alters the exit status of the check, which is decided by
// the analysed tree alone.

type seedMeta struct {
	ID         string   `json:"id"`
	Property   string   `json:"property"`
	DetectedBy []string `json:"detected_by"`
}

var detRe = regexp.MustCompile(`^(C\d+)\((.*)\)$`)

func runSelftest(c *Check) {
	dirs, _ := filepath.Glob(filepath.Join(verifDir, "seeded", "C*-m*"))
	own, _ := filepath.Glob(filepath.Join(verifDir, "seeded", "own", "*"))
	dirs = append(dirs, own...)
	sort.Strings(dirs)
	type job struct {
		dir   string
		id    string
		rules []string
	}
	var jobs []job
	for _, d := range dirs {
		b, err := os.ReadFile(filepath.Join(d, "meta.json"))
		if err != nil {
			continue
		}
		var m seedMeta
		if json.Unmarshal(b, &m) != nil {
			continue
		}
		if m.ID == "" {
			m.ID = filepath.Base(d)
		}
		for _, db := range m.DetectedBy {
			mm := detRe.FindStringSubmatch(db)
			if mm != nil && mm[1] == c.Property {
				jobs = append(jobs, job{d, m.ID, strings.Split(mm[2], ",")})
			}
		}
	}
	if len(jobs) == 0 {
		return
	}
	exe, err := os.Executable()
	if err != nil {
		return
	}
	results := make([]map[string]interface{}, len(jobs))
	sem := make(chan struct{}, 4)
	var wg sync.WaitGroup
	for i, j := range jobs {
		wg.Add(1)
		go func(i int, j job) {
			defer wg.Done()
			sem <- struct{}{}
			defer func() { <-sem }()
			r := map[string]interface{}{"seed": j.id, "expected_rules": j.rules}
			results[i] = r
			tmp, err := os.MkdirTemp("", "lz4selftest")
			if err != nil {
				r["outcome"] = "skipped: " + err.Error()
				return
			}
			defer os.RemoveAll(tmp)
			repo := filepath.Join(tmp, "repo")
			if err := copyTree(repoDir, repo); err != nil {
				r["outcome"] = "skipped: " + err.Error()
				return
			}
			os.MkdirAll(filepath.Join(tmp, "verif", "evidence", "replay"), 0o755)
			if b, err := os.ReadFile(filepath.Join(verifDir, "known_findings.json")); err == nil {
				os.WriteFile(filepath.Join(tmp, "verif", "known_findings.json"), b, 0o644)
			}
			ap := exec.Command("git", "apply", filepath.Join(j.dir, "patch.diff"))
			ap.Dir = repo
			if out, err := ap.CombinedOutput(); err != nil {
				r["outcome"] = "skipped: patch does not apply to the analysed tree"
				r["detail"] = firstLine(string(out))
				return
			}
			cmd := exec.Command(exe, "check", "-repo", repo, "-verif", filepath.Join(tmp, "verif"), c.Property, "quick")
			cmd.Env = os.Environ()
			out, _ := cmd.CombinedOutput()
			code := cmd.ProcessState.ExitCode()
			var got []string
			seen := map[string]bool{}
			for _, l := range strings.Split(string(out), "\n") {
				if strings.HasPrefix(l, "VIOLATED") || strings.HasPrefix(l, "UNDECIDED") {
					if k := strings.Index(l, "rule="); k >= 0 {
						rl := strings.Fields(l[k+5:])[0]
						if !seen[rl] {
							seen[rl] = true
							got = append(got, rl)
						}
					}
				}
			}
			r["exit"] = code
			r["reported_rules"] = got
			hit := false
			for _, e := range j.rules {
				if seen[e] {
					hit = true
				}
			}
			switch {
			case code == 1 && hit:
				r["outcome"] = "detected"
			case code == 1:
				r["outcome"] = "detected under other rules"
			default:
				r["outcome"] = "missed"
			}
		}(i, j)
	}
	wg.Wait()
	det, skipped, missed := 0, 0, 0
	for _, r := range results {
		c.Selftest = append(c.Selftest, r)
		o := r["outcome"].(string)
		switch {
		case strings.HasPrefix(o, "detected"):
			det++
		case strings.HasPrefix(o, "skipped"):
			skipped++
		default:
			missed++
			fmt.Printf("SELFTEST-MISSED: seeded change %s applies but %s does not report it\n", r["seed"], c.Property)
		}
	}
	fmt.Printf("selftest %s: %d seeded change(s): %d detected, %d skipped (do not apply), %d missed\n", c.Property, len(results), det, skipped, missed)
	c.Extra["selftest_summary"] = map[string]int{"seeded": len(results), "detected": det, "skipped": skipped, "missed": missed}
}

func firstLine(s string) string {
	if i := strings.IndexByte(s, '\n'); i >= 0 {
		return s[:i]
	}
	return s
}

// copyTree copies the source files the analyser reads (Go, assembly, headers,
// module files); testdata and VCS data are left out.
func copyTree(src, dst string) error {
	return filepath.WalkDir(src, func(path string, d fs.DirEntry, err error) error {
		if err != nil {
			return err
		}
		rel, _ := filepath.Rel(src, path)
		if d.IsDir() {
			if d.Name() == ".git" || d.Name() == "testdata" || d.Name() == "corpus" {
				return filepath.SkipDir
			}
			return os.MkdirAll(filepath.Join(dst, rel), 0o755)
		}
		switch filepath.Ext(path) {
		case ".go", ".s", ".h", ".mod", ".sum":
		default:
			return nil
		}
		in, err := os.Open(path)
		if err != nil {
			return err
		}
		defer in.Close()
		out, err := os.Create(filepath.Join(dst, rel))
		if err != nil {
			return err
		}
		defer out.Close()
		_, err = io.Copy(out, in)
		return err
	})
}
