package main

import (
	"fmt"
	"go/token"
	"go/types"
	"os"
	"path/filepath"
	"sort"
	"strings"

	"golang.org/x/tools/go/callgraph"
	"golang.org/x/tools/go/callgraph/cha"
	"golang.org/x/tools/go/callgraph/vta"
	"golang.org/x/tools/go/packages"
	"golang.org/x/tools/go/ssa"
	"golang.org/x/tools/go/ssa/ssautil"
)

const modPath = "github.com/pierrec/lz4/v4"

// Config names one build configuration of the library.
type Config struct {
	GOARCH string
	Tags   string // comma separated
}

func (c Config) String() string {
	s := "linux/" + c.GOARCH
	if c.Tags != "" {
		s += " tags=" + c.Tags
	}
	return s
}

// Program is one loaded, type-checked, SSA-built configuration.
type Program struct {
	Cfg   Config
	Dir   string
	Fset  *token.FileSet
	Pkgs  []*packages.Package
	Prog  *ssa.Program
	SSA   map[string]*ssa.Package // by package path
	cg    *callgraph.Graph
	funcs map[*ssa.Function]bool
}

var repoDir = "/repo"

func baseEnv() []string {
	env := []string{}
	for _, e := range os.Environ() {
		if strings.HasPrefix(e, "GOFLAGS=") || strings.HasPrefix(e, "GOWORK=") || strings.HasPrefix(e, "GOARCH=") ||
			strings.HasPrefix(e, "GOOS=") || strings.HasPrefix(e, "GOPROXY=") || strings.HasPrefix(e, "GOTOOLCHAIN=") ||
			strings.HasPrefix(e, "GOSUMDB=") || strings.HasPrefix(e, "CGO_ENABLED=") {
			continue
		}
		env = append(env, e)
	}
	env = append(env, "GOFLAGS=-mod=mod", "GOWORK=off", "GOPROXY=off", "GOSUMDB=off", "GOTOOLCHAIN=local", "GOOS=linux", "CGO_ENABLED=0")
	return env
}

// LoadDir loads all packages below dir for the given configuration. It fails
// closed: any load or type error is returned.
func LoadDir(dir string, cfg Config, minPkgs int) (*Program, error) {
	env := append(baseEnv(), "GOARCH="+cfg.GOARCH)
	pc := &packages.Config{
		Mode: packages.LoadAllSyntax,
		Dir:  dir,
		Env:  env,
		Fset: token.NewFileSet(),
	}
	if cfg.Tags != "" {
		pc.BuildFlags = []string{"-tags=" + cfg.Tags}
	}
	pkgs, err := packages.Load(pc, "./...")
	if err != nil {
		return nil, fmt.Errorf("load %s: %w", cfg, err)
	}
	var errs []string
	packages.Visit(pkgs, nil, func(p *packages.Package) {
		for _, e := range p.Errors {
			errs = append(errs, e.Error())
		}
	})
	if len(errs) > 0 {
		return nil, fmt.Errorf("load %s: %d package errors, first: %s", cfg, len(errs), errs[0])
	}
	if len(pkgs) < minPkgs {
		return nil, fmt.Errorf("load %s: only %d packages (need >= %d)", cfg, len(pkgs), minPkgs)
	}
	prog, spkgs := ssautil.AllPackages(pkgs, ssa.InstantiateGenerics)
	prog.Build()
	p := &Program{Cfg: cfg, Dir: dir, Fset: pc.Fset, Pkgs: pkgs, Prog: prog, SSA: map[string]*ssa.Package{}}
	for i, sp := range spkgs {
		if sp == nil {
			return nil, fmt.Errorf("load %s: no SSA for %s", cfg, pkgs[i].PkgPath)
		}
		p.SSA[pkgs[i].PkgPath] = sp
	}
	return p, nil
}

var progCache = map[Config]*Program{}

// Load loads the library module in /repo (cached per configuration).
func Load(cfg Config) (*Program, error) {
	if p, ok := progCache[cfg]; ok {
		return p, nil
	}
	p, err := LoadDir(repoDir, cfg, 5)
	if err != nil {
		return nil, err
	}
	progCache[cfg] = p
	return p, nil
}

// CallGraph returns the VTA call graph (seeded with CHA), built on demand.
func (p *Program) CallGraph() *callgraph.Graph {
	if p.cg == nil {
		p.funcs = ssautil.AllFunctions(p.Prog)
		p.cg = vta.CallGraph(p.funcs, cha.CallGraph(p.Prog))
	}
	return p.cg
}

// Pkg returns the SSA package with the given path relative to the module
// ("" for the root package).
func (p *Program) Pkg(rel string) *ssa.Package {
	path := modPath
	if rel != "" {
		path += "/" + rel
	}
	return p.SSA[path]
}

// Func finds a package-level function or a method: name is "F" or "T.M"
// (receiver may be pointer or value).
func (p *Program) Func(rel, name string) *ssa.Function {
	pkg := p.Pkg(rel)
	if pkg == nil {
		return nil
	}
	if i := strings.Index(name, "."); i >= 0 {
		tn, mn := name[:i], name[i+1:]
		obj := pkg.Pkg.Scope().Lookup(tn)
		if obj == nil {
			return nil
		}
		named, ok := obj.Type().(*types.Named)
		if !ok {
			return nil
		}
		for _, t := range []types.Type{named, types.NewPointer(named)} {
			ms := p.Prog.MethodSets.MethodSet(t)
			for i := 0; i < ms.Len(); i++ {
				sel := ms.At(i)
				if sel.Obj().Name() == mn {
					if fn := p.Prog.MethodValue(sel); fn != nil && fn.Synthetic == "" {
						return fn
					} else if fn != nil {
						// wrapper: find the declared one
						if f2 := p.Prog.FuncValue(sel.Obj().(*types.Func)); f2 != nil {
							return f2
						}
					}
				}
			}
		}
		return nil
	}
	return pkg.Func(name)
}

// SrcFuncs returns all source-level functions (including anonymous ones) of the
// module's packages, sorted by position.
func (p *Program) SrcFuncs() []*ssa.Function {
	var out []*ssa.Function
	seen := map[*ssa.Function]bool{}
	var add func(f *ssa.Function)
	add = func(f *ssa.Function) {
		if f == nil || seen[f] || f.Blocks == nil {
			return
		}
		seen[f] = true
		out = append(out, f)
		for _, a := range f.AnonFuncs {
			add(a)
		}
	}
	for path, sp := range p.SSA {
		if !strings.HasPrefix(path, modPath) && !strings.HasPrefix(path, "lz4c") && path != "main" && !strings.Contains(path, "cmd/lz4c") {
			continue
		}
		for _, m := range sp.Members {
			switch m := m.(type) {
			case *ssa.Function:
				add(m)
			case *ssa.Type:
				for _, t := range []types.Type{m.Type(), types.NewPointer(m.Type())} {
					ms := p.Prog.MethodSets.MethodSet(t)
					for i := 0; i < ms.Len(); i++ {
						fn := p.Prog.MethodValue(ms.At(i))
						if fn != nil && fn.Synthetic == "" {
							add(fn)
						}
					}
				}
			}
		}
	}
	sort.Slice(out, func(i, j int) bool { return out[i].Pos() < out[j].Pos() })
	return out
}

// Pos renders a position relative to the repository root.
func (p *Program) Pos(pos token.Pos) string {
	if !pos.IsValid() {
		return "?"
	}
	ps := p.Fset.Position(pos)
	f := ps.Filename
	if r, err := filepath.Rel(p.Dir, f); err == nil && !strings.HasPrefix(r, "..") {
		f = r
	}
	return fmt.Sprintf("%s:%d", f, ps.Line)
}

func (p *Program) InstrPos(i ssa.Instruction) string {
	if i == nil {
		return "?"
	}
	pos := i.Pos()
	if !pos.IsValid() {
		// fall back on any operand / the block's first positioned instruction
		if b := i.Block(); b != nil {
			for _, j := range b.Instrs {
				if j.Pos().IsValid() {
					pos = j.Pos()
					break
				}
			}
		}
		if !pos.IsValid() && i.Parent() != nil {
			pos = i.Parent().Pos()
		}
	}
	return p.Pos(pos)
}

// fname gives a stable, human readable name of a function: pkg.(Recv).Name or
// pkg.Name$1 for closures.
func fname(f *ssa.Function) string {
	if f == nil {
		return "<nil>"
	}
	s := f.String()
	s = strings.ReplaceAll(s, modPath+"/internal/", "")
	s = strings.ReplaceAll(s, modPath, "lz4")
	return s
}
