package main

import (
	"fmt"
	"go/constant"
	"go/token"
	"go/types"
	"sort"
	"strings"

	"golang.org/x/tools/go/ssa"
)

func init() {
	register("C14", checkC14)
	register("C16", checkC16)
	register("C18", checkC18)
}

// ---------------------------------------------------------------------------
// C14

func checkC14(c *Check) {
	c.Explain = "Determinism is decided as absence of hidden state and of scheduling influence: (R14.1) the fast compressor clears its validity bitmap on every path before any table access; (R14.2) the HC compressor zeroes both tables exactly under its needsReset flag, sets the flag unconditionally to true before any table access, and nothing else writes the flag; (R14.3) no nondeterminism source (map iteration, select, time, rand, runtime queries, goroutine start) is reachable from the block compressors or FrameDataBlock.Compress; (R14.4) result channels are enqueued by the submitting goroutine before workers start; (R14.5) only the single ordering goroutine (or the sequential caller) writes blocks to the sink; (R14.6) block boundaries do not depend on how data was split across Write calls: the caller's buffer is compressed in place only when nothing is pending; (R14.7) the raw-block flag does not leak from the previous block."
	c.Uncov = []string{"independence of output from Write partitioning beyond R14.6 (arithmetic of the accumulation loop)", "absence of dependence on stale pooled buffer contents (value-level)"}
	c.Trusted = append(trustedSSA, "VTA call graph for reachability")
	for k, v := range map[string]string{"R14.1": "fast compressor resets", "R14.2": "HC compressor resets", "R14.3": "no nondeterminism source reachable", "R14.4": "enqueue before spawn", "R14.5": "single sink writer", "R14.6": "direct write only when nothing pending", "R14.7": "raw flag pairing"} {
		c.RuleDoc[k] = v
	}
	p := loadOrTrouble(c, cfgAMD64)
	if p == nil {
		return
	}
	ruleFastReset(c, p, "R14.1")
	ruleHCReset(c, p, "R14.2")
	ruleNoNondeterminism(c, p, "R14.3")
	ruleEnqueueBeforeSpawn(c, p, "R14.4")
	ruleSingleSinkWriter(c, p, "R14.5")
	ruleDirectWrite(c, p, "R14.6")
	ruleRawFlagPairing(c, p, "R14.7")
	ruleInitWAfterDescriptor(c, p, "R14.16")
	c.RuleDoc["R14.16"] = "the block pipeline is set up after the descriptor's block size is final"
	ruleOptionWritesUnconditional(c, p, "R14.17", "Writer")
	c.RuleDoc["R14.17"] = "an applied option writes what it configures on every successful path, whatever its argument"
	ruleSizeTables(c, p, "R14.15")
	c.RuleDoc["R14.15"] = "= R02.4: block-size code, pool and buffer size tables agree (a buffer returned to the pool of another size class makes the next frame's block size depend on what ran before)"
	ruleBuffersRefetched(c, p, "R14.8", "Writer", "CompressingReader")
	ruleContentHashDiscipline(c, p, "R14.9")
	ruleFullBlockReads(c, p, "R14.12")
	ruleDestinationWriteOnly(c, p, "R14.13")
	c.RuleDoc["R14.13"] = "the block compressors read a destination byte only after storing it in the same call (no dependence on the buffer's previous contents)"
	ruleNoEmptyBlock(c, p, "R14.14", "Writer")
	c.RuleDoc["R14.14"] = "= R09.14 for the Writer: an empty block is never emitted, in any mode (a guard that holds only in sequential mode makes the frame depend on the concurrency level)"
	c.RuleDoc["R14.12"] = "the write side fills whole blocks from the source (io.ReadFull): block boundaries do not follow the source's read sizes"
	c.RuleDoc["R14.11"] = "a compression worker releases its source buffer only after the ordering goroutine has written the block (= the worker obligations of R08.4): the bytes written do not depend on who reuses the pool buffer meanwhile"
	c.only(func(k string) bool { return strings.HasPrefix(k, "Writer.write.worker#") }, func() { ruleReleaseAfterUse(c, p, "R14.11") })
	c.RuleDoc["R14.10"] = "ownership hand-off (= R02.5): a buffer given to a compression goroutine is replaced before the Writer writes into it again, so the block's bytes do not depend on the schedule"
	ruleHandOff(c, p, "R14.10")
	c.RuleDoc["R14.9"] = "content checksum fed in stream order only"
	c.RuleDoc["R14.8"] = "the accumulation buffer (whose length is the block cut) is re-fetched from the current block size at frame start, so block boundaries do not depend on the object's history"
}

// zeroesWholeArray: fn contains a loop that stores the constant 0 into every
// element of the array field: the index is a loop counter that starts at 0 (or
// -1 in go/ssa's rotated range loops), advances by 1 and is bounded by the
// array length; or fn calls clear() on a full slice of the field.
func zeroesWholeArray(fn *ssa.Function, field string) bool {
	found := false
	allInstrs(fn, func(in ssa.Instruction) {
		if call, ok := in.(*ssa.Call); ok {
			if b, isB := call.Call.Value.(*ssa.Builtin); isB && b.Name() == "clear" && len(call.Call.Args) == 1 {
				if sl, isS := call.Call.Args[0].(*ssa.Slice); isS && sl.Low == nil && sl.High == nil && lastField(sl.X) == field {
					found = true
				}
			}
		}
		st, ok := in.(*ssa.Store)
		if !ok {
			return
		}
		if k, isK := constUint(st.Val); !isK || k != 0 {
			return
		}
		ia, ok := st.Addr.(*ssa.IndexAddr)
		if !ok || lastField(ia.X) != field {
			return
		}
		var n int64 = -1
		if pt, isP := ia.X.Type().Underlying().(*types.Pointer); isP {
			if arr, isA := pt.Elem().Underlying().(*types.Array); isA {
				n = arr.Len()
			}
		}
		if n < 0 {
			return
		}
		// index = counter or counter+1
		idx := ia.Index
		var ph *ssa.Phi
		plus := int64(0)
		if x, isPhi := idx.(*ssa.Phi); isPhi {
			ph = x
		} else if bo, isB := idx.(*ssa.BinOp); isB && bo.Op == token.ADD {
			if x, isPhi := bo.X.(*ssa.Phi); isPhi {
				if k, isK := constUint(bo.Y); isK && k == 1 {
					ph, plus = x, 1
				}
			}
		}
		if ph == nil || len(ph.Edges) != 2 {
			return
		}
		start, step := int64(-99), false
		var next ssa.Value
		for _, e := range ph.Edges {
			if k, isK := e.(*ssa.Const); isK && k.Value != nil {
				start = k.Int64()
			} else if bo, isB := e.(*ssa.BinOp); isB && bo.Op == token.ADD && bo.X == ssa.Value(ph) {
				if k, isK := constUint(bo.Y); isK && k == 1 {
					step, next = true, bo
				}
			}
		}
		if !step || start+plus != 0 {
			return
		}
		// bound: a comparison of the counter (or its successor) with the array length governs the loop
		bounded := false
		for _, cand := range []ssa.Value{ph, next} {
			if cand == nil || cand.Referrers() == nil {
				continue
			}
			for _, r := range *cand.Referrers() {
				if bo, isB := r.(*ssa.BinOp); isB && bo.Op == token.LSS && bo.X == cand {
					if k, isK := bo.Y.(*ssa.Const); isK && k.Value != nil && k.Int64() == n {
						// store index equals the compared value
						if (cand == ssa.Value(ph) && plus == 0) || (cand == next && plus == 1) {
							bounded = true
						}
					}
				}
			}
		}
		if bounded {
			found = true
		}
	})
	return found
}

func ruleFastReset(c *Check, p *Program, rule string) {
	fn := findFn(c, p, rule, "internal/lz4block", "Compressor.CompressBlock")
	if fn == nil {
		return
	}
	var reset ssa.Instruction
	for _, ci := range callsIn(fn) {
		if calleeIs(ci, pkgBlock, "Compressor.reset") {
			reset = ci
		}
	}
	var isTable func(in ssa.Instruction) bool
	touches := map[*ssa.Function]int{} // 0 unknown, 1 no, 2 yes
	isTable = func(in ssa.Instruction) bool {
		if ci, ok := in.(ssa.CallInstruction); ok && (calleeIs(ci, pkgBlock, "Compressor.get") || calleeIs(ci, pkgBlock, "Compressor.put")) {
			return true
		}
		// a function that is handed (a pointer to) one of the tables
		if ci, ok := in.(ssa.CallInstruction); ok && !calleeIs(ci, pkgBlock, "Compressor.reset") {
			for _, a := range ci.Common().Args {
				if lf := lastField(a); lf == "Compressor.table" || lf == "Compressor.inUse" {
					return true
				}
				if derivesFromField(a, "Compressor.table") || derivesFromField(a, "Compressor.inUse") {
					return true
				}
			}
		}
		// a helper of the compressor (other than reset) that works on the table
		if ci, ok := in.(ssa.CallInstruction); ok && !calleeIs(ci, pkgBlock, "Compressor.reset") {
			if g := staticCallee(ci); g != nil && inModule(g) && g.Pkg == fn.Pkg && recvTypeName(g) == "Compressor" && len(g.Blocks) > 0 {
				if touches[g] == 0 {
					touches[g] = 1
					allInstrs(g, func(j ssa.Instruction) {
						if isTable(j) {
							touches[g] = 2
						}
					})
				}
				if touches[g] == 2 {
					return true
				}
			}
		}
		var addr ssa.Value
		switch x := in.(type) {
		case *ssa.UnOp:
			if x.Op == token.MUL {
				addr = x.X
			}
		case *ssa.Store:
			addr = x.Addr
		}
		if ia, ok := addr.(*ssa.IndexAddr); ok {
			lf := lastField(ia.X)
			return lf == "Compressor.table" || lf == "Compressor.inUse"
		}
		return false
	}
	nTable := 0
	allInstrs(fn, func(in ssa.Instruction) {
		if isTable(in) {
			nTable++
		}
	})
	for g, t := range touches {
		if t == 2 {
			c.Funcs[fname(g)] = true
			allInstrs(g, func(in ssa.Instruction) {
				if isTable(in) {
					nTable++
				}
			})
		}
	}
	c.Sites += nTable
	if reset == nil {
		// inline reset: a store of the zero value into Compressor.inUse
		allInstrs(fn, func(in ssa.Instruction) {
			if st, ok := in.(*ssa.Store); ok && lastField(st.Addr) == "Compressor.inUse" {
				reset = in
			}
		})
	}
	if reset == nil {
		c.Fail(rule, "Compressor.CompressBlock#reset-before-tables", p.Pos(fn.Pos()), "the validity bitmap is cleared at the start of every call", "no call of Compressor.reset (or clearing store) found")
		return
	}
	bypass, _ := reachAvoid(fn, nil, isTable, func(in ssa.Instruction) bool { return in == reset })
	c.Cond(!bypass && nTable >= 4, rule, "Compressor.CompressBlock#reset-before-tables", p.InstrPos(reset), "every hash-table access of the fast compressor is preceded, on all paths, by clearing the validity bitmap (output independent of what the compressor processed before)", fmt.Sprintf("%d table accesses, none reachable without passing reset()", nTable), fmt.Sprintf("a table access is reachable without reset(): %v; table accesses found: %d", bypass, nTable))
	// reset clears the whole bitmap
	if rf := p.Func("internal/lz4block", "Compressor.reset"); rf != nil {
		ok := false
		allInstrs(rf, func(in ssa.Instruction) {
			if st, isSt := in.(*ssa.Store); isSt && lastField(st.Addr) == "Compressor.inUse" {
				if k, isK := st.Val.(*ssa.Const); isK && k.Value == nil {
					ok = true // zero value of the array type
				}
				if u, isU := st.Val.(*ssa.UnOp); isU {
					if al, isAl := u.X.(*ssa.Alloc); isAl && len(storesTo(al)) == 0 {
						ok = true // load of a fresh zeroed local
					}
				}
			}
		})
		if !ok {
			ok = zeroesWholeArray(rf, "Compressor.inUse")
		}
		c.Cond(ok, rule, "Compressor.reset#clears-bitmap", p.Pos(rf.Pos()), "reset stores the zero value into the whole inUse bitmap", "inUse = [..]uint32{} or an element loop over the whole array", "reset does not store a zero array into Compressor.inUse")
		// get consults the bitmap before using a table entry
		if gf := p.Func("internal/lz4block", "Compressor.get"); gf != nil {
			okGet := false
			allInstrs(gf, func(in ssa.Instruction) {
				if u, isU := in.(*ssa.UnOp); isU && u.Op == token.MUL {
					if ia, isIA := u.X.(*ssa.IndexAddr); isIA && lastField(ia.X) == "Compressor.table" {
						for _, l := range guardsOf(in.Block()) {
							uses := false
							walkBack(l.Cond, true, func(v ssa.Value) bool {
								if uu, ok := v.(*ssa.UnOp); ok && uu.Op == token.MUL {
									if ia2, ok2 := uu.X.(*ssa.IndexAddr); ok2 && lastField(ia2.X) == "Compressor.inUse" {
										uses = true
									}
								}
								return true
							})
							if uses {
								okGet = true
							}
						}
					}
				}
			})
			c.Cond(okGet, rule, "Compressor.get#entry-needs-inuse-bit", p.Pos(gf.Pos()), "a table entry is read only when its inUse bit is set (stale entries of earlier calls are never consulted)", "table load guarded by the inUse bit test", "the table entry is read without testing the inUse bitmap")
		}
	}
}

func ruleHCReset(c *Check, p *Program, rule string) {
	fn := findFn(c, p, rule, "internal/lz4block", "CompressorHC.CompressBlock")
	if fn == nil {
		return
	}
	zeroed := map[string]ssa.Instruction{}
	var flagStore ssa.Instruction
	// the preparation may have been moved into a helper that only CompressBlock calls
	pieces := splitFns(fn)
	for _, piece := range pieces {
		allInstrs(piece, func(in ssa.Instruction) {
			st, ok := in.(*ssa.Store)
			if !ok {
				return
			}
			switch lf := lastField(st.Addr); lf {
			case "CompressorHC.hashTable", "CompressorHC.chainTable":
				zeroed[lf] = in
			case "CompressorHC.needsReset":
				flagStore = in
			}
			// the whole compressor set to its zero value: both tables at once
			if k, isK := st.Val.(*ssa.Const); isK && k.Value == nil {
				if pt, isP := st.Addr.Type().Underlying().(*types.Pointer); isP && typeName(pt.Elem()) == "CompressorHC" {
					zeroed["CompressorHC.hashTable"] = in
					zeroed["CompressorHC.chainTable"] = in
				}
			}
		})
	}
	for _, t := range []string{"CompressorHC.hashTable", "CompressorHC.chainTable"} {
		in := zeroed[t]
		if in == nil {
			c.Fail(rule, "CompressorHC.CompressBlock#zero:"+t, p.Pos(fn.Pos()), "both HC tables are zeroed when the compressor was used before", "no whole-table store to "+t)
			continue
		}
		c.Sites++
		// guard: exactly the needsReset load
		var gs []string
		okG := false
		ls := guardsOf(in.Block())
		for _, l := range ls {
			if loadField(l.Cond) == "CompressorHC.needsReset" && l.Val {
				okG = true
			} else {
				gs = append(gs, atomOf(l.Cond, l.Val).String())
			}
		}
		c.Cond(okG && len(gs) == 0, rule, "CompressorHC.CompressBlock#zero:"+t, p.InstrPos(in), t+" is zeroed exactly when the compressor has been used before (needsReset), with no other condition", "guard {needsReset}", fmt.Sprintf("guarded by needsReset: %v; extra conditions: %v", okG, gs))
	}
	if flagStore == nil {
		c.Fail(rule, "CompressorHC.CompressBlock#flag-set", p.Pos(fn.Pos()), "needsReset is set on every call", "no store to needsReset")
	} else {
		st := flagStore.(*ssa.Store)
		k, isK := st.Val.(*ssa.Const)
		constTrue := isK && k.Value != nil && k.Value.Kind() == constant.Bool && constant.BoolVal(k.Value)
		// unconditional: every path from entry to any table access passes the store
		isTable := func(in ssa.Instruction) bool {
			var addr ssa.Value
			switch x := in.(type) {
			case *ssa.UnOp:
				if x.Op == token.MUL {
					addr = x.X
				}
			case *ssa.Store:
				addr = x.Addr
			}
			if ia, ok := addr.(*ssa.IndexAddr); ok {
				lf := lastField(ia.X)
				return lf == "CompressorHC.hashTable" || lf == "CompressorHC.chainTable"
			}
			return false
		}
		isFlagStore := func(in ssa.Instruction) bool { return in == flagStore }
		if h := flagStore.Parent(); h != fn {
			// in a helper: the helper stores on all of its paths, and its call stands for the store
			c.Funcs[fname(h)] = true
			all, _ := mustOnAllPaths(p, h, func(in ssa.Instruction) bool { return in == flagStore }, false, 0)
			isFlagStore = func(in ssa.Instruction) bool {
				ci, ok := in.(ssa.CallInstruction)
				return ok && all && staticCallee(ci) == h
			}
		}
		bypass, _ := reachAvoid(fn, nil, func(in ssa.Instruction) bool { return isTable(in) || isReturn(in) }, isFlagStore)
		c.Cond(constTrue && !bypass, rule, "CompressorHC.CompressBlock#flag-set", p.InstrPos(flagStore), "needsReset is set to the constant true on every path through the call, before any table access (so that the next call - by anyone drawing this compressor from the pool - starts from zeroed tables)", "needsReset = true dominates all table accesses and returns", fmt.Sprintf("stored value is the constant true: %v; a table access or return is reachable without the store: %v", constTrue, bypass))
		// zeroing precedes the flag store and all table accesses
		for t, in := range zeroed {
			zin := in
			r, _ := reachAvoid(fn, nil, isTable, func(j ssa.Instruction) bool {
				// either the zeroing, or the needsReset==false edge (first call on fresh tables)
				return j == zin
			})
			_ = r
			_ = t
		}
	}
	// nobody else writes the flag
	var others []string
	for _, f := range moduleFuncs(p, pkgBlock, pkgRoot, pkgStream) {
		own := false
		for _, piece := range pieces {
			if piece == f {
				own = true
			}
		}
		if own {
			continue
		}
		allInstrs(f, func(in ssa.Instruction) {
			if st, ok := in.(*ssa.Store); ok && lastField(st.Addr) == "CompressorHC.needsReset" {
				others = append(others, shortFn(f))
			}
		})
	}
	c.Cond(len(others) == 0, rule, "CompressorHC.needsReset#single-writer", "", "needsReset is written only by CompressorHC.CompressBlock", "no other store", "also written by "+strings.Join(others, ", "))
}

func ruleNoNondeterminism(c *Check, p *Program, rule string) {
	cg := p.CallGraph()
	roots := []*ssa.Function{p.Func("internal/lz4block", "Compressor.CompressBlock"), p.Func("internal/lz4block", "CompressorHC.CompressBlock"), p.Func("internal/lz4stream", "FrameDataBlock.Compress"), p.Func("internal/lz4block", "CompressBlock"), p.Func("internal/lz4block", "CompressBlockHC")}
	seen := map[*ssa.Function]bool{}
	var stack []*ssa.Function
	for _, r := range roots {
		if r != nil {
			stack = append(stack, r)
		}
	}
	var bad []string
	n := 0
	for len(stack) > 0 {
		f := stack[len(stack)-1]
		stack = stack[:len(stack)-1]
		if seen[f] {
			continue
		}
		seen[f] = true
		inMod := f.Pkg != nil && strings.HasPrefix(f.Pkg.Pkg.Path(), modPath)
		if !inMod {
			if f.Pkg != nil {
				switch pp := f.Pkg.Pkg.Path(); {
				case pp == "time", strings.HasPrefix(pp, "math/rand"), pp == "crypto/rand", pp == "os":
					bad = append(bad, "call into "+pp+"."+f.Name())
				case pp == "runtime" && (f.Name() == "GOMAXPROCS" || f.Name() == "NumCPU" || f.Name() == "NumGoroutine"):
					bad = append(bad, "runtime."+f.Name())
				}
			}
			continue
		}
		n++
		c.Funcs[fname(f)] = true
		allInstrs(f, func(in ssa.Instruction) {
			switch x := in.(type) {
			case *ssa.Range:
				if _, isMap := x.X.Type().Underlying().(*types.Map); isMap {
					bad = append(bad, "map iteration in "+shortFn(f)+" at "+p.InstrPos(in))
				}
			case *ssa.Select:
				bad = append(bad, "select in "+shortFn(f)+" at "+p.InstrPos(in))
			case *ssa.Go:
				bad = append(bad, "goroutine started in "+shortFn(f)+" at "+p.InstrPos(in))
			}
		})
		if node := cg.Nodes[f]; node != nil {
			for _, e := range node.Out {
				// sync.Pool Get/Put are the intended (content-neutral, see R14.1/2) hidden state
				if g := e.Callee.Func; g != nil && !seen[g] {
					if g.Pkg != nil && g.Pkg.Pkg.Path() == "sync" {
						continue
					}
					stack = append(stack, g)
				}
			}
		}
	}
	sort.Strings(bad)
	c.Cond(len(bad) == 0 && n >= 5, rule, "compressors#no-nondeterminism-source", "", "no map iteration, select, goroutine start, clock, random source or runtime query is reachable from the block compressors or FrameDataBlock.Compress", fmt.Sprintf("%d module functions reachable, none contains such a construct", n), strings.Join(bad, "; "))
}

func ruleSingleSinkWriter(c *Check, p *Program, rule string) {
	wr := findFn(c, p, rule, "internal/lz4stream", "FrameDataBlock.Write")
	if wr == nil {
		return
	}
	// (a) the only goroutine from which a block can be written to the sink is the one
	// started in Blocks.initW (the single ordering goroutine); (b) every synchronous path
	// from Writer.write to FrameDataBlock.Write lies under the sequential guard.
	var notes []string
	ok := true
	nGo, nWriters := 0, 0
	for _, fn := range moduleFuncs(p, pkgRoot, pkgStream) {
		for _, f := range withAnon(fn) {
			allInstrs(f, func(in ssa.Instruction) {
				g, isGo := in.(*ssa.Go)
				if !isGo {
					return
				}
				nGo++
				t := goTarget(g)
				if t == nil {
					return
				}
				if reachesFn(t, wr) {
					nWriters++
					c.Sites++
					parent := f
					for parent.Parent() != nil {
						parent = parent.Parent()
					}
					notes = append(notes, "goroutine started in "+shortFn(f)+" writes blocks")
					inInitW := false
					if iw := p.Func("internal/lz4stream", "Blocks.initW"); iw != nil {
						for _, piece := range splitFns(iw) {
							if piece == parent {
								inInitW = true
							}
						}
					}
					if !inInitW {
						ok = false
						notes = append(notes, "(a goroutine other than the ordering goroutine of Blocks.initW reaches FrameDataBlock.Write: "+shortFn(t)+")")
					}
				}
			})
		}
	}
	if w := p.Func("", "Writer.write"); w != nil {
		deepCalls(w, 3, func(ci ssa.CallInstruction, chain []ssa.CallInstruction) {
			if staticCallee(ci) != wr {
				return
			}
			c.Sites++
			seq := false
			for _, a := range chainAtoms(ci, chain) {
				if a.Kind == "call" && strings.HasSuffix(a.Name, "isNotConcurrent") && a.Val {
					seq = true
				}
			}
			if !seq {
				ok = false
				notes = append(notes, "(Writer.write writes to the sink outside the sequential branch at "+p.InstrPos(ci)+")")
			}
		})
	}
	sort.Strings(notes)
	c.Cond(ok && nWriters == 1 && nGo >= 5, rule, "FrameDataBlock.Write#callers", p.Pos(wr.Pos()), "blocks are written to the sink only by the sequential caller or by the single ordering goroutine (never by the per-block workers)", fmt.Sprintf("%d go statements; goroutines that can reach FrameDataBlock.Write: %d (%s)", nGo, nWriters, strings.Join(notes, "; ")), fmt.Sprintf("%d go statements; goroutines that can reach FrameDataBlock.Write: %d; %s", nGo, nWriters, strings.Join(notes, "; ")))
}

// ---------------------------------------------------------------------------
// C16

func checkC16(c *Check) {
	c.Explain = "Structure of dependent-block decoding: (R16.1) frames without the independence flag are decoded sequentially (InitR receives concurrency 1 on that path); (R16.2) the rolling dictionary r.dict is what reaches lz4block.UncompressBlock for every sequential block; (R16.3) after each block the dictionary becomes a suffix of the old dictionary followed by the whole decoded block, the retained suffix being computed as 64 KiB minus the block length and trimming only above a threshold of at least twice the window; (R16.4) the update is governed by the independence flag only, so stored (raw) blocks enter the window too."
	c.Uncov = []string{"exact decoded bytes", "the window contents as bytes (R16.3 proves the retained length and suffix position, not the data)"}
	c.Trusted = trustedSSA
	for k, v := range map[string]string{"R16.1": "dependent frames decode sequentially", "R16.2": "dictionary argument provenance", "R16.3": "window retention shape", "R16.4": "update guard"} {
		c.RuleDoc[k] = v
	}
	p := loadOrTrouble(c, cfgAMD64)
	if p == nil {
		return
	}
	ruleDependentSequential(c, p, "R16.1")
	ruleDictProvenance(c, p, "R16.2")
	ruleWindowRetention(c, p, "R16.3")
	ruleWindowNumeric(c, p, "R16.3", "")
	ruleReaderDst(c, p, "R16.9")
	c.RuleDoc["R16.9"] = "= R02.6: every block is decoded into the whole block buffer (or a caller buffer at least as large), whatever length the previous block left in the slice header (a dependent frame whose blocks grow would fail or be cut)"
	ruleModeAfterInit(c, p, "R16.8")
	c.RuleDoc["R16.8"] = "the sequential/concurrent decision of Read and WriteTo uses the mode as it is after Reader.init"
	// the dictionary path of the block decoder: reads stay inside dict[0:len] and the
	// underflow error is raised only for offsets that really reach before the dictionary
	c.RuleDoc["R16.6"] = "assembly decoder: dictionary accesses in bounds, dictionary error exit justified"
	runAsm(c, p, []asmCase{{false, false}}, map[string]string{"exit": "R16.6", "access": "R16.6"})
	c.RuleDoc["R16.7"] = "portable decoder: the dictionary branch rejects only matches that reach before the dictionary (the explicit error exits entail a format violation; = the portable obligations of R04/R12)"
	portableDecoderRules(c, "R16.7")
}

func ruleDependentSequential(c *Check, p *Program, rule string) {
	fn := findFn(c, p, rule, "", "Reader.init")
	if fn == nil {
		return
	}
	for _, ci := range callsIn(fn) {
		if !calleeIs(ci, pkgStream, "Frame.InitR") {
			continue
		}
		c.Sites++
		num := ci.Common().Args[2]
		// on every path on which flag:BlockIndependence is false, num == 1 at the call.
		ok := false
		how := ""
		if loadField(num) == "Reader.num" {
			// a store of 1 into Reader.num must be passed on all !independence paths
			isStore1 := func(in ssa.Instruction) bool {
				st, isSt := in.(*ssa.Store)
				if !isSt || lastField(st.Addr) != "Reader.num" {
					return false
				}
				k, isK := constUint(st.Val)
				return isK && k == 1
			}
			bypass := pathAvoiding(fn, ci.Block(), isStore1, map[string]bool{"flag:BlockIndependence": false})
			ok, how = !bypass, "r.num = 1 is stored on every path with the flag off before InitR(r.num)"
		} else if ph, isPhi := num.(*ssa.Phi); isPhi {
			ok = true
			for i, e := range ph.Edges {
				ats := edgeAtoms(ph.Block().Preds[i], ph.Block())
				k, isK := constUint(e)
				if hasAtom(ats, "flag", "BlockIndependence", false) && !(isK && k == 1) {
					ok = false
				}
			}
			how = "the concurrency passed to InitR is 1 on the edge where the flag is off"
		}
		c.Cond(ok, rule, "Reader.init#dependent-blocks-sequential", p.InstrPos(ci), "a frame whose blocks depend on each other (BlockIndependence off; legacy frames too) is decoded with concurrency 1", how, "InitR can be called with concurrency > 1 although the frame's blocks are dependent: blocks would be decoded without their dictionary")
		// header is parsed before the decision
		var ph ssa.Instruction
		for _, cj := range callsIn(fn) {
			if calleeIs(cj, pkgStream, "Frame.ParseHeaders") {
				ph = cj
			}
		}
		if ph != nil {
			r, _ := reachAvoid(fn, nil, func(in ssa.Instruction) bool { return in == ci.(ssa.Instruction) }, func(in ssa.Instruction) bool { return in == ph })
			c.Cond(!r, rule, "Reader.init#flags-parsed-first", p.InstrPos(ci), "the descriptor is parsed before the decode pipeline is chosen", "ParseHeaders dominates InitR", "InitR reachable before ParseHeaders")
		}
		// the independence flag that decides the fallback is the one of THIS frame: every read of it
		// is preceded, on all paths, by the header parse (directly or inside a callee)
		parses := func(in ssa.Instruction) bool {
			cj, ok := in.(ssa.CallInstruction)
			return ok && callReaches(cj, func(x ssa.CallInstruction) bool { return calleeIs(x, pkgStream, "Frame.ParseHeaders") })
		}
		readsFlag := func(in ssa.Instruction) bool {
			cj, ok := in.(ssa.CallInstruction)
			return ok && calleeIs(cj, pkgStream, "DescriptorFlags.BlockIndependence")
		}
		stale, _ := reachAvoid(fn, nil, readsFlag, parses)
		c.Cond(!stale, rule, "Reader.init#flag-of-this-frame", p.Pos(fn.Pos()), "the BlockIndependence flag is read only after this frame's header has been parsed (a Reader reused through Reset would otherwise decide on the previous frame's flags)", "every path to the flag test passes the header parse", "the BlockIndependence flag is tested before the header of the current frame is parsed: after Reset the decision uses the previous frame's descriptor")
	}
}

func ruleDictProvenance(c *Check, p *Program, rule string) {
	rr := findFn(c, p, rule, "", "Reader.read")
	un := findFn(c, p, rule, "internal/lz4stream", "FrameDataBlock.Uncompress")
	if rr == nil || un == nil {
		return
	}
	n := 0
	for _, ci := range callsInDeep(rr) {
		if calleeIs(ci, pkgStream, "FrameDataBlock.Uncompress") {
			n++
			c.Sites++
			d := ci.Common().Args[3]
			c.Cond(loadField(d) == "Reader.dict", rule, "Reader.read#dict-argument", p.InstrPos(ci), "the rolling dictionary is passed to every sequential block decode", "argument is r.dict", "the dictionary argument is "+shortVal(d)+", not r.dict")
		}
	}
	if n == 0 {
		c.Fail(rule, "Reader.read#dict-argument", p.Pos(rr.Pos()), "sequential decode call resolved", "no Uncompress call in Reader.read")
	}
	// the destination and dictionary parameters, by name (the body may live in a helper with another parameter list)
	var pDst, pDict ssa.Value
	for _, prm := range un.Params {
		switch prm.Name() {
		case "dst":
			pDst = prm
		case "dict":
			pDict = prm
		}
	}
	if (pDst == nil || pDict == nil) && len(un.Params) >= 4 {
		pDst, pDict = un.Params[2], un.Params[3]
	}
	for _, ci := range callsIn(un) {
		if calleeIs(ci, pkgBlock, "UncompressBlock") {
			c.Sites++
			ok := pDst != nil && ci.Common().Args[2] == pDict && ci.Common().Args[0] != nil && loadField(ci.Common().Args[0]) == "FrameDataBlock.data" && ci.Common().Args[1] == pDst
			c.Cond(ok, rule, "Uncompress#dict-forwarded", p.InstrPos(ci), "Uncompress forwards (block bytes, destination, dictionary) unchanged to the block decoder", "UncompressBlock(b.data, dst, dict)", "arguments of UncompressBlock are not (b.data, dst, dict)")
		}
	}
	// inside the block package the dictionary keeps its end: what reaches decodeBlock is the caller's dictionary or a
	// suffix of it (offsets count back from the end of the dictionary; cutting its tail shifts every reference)
	if ub := findFn(c, p, rule, "internal/lz4block", "UncompressBlock"); ub != nil && len(ub.Params) >= 3 {
		var keepsEnd func(v ssa.Value, depth int) bool
		keepsEnd = func(v ssa.Value, depth int) bool {
			if depth > 6 {
				return false
			}
			switch x := v.(type) {
			case *ssa.Parameter:
				return isSliceType(x.Type())
			case *ssa.Slice:
				if x.Max != nil {
					return false
				}
				if x.High != nil {
					// dict[lo:len(dict)] also keeps the end
					lc, isL := x.High.(*ssa.Call)
					if !isL {
						return false
					}
					bi, isB := lc.Call.Value.(*ssa.Builtin)
					if !isB || bi.Name() != "len" || lc.Call.Args[0] != x.X {
						return false
					}
				}
				return keepsEnd(x.X, depth+1)
			case *ssa.Phi:
				for _, e := range x.Edges {
					if !keepsEnd(e, depth+1) {
						return false
					}
				}
				return true
			}
			return false
		}
		nd := 0
		for _, g := range deepFuncs(ub, 1) {
			for _, ci := range callsIn(g) {
				f := staticCallee(ci)
				if f == nil || f.Name() != "decodeBlock" || len(ci.Common().Args) < 3 {
					continue
				}
				nd++
				c.Sites++
				d := ci.Common().Args[2]
				c.Cond(keepsEnd(d, 0), rule, "UncompressBlock#dictionary-keeps-its-end", p.InstrPos(ci), "the dictionary handed to the block decoder is the caller's dictionary or a suffix of it: match offsets are counted back from its end", "parameter, or dict[lo:]", "the dictionary argument "+shortVal(d)+" is cut at its end (or replaced): every offset that reaches into the dictionary then refers to other bytes")
			}
		}
		if nd == 0 {
			c.Fail(rule, "UncompressBlock#dictionary-keeps-its-end", p.Pos(ub.Pos()), "the call of decodeBlock is resolved", "no call of decodeBlock in UncompressBlock (anchor unresolved)")
		}
	}
	// raw blocks: copied from b.data into dst
	okRaw := false
	allInstrs(un, func(in ssa.Instruction) {
		if cc, ok := isBuiltinCall(in, "copy"); ok && pDst != nil && cc.Args[0] == pDst && loadField(cc.Args[1]) == "FrameDataBlock.data" {
			for _, a := range atomsOfBlock(in.Block()) {
				if a.Kind == "call" && strings.HasSuffix(a.Name, "Uncompressed") && a.Val {
					okRaw = true
				}
			}
		}
	})
	// the decoder may be picked through a function value: decode := UncompressBlock; if raw { decode = stored }
	for _, ci := range callsIn(un) {
		ph, isPhi := ci.Common().Value.(*ssa.Phi)
		if !isPhi || ci.Common().IsInvoke() || len(ci.Common().Args) < 3 {
			continue
		}
		args := ci.Common().Args
		for i, e := range ph.Edges {
			f, isFn := e.(*ssa.Function)
			if !isFn {
				continue
			}
			if f.Pkg != nil && strings.HasSuffix(f.Pkg.Pkg.Path(), pkgBlock) && f.Name() == "UncompressBlock" {
				c.Sites++
				ok := pDst != nil && args[2] == pDict && loadField(args[0]) == "FrameDataBlock.data" && args[1] == pDst
				c.Cond(ok, rule, "Uncompress#dict-forwarded", p.InstrPos(ci), "Uncompress forwards (block bytes, destination, dictionary) unchanged to the block decoder", "UncompressBlock(b.data, dst, dict) through a function value", "arguments of UncompressBlock are not (b.data, dst, dict)")
				continue
			}
			raw := false
			for _, a := range edgeAtoms(ph.Block().Preds[i], ph.Block()) {
				if a.Kind == "call" && strings.HasSuffix(a.Name, "Uncompressed") && a.Val {
					raw = true
				}
			}
			if !raw || len(f.Params) < 2 || pDst == nil || args[1] != pDst || loadField(args[0]) != "FrameDataBlock.data" {
				continue
			}
			allInstrs(f, func(in ssa.Instruction) {
				if cc, ok := isBuiltinCall(in, "copy"); ok && cc.Args[0] == f.Params[1] && cc.Args[1] == f.Params[0] {
					okRaw = true
				}
			})
		}
	}
	c.Cond(okRaw, rule, "Uncompress#raw-copy", p.Pos(un.Pos()), "a stored block is copied verbatim into the destination exactly when its raw flag is set", "copy(dst, b.data) under Uncompressed()", "raw-block copy missing or not governed by the raw flag")
}

func ruleWindowRetention(c *Check, p *Program, rule string) {
	fn := findFn(c, p, rule, "", "Reader.read")
	if fn == nil {
		return
	}
	var app ssa.Instruction
	var trims []*ssa.Store
	var appArgs []ssa.Value
	allInstrsDeep(fn, func(in ssa.Instruction) {
		st, ok := in.(*ssa.Store)
		if !ok || lastField(st.Addr) != "Reader.dict" {
			return
		}
		if call, isC := st.Val.(*ssa.Call); isC {
			if b, isB := call.Call.Value.(*ssa.Builtin); isB && b.Name() == "append" {
				app, appArgs = in, call.Call.Args
				return
			}
			// a helper that is handed the dictionary and the block and returns the new dictionary
			if f := staticCallee(call); inModule(f) {
				usesAppend := false
				allInstrsDeep(f, func(j ssa.Instruction) {
					if _, isApp := isBuiltinCall(j, "append"); isApp {
						usesAppend = true
					}
				})
				if usesAppend {
					app, appArgs = in, call.Call.Args
					return
				}
			}
		}
		trims = append(trims, st)
	})
	if app == nil {
		c.Fail(rule, "Reader.read#window-append", p.Pos(fn.Pos()), "decoded blocks are appended to the rolling dictionary", "no r.dict = append(r.dict, ...) found")
		return
	}
	c.Sites++
	// the dictionary and the decoded block are the operands
	var dst ssa.Value
	hasDict, hasBlock := false, false
	for _, arg := range appArgs {
		if loadField(arg) == "Reader.dict" {
			hasDict = true
		}
		if derivesFromCall(arg, func(f *ssa.Function) bool { return f.Name() == "Uncompress" && recvTypeName(f) == "FrameDataBlock" }) {
			hasBlock = true
			dst = arg
		}
	}
	_ = dst
	okApp := hasDict && hasBlock
	got := relAtoms(app.Block(), nil)
	c.Cond(okApp && sameSet(got, []string{"!flag:BlockIndependence"}), rule, "Reader.read#window-append", p.InstrPos(app), "for dependent frames, and only governed by that flag (so raw blocks count too), the whole decoded block is appended to the dictionary", "r.dict = append(r.dict, dst...) under {!flag:BlockIndependence}", fmt.Sprintf("appends the decoded block to r.dict: %v; guards {%s}", okApp, strings.Join(got, ", ")))
	_ = trims // the trim itself is decided numerically by ruleWindowNumeric
}

// ---------------------------------------------------------------------------
// C18

func checkC18(c *Check) {
	c.Explain = "Structure of the compressing reader: (R18.1) the end-of-input branch (which writes the trailer) is entered only when the source's error is identical to io.EOF or io.ErrUnexpectedEOF, and any other source error reaches the caller unchanged (path-sensitive walk); (R18.2) CloseW is called once, on the Reading->Flushing transition; (R18.3) the value set of the state field at the ErrInternalUnhandledState exit is empty for the four defined states; (R18.4) io.EOF is produced only in the Flushing state with nothing left to deliver; (R18.5) in the overflow writer, rewinding the overflow position is always paired with emptying the overflow buffer; (R18.6) the frame is initialised like the Writer's (same InitW / Descriptor.Write / Compress / Write / CloseW sequence with concurrency 1)."
	c.Uncov = []string{"that the concatenated output equals the Writer's frame byte for byte (bookkeeping of the overflow buffer is value-level)", "n <= len(p) as a number (pending the bounds prover)"}
	c.Trusted = trustedSSA
	for k, v := range map[string]string{"R18.1": "source error classification and passthrough", "R18.2": "trailer exactly at the Reading->Flushing transition", "R18.3": "state dispatch total", "R18.4": "io.EOF only when drained", "R18.5": "overflow rewind pairs with truncate", "R18.6": "same frame construction as the Writer"} {
		c.RuleDoc[k] = v
	}
	p := loadOrTrouble(c, cfgAMD64)
	if p == nil {
		return
	}
	fn := findFn(c, p, "R18.1", "", "CompressingReader.Read")
	if fn == nil {
		return
	}
	// R18.1
	var rf ssa.CallInstruction
	for _, ci := range callsIn(fn) {
		if calleeIs(ci, "io", "ReadFull") {
			rf = ci
		}
	}
	if rf == nil {
		// the read may sit in a helper of Read
		for _, ci := range callsInDeep(fn) {
			if calleeIs(ci, "io", "ReadFull") {
				rf = ci
			}
		}
	}
	var closeW ssa.CallInstruction
	for _, ci := range callsIn(fn) {
		if calleeIs(ci, pkgStream, "Frame.CloseW") {
			closeW = ci
		}
	}
	// the trailer call may sit in a helper of Read: closeW is then the call of the helper in Read,
	// closeWInner the CloseW call itself
	closeWInner := closeW
	if closeW == nil {
		for _, ci := range callsIn(fn) {
			f := staticCallee(ci)
			if f == nil || !inModule(f) || f.Pkg != fn.Pkg {
				continue
			}
			if _, isCall := ci.(*ssa.Call); !isCall {
				continue
			}
			for _, g := range deepFuncs(f, 1) {
				for _, cj := range callsIn(g) {
					if calleeIs(cj, pkgStream, "Frame.CloseW") {
						closeW, closeWInner = ci, cj
					}
				}
			}
		}
	}
	if rf == nil || closeW == nil {
		c.Fail("R18.1", "CompressingReader.Read#anchors", p.Pos(fn.Pos()), "source read and trailer call resolved", fmt.Sprintf("io.ReadFull found: %v; CloseW found: %v", rf != nil, closeW != nil))
		return
	}
	c.Sites += 2
	// delete the identity-equality edges (err == io.EOF, err == io.ErrUnexpectedEOF); CloseW must become unreachable
	type edge struct {
		b  *ssa.BasicBlock
		ix int
	}
	var eqs []edge
	for _, b := range fn.Blocks {
		ifi, ok := b.Instrs[len(b.Instrs)-1].(*ssa.If)
		if !ok {
			continue
		}
		if bo, isB := ifi.Cond.(*ssa.BinOp); isB && (bo.Op == token.EQL || bo.Op == token.NEQ) && (isEOFLike(bo.X) || isEOFLike(bo.Y)) {
			ix := 0
			if bo.Op == token.NEQ {
				ix = 1
			}
			eqs = append(eqs, edge{b, ix})
		}
	}
	seen := reachWithFacts(fn, func(b *ssa.BasicBlock, k int) bool {
		for _, e := range eqs {
			if e.b == b && e.ix == k {
				return true
			}
		}
		return false
	})
	c.Cond(len(eqs) >= 2 && !seen[closeW.Block()], "R18.1", "CompressingReader.Read#eof-by-identity", p.InstrPos(closeW), "the trailer is written only when the source's error is identical (==) to io.EOF or io.ErrUnexpectedEOF; errors merely wrapping them are real failures", fmt.Sprintf("%d identity comparisons; CloseW unreachable once their equal edges are deleted", len(eqs)), fmt.Sprintf("identity comparisons with io.EOF / io.ErrUnexpectedEOF found: %d; CloseW reachable without them: %v (e.g. errors.Is would also match wrapped errors and swallow the failure)", len(eqs), seen[closeW.Block()]))
	// R18.15: the source's io.EOF / io.ErrUnexpectedEOF is consumed by the end-of-source branch: on every path from the
	// identity test to a return, the error variable is assigned again (the trailer's result) before it is returned.
	// Otherwise the caller is told io.EOF together with the first part of the trailer and stops reading.
	{
		bad := ""
		for _, e := range eqs {
			bo := e.b.Instrs[len(e.b.Instrs)-1].(*ssa.If).Cond.(*ssa.BinOp)
			ev := bo.X
			if isEOFLike(bo.X) {
				ev = bo.Y
			}
			var cell ssa.Value
			if ld, isL := ev.(*ssa.UnOp); isL && ld.Op == token.MUL {
				switch ld.X.(type) {
				case *ssa.Alloc, *ssa.FreeVar:
					cell = ld.X
				}
			}
			seenB := map[*ssa.BasicBlock]bool{}
			var walk func(b *ssa.BasicBlock)
			walk = func(b *ssa.BasicBlock) {
				if seenB[b] || bad != "" {
					return
				}
				seenB[b] = true
				for _, in := range b.Instrs {
					if st, isS := in.(*ssa.Store); isS && cell != nil && st.Addr == cell {
						return // assigned again: the source's end-of-input error is gone
					}
					if r, isR := in.(*ssa.Return); isR {
						for _, res := range r.Results {
							if !isErrorType(res.Type()) {
								continue
							}
							if ld, isL := res.(*ssa.UnOp); isL && ld.Op == token.MUL && cell != nil && ld.X == cell {
								bad = p.InstrPos(in)
							} else if cell == nil && (res == ev || derivesFromValue(res, ev)) {
								bad = p.InstrPos(in)
							}
						}
						return
					}
				}
				ifi, isIf := b.Instrs[len(b.Instrs)-1].(*ssa.If)
				for k, s := range b.Succs {
					if isIf && len(b.Succs) == 2 && cell != nil {
						// the variable still holds the (non-nil) end-of-input error: a nil test of it has one outcome
						a := atomOf(ifi.Cond, k == 0)
						if ld, isL := a.V.(*ssa.UnOp); a.Kind == "errnil" && a.Val && isL && ld.Op == token.MUL && ld.X == cell {
							continue
						}
					}
					walk(s)
				}
			}
			walk(e.b.Succs[e.ix])
		}
		c.Cond(bad == "", "R18.15", "CompressingReader.Read#source-eof-consumed", p.InstrPos(closeW), "after the source's error has compared equal to io.EOF / io.ErrUnexpectedEOF, the error result is assigned again before any return (the end of the source is not the end of the compressed stream)", "every path from the identity test to a return stores the error variable", "the return at "+bad+" hands the source's end-of-input error to the caller: the frame's trailer (or what does not fit the caller's buffer) is never read")
	}
	// R18.18: an error of the source that is not the end of input is handed to the caller as it is: on the paths from the
	// source read on which the error is neither nil nor identical to io.EOF / io.ErrUnexpectedEOF, the error variable
	// is not assigned again (a re-formatted error cannot be recognised with == or errors.Is).
	if rf != nil && rf.Parent() == fn {
		var cell ssa.Value
		if call, isCall := rf.(*ssa.Call); isCall {
			for _, r := range *call.Referrers() {
				if ex, isE := r.(*ssa.Extract); isE && ex.Index == 1 {
					for _, rr := range *ex.Referrers() {
						if st, isS := rr.(*ssa.Store); isS && st.Val == ssa.Value(ex) {
							cell = st.Addr
						}
					}
				}
			}
		}
		if cell != nil {
			bad := ""
			seenB := map[*ssa.BasicBlock]bool{}
			var walk func(b *ssa.BasicBlock, from int)
			walk = func(b *ssa.BasicBlock, from int) {
				if from == 0 {
					if seenB[b] {
						return
					}
					seenB[b] = true
				}
				for _, in := range b.Instrs[from:] {
					if st, isS := in.(*ssa.Store); isS && st.Addr == cell && bad == "" {
						bad = p.InstrPos(in)
					}
				}
				ifi, isIf := b.Instrs[len(b.Instrs)-1].(*ssa.If)
				for k, s := range b.Succs {
					skip := false
					for _, e := range eqs {
						if e.b == b && e.ix == k {
							skip = true // the end-of-input arms
						}
					}
					if isIf && len(b.Succs) == 2 {
						a := atomOf(ifi.Cond, k == 0)
						if ld, isL := a.V.(*ssa.UnOp); a.Kind == "errnil" && a.Val && isL && ld.Op == token.MUL && ld.X == cell {
							skip = true // the read succeeded
						}
					}
					if !skip {
						walk(s, 0)
					}
				}
			}
			// the store of the read's own error comes right after the call: start behind it
			start := idxOf(rf) + 1
			for i, in := range rf.Block().Instrs {
				if st, isS := in.(*ssa.Store); isS && st.Addr == cell && i > idxOf(rf) {
					start = i + 1
					break
				}
			}
			walk(rf.Block(), start)
			c.Sites++
			c.Cond(bad == "", "R18.18", "CompressingReader.Read#source-error-unchanged", p.InstrPos(rf), "a source error other than the end of input reaches the caller as the very value the source returned", "no assignment of the error result on those paths", "the error result is assigned again at "+bad+" on a path where the source has failed: the caller no longer receives the source's error value")
		}
	}
	ruleErrorsNotAbsorbed(c, p, "R18.1", []*ssa.Function{fn, p.Func("", "CompressingReader.init")}, map[string]string{})
	// R18.2: after CloseW succeeds, state = Flushing on every path; CloseW only reachable in state Reading
	isFlush := func(in ssa.Instruction) bool {
		st, ok := in.(*ssa.Store)
		if !ok || lastField(st.Addr) != "CompressingReader.state" {
			return false
		}
		k, isK := constUint(st.Val)
		return isK && k == 2
	}
	miss := false
	{
		// from CloseW along the err == nil edge
		seen := map[*ssa.BasicBlock]bool{}
		var walk func(b *ssa.BasicBlock, from int)
		walk = func(b *ssa.BasicBlock, from int) {
			if from == 0 {
				if seen[b] {
					return
				}
				seen[b] = true
			}
			for _, in := range b.Instrs[from:] {
				if isFlush(in) {
					return
				}
				if isReturn(in) {
					miss = true
					return
				}
			}
			if ifi, ok := b.Instrs[len(b.Instrs)-1].(*ssa.If); ok {
				for k, s := range b.Succs {
					a := atomOf(ifi.Cond, k == 0)
					if a.Kind == "errnil" && !a.Val {
						continue
					}
					walk(s, 0)
				}
				return
			}
			for _, s := range b.Succs {
				walk(s, 0)
			}
		}
		walk(closeWInner.Block(), idxOf(closeWInner)+1)
		if miss && closeWInner != closeW {
			// the helper returns without the transition: the caller may perform it after the call
			miss = false
			seen = map[*ssa.BasicBlock]bool{}
			walk(closeW.Block(), idxOf(closeW)+1)
		}
	}
	sets := fieldValueSets(fn, "CompressingReader.state", 8)
	sAt := sets[closeW.Block()]
	c.Cond(!miss && sAt.equal(vset{{1, 1}}), "R18.2", "CompressingReader.Read#trailer-at-transition", p.InstrPos(closeW), "CloseW runs only in the Reading state and, when it succeeds, the state becomes Flushing on every path (one trailer per frame)", "state set at CloseW = {Reading}; every success path stores Flushing", fmt.Sprintf("state set at CloseW: %s; a success path returns without entering Flushing: %v", sAt, miss))
	// R18.3
	unh, _ := errSentinel(p, "ErrInternalUnhandledState")
	found := false
	allInstrs(fn, func(in ssa.Instruction) {
		mi, ok := in.(*ssa.MakeInterface)
		if !ok {
			return
		}
		for _, s := range sentinelsIn(mi) {
			if s == unh {
				found = true
				got := sets[in.Block()].intersect(vset{{0, 3}})
				c.Cond(len(got) == 0, "R18.3", "CompressingReader.Read#unhandled-state", p.InstrPos(in), "the ErrInternalUnhandledState exit is unreachable in the four defined states", "state set at the exit is empty within 0..3", "the exit is reachable with state in "+got.String())
			}
		}
	})
	if !found {
		c.OK("R18.3", "CompressingReader.Read#unhandled-state", p.Pos(fn.Pos()), "no unhandled-state exit", "none present", false)
	}
	// R18.4 synthetic EOF
	nEOF := 0
	allInstrs(fn, func(in ssa.Instruction) {
		u, ok := in.(*ssa.UnOp)
		if !ok || !isGlobalLoad(u, "io", "EOF") {
			return
		}
		valueUse := false
		for _, r := range *u.Referrers() {
			if _, isB := r.(*ssa.BinOp); !isB {
				valueUse = true
			}
		}
		if !valueUse {
			return
		}
		nEOF++
		s := sets[in.Block()]
		drained := false
		for _, l := range guardsOf(in.Block()) {
			if b, isB := l.Cond.(*ssa.BinOp); isB && loadField(b.X) == "ovWriter.dataPos" {
				if k, isK := constUint(b.Y); isK && k == 0 && ((b.Op == token.GTR && !l.Val) || (b.Op == token.EQL && l.Val) || (b.Op == token.LEQ && l.Val)) {
					drained = true
				}
			}
		}
		c.Cond(s.equal(vset{{2, 2}}) && drained, "R18.4", "CompressingReader.Read#eof-only-when-drained", p.InstrPos(in), "io.EOF is returned only in the Flushing state when no buffered output remains", "state set {Flushing}; guarded by dataPos == 0", fmt.Sprintf("state set %s; guarded by dataPos == 0: %v", s, drained))
	})
	if nEOF == 0 {
		c.Fail("R18.4", "CompressingReader.Read#eof-only-when-drained", p.Pos(fn.Pos()), "the stream ends with io.EOF", "no io.EOF result in Read")
	}
	// R18.5
	for _, name := range []string{"ovWriter.reset", "ovWriter.clear"} {
		f := findFn(c, p, "R18.5", "", name)
		if f == nil {
			continue
		}
		bad := ""
		var walk func(b *ssa.BasicBlock, rew, trunc bool, seen map[*ssa.BasicBlock]bool)
		walk = func(b *ssa.BasicBlock, rew, trunc bool, seen map[*ssa.BasicBlock]bool) {
			if seen[b] {
				return
			}
			seen[b] = true
			defer delete(seen, b)
			for _, in := range b.Instrs {
				if st, ok := in.(*ssa.Store); ok {
					switch lastField(st.Addr) {
					case "ovWriter.ovPos":
						if k, isK := constUint(st.Val); isK && k == 0 {
							rew = true
						}
					case "ovWriter.ov":
						if sl, isSl := st.Val.(*ssa.Slice); isSl && sl.High != nil {
							if k, isK := constUint(sl.High); isK && k == 0 {
								trunc = true
							}
						}
					}
				}
				if isReturn(in) && rew && !trunc {
					bad = p.InstrPos(in)
				}
			}
			for _, s := range b.Succs {
				walk(s, rew, trunc, seen)
			}
		}
		walk(f.Blocks[0], false, false, map[*ssa.BasicBlock]bool{})
		c.Cond(bad == "", "R18.5", name+"#rewind-pairs-with-truncate", p.Pos(f.Pos()), "whenever the overflow read position is rewound to 0 the overflow buffer is emptied on the same path (otherwise already delivered bytes are replayed)", "all paths pair ovPos = 0 with ov = ov[:0]", "a path to the return at "+bad+" sets ovPos = 0 without truncating ov: stale overflow bytes would be delivered again")
	}
	// R18.6
	if in := p.Func("", "CompressingReader.init"); in != nil {
		okInit := false
		for _, ci := range callsIn(in) {
			if calleeIs(ci, pkgStream, "Frame.InitW") {
				a := ci.Common().Args
				k, isK := constUint(a[2])
				l, isL := a[3].(*ssa.Const)
				if isK && k == 1 && isL && l.Value != nil && !constant.BoolVal(l.Value) {
					okInit = true
				}
			}
		}
		hdr := false
		for _, ci := range callsIn(in) {
			if calleeIs(ci, pkgStream, "FrameDescriptor.Write") {
				hdr = true
			}
		}
		c.Cond(okInit && hdr, "R18.6", "CompressingReader.init#frame", p.Pos(in.Pos()), "the compressing reader builds a sequential, non-legacy frame and writes the header into its output adapter before any block", "InitW(out, 1, false); Descriptor.Write", fmt.Sprintf("InitW(…,1,false): %v; header written: %v", okInit, hdr))
	}
	c.RuleDoc["R18.7"] = "the output adapter is rewound before every error-free return that follows reset(p)"
	ruleDoneOnEveryError(c, p, "R18.13")
	c.RuleDoc["R18.13"] = "every failing Read ends the compressing reader (the deferred epilogue skips the transition only when err == nil)"
	ruleNoDoubleRelease(c, p, "R18.14", "CompressingReader")
	c.RuleDoc["R18.14"] = "= R08.16 for the compressing reader's input buffer"
	ruleSizeOptionArms(c, p, "R18.12", "CompressingReader")
	c.RuleDoc["R18.12"] = "SizeOption sets flag and size unconditionally for the compressing reader as for the Writer"
	ruleAdapterAccounting(c, p, "R18.11")
	c.RuleDoc["R18.11"] = "byte accounting of the output adapter (bounds prover): Write adds exactly len(p) pending bytes, reset consumes exactly len(out) or none, clear leaves none; positions stay inside their slices"
	ruleRawFlagPairing(c, p, "R18.19")
	c.RuleDoc["R18.19"] = "= R02.8: the raw flag of a block is set or cleared on every path, to match the bytes stored (the compressing reader reuses one block object for the whole frame)"
	ruleTrailerLayout(c, p, "R18.20")
	c.RuleDoc["R18.20"] = "= R09.5: the trailer is the end mark followed by the checksum only when declared"
	ruleCompressingReaderProgress(c, p, "R18.21")
	c.RuleDoc["R18.21"] = "a Read of the compressing reader that returns without error has read the source or delivers bytes known to be pending"
	ruleOptionWritesUnconditional(c, p, "R18.22", "CompressingReader")
	c.RuleDoc["R18.22"] = "= R14.17: an applied option writes what it configures, and only on every successful path (ChecksumOption does not depend on, or touch conditionally, the block checksum flag)"
	ruleCompressingReaderReset(c, p, "R18.17")
	c.RuleDoc["R18.17"] = "CompressingReader.Reset re-arms frame, state and source on every path"
	ruleApplyOnlyInitial(c, p, "R18.16")
	c.RuleDoc["R18.16"] = "CompressingReader.Apply acts only in the Initial state"
	c.RuleDoc["R18.18"] = "a source error other than the end of input is passed through unchanged (the error result is not assigned again on those paths)"
	c.RuleDoc["R18.15"] = "the source's end-of-input error is consumed by the end-of-source branch (the error result is assigned again before any return)"
	ruleNoEmptyBlock(c, p, "R18.10", "CompressingReader")
	c.RuleDoc["R18.10"] = "no empty data block is emitted by the compressing reader"
	ruleNestedRearm(c, p, "R18.9")
	c.RuleDoc["R18.9"] = "the overflow writer is re-initialised completely at the start of a stream: positions zeroed, overflow bytes dropped"
	c.RuleDoc["R18.8"] = "the input buffer is re-fetched from the current block size at frame start"
	ruleAdapterRewound(c, p, "R18.7")
	ruleBuffersRefetched(c, p, "R18.8", "CompressingReader")
}

// fieldValueSets tracks the possible constant values of a struct field through
// a function: stores of constants assign, comparisons on loads refine (a load
// stays valid across blocks until the field may be written), any other store
// or any call that may write the field yields the full set.
func fieldValueSets(fn *ssa.Function, field string, width uint) map[*ssa.BasicBlock]vset {
	in := map[*ssa.BasicBlock]vset{}
	inLoads := map[*ssa.BasicBlock]map[ssa.Value]bool{}
	type item struct {
		b     *ssa.BasicBlock
		s     vset
		loads map[ssa.Value]bool
	}
	work := []item{{fn.Blocks[0], fullSet(width), map[ssa.Value]bool{}}}
	visited := map[*ssa.BasicBlock]bool{}
	wcache := map[*ssa.Function]bool{}
	writes := func(f *ssa.Function) bool {
		if f == nil || f.Blocks == nil {
			return false
		}
		if v, ok := wcache[f]; ok {
			return v
		}
		w := false
		for _, g := range withAnon(f) {
			allInstrs(g, func(i ssa.Instruction) {
				if st, ok := i.(*ssa.Store); ok && lastField(st.Addr) == field {
					w = true
				}
			})
		}
		wcache[f] = w
		return w
	}
	for steps := 0; len(work) > 0 && steps < 100000; steps++ {
		it := work[len(work)-1]
		work = work[:len(work)-1]
		old := in[it.b]
		nu := old.union(it.s)
		// loads valid on entry: intersection over incoming states
		nl := map[ssa.Value]bool{}
		if visited[it.b] {
			for v := range inLoads[it.b] {
				if it.loads[v] {
					nl[v] = true
				}
			}
		} else {
			for v := range it.loads {
				nl[v] = true
			}
		}
		if visited[it.b] && nu.equal(old) && len(nl) == len(inLoads[it.b]) {
			continue
		}
		visited[it.b] = true
		in[it.b] = nu
		inLoads[it.b] = nl
		cur := it.s // path-sensitive value for refinement along this edge
		loads := map[ssa.Value]bool{}
		for v := range it.loads {
			loads[v] = true
		}
		for _, i := range it.b.Instrs {
			switch x := i.(type) {
			case *ssa.UnOp:
				if x.Op == token.MUL && lastField(x.X) == field {
					loads[x] = true
				}
			case *ssa.Store:
				if lastField(x.Addr) == field {
					if k, isK := constUint(x.Val); isK {
						cur = vset{{k, k}}
					} else {
						cur = fullSet(width)
					}
					loads = map[ssa.Value]bool{}
				}
			case ssa.CallInstruction:
				if _, isDefer := x.(*ssa.Defer); isDefer {
					continue
				}
				if writes(staticCallee(x)) {
					cur = fullSet(width)
					loads = map[ssa.Value]bool{}
				}
			}
		}
		cp := func() map[ssa.Value]bool {
			m := map[ssa.Value]bool{}
			for v := range loads {
				m[v] = true
			}
			return m
		}
		if ifi, ok := it.b.Instrs[len(it.b.Instrs)-1].(*ssa.If); ok && len(it.b.Succs) == 2 {
			if ps, ok := predSetAlias(ifi.Cond, func(v ssa.Value) bool { return loads[stripSameWidth(v)] }, width); ok {
				if t := cur.intersect(ps); len(t) > 0 {
					work = append(work, item{it.b.Succs[0], t, cp()})
				}
				if f := cur.intersect(ps.complement(width)); len(f) > 0 {
					work = append(work, item{it.b.Succs[1], f, cp()})
				}
				continue
			}
		}
		for _, s := range it.b.Succs {
			work = append(work, item{s, cur, cp()})
		}
	}
	return in
}


// reachWithFacts: the blocks reachable from the entry when the edges selected by
// skip are deleted. The walk remembers, per path, the outcome of the conditions it
// has passed (a condition value, or "this error variable is nil") and follows only
// the consistent edge when the same question is asked again: `done := err != nil`
// tested twice, or an error variable (an SSA value or a cell nobody has stored to
// in between) compared with nil after a switch has already decided it.
func reachWithFacts(fn *ssa.Function, skip func(b *ssa.BasicBlock, k int) bool) map[*ssa.BasicBlock]bool {
	type factKey struct {
		v    ssa.Value // condition value, or the error value / cell
		kind byte      // 'c' condition, 'n' nil-ness of value, 'm' nil-ness of the content of a cell
	}
	nilKey := func(v ssa.Value) (factKey, bool) {
		if ld, ok := v.(*ssa.UnOp); ok && ld.Op == token.MUL {
			switch ld.X.(type) {
			case *ssa.Alloc, *ssa.FreeVar:
				return factKey{ld.X, 'm'}, true
			}
		}
		if _, isK := v.(*ssa.Const); isK {
			return factKey{}, false
		}
		return factKey{v, 'n'}, true
	}
	// cond -> (key, polarity): cond true means key is `polarity`
	var keyOf func(cond ssa.Value) (factKey, bool, bool)
	keyOf = func(cond ssa.Value) (factKey, bool, bool) {
		switch x := cond.(type) {
		case *ssa.UnOp:
			if x.Op == token.NOT {
				k, pol, ok := keyOf(x.X)
				return k, !pol, ok
			}
		case *ssa.BinOp:
			if x.Op == token.EQL || x.Op == token.NEQ {
				for _, pr := range [][2]ssa.Value{{x.X, x.Y}, {x.Y, x.X}} {
					if isNilConst(pr[1]) {
						if k, ok := nilKey(pr[0]); ok {
							return k, x.Op == token.EQL, true
						}
					}
				}
			}
		}
		return factKey{cond, 'c'}, true, true
	}
	type state struct {
		b     *ssa.BasicBlock
		facts string
	}
	seenState := map[state]bool{}
	reached := map[*ssa.BasicBlock]bool{}
	encode := func(f map[factKey]bool) string {
		var parts []string
		for k, v := range f {
			parts = append(parts, fmt.Sprintf("%p/%c=%v", k.v, k.kind, v))
		}
		sort.Strings(parts)
		return strings.Join(parts, ";")
	}
	var walk func(b *ssa.BasicBlock, facts map[factKey]bool, steps *int)
	walk = func(b *ssa.BasicBlock, facts map[factKey]bool, steps *int) {
		*steps++
		if *steps > 20000 {
			// give up the precision: everything reachable in the plain graph counts
			for _, bb := range fn.Blocks {
				reached[bb] = true
			}
			return
		}
		st := state{b, encode(facts)}
		if seenState[st] {
			return
		}
		seenState[st] = true
		reached[b] = true
		cur := map[factKey]bool{}
		for k, v := range facts {
			cur[k] = v
		}
		for _, in := range b.Instrs {
			if s, ok := in.(*ssa.Store); ok {
				delete(cur, factKey{s.Addr, 'm'})
			}
			// a value computed again (next loop iteration) is a new question
			if v, ok := in.(ssa.Value); ok {
				delete(cur, factKey{v, 'c'})
				delete(cur, factKey{v, 'n'})
			}
		}
		ifi, isIf := b.Instrs[len(b.Instrs)-1].(*ssa.If)
		for k, s := range b.Succs {
			if skip(b, k) {
				continue
			}
			next := cur
			if isIf && len(b.Succs) == 2 {
				cond := ifi.Cond
				// a boolean phi cannot be keyed by path here: leave it undecided
				if _, isPhi := cond.(*ssa.Phi); !isPhi {
					key, pol, ok := keyOf(cond)
					if ok {
						want := pol == (k == 0)
						if known, has := cur[key]; has && known != want {
							continue
						}
						next = map[factKey]bool{}
						for kk, vv := range cur {
							next[kk] = vv
						}
						next[key] = want
					}
				}
			}
			walk(s, next, steps)
		}
	}
	steps := 0
	if len(fn.Blocks) > 0 {
		walk(fn.Blocks[0], map[factKey]bool{}, &steps)
	}
	return reached
}

// R18.16: options reach a CompressingReader only before it has produced
// anything. Apply starts by resetting the adapter (frame, buffers, output
// window), so accepting it in the Reading or Flushing state drops or
// duplicates part of the stream already handed out.
func ruleApplyOnlyInitial(c *Check, p *Program, rule string) {
	fn := findFn(c, p, rule, "", "CompressingReader.Apply")
	if fn == nil {
		return
	}
	sets := fieldValueSets(fn, "CompressingReader.state", 8)
	n := 0
	bad := ""
	var badSet vset
	hasReset := false
	for _, ci := range callsIn(fn) {
		if calleeIs(ci, pkgRoot, "CompressingReader.Reset") {
			hasReset = true
		}
	}
	for _, g := range []*ssa.Function{fn} {
		for _, ci := range callsIn(g) {
			// the reset of the object, and the invocation of an option (a call of a value of the Option type)
			isReset := calleeIs(ci, pkgRoot, "CompressingReader.Reset")
			isOpt := false
			if !ci.Common().IsInvoke() && staticCallee(ci) == nil {
				if nt, ok := ci.Common().Value.Type().(*types.Named); ok && nt.Obj().Name() == "Option" {
					isOpt = true
				}
			}
			if !isReset && !isOpt {
				continue
			}
			if isOpt && hasReset {
				continue // the options run after the reset, which is the site judged (a call hides the field from the value sets)
			}
			n++
			c.Sites++
			s := sets[ci.Block()]
			if !s.equal(vset{{0, 0}}) && bad == "" {
				bad, badSet = p.InstrPos(ci), s
			}
		}
	}
	if n == 0 {
		c.Fail(rule, "CompressingReader.Apply#only-in-initial-state", p.Pos(fn.Pos()), "the option loop of Apply is resolved", "no call of Reset or of an Option value in Apply (anchor unresolved)")
		return
	}
	c.Cond(bad == "", rule, "CompressingReader.Apply#only-in-initial-state", p.Pos(fn.Pos()), "Apply resets the object and runs the options only in the Initial state (before the first Read)", fmt.Sprintf("%d site(s), state set {Initial} at each", n), "the site at "+bad+" is reachable with the state in "+badSet.String()+": options (and the reset Apply starts with) take effect in the middle of a frame already being handed out")
}

// R18.17: CompressingReader.Reset re-arms the frame and its own state on every
// path. Frame.Reset is what clears the "header already written" latch
// (Descriptor.Checksum) and the magic: skipping it for a finished frame makes
// the next frame start without magic and descriptor.
func ruleCompressingReaderReset(c *Check, p *Program, rule string) {
	fn := findFn(c, p, rule, "", "CompressingReader.Reset")
	if fn == nil {
		return
	}
	onAll := func(hit func(ssa.Instruction) bool) bool {
		miss, _ := reachAvoid(fn, nil, isReturn, hit)
		return !miss
	}
	frame := onAll(func(in ssa.Instruction) bool {
		ci, ok := in.(ssa.CallInstruction)
		return ok && (calleeIs(ci, pkgStream, "Frame.Reset") || callReaches(ci, func(x ssa.CallInstruction) bool { return calleeIs(x, pkgStream, "Frame.Reset") }))
	})
	state := onAll(func(in ssa.Instruction) bool {
		st, ok := in.(*ssa.Store)
		if !ok || lastField(st.Addr) != "CompressingReader.state" {
			return false
		}
		k, isK := constUint(st.Val)
		return isK && k == 0
	})
	src := false
	allInstrs(fn, func(in ssa.Instruction) {
		if st, ok := in.(*ssa.Store); ok && lastField(st.Addr) == "CompressingReader.src" {
			if _, isP := st.Val.(*ssa.Parameter); isP {
				src = true
			}
		}
	})
	c.Sites++
	c.Cond(frame && state && src, rule, "CompressingReader.Reset#rearms", p.Pos(fn.Pos()), "Reset resets the frame (magic, header latch, block) and the reader's state on every path, whatever state it is called in, and installs the new source", "frame.Reset(), state = Initial, src = argument on all paths", fmt.Sprintf("frame.Reset on all paths: %v, state = Initial on all paths: %v, src stored: %v - a frame that skips the frame reset keeps the 'header already written' latch: the next frame has no magic and no descriptor", frame, state, src))
}

// R18.21 progress of the compressing reader: a Read that could not serve the caller from the overflow alone does
// not come back with (n, nil) unless it has consulted the source in this call or is delivering bytes it has checked
// to be there (the `dataPos > 0` test of the flushing state). A return path that does neither can hand back (0, nil)
// for ever - a caller that loops until io.EOF never ends. Decided by a walk of the function's control flow from the
// accepting edge of the overflow replay, carrying (an error is known to be pending, the source was read).
func ruleCompressingReaderProgress(c *Check, p *Program, rule string) {
	fn := findFn(c, p, rule, "", "CompressingReader.Read")
	if fn == nil {
		return
	}
	key := "CompressingReader.Read#progress"
	desc := "after the overflow replay, every return without an error has read the source in this call, or delivers bytes known to be pending"
	errCell, _ := resultCell(fn)
	if errCell == nil {
		c.Unknown(rule, key, p.Pos(fn.Pos()), desc, "the error result of Read is not a named result held in a cell (shape not recognised)")
		return
	}
	readsSource := func(in ssa.Instruction) bool {
		ci, ok := in.(ssa.CallInstruction)
		if !ok {
			return false
		}
		isSrcRead := func(x ssa.CallInstruction) bool {
			if !(calleeIs(x, "io", "ReadFull") || calleeIs(x, "io", "ReadAtLeast")) && !(x.Common().IsInvoke() && x.Common().Method.Name() == "Read") {
				return false
			}
			if x.Common().IsInvoke() {
				return loadField(x.Common().Value) == "CompressingReader.src"
			}
			a := x.Common().Args[0]
			if mi, isMI := a.(*ssa.ChangeInterface); isMI {
				a = mi.X
			}
			return loadField(a) == "CompressingReader.src"
		}
		return isSrcRead(ci) || callReaches(ci, isSrcRead)
	}
	// start: the successor of the replay test on which reading continues
	var starts []*ssa.BasicBlock
	for _, ci := range callsIn(fn) {
		f := staticCallee(ci)
		if f == nil || recvTypeName(f) != "ovWriter" || f.Signature.Results().Len() != 1 {
			continue
		}
		v := ci.Value()
		if v == nil || v.Referrers() == nil {
			continue
		}
		b := ci.Block()
		if ifi, ok := b.Instrs[len(b.Instrs)-1].(*ssa.If); ok && len(b.Succs) == 2 {
			at := atomOf(ifi.Cond, true)
			if at.Kind == "call" && at.V == ssa.Value(v) {
				// the edge on which the function does not return len(p) at once
				for k, s := range b.Succs {
					direct := false
					for _, in := range s.Instrs {
						if _, isR := in.(*ssa.Return); isR {
							direct = true
						}
					}
					_ = k
					if !direct {
						starts = append(starts, s)
					}
				}
			}
		}
	}
	if len(starts) == 0 {
		c.Unknown(rule, key, p.Pos(fn.Pos()), desc, "the overflow replay test at the start of Read is not recognised")
		return
	}
	type st struct {
		b           *ssa.BasicBlock
		pend, event bool
	}
	seen := map[st]bool{}
	var bad []string
	var walk func(s st)
	walk = func(s st) {
		if seen[s] {
			return
		}
		seen[s] = true
		pend, event := s.pend, s.event
		for _, in := range s.b.Instrs {
			if readsSource(in) {
				event = true
			}
			if sto, ok := in.(*ssa.Store); ok && sto.Addr == ssa.Value(errCell) {
				switch x := sto.Val.(type) {
				case *ssa.Const:
					pend = !x.IsNil()
				case *ssa.MakeInterface:
					pend = true
				case *ssa.UnOp:
					_, isG := x.X.(*ssa.Global)
					pend = isG && x.Op == token.MUL
				case *ssa.Call:
					pend = calleeIs(x, "errors", "New") || calleeIs(x, "fmt", "Errorf")
				default:
					pend = false
				}
			}
			if r, ok := in.(*ssa.Return); ok {
				if !pend && !event {
					bad = append(bad, p.InstrPos(r))
				}
				return
			}
		}
		ifi, isIf := s.b.Instrs[len(s.b.Instrs)-1].(*ssa.If)
		for k, nx := range s.b.Succs {
			np, ne := pend, event
			if isIf && len(s.b.Succs) == 2 {
				at := atomOf(ifi.Cond, k == 0)
				if at.Kind == "errnil" {
					if ld, isL := at.V.(*ssa.UnOp); isL && ld.X == ssa.Value(errCell) {
						np = !at.Val
					}
				}
				// bytes known to be pending: dataPos > 0 (or != 0)
				if bo, isB := ifi.Cond.(*ssa.BinOp); isB && loadField(bo.X) == "ovWriter.dataPos" {
					if k0, isK := constUint(bo.Y); isK && k0 == 0 {
						if (bo.Op == token.GTR || bo.Op == token.NEQ) && k == 0 {
							ne = true
						}
						if (bo.Op == token.EQL || bo.Op == token.LEQ) && k == 1 {
							ne = true
						}
					}
				}
			}
			walk(st{nx, np, ne})
		}
	}
	for _, b := range starts {
		walk(st{b, false, false})
	}
	c.Sites++
	c.Cond(len(bad) == 0, rule, key, p.Pos(fn.Pos()), desc, fmt.Sprintf("%d (block, pending, read) states walked", len(seen)), "return(s) at "+strings.Join(bad, ", ")+" reachable with no error pending, without a read of the source and without a test that bytes are pending: Read can return (0, nil) on every call and a caller reading until io.EOF never terminates")
}
