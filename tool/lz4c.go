package main

import (
	"fmt"
	"os"
	"path/filepath"
	"strings"
)

// loadLz4c copies cmd/lz4c to a scratch directory, points its library
// dependency at the analysed tree and loads it. The scratch copy is removed
// before returning.
func loadLz4c() (*Program, string, error) {
	src := filepath.Join(repoDir, "cmd", "lz4c")
	tmp, err := os.MkdirTemp("", "lz4verif-lz4c-")
	if err != nil {
		return nil, "", err
	}
	defer os.RemoveAll(tmp)
	ents, err := os.ReadDir(src)
	if err != nil {
		return nil, "", err
	}
	n := 0
	for _, e := range ents {
		name := e.Name()
		if e.IsDir() || !(strings.HasSuffix(name, ".go") || name == "go.mod" || name == "go.sum") || strings.HasSuffix(name, "_test.go") {
			continue
		}
		b, err := os.ReadFile(filepath.Join(src, name))
		if err != nil {
			return nil, "", err
		}
		if name == "go.mod" {
			b = append(b, []byte(fmt.Sprintf("\nreplace %s => %s\n", modPath, repoDir))...)
		}
		if err := os.WriteFile(filepath.Join(tmp, name), b, 0o644); err != nil {
			return nil, "", err
		}
		n++
	}
	p, err := LoadDir(tmp, cfgAMD64, 1)
	if err != nil {
		return nil, "", err
	}
	// which library did it resolve to?
	resolved := ""
	for path, sp := range p.Prog.ImportedPackage(modPath).Pkg.Imports() {
		_, _ = path, sp
	}
	if lp := p.Prog.ImportedPackage(modPath); lp != nil {
		for _, m := range lp.Members {
			if pos := m.Pos(); pos.IsValid() {
				resolved = filepath.Dir(p.Fset.Position(pos).Filename)
				break
			}
		}
	}
	return p, resolved, nil
}
