package main

import (
	"fmt"
	"go/constant"
	"go/token"
	"go/types"
	"sort"
	"strings"

	"golang.org/x/tools/go/ssa"
)

// Rules added after the second round of seeded changes.

// ---------------------------------------------------------------------------
// R11.7: CompressBlockBound(n) >= n + n/255 + 16 (the reference worst case of
// an LZ4 block: one length byte per 255 literals plus token and slack), decided
// by the bounds prover on the function's SSA; division and shifts by constants
// are modelled exactly (y*q <= x <= y*q + y - 1).

func ruleBoundFormula(c *Check, p *Program, rule string) {
	if !bndArch() {
		return
	}
	fn := findFn(c, p, rule, "internal/lz4block", "CompressBlockBound")
	if fn == nil {
		return
	}
	if len(fn.Params) != 1 {
		c.Unknown(rule, "CompressBlockBound#worst-case", p.Pos(fn.Pos()), "the bound covers the worst case of a literal-only block", "unexpected signature")
		return
	}
	coll := newCollector()
	prm := fn.Params[0]
	goPre = func(g *goProg, a *AbsState) {
		n := a.vals[vkey(prm)]
		a.st.le(n.Neg())
		a.st.le(n.Sub(linK(lenLimit())))
	}
	hooks := goHooks{onReturn: func(g *goProg, a *AbsState, r *ssa.Return) {
		if len(r.Results) != 1 {
			return
		}
		n := a.vals[vkey(prm)]
		ret := g.val(a, r.Results[0])
		// ret >= n + floor(n/255) + 16  <=  255*(ret-n-16) >= n-254
		need := n.AddK(-254).Sub(ret.Sub(n).AddK(-16).Scale(qi(255))) // <= 0
		g.coll.check("bound", "CompressBlockBound#worst-case", g.prog.InstrPos(r), "CompressBlockBound(n) >= n + n/255 + 16 for every 0 <= n (a literal-only block of n bytes needs that much)", a.st.entails(need), func() string {
			st, mx := a.st.max(need)
			return fmt.Sprintf("cannot show 255*(result-n-16) >= n-254: max violation %v/%s (result = %s)", st, mx.String(), ret.Str(g.tab))
		})
	}}
	lp0 := lpCount
	res, _, err := analyseGoFunc(p, fn, "CompressBlockBound", nil, hooks, coll)
	c.LPQ += lpCount - lp0
	if err != nil {
		c.TroubleF("CompressBlockBound: %v", err)
		return
	}
	if res.trouble != "" {
		c.TroubleF("CompressBlockBound: %s", res.trouble)
	}
	if emitObls(c, coll, "", map[string]string{"bound": rule}) == 0 {
		c.Unknown(rule, "CompressBlockBound#worst-case", p.Pos(fn.Pos()), "the bound covers the worst case of a literal-only block", "no return reached by the analysis")
	}
}

// ---------------------------------------------------------------------------
// R18.7: every path of CompressingReader.Read that hands bytes to the caller
// after the output adapter was pointed at the caller's buffer rewinds the
// adapter (dataPos = 0) first; otherwise the next call would continue at a
// stale position inside a different buffer.

func ruleAdapterRewound(c *Check, p *Program, rule string) {
	fn := findFn(c, p, rule, "", "CompressingReader.Read")
	if fn == nil {
		return
	}
	key := "CompressingReader.Read#adapter-rewound-before-return"
	desc := "after ovWriter.reset(p) accepted the caller's buffer, every return that may deliver bytes without an error first rewinds the adapter (out.dataPos = 0)"
	var resetCall *ssa.Call
	for _, ci := range callsIn(fn) {
		if f := staticCallee(ci); f != nil && shortFn(f) == "ovWriter.reset" {
			if cc, ok := ci.(*ssa.Call); ok {
				resetCall = cc
			}
		}
	}
	if resetCall == nil {
		c.Unknown(rule, key, p.Pos(fn.Pos()), desc, "call of ovWriter.reset not found")
		return
	}
	// successor taken when reset returned true
	var start *ssa.BasicBlock
	b := resetCall.Block()
	if ifi, ok := b.Instrs[len(b.Instrs)-1].(*ssa.If); ok {
		switch cv := ifi.Cond.(type) {
		case *ssa.Call:
			if cv == resetCall {
				start = b.Succs[0]
			}
		case *ssa.UnOp:
			if cv.Op == token.NOT && cv.X == ssa.Value(resetCall) {
				start = b.Succs[1]
			}
		}
	}
	if start == nil {
		c.Unknown(rule, key, p.InstrPos(resetCall), desc, "the result of ovWriter.reset does not govern a branch directly")
		return
	}
	// named result cell of the error
	var errCell *ssa.Alloc
	allInstrs(fn, func(in ssa.Instruction) {
		if al, ok := in.(*ssa.Alloc); ok && al.Comment == "err" {
			errCell = al
		}
	})
	rewindStore := func(in ssa.Instruction) bool {
		st, ok := in.(*ssa.Store)
		if !ok || lastField(st.Addr) != "ovWriter.dataPos" {
			return false
		}
		k, isK := constUint(st.Val)
		return isK && k == 0
	}
	isRewind := func(in ssa.Instruction) bool {
		if rewindStore(in) {
			return true
		}
		// a helper (method of the adapter or of the reader) that rewinds on all its paths
		if ci, ok := in.(*ssa.Call); ok {
			if f := staticCallee(ci); f != nil && f.Pkg != nil && f.Pkg.Pkg.Path() == modPath && f != fn && shortFn(f) != "ovWriter.reset" {
				ok, _ := mustOnAllPaths(p, f, rewindStore, false, 1)
				return ok
			}
		}
		return false
	}
	isErrSet := func(in ssa.Instruction) bool {
		st, ok := in.(*ssa.Store)
		if !ok || errCell == nil || st.Addr != ssa.Value(errCell) {
			return false
		}
		return !mayBeNilErr(st.Val, st.Block())
	}
	seen := map[*ssa.BasicBlock]bool{}
	var bad []string
	var walk func(b *ssa.BasicBlock, trail []string)
	walk = func(b *ssa.BasicBlock, trail []string) {
		if seen[b] {
			return
		}
		seen[b] = true
		trail = append(trail, fmt.Sprintf("block %d (%s)", b.Index, b.Comment))
		for _, in := range b.Instrs {
			if isRewind(in) || isErrSet(in) {
				return
			}
			if r, ok := in.(*ssa.Return); ok {
				if len(r.Results) == 2 && !mayBeNilErr(r.Results[1], r.Block()) {
					return
				}
				bad = append(bad, p.InstrPos(in)+" via "+strings.Join(trail, " -> "))
				return
			}
		}
		if ifi, ok := b.Instrs[len(b.Instrs)-1].(*ssa.If); ok {
			for k, s := range b.Succs {
				a := atomOf(ifi.Cond, k == 0)
				if a.Kind == "errnil" && !a.Val {
					continue // an error is pending on this edge: the stream is finished
				}
				walk(s, trail)
			}
			return
		}
		for _, s := range b.Succs {
			walk(s, trail)
		}
	}
	walk(start, nil)
	sort.Strings(bad)
	c.Cond(len(bad) == 0, rule, key, p.InstrPos(resetCall), desc, fmt.Sprintf("%d block(s) walked; every error-free return is preceded by out.dataPos = 0", len(seen)), "an error-free return is reachable with the adapter still pointing into the caller's buffer: "+strings.Join(bad, "; "))
}


// mustOnAllPaths reports whether every path of fn from the entry to a return
// (success paths only when successOnly: edges on which an error is known to be
// pending, and returns of a certainly non-nil error, are not followed) executes
// an instruction satisfying hit, directly or inside a statically resolved
// module callee that itself does so on every one of its paths (helpers that a
// refactoring may have extracted). Returns the position of an offending return.
func mustOnAllPaths(p *Program, fn *ssa.Function, hit func(ssa.Instruction) bool, successOnly bool, depth int) (bool, string) {
	if fn == nil || len(fn.Blocks) == 0 {
		return false, "(no body)"
	}
	return mustFromBlock(p, fn.Blocks[0], hit, successOnly, depth)
}

// mustFromBlock: like mustOnAllPaths, for the paths that start at block start.
func mustFromBlock(p *Program, start *ssa.BasicBlock, hit func(ssa.Instruction) bool, successOnly bool, depth int) (bool, string) {
	fn := start.Parent()
	hitOrCall := func(in ssa.Instruction) bool {
		if hit(in) {
			return true
		}
		if depth <= 0 {
			return false
		}
		if _, isRD := in.(*ssa.RunDefers); isRD {
			// the deferred calls registered on every path to this point run here
			for _, d := range deferredBefore(in) {
				if f := deferTarget(d); f != nil && inModule(f) && f != fn {
					if ok, _ := mustOnAllPaths(p, f, hit, false, depth-1); ok {
						return true
					}
				}
			}
			return false
		}
		if ci, ok := in.(ssa.CallInstruction); ok {
			if _, isGo := in.(*ssa.Go); isGo {
				return false
			}
			if _, isDefer := in.(*ssa.Defer); isDefer {
				return false
			}
			f := staticCallee(ci)
			if f == nil {
				if mc, isMC := ci.Common().Value.(*ssa.MakeClosure); isMC {
					f, _ = mc.Fn.(*ssa.Function)
				}
			}
			if f != nil && f.Pkg != nil && strings.HasPrefix(f.Pkg.Pkg.Path(), modPath) && f != fn {
				ok, _ := mustOnAllPaths(p, f, hit, false, depth-1)
				return ok
			}
		}
		return false
	}
	seen := map[*ssa.BasicBlock]bool{}
	bad := ""
	var walk func(b *ssa.BasicBlock)
	walk = func(b *ssa.BasicBlock) {
		if seen[b] || bad != "" {
			return
		}
		seen[b] = true
		for _, in := range b.Instrs {
			if hitOrCall(in) {
				return
			}
			if r, ok := in.(*ssa.Return); ok {
				if n := len(r.Results); successOnly && n > 0 && isErrorType(r.Results[n-1].Type()) && !mayBeNilErr(r.Results[n-1], r.Block()) {
					return
				}
				bad = p.InstrPos(in)
				return
			}
		}
		if ifi, ok := b.Instrs[len(b.Instrs)-1].(*ssa.If); ok {
			for k, s := range b.Succs {
				a := atomOf(ifi.Cond, k == 0)
				if successOnly && a.Kind == "errnil" && !a.Val {
					continue
				}
				walk(s)
			}
			return
		}
		for _, s := range b.Succs {
			walk(s)
		}
	}
	walk(start)
	return bad == "", bad
}

// ---------------------------------------------------------------------------
// R17.8 (also R14.8, R18.8, R02.10): a field that holds a block-sized buffer
// (it is assigned from BlockSizeIndex.Get somewhere) is assigned a fresh buffer
// of the frame's current block size on every success path of the object's init:
// otherwise a buffer of the previous frame's size survives Reset+Apply.

func isGetCall(v ssa.Value) bool {
	return derivesFromCall(v, func(f *ssa.Function) bool { return shortFn(f) == "BlockSizeIndex.Get" })
}

func ruleBuffersRefetched(c *Check, p *Program, rule string, owners ...string) {
	for _, owner := range owners {
		initFn, startBlk := frameStart(p, owner)
		if initFn == nil {
			c.Unknown(rule, owner+".init#block-buffers-refetched", "", "block-sized buffers are re-fetched at frame start", "neither "+owner+".init nor a method of "+owner+" that starts a frame (Frame.InitW / Frame.ParseHeaders) was found")
			continue
		}
		// fields of owner assigned from Get anywhere in the root package
		fields := map[string]bool{}
		for _, fn := range moduleFuncs(p, pkgRoot) {
			allInstrs(fn, func(in ssa.Instruction) {
				st, ok := in.(*ssa.Store)
				if !ok {
					return
				}
				f := lastField(st.Addr)
				if strings.HasPrefix(f, owner+".") && isGetCall(st.Val) {
					fields[f] = true
				}
			})
		}
		var fl []string
		for f := range fields {
			fl = append(fl, f)
		}
		sort.Strings(fl)
		if len(fl) == 0 {
			c.Fail(rule, owner+".init#block-buffers-refetched", p.Pos(initFn.Pos()), "block-sized buffers are re-fetched at frame start", "no field of "+owner+" is assigned from BlockSizeIndex.Get (confirmed by reading: one per object)")
			continue
		}
		// the size that dimensions the buffer is the one of the frame being started: in a dedicated init method the
		// block-size code is read only after the call that starts the frame (InitW may rewrite it for legacy
		// frames, ParseHeaders reads it from the stream)
		if initFn.Name() == "init" {
			starts := func(in ssa.Instruction) bool {
				ci, ok := in.(ssa.CallInstruction)
				if !ok {
					return false
				}
				isStart := func(x ssa.CallInstruction) bool {
					return calleeIs(x, pkgStream, "Frame.InitW") || calleeIs(x, pkgStream, "Frame.ParseHeaders")
				}
				return isStart(ci) || callReaches(ci, isStart)
			}
			readsSize := func(in ssa.Instruction) bool {
				ci, ok := in.(ssa.CallInstruction)
				return ok && calleeIs(ci, pkgStream, "DescriptorFlags.BlockSizeIndex")
			}
			early, _ := reachAvoid(initFn, nil, readsSize, starts)
			c.Cond(!early, rule, owner+".init#size-of-this-frame", p.Pos(initFn.Pos()), "the block-size code that dimensions the buffers is read after the frame has been started (InitW / ParseHeaders), so it is the code of this frame", "every path to the read passes the frame start", "the block-size code is read before the frame is started: for a legacy frame (8 MiB blocks) or after Reset the buffer is sized from a stale code and blocks are cut at the wrong size")
		}
		for _, f := range fl {
			f := f
			isStore := func(in ssa.Instruction) bool {
				st, ok := in.(*ssa.Store)
				return ok && lastField(st.Addr) == f && isGetCall(st.Val)
			}
			_, bad := mustFromBlock(p, startBlk, isStore, true, 2)
			c.Cond(bad == "", rule, owner+".init#refetches:"+f, p.Pos(initFn.Pos()), "every success path of "+owner+".init assigns "+f+" a buffer obtained from the current frame's BlockSizeIndex.Get (the buffer length is what Write/Read use as the block size)", "store of a Get() result on every success path", "the return at "+bad+" is reachable without assigning "+f+" from BlockSizeIndex.Get: a buffer sized for an earlier frame survives Reset and Apply(BlockSizeOption)")
		}
	}
}

// ---------------------------------------------------------------------------
// R17.9: per-stream cursor fields are re-initialised. A direct field of the
// object that the data path writes (not an option field) must be written on
// every success path of init or on every path of Reset; otherwise its value
// leaks from one stream into the next after Reset.

type rearmSpec struct {
	owner    string
	dataFns  []string          // methods of the data path
	exempt   map[string]string // field -> reason
}

var rearmSpecs = []rearmSpec{
	{"Writer", []string{"Writer.Write", "Writer.write", "Writer.Flush", "Writer.Close", "Writer.ReadFrom"}, map[string]string{}},
	{"Reader", []string{"Reader.Read", "Reader.read", "Reader.WriteTo"}, map[string]string{
		"Reader.dict": "the window of a finished frame is only reachable through offsets that a valid first block of the next frame cannot contain; it is trimmed to 64 KiB on the next update (see DESIGN.md, removed rule R16.5)",
		"Reader.num":  "known finding F19 is reported under R17.3 (option field written by Reader.init)",
	}},
	{"CompressingReader", []string{"CompressingReader.Read"}, map[string]string{}},
}

// fieldsTouched: direct fields of owner that fn (and its anonymous functions)
// stores to, or on whose address it calls a method (embedded struct values).
func fieldsTouched(fn *ssa.Function, owner string) map[string]bool {
	out := map[string]bool{}
	for _, f := range withAnon(fn) {
		allInstrs(f, func(in ssa.Instruction) {
			switch x := in.(type) {
			case *ssa.Store:
				if fa := ownerField(x.Addr, owner); fa != "" {
					out[fa] = true
				}
			case ssa.CallInstruction:
				cc := x.Common()
				if cc.IsInvoke() || len(cc.Args) == 0 {
					return
				}
				if sig := cc.Signature(); sig == nil || sig.Recv() == nil {
					return
				}
				if fa := ownerField(cc.Args[0], owner); fa != "" {
					if _, isFA := cc.Args[0].(*ssa.FieldAddr); isFA {
						out[fa] = true
					}
				}
			}
		})
	}
	return out
}

// ownerField: the direct field of owner that the address v lies in ("" if none).
func ownerField(v ssa.Value, owner string) string {
	for {
		switch x := v.(type) {
		case *ssa.FieldAddr:
			if n := typeName(x.X.Type()); n == owner {
				return owner + "." + fieldName(x.X.Type(), x.Field)
			}
			v = x.X
		case *ssa.IndexAddr:
			v = x.X
		default:
			return ""
		}
	}
}

func ruleStreamFieldsRearmed(c *Check, p *Program, rule string) {
	for _, sp := range rearmSpecs {
		initFn, startBlk := frameStart(p, sp.owner)
		resetFn := p.Func("", sp.owner+".Reset")
		if initFn == nil || resetFn == nil {
			c.Unknown(rule, sp.owner+"#stream-fields-rearmed", "", "per-stream fields are re-initialised", "init or Reset of "+sp.owner+" not found")
			continue
		}
		mut := map[string]bool{}
		for _, n := range sp.dataFns {
			fn := p.Func("", n)
			if fn == nil {
				c.Unknown(rule, sp.owner+"#stream-fields-rearmed", "", "per-stream fields are re-initialised", "data-path method "+n+" not found")
				continue
			}
			for f := range fieldsTouched(fn, sp.owner) {
				mut[f] = true
			}
		}
		var fl []string
		for f := range mut {
			fl = append(fl, f)
		}
		sort.Strings(fl)
		for _, f := range fl {
			f := f
			if why, ok := sp.exempt[f]; ok {
				c.OK(rule, sp.owner+"#rearmed:"+f, p.Pos(resetFn.Pos()), f+" is written by the data path and re-initialised at the start of the next stream", "listed exception: "+why, false)
				continue
			}
			touches := func(in ssa.Instruction) bool {
				switch x := in.(type) {
				case *ssa.Store:
					return ownerField(x.Addr, sp.owner) == f
				case ssa.CallInstruction:
					cc := x.Common()
					if cc.IsInvoke() || len(cc.Args) == 0 {
						return false
					}
					if _, isFA := cc.Args[0].(*ssa.FieldAddr); isFA && cc.Signature() != nil && cc.Signature().Recv() != nil {
						return ownerField(cc.Args[0], sp.owner) == f
					}
				}
				return false
			}
			allPaths := func(fn *ssa.Function, successOnly bool) (bool, string) {
				if fn == initFn {
					return mustFromBlock(p, startBlk, touches, successOnly, 2)
				}
				return mustOnAllPaths(p, fn, touches, successOnly, 2)
			}
			okI, badI := allPaths(initFn, true)
			okR, badR := allPaths(resetFn, false)
			c.Cond(okI || okR, rule, sp.owner+"#rearmed:"+f, p.Pos(resetFn.Pos()), f+" is written by the data path and re-initialised at the start of the next stream (every success path of init, or every path of Reset, writes it)", fmt.Sprintf("written on every success path of init: %v; on every path of Reset: %v", okI, okR), fmt.Sprintf("%s keeps its value from the previous stream: init returns at %s and Reset returns at %s without writing it", f, badI, badR))
		}
	}
}

// ---------------------------------------------------------------------------
// R13.6: the choice between the short-input seed (len + prime5) and the
// four-lane formula is made at exactly 16 bytes, in the one-shot and in the
// streaming code. The branch is identified by its content (the successor that
// adds prime5 to the accumulator), the threshold by evaluating the comparison.

func ruleXXHThreshold(c *Check, p *Program, rule string) {
	for _, name := range []string{"checksumZeroGo", "XXHZero.Sum32"} {
		fn := p.Func("internal/xxh32", name)
		key := name + "#short-input-threshold"
		desc := "inputs of fewer than 16 bytes, and only those, take the short-input seed (length + prime5)"
		if fn == nil || fn.Blocks == nil {
			c.Unknown(rule, key, "", desc, "function not found")
			continue
		}
		addsPrime5 := func(b *ssa.BasicBlock) bool {
			for _, in := range b.Instrs {
				if bo, ok := in.(*ssa.BinOp); ok && bo.Op == token.ADD {
					for _, o := range []ssa.Value{bo.X, bo.Y} {
						if k, isK := constUint(o); isK && k == xPrime5 {
							return true
						}
					}
				}
			}
			return false
		}
		found := false
		var blocks []*ssa.BasicBlock
		for _, g := range deepFuncs(fn, 2) {
			blocks = append(blocks, g.Blocks...)
		}
		for _, b := range blocks {
			ifi, ok := b.Instrs[len(b.Instrs)-1].(*ssa.If)
			if !ok {
				continue
			}
			cmp, ok := ifi.Cond.(*ssa.BinOp)
			if !ok {
				continue
			}
			k, isK := constUint(cmp.Y)
			if !isK {
				continue
			}
			shortIdx := -1
			for i, s := range b.Succs {
				if addsPrime5(s) {
					shortIdx = i
				}
			}
			if shortIdx < 0 {
				continue
			}
			// operand must be the input length (one-shot) or the full running length (streaming)
			isLen := false
			if call, isC := cmp.X.(*ssa.Call); isC {
				if bi, isB := call.Call.Value.(*ssa.Builtin); isB && bi.Name() == "len" {
					isLen = true
				}
			}
			if loadField(cmp.X) == "XXHZero.totalLen" || (widthOf(cmp.X.Type()) == 64 && derivesFromFieldWide(cmp.X, "XXHZero.totalLen")) {
				isLen = true
			}
			found = true
			// largest x taking the short branch, by the comparison's meaning on the true edge
			var trueUpTo int64 = -2 // x in [0, trueUpTo] take the true edge; -2: not of that shape
			var falseUpTo int64 = -2
			switch cmp.Op {
			case token.LSS:
				trueUpTo = int64(k) - 1
			case token.LEQ:
				trueUpTo = int64(k)
			case token.GEQ:
				falseUpTo = int64(k) - 1
			case token.GTR:
				falseUpTo = int64(k)
			}
			var shortMax int64 = -2
			if shortIdx == 0 {
				shortMax = trueUpTo
			} else {
				shortMax = falseUpTo
			}
			c.Cond(isLen && shortMax == 15, rule, key, p.InstrPos(ifi), desc, "the branch that adds prime5 is taken exactly for lengths 0..15", fmt.Sprintf("the branch that adds prime5 is taken for lengths up to %d (comparison %s with %d on the input length: %v); XXH32 switches to the four-lane formula at 16 bytes", shortMax, cmp.Op, k, isLen))
		}
		if !found {
			c.Fail(rule, key, p.Pos(fn.Pos()), desc, "no branch on the input length selects the prime5 seed")
		}
	}
}

// ---------------------------------------------------------------------------
// R20.9: compress names its output input+ext; uncompress must name its output
// by removing exactly that suffix. The name handed to os.OpenFile in the
// uncompress handler is traced back: an exact-suffix idiom (strings.TrimSuffix,
// strings.CutSuffix, name[:len(name)-len(ext)]) with the same extension is
// accepted; a character-set or substring idiom applied to the extension
// (TrimRight, Trim, TrimLeft, TrimFunc, Replace, ReplaceAll, TrimPrefix) is a
// violation (it also eats trailing '.', 'l', 'z', '4' of the original name, or
// inner occurrences); anything else is left undecided without raising.

func ruleSuffixInverse(c *Check, p *Program, comp, unc *ssa.Function, rule string) {
	key := "lz4c.uncompress#output-name-removes-suffix"
	desc := "uncompress derives the output name from the input name by removing exactly the extension that compress appends"
	// extension appended in compress: a string constant starting with '.' that flows into the name of its OpenFile
	ext := ""
	for _, ci := range callsIn(comp) {
		if !calleeIs(ci, "os", "OpenFile") {
			continue
		}
		walkBack(ci.Common().Args[0], true, func(v ssa.Value) bool {
			if s, ok := constString(v); ok && strings.HasPrefix(s, ".") && len(s) > 1 {
				ext = s
			}
			if call, isC := v.(*ssa.Call); isC {
				for _, a := range call.Call.Args {
					if s, ok := constString(a); ok && strings.HasPrefix(s, ".") && len(s) > 1 {
						ext = s
					}
					// variadic arguments of Sprintf are packed into a slice: look at stores of constants
					if sl, isSl := a.(*ssa.Slice); isSl {
						if al, isAl := sl.X.(*ssa.Alloc); isAl {
							for _, r := range *al.Referrers() {
								if ia, isIA := r.(*ssa.IndexAddr); isIA {
									for _, rr := range *ia.Referrers() {
										if st, isSt := rr.(*ssa.Store); isSt {
											if mi, isMI := st.Val.(*ssa.MakeInterface); isMI {
												if s, ok := constString(mi.X); ok && strings.HasPrefix(s, ".") && len(s) > 1 {
													ext = s
												}
											}
										}
									}
								}
							}
						}
					}
				}
			}
			return true
		})
	}
	var open ssa.CallInstruction
	for _, ci := range callsIn(unc) {
		if calleeIs(ci, "os", "OpenFile") {
			open = ci
		}
	}
	if open == nil || ext == "" {
		c.OK(rule, key, p.Pos(unc.Pos()), desc, fmt.Sprintf("not decided: output OpenFile found: %v, extension constant found in compress: %q", open != nil, ext), false)
		return
	}
	good, bad := "", ""
	walkBack(open.Common().Args[0], true, func(v ssa.Value) bool {
		call, isC := v.(*ssa.Call)
		if !isC {
			return true
		}
		f := staticCallee(call)
		if f == nil || f.Pkg == nil || f.Pkg.Pkg.Path() != "strings" {
			return true
		}
		usesExt := false
		for _, a := range call.Call.Args[1:] {
			if s, ok := constString(a); ok && s == ext {
				usesExt = true
			}
		}
		if !usesExt {
			return true
		}
		switch f.Name() {
		case "TrimSuffix", "CutSuffix":
			good = "strings." + f.Name() + "(name, " + fmt.Sprintf("%q", ext) + ")"
		case "TrimRight", "TrimLeft", "Trim", "TrimPrefix", "CutPrefix", "Replace", "ReplaceAll":
			bad = "strings." + f.Name() + "(name, " + fmt.Sprintf("%q", ext) + ") at " + p.InstrPos(call)
		}
		return true
	})
	switch {
	case bad != "":
		c.Fail(rule, key, p.InstrPos(open), desc, "the output name is computed with "+bad+", which does not remove the extension as a suffix: names ending in characters of the extension (\"install.lz4\" -> \"insta\") or containing it elsewhere are restored under a different name")
	case good != "":
		c.OK(rule, key, p.InstrPos(open), desc, "name = "+good+"; compress appends the same constant", true)
	default:
		c.OK(rule, key, p.InstrPos(open), desc, "not decided: no recognised strings idiom over the extension constant on the path to the output name", false)
	}
}

// ---------------------------------------------------------------------------
// Content-hash discipline (who-may-call): the frame's running XXH32 state is
// fed only by the code that runs in stream order - FrameDataBlock.Write (called
// by the single ordering goroutine or the sequential writer, see R14.5),
// FrameDataBlock.Uncompress on the sequential read path, and the collector
// closure of Blocks.initR - and it is reset only when a frame is initialised
// (InitW / ParseHeaders), i.e. after the previous frame's pipeline has been closed.

var hashFeeders = map[string]string{
	"FrameDataBlock.Write":      "stream order: single ordering goroutine / sequential writer",
	"FrameDataBlock.Uncompress": "sequential read path (sum=true only there, R05.4)",
	"Blocks.initR$2":            "collector closure: receives blocks in stream order",
}

var hashResetters = map[string]string{
	"Frame.InitW": "start of a written frame",
	"Frame.ParseHeaders": "start of a read frame (the header is parsed before any block is queued)",
}

func ruleContentHashDiscipline(c *Check, p *Program, rule string) {
	nW, nR := 0, 0
	initRFamily := map[*ssa.Function]bool{}
	if ir := p.Func("internal/lz4stream", "Blocks.initR"); ir != nil {
		for _, f := range familyFns(ir)[1:] {
			initRFamily[f] = true
		}
	}
	for _, fn := range moduleFuncs(p, pkgStream, pkgRoot) {
		for _, f := range withAnon(fn) {
			for _, ci := range callsIn(f) {
				isW := calleeIs(ci, pkgXXH, "XXHZero.Write")
				isR := calleeIs(ci, pkgXXH, "XXHZero.Reset")
				if !isW && !isR {
					continue
				}
				a := ci.Common().Args
				if len(a) == 0 || lastField(a[0]) != "Frame.checksum" {
					continue
				}
				name := shortFn(f)
				// closures: accept any closure of Blocks.initR that is not a per-block worker: identified by containing the call itself and a range over the queue
				if isW {
					nW++
					_, ok := hashFeeders[name]
					if !ok {
						// a helper all of whose callers are listed feeders
						ctxs := anchorContexts(f, 2)
						all := len(ctxs) > 0
						for _, g := range ctxs {
							if _, listed := hashFeeders[shortFn(g)]; !listed || g == f {
								all = false
							}
						}
						ok = all
					}
					if !ok && initRFamily[f] {
						// the collector is the goroutine of the read pipeline that receives from the ordered
						// queue (a range over a channel of channels)
						ok = rangesOverChanOfChan(f)
					}
					c.Cond(ok, rule, "checksum.Write-in:"+name, p.InstrPos(ci), "the content hash is fed only by code that runs in stream order (FrameDataBlock.Write, sequential Uncompress, the collector of Blocks.initR)", "listed feeder", name+" feeds the frame's running hash: it runs in a per-block worker or outside the ordered path, so blocks may be hashed out of order or concurrently")
				} else {
					nR++
					_, ok := hashResetters[name]
					c.Cond(ok, rule, "checksum.Reset-in:"+name, p.InstrPos(ci), "the content hash is reset only when a frame is initialised (after the previous pipeline was closed)", "listed site", name+" resets the running hash: blocks of the previous frame still in the pipeline would be hashed into the next frame's checksum")
				}
			}
		}
	}
	if nW < 3 || nR < 2 {
		c.Fail(rule, "checksum#sites", "", "feed and reset sites of the content hash are resolved", fmt.Sprintf("found %d feed and %d reset sites (confirmed by reading: 3 and 2)", nW, nR))
	}
}

func rangesOverChanOfChan(f *ssa.Function) bool {
	found := false
	allInstrs(f, func(in ssa.Instruction) {
		if u, ok := in.(*ssa.UnOp); ok && u.Op == token.ARROW {
			if ch, isCh := u.X.Type().Underlying().(*types.Chan); isCh {
				if _, inner := ch.Elem().Underlying().(*types.Chan); inner {
					found = true
				}
			}
		}
	})
	return found
}

// ---------------------------------------------------------------------------
// R16.3 / R07.8, numeric: the rolling dictionary of dependent frames. The
// bounds prover runs on Reader.read with the field r.dict tracked as a slice
// cell (root, offset, length). At the statement that stores append(r.dict, block...)
// back into r.dict, for every abstract state:
//   retained:  the new length is >= 65535, or nothing was dropped (the slice that
//              is appended to is the whole dictionary as first loaded), and in
//              either case it ends where the old dictionary ended (a suffix);
//   bounded:   the new length is at most a constant the function compares
//              against, or the dictionary is exactly the block (old part empty).

func ruleWindowNumeric(c *Check, p *Program, retainRule, boundRule string) {
	if !bndArch() {
		return
	}
	fn := findFn(c, p, retainRule, "", "Reader.read")
	if fn == nil {
		return
	}
	var consts []Q
	var scan []*ssa.Function
	scan = append(scan, fn)
	for _, g := range calleesOf(fn) {
		if g.Pkg == fn.Pkg {
			scan = append(scan, g)
		}
	}
	for _, sf := range scan {
	allInstrs(sf, func(in ssa.Instruction) {
		bo, ok := in.(*ssa.BinOp)
		if !ok {
			return
		}
		switch bo.Op {
		case token.LSS, token.LEQ, token.GTR, token.GEQ:
			for _, o := range []ssa.Value{bo.X, bo.Y} {
				if k, isK := constUint(o); isK && k > 0 {
					consts = append(consts, qi(int64(k)))
				}
			}
		}
	})
	}
	coll := newCollector()
	nApp := 0
	dictRooted := func(g *goProg, a *AbsState, v ssa.Value) bool {
		return isSliceType(v.Type()) && strings.HasSuffix(g.sliceOf(a, v).root, "Reader.dict")
	}
	hooks := goHooks{
		// only helpers that are handed the dictionary are analysed in place
		inlineOnly: func(g *goProg, a *AbsState, call *ssa.Call, f *ssa.Function) bool {
			for _, arg := range call.Call.Args {
				if dictRooted(g, a, arg) {
					return true
				}
			}
			return false
		},
		onAppend: func(g *goProg, a *AbsState, call *ssa.Call, d, blk sliceAbs) {
		if !strings.HasSuffix(d.root, "Reader.dict") {
			return
		}
		var st ssa.Instruction = call
		nApp++
		N := d.len.Add(blk.len)
		// the dictionary as first loaded since the last call (snapshot kept by the front end)
		ok0 := ""
		for k := range a.vals {
			if strings.HasPrefix(k, "fld:orig:") && strings.HasSuffix(k, "Reader.dict.len") {
				ok0 = strings.TrimSuffix(k, ".len")
			}
		}
		l0, has := a.vals[ok0+".len"]
		o0 := a.vals[ok0+".off"]
		if retainRule != "" {
			// what the append produced, remembered for the check at the function's returns (the window may be trimmed
			// before or after the append): $w.H = all history (old dictionary + block), $w.L = length of the appended
			// slice, $w.ok = the part of the old dictionary that went into it was a suffix of the old dictionary
			okPart := has && a.st.entailsEq(d.off.Add(d.len), o0.Add(l0))
			if has {
				a.vals["fld:w.H"] = l0.Add(blk.len)
			}
			a.vals["fld:w.L"] = N
			if okPart {
				a.vals["fld:w.ok"] = linI(1)
			} else {
				a.vals["fld:w.ok"] = linI(0)
			}
			a.meta["w.pos"] = g.prog.InstrPos(st)
		}
		if boundRule != "" {
			holds := a.st.entailsEq(d.len, linI(0))
			for _, k := range consts {
				if a.st.maxLE(N, k) {
					holds = true
				}
			}
			g.coll.check("bound", "Reader.read#window-bounded", g.prog.InstrPos(st), "the dictionary does not grow with the length of the stream: after the update its length is at most a constant of the trim rule, or it is exactly the last block", holds, func() string {
				_, mx := a.st.max(N)
				return fmt.Sprintf("new length %s is not bounded by any threshold of the function and the old part is not empty (max %s, state from block %d): history is kept without limit", N.Str(g.tab), mx.String(), a.from)
			})
		}
	}}
	if retainRule != "" {
		// every value stored into r.dict from the append on (the append's own result, and a trim that follows it) is
		// judged in the state of its own path: the two admissible outcomes (nothing dropped / at least a window kept)
		// belong to different paths and do not survive a merge
		hooks.onStore = func(g *goProg, a *AbsState, st *ssa.Store) {
			if !strings.HasSuffix(g.fieldCell(st.Addr), "Reader.dict") || !isSliceType(st.Val.Type()) {
				return
			}
			L, hasL := a.vals["fld:w.L"]
			if !hasL {
				return // before the append of this call
			}
			H, hasH := a.vals["fld:w.H"]
			okPart := a.vals["fld:w.ok"].isConst() && a.vals["fld:w.ok"].k.Sign() > 0
			sv := g.sliceOf(a, st.Val)
			holds, why := false, ""
			if !hasH {
				why = "the dictionary as loaded before the update is not known in this state"
			} else {
				suffix := okPart && a.st.entailsEq(sv.off.Add(sv.len), L)
				whole := a.st.entailsEq(sv.len, H)
				window := a.st.minGE(sv.len, qi(65535))
				holds = suffix && (whole || window)
				if !holds {
					_, mn := a.st.max(sv.len.Neg())
					why = fmt.Sprintf("what is kept is the end of (old dictionary + block): %v; nothing dropped: %v; length kept >= 65535: %v (min length kept %s) (state from block %d)", suffix, whole, window, mn.Neg().String(), a.from)
				}
			}
			g.coll.check("retain", "Reader.read#window-retained", g.prog.InstrPos(st), "from the append of a block on, what is stored into the dictionary is the end of the old dictionary followed by the block, and either nothing was dropped or at least 65535 bytes of history remain", holds, func() string { return why })
		}
	}
	lp0 := lpCount
	res, _, err := analyseGoFunc(p, fn, "Reader.read", nil, hooks, coll)
	c.LPQ += lpCount - lp0
	if err != nil {
		c.TroubleF("Reader.read: %v", err)
		return
	}
	if res.trouble != "" {
		c.TroubleF("Reader.read: %s", res.trouble)
	}
	m := map[string]string{}
	if retainRule != "" {
		m["retain"] = retainRule
	}
	if boundRule != "" {
		m["bound"] = boundRule
	}
	if emitObls(c, coll, "", m) == 0 {
		rule := retainRule
		if rule == "" {
			rule = boundRule
		}
		c.Fail(rule, "Reader.read#window-update", p.Pos(fn.Pos()), "the dictionary update r.dict = append(r.dict, block...) is reached by the analysis", "no such statement reached")
	}
}

// ---------------------------------------------------------------------------
// R07.3, numeric: in FrameDataBlock.Read (and the helpers it is split into) no
// slice or index operation on the pooled block buffer b.data can panic: the size
// word read from the input is compared with the capacity before the buffer is
// re-sliced to it. Decided by the bounds prover with b.data tracked as a field
// cell and its operations as obligations.

func ruleBlockSizeNumeric(c *Check, p *Program, rule string) {
	if !bndArch() {
		return
	}
	fn := findFn(c, p, rule, "internal/lz4stream", "FrameDataBlock.Read")
	if fn == nil {
		return
	}
	coll := newCollector()
	hooks := goHooks{inlineOnly: func(g *goProg, a *AbsState, call *ssa.Call, f *ssa.Function) bool {
		// helpers of the same receiver (the function may have been split) and small pure accessors
		if pureCallee(f) {
			return true
		}
		return f.Signature.Recv() != nil && fn.Signature.Recv() != nil && types.Identical(f.Signature.Recv().Type(), fn.Signature.Recv().Type())
	}}
	lp0 := lpCount
	res, _, err := analyseGoFunc(p, fn, "FrameDataBlock.Read", []string{"field:FrameDataBlock.data"}, hooks, coll)
	c.LPQ += lpCount - lp0
	if err != nil {
		c.TroubleF("FrameDataBlock.Read: %v", err)
		return
	}
	if res.trouble != "" {
		c.TroubleF("FrameDataBlock.Read: %s", res.trouble)
	}
	n := 0
	for _, k := range coll.order {
		o := coll.obls[k]
		if o.kind != "nopanic" {
			continue
		}
		n++
		if o.ok {
			c.OK(rule, "FrameDataBlock.Read#"+o.site, o.pos, "re-slicing the pooled block buffer to the size read from the input cannot panic (the size is compared with the capacity first)", fmt.Sprintf("entailed in all %d abstract state(s)", o.states), true)
		} else {
			c.Fail(rule, "FrameDataBlock.Read#"+o.site, o.pos, "re-slicing the pooled block buffer to the size read from the input cannot panic (the size is compared with the capacity first)", "not entailed: "+strings.Join(o.fail, " || "))
		}
	}
	if n == 0 {
		c.Fail(rule, "FrameDataBlock.Read#size-le-cap-before-reslice", p.Pos(fn.Pos()), "block buffer re-slice resolved", "no slice operation on b.data reached by the analysis")
	}
}

// frameStart: where an object starts a frame: its init method (from the entry),
// or, when init has been merged into its caller, the method of the owner that
// calls Frame.InitW / Frame.ParseHeaders (from the block of that call).
func frameStart(p *Program, owner string) (*ssa.Function, *ssa.BasicBlock) {
	if f := p.Func("", owner+".init"); f != nil && len(f.Blocks) > 0 {
		return f, f.Blocks[0]
	}
	for _, fn := range moduleFuncs(p, pkgRoot) {
		if recvTypeName(fn) != owner || fn.Parent() != nil {
			continue
		}
		for _, ci := range callsIn(fn) {
			if calleeIs(ci, pkgStream, "Frame.InitW") || calleeIs(ci, pkgStream, "Frame.ParseHeaders") {
				return fn, ci.Block()
			}
		}
	}
	// or a method of the owner starts the frame through a helper of the package
	for _, fn := range moduleFuncs(p, pkgRoot) {
		if recvTypeName(fn) != owner || fn.Parent() != nil {
			continue
		}
		for _, ci := range callsIn(fn) {
			if g := staticCallee(ci); g != nil && isHelper(g) && g.Pkg == fn.Pkg {
				if callReaches(ci, func(x ssa.CallInstruction) bool {
					return calleeIs(x, pkgStream, "Frame.InitW") || calleeIs(x, pkgStream, "Frame.ParseHeaders")
				}) {
					return fn, ci.Block()
				}
			}
		}
	}
	return nil, nil
}

// ---------------------------------------------------------------------------
// R09.12: who may write FrameDescriptor.ContentSize: the SizeOption closure
// (the value the header will announce) and the header parser. Anything else
// (e.g. a Reset that zeroes it while the Size flag stays set) makes the header
// announce a size that is not the content's.

func ruleContentSizeWriters(c *Check, p *Program, rule string) {
	n := 0
	for _, fn := range moduleFuncs(p, pkgRoot, pkgStream) {
		allInstrs(fn, func(in ssa.Instruction) {
			st, ok := in.(*ssa.Store)
			if !ok || lastField(st.Addr) != "FrameDescriptor.ContentSize" {
				return
			}
			n++
			c.Sites++
			okW := false
			for _, ctx := range anchorContexts(fn, 2) {
				name := shortFn(ctx)
				if ctx.Parent() != nil && strings.HasSuffix(ctx.Parent().Name(), "Option") {
					okW = true
				}
				if name == "FrameDescriptor.initR" {
					okW = true
				}
			}
			c.Cond(okW, rule, "ContentSize#written-in:"+shortFn(fn), p.InstrPos(in), "the content size of the descriptor is set by SizeOption or read from the header, nowhere else", "option closure / header parser", shortFn(fn)+" overwrites the content size: with the Size flag still set the header announces a size that is not the content's")
		})
	}
	if n < 2 {
		c.Fail(rule, "ContentSize#writers", "", "the writers of the content size are resolved", fmt.Sprintf("only %d store(s) found (confirmed by reading: SizeOption and initR)", n))
	}
}

// ---------------------------------------------------------------------------
// Nested re-arm (R17.11 / R09.13 / R18.9): when Reset or init re-initialises a struct-valued field through one of
// that struct's own methods (zrd.out.clear()), the method must write every field that the struct's other methods
// write, on every path; and a slice field that the other methods grow with append must be left with length zero
// (nil, [:0], make(_, 0)): bytes appended for the previous stream must not be replayed into the next one.

func ruleNestedRearm(c *Check, p *Program, rule string) {
	n := 0
	for _, sp := range rearmSpecs {
		initFn, _ := frameStart(p, sp.owner)
		resetFn := p.Func("", sp.owner+".Reset")
		seenM := map[*ssa.Function]bool{}
		for _, top := range []*ssa.Function{initFn, resetFn} {
			// a dedicated init method or Reset; when init has been merged into a data-path method the
			// calls found there are the data path's own, not re-initialisations
			if top == nil || (top != resetFn && top.Name() != "init") {
				continue
			}
			for _, g := range deepFuncs(top, 2) {
				for _, ci := range callsIn(g) {
					m := staticCallee(ci)
					if m == nil || !inModule(m) || len(m.Blocks) == 0 || m.Signature.Recv() == nil || seenM[m] {
						continue
					}
					args := ci.Common().Args
					if len(args) == 0 {
						continue
					}
					fa, isFA := args[0].(*ssa.FieldAddr)
					if !isFA || ownerField(fa, sp.owner) == "" {
						continue
					}
					tn := recvTypeName(m)
					pt, isP := fa.Type().Underlying().(*types.Pointer)
					if !isP {
						continue
					}
					if _, isSt := pt.Elem().Underlying().(*types.Struct); !isSt || tn == "" {
						continue
					}
					seenM[m] = true
					n++
					nestedRearmOne(c, p, rule, sp.owner, ownerField(fa, sp.owner), tn, m)
				}
			}
		}
	}
	c.Cond(n >= 1, rule, "nested-rearm-sites", "", "struct-valued fields re-initialised through their own methods were found", fmt.Sprintf("%d such methods", n), "no struct-valued field is re-initialised through a method of its type in init/Reset (expected CompressingReader.out)")
}

func nestedRearmOne(c *Check, p *Program, rule, owner, field, tn string, m *ssa.Function) {
	c.Funcs[fname(m)] = true
	mut := map[string]bool{}
	grown := map[string]bool{}
	for _, fn := range p.SrcFuncs() {
		if recvTypeName(fn) != tn || fn == m || fn.Pkg != m.Pkg {
			continue
		}
		// set-up methods (all their call sites are in plain functions: the constructors) configure the value; they are not the data path
		if sites := callSitesOf(fn); len(sites) > 0 {
			setup := true
			for _, s := range sites {
				if par := s.Parent(); par == nil || par.Signature.Recv() != nil || par.Parent() != nil {
					setup = false
				}
			}
			if setup {
				continue
			}
		}
		for f := range fieldsTouched(fn, tn) {
			mut[f] = true
		}
		allInstrs(fn, func(in ssa.Instruction) {
			st, ok := in.(*ssa.Store)
			if !ok {
				return
			}
			f := ownerField(st.Addr, tn)
			if f == "" {
				return
			}
			if call, isC := st.Val.(*ssa.Call); isC {
				if bi, isB := call.Call.Value.(*ssa.Builtin); isB && bi.Name() == "append" {
					grown[f] = true
				}
			}
		})
	}
	recv := m.Params[0]
	wholeStore := func(in ssa.Instruction) (*ssa.Store, bool) {
		st, ok := in.(*ssa.Store)
		if ok && st.Addr == ssa.Value(recv) {
			return st, true
		}
		return nil, false
	}
	var fl []string
	for f := range mut {
		fl = append(fl, f)
	}
	sort.Strings(fl)
	for _, f := range fl {
		f := f
		touches := func(in ssa.Instruction) bool {
			if st, ok := in.(*ssa.Store); ok && ownerField(st.Addr, tn) == f {
				if _, isLit := rootAlloc(st.Addr); !isLit {
					return true
				}
			}
			_, w := wholeStore(in)
			return w
		}
		ok, bad := mustOnAllPaths(p, m, touches, false, 2)
		c.Cond(ok, rule, fname(m)+"#rearms:"+f, p.Pos(m.Pos()), f+" is written by the other methods of "+tn+" and re-initialised by "+m.Name()+" (called for "+field+" at the start of a stream) on every path", "written on every path", f+" keeps its value from the previous stream: "+m.Name()+" returns at "+bad+" without writing it")
		if !grown[f] {
			continue
		}
		// the value left in a grown slice has length zero
		short := strings.TrimPrefix(f, tn+".")
		zeroLen := func(v ssa.Value) bool {
			switch x := v.(type) {
			case *ssa.Const:
				return x.IsNil()
			case *ssa.Slice:
				if x.High != nil {
					k, isK := constUint(x.High)
					return isK && k == 0
				}
			case *ssa.MakeSlice:
				k, isK := constUint(x.Len)
				return isK && k == 0
			}
			return false
		}
		bad = ""
		nSt := 0
		allInstrs(m, func(in ssa.Instruction) {
			if st, ok := in.(*ssa.Store); ok && ownerField(st.Addr, tn) == f {
				if _, isLit := rootAlloc(st.Addr); isLit {
					return // a field of a composite literal, judged at the whole-struct store
				}
				nSt++
				if !zeroLen(st.Val) {
					bad = p.InstrPos(st)
				}
				return
			}
			if st, w := wholeStore(in); w {
				nSt++
				ld, isLd := st.Val.(*ssa.UnOp)
				if !isLd {
					if _, isK := st.Val.(*ssa.Const); !isK {
						bad = p.InstrPos(st)
					}
					return
				}
				al, isAl := ld.X.(*ssa.Alloc)
				if !isAl {
					bad = p.InstrPos(st)
					return
				}
				for _, r := range *al.Referrers() {
					if fa, isFA := r.(*ssa.FieldAddr); isFA && fieldName(fa.X.Type(), fa.Field) == short {
						for _, rr := range *fa.Referrers() {
							if s2, isS := rr.(*ssa.Store); isS && s2.Addr == ssa.Value(fa) && !zeroLen(s2.Val) {
								bad = p.InstrPos(s2)
							}
						}
					}
				}
			}
		})
		c.Cond(nSt > 0 && bad == "", rule, fname(m)+"#empties:"+f, p.Pos(m.Pos()), f+" is grown with append by the data path; "+m.Name()+" leaves it with length zero so that bytes of the previous stream are not replayed", fmt.Sprintf("%d stores, each of nil, [:0] or make(_, 0)", nSt), "the value left in "+f+" at "+bad+" is not of length zero: bytes appended for the previous stream remain and are emitted into the next one")
	}
}

// rootAlloc: the local Alloc an address chain starts at, if any.
func rootAlloc(v ssa.Value) (*ssa.Alloc, bool) {
	for {
		switch x := v.(type) {
		case *ssa.FieldAddr:
			v = x.X
		case *ssa.IndexAddr:
			v = x.X
		case *ssa.Alloc:
			return x, true
		default:
			return nil, false
		}
	}
}

// ---------------------------------------------------------------------------
// R02.12: the size guard of the block reader rejects only what cannot fit. The exits of FrameDataBlock.Read that
// report ErrOptionInvalidBlockSize lie behind a comparison of the block size with the capacity of the block buffer;
// that comparison must be strict (size > cap): a block of exactly the maximum size is what the Writer emits for
// every full incompressible block (stored raw), so a non-strict comparison refuses the Writer's own output.

func ruleSizeGuardExact(c *Check, p *Program, rule string) {
	fn := findFn(c, p, rule, "internal/lz4stream", "FrameDataBlock.Read")
	if fn == nil {
		return
	}
	msg, _ := errSentinel(p, "ErrOptionInvalidBlockSize")
	isCap := func(v ssa.Value) bool {
		call, isC := v.(*ssa.Call)
		if !isC {
			return false
		}
		bi, isBi := call.Call.Value.(*ssa.Builtin)
		if !isBi {
			return false
		}
		if bi.Name() == "cap" {
			return true
		}
		if bi.Name() != "len" {
			return false
		}
		// the length of a slice that has just been extended to its capacity (x[:cap(x)]) is the capacity; the length of
		// the block buffer as the previous block left it is not
		sl, isS := call.Call.Args[0].(*ssa.Slice)
		if !isS || sl.High == nil {
			return false
		}
		hc, isHC := sl.High.(*ssa.Call)
		if !isHC {
			return false
		}
		hb, isHB := hc.Call.Value.(*ssa.Builtin)
		return isHB && hb.Name() == "cap"
	}
	isLenOrCap := func(v ssa.Value) bool {
		call, isC := v.(*ssa.Call)
		if !isC {
			return false
		}
		bi, isBi := call.Call.Value.(*ssa.Builtin)
		return isBi && (bi.Name() == "cap" || bi.Name() == "len")
	}
	n, recognised := 0, 0
	for _, g := range deepFuncs(fn, 1) {
		allInstrs(g, func(in ssa.Instruction) {
			r, ok := in.(*ssa.Return)
			if !ok {
				return
			}
			hit := false
			for _, res := range r.Results {
				if !isErrorType(res.Type()) {
					continue
				}
				for _, s := range sentinelsIn(res) {
					if s == msg {
						hit = true
					}
				}
			}
			if !hit {
				return
			}
			n++
			for _, a := range atomsOfBlockLocal(in.Block()) {
				bo, isB := a.V.(*ssa.BinOp)
				if a.Kind != "cmp" || !isB || !(isLenOrCap(bo.X) || isLenOrCap(bo.Y)) {
					continue
				}
				recognised++
				if !(isCap(bo.X) || isCap(bo.Y)) {
					c.Fail(rule, "FrameDataBlock.Read#oversize-exit-is-strict", p.InstrPos(in), "a block is refused as too large only when its size exceeds the capacity of the block buffer", "the size is compared with the current length of the block buffer ("+a.String()+"), which is what the previous block left there: a block larger than its predecessor is refused")
					continue
				}
				// the atom is strict when its negation is a >= / <= statement with the capacity as the big side
				neg := a
				neg.Val = !a.Val
				big, small := atomSaysGeq(neg)
				strict := big != nil && isCap(big) && !isCap(small)
				c.Cond(strict, rule, "FrameDataBlock.Read#oversize-exit-is-strict", p.InstrPos(in), "a block is refused as too large only when its size exceeds the capacity of the block buffer (a block of exactly the maximum size - a full block stored raw - is accepted)", "the exit is taken on size > cap(buffer)", "the ErrOptionInvalidBlockSize exit is also taken when the size equals the capacity ("+a.String()+"): full incompressible blocks written by the Writer are refused")
			}
		})
	}
	c.Cond(n >= 1, rule, "FrameDataBlock.Read#oversize-exit", p.Pos(fn.Pos()), "the block reader has an exit for oversized blocks", fmt.Sprintf("%d exits report ErrOptionInvalidBlockSize, %d guarded by a capacity comparison", n, recognised), "no exit of FrameDataBlock.Read reports ErrOptionInvalidBlockSize")
}

// ---------------------------------------------------------------------------
// R09.14 / R18.10: no empty data block is emitted. A block whose size word has zero in its low 31 bits is the end
// mark for every decoder that follows the specification, so the bytes after it (the real end mark, the content
// checksum) are misread. Every source slice that reaches FrameDataBlock.Compress is therefore either a whole block
// buffer, or a prefix [:h] whose length h is known to be positive at the call: a guard h > 0 (any spelling), or h is
// the count of an io.ReadFull whose error is known to be nil (a full read).

func ruleNoEmptyBlock(c *Check, p *Program, rule string, owner string) {
	comp := findFn(c, p, rule, "internal/lz4stream", "FrameDataBlock.Compress")
	if comp == nil {
		return
	}
	same := func(a, b ssa.Value) bool {
		if a == b {
			return true
		}
		la, lb := loadField(a), loadField(b)
		return la != "" && la == lb
	}
	readCount := func(h ssa.Value) *ssa.Call {
		if ex, ok := h.(*ssa.Extract); ok && ex.Index == 0 {
			if call, isC := ex.Tuple.(*ssa.Call); isC && (calleeIs(call, "io", "ReadFull") || calleeIs(call, "io", "ReadAtLeast")) {
				return call
			}
		}
		return nil
	}
	errOfCall := func(v ssa.Value, call *ssa.Call) bool {
		if ex, ok := v.(*ssa.Extract); ok && ex.Index == 1 && ex.Tuple == ssa.Value(call) {
			return true
		}
		// a named result captured by a deferred closure lives in a cell: the load reads what was stored from the call
		if ld, ok := v.(*ssa.UnOp); ok && ld.Op == token.MUL {
			if refs := ld.X.Referrers(); refs != nil {
				for _, r := range *refs {
					if st, isS := r.(*ssa.Store); isS && st.Addr == ld.X && st.Block() == call.Block() {
						if ex, isE := st.Val.(*ssa.Extract); isE && ex.Index == 1 && ex.Tuple == ssa.Value(call) {
							return true
						}
					}
				}
			}
		}
		return false
	}
	n := 0
	type key struct {
		v  ssa.Value
		at ssa.Instruction
	}
	seen := map[key]bool{}
	var check func(v ssa.Value, at ssa.Instruction, atoms []Atom, depth int)
	check = func(v ssa.Value, at ssa.Instruction, atoms []Atom, depth int) {
		if seen[key{v, at}] || depth > 4 {
			return
		}
		seen[key{v, at}] = true
		if srcs := capturedSources(v); len(srcs) > 0 {
			// a variable of the enclosing function used inside a function literal
			for _, sv := range srcs {
				check(sv, at, atoms, depth+1)
			}
			return
		}
		switch x := v.(type) {
		case *ssa.Extract:
			// the slice is a result of a helper of the module
			call, isC := x.Tuple.(*ssa.Call)
			g := staticCallee(call)
			if !isC || g == nil || !inModule(g) || len(g.Blocks) == 0 {
				return
			}
			// known to be non-empty where it is used
			for _, a := range atoms {
				neg := a
				neg.Val = !a.Val
				if z := atomSaysZero(neg); z != nil {
					if lc, isL := z.(*ssa.Call); isL {
						if bi, isB := lc.Call.Value.(*ssa.Builtin); isB && bi.Name() == "len" && lc.Call.Args[0] == v {
							n++
							c.Sites++
							c.OK(rule, fname(at.Parent())+"#source-not-empty:"+shortVal(v), p.InstrPos(at), "a slice returned by a helper is handed to the block compressor only when its length is known to be positive", "guard "+a.String(), false)
							return
						}
					}
				}
			}
			resultIdx := func(w ssa.Value) int {
				if ex, ok := w.(*ssa.Extract); ok && ex.Tuple == ssa.Value(call) {
					return ex.Index
				}
				if ld, ok := w.(*ssa.UnOp); ok && ld.Op == token.MUL {
					if refs := ld.X.Referrers(); refs != nil {
						for _, r := range *refs {
							if st, isS := r.(*ssa.Store); isS && st.Addr == ld.X && st.Block() == call.Block() {
								if ex, isE := st.Val.(*ssa.Extract); isE && ex.Tuple == ssa.Value(call) {
									return ex.Index
								}
							}
						}
					}
				}
				return -1
			}
			allInstrs(g, func(in ssa.Instruction) {
				r, isR := in.(*ssa.Return)
				if !isR || x.Index >= len(r.Results) {
					return
				}
				local := atomsOfBlock(in.Block())
				var tr []Atom
				feasible := true
				for _, a := range atoms {
					if a.Kind != "errnil" {
						continue
					}
					j := resultIdx(a.V)
					if j < 0 || j >= len(r.Results) {
						continue
					}
					rv := r.Results[j]
					if isNilConst(rv) {
						if !a.Val {
							feasible = false
						}
						continue
					}
					t := Atom{Kind: "errnil", Val: a.Val, V: rv}
					for _, l := range local {
						if l.Kind == "errnil" && l.V == rv && l.Val != a.Val {
							feasible = false
						}
					}
					tr = append(tr, t)
				}
				if !feasible {
					return
				}
				if isNilConst(r.Results[x.Index]) {
					n++
					c.Sites++
					c.Fail(rule, fname(at.Parent())+"#source-not-empty:"+shortVal(v), p.InstrPos(at), "a slice returned by a helper is handed to the block compressor only when its length is known to be positive", "the helper "+shortFn(g)+" may return an empty slice here (return at "+p.InstrPos(in)+"): an empty block (size word 0x80000000) is emitted before the end mark")
					return
				}
				check(r.Results[x.Index], in, append(tr, local...), depth+1)
			})
		case *ssa.Parameter:
			g := x.Parent()
			idx := -1
			for i, pr := range g.Params {
				if pr == x {
					idx = i
				}
			}
			if idx < 0 {
				return
			}
			if g.Parent() != nil {
				// a function literal: called or started where it is made
				allInstrs(g.Parent(), func(in ssa.Instruction) {
					ci, ok := in.(ssa.CallInstruction)
					if !ok {
						return
					}
					if mc, isMC := ci.Common().Value.(*ssa.MakeClosure); (isMC && mc.Fn == ssa.Value(g)) || ci.Common().Value == ssa.Value(g) {
						if idx < len(ci.Common().Args) {
							check(ci.Common().Args[idx], ci, append(append([]Atom{}, atoms...), atomsOfBlock(ci.Block())...), depth+1)
						}
					}
				})
				return
			}
			for _, cs := range callSitesOf(g) {
				if idx < len(cs.Common().Args) {
					check(cs.Common().Args[idx], cs, append(append([]Atom{}, atoms...), atomsOfBlock(cs.Block())...), depth+1)
				}
			}
		case *ssa.Slice:
			if x.High == nil {
				return // whole buffer (from Low, which the data path never uses for sources)
			}
			h := x.High
			if call, isC := h.(*ssa.Call); isC {
				if bi, isB := call.Call.Value.(*ssa.Builtin); isB && (bi.Name() == "len" || bi.Name() == "cap") {
					return // the whole of another buffer
				}
			}
			// the length is a parameter of a helper: judge it at each call of the helper
			if hp, isP := h.(*ssa.Parameter); isP && hp.Parent().Parent() == nil {
				g := hp.Parent()
				idx := -1
				for i, pr := range g.Params {
					if pr == hp {
						idx = i
					}
				}
				css := callSitesOf(g)
				if idx >= 0 && len(css) > 0 && depth <= 4 {
					for _, cs := range css {
						if idx < len(cs.Common().Args) {
							fake := &ssa.Slice{X: x.X, High: cs.Common().Args[idx]}
							check(fake, cs, append(append([]Atom{}, atoms...), atomsOfBlock(cs.Block())...), depth+1)
						}
					}
					return
				}
			}
			n++
			c.Sites++
			judge := func(atoms []Atom) (bool, string) {
				ok, how := false, ""
				for _, a := range atoms {
					neg := a
					neg.Val = !a.Val
					if z := atomSaysZero(neg); z != nil && same(z, h) {
						ok, how = true, "guard "+a.String()
					}
					if a.Kind == "errnil" && a.Val {
						if call := readCount(h); call != nil && errOfCall(a.V, call) {
							ok, how = true, "count of a full io.ReadFull (error known to be nil)"
						}
					}
				}
				return ok, how
			}
			ok, how := judge(atoms)
			if !ok && at.Block() != nil && len(at.Block().Preds) > 1 {
				// a disjunctive guard (a || b): the fact holds on each incoming edge for its own reason
				all := true
				for _, pb := range at.Block().Preds {
					ea := append([]Atom{}, atoms...)
					ea = append(ea, atomsOfBlock(pb)...)
					if ifi, isIf := pb.Instrs[len(pb.Instrs)-1].(*ssa.If); isIf && len(pb.Succs) == 2 && pb.Succs[0] != pb.Succs[1] {
						ea = append(ea, atomOf(ifi.Cond, pb.Succs[0] == at.Block()))
					}
					okE, howE := judge(ea)
					if !okE {
						all = false
					}
					how = howE
				}
				if all {
					ok, how = true, "on every incoming edge: "+how
				}
			}
			par := ""
			if at.Parent() != nil {
				par = fname(at.Parent())
			}
			c.Cond(ok, rule, par+"#source-not-empty:"+shortVal(h), p.InstrPos(at), "a prefix [:h] of a buffer is handed to the block compressor only when h is known to be positive (an empty block is written as a size word that decoders take for the end mark)", how, "the length "+shortVal(h)+" of the source slice may be zero here: an empty block (size word 0x80000000) is emitted before the end mark, which specification-conforming decoders read as the end of the frame")
		}
	}
	var sites []ssa.CallInstruction
	for _, cs := range callSitesOf(comp) {
		top := cs.Parent()
		for top != nil && top.Parent() != nil {
			top = top.Parent()
		}
		if owner == "" || recvTypeName(top) == owner {
			sites = append(sites, cs)
		}
	}
	want := 3
	if owner != "" {
		want = 1
	}
	for _, cs := range sites {
		args := cs.Common().Args
		if len(args) < 3 {
			continue
		}
		check(args[2], cs, atomsOfBlock(cs.Block()), 0)
	}
	c.Cond(len(sites) >= 1 && n >= want, rule, "Compress#source-slices", p.Pos(comp.Pos()), "the sources handed to the block compressor were resolved", fmt.Sprintf("%d call sites, %d prefix slices examined", len(sites), n), fmt.Sprintf("only %d call sites of FrameDataBlock.Compress and %d prefix slices found (expected at least %d of each)", len(sites), n, want))
}

// ---------------------------------------------------------------------------
// Round 4.
//
// R02.13 / R17.12: the accumulation buffer is consumed exactly once, in call order.
//  (a) after the pending bytes w.data[:w.idx] (or the full buffer) have been handed to Writer.write successfully,
//      every path to a return, to the next hand-over or back to the accumulation copy resets w.idx to 0
//      (otherwise the same bytes are emitted again);
//  (b) in ReadFrom every path to the first read of the source passes Flush or init (bytes buffered by earlier
//      Write calls precede what ReadFrom reads).

func rulePendingConsumedOnce(c *Check, p *Program, rule string) {
	n := 0
	for _, fn := range moduleFuncs(p, pkgRoot) {
		if recvTypeName(fn) != "Writer" || fn.Parent() != nil {
			continue
		}
		for _, ci := range callsIn(fn) {
			if !calleeIs(ci, pkgRoot, "Writer.write") {
				continue
			}
			call, isCall := ci.(*ssa.Call)
			if !isCall || len(call.Call.Args) < 2 {
				continue
			}
			if !derivesFromField(call.Call.Args[1], "Writer.data") && loadField(call.Call.Args[1]) != "Writer.data" {
				continue // a caller's buffer or a private block buffer (ReadFrom): nothing pending is consumed
			}
			n++
			c.Sites++
			isResetDirect := func(in ssa.Instruction) bool {
				st, ok := in.(*ssa.Store)
				if !ok || lastField(st.Addr) != "Writer.idx" {
					return false
				}
				k, isK := constUint(st.Val)
				return isK && k == 0
			}
			// directly, or in a helper of the Writer that resets the index on all its paths
			isReset := func(in ssa.Instruction) bool {
				if isResetDirect(in) {
					return true
				}
				cj, ok := in.(*ssa.Call)
				if !ok {
					return false
				}
				f := staticCallee(cj)
				if f == nil || !inModule(f) || f.Pkg != fn.Pkg || f == fn || calleeIs(cj, pkgRoot, "Writer.write") {
					return false
				}
				okAll, _ := mustOnAllPaths(p, f, isResetDirect, false, 1)
				return okAll
			}
			// paths on which the hand-over failed return its error: they do not count
			failed := func(b *ssa.BasicBlock) bool {
				for _, a := range atomsOfBlockLocal(b) {
					if a.Kind == "errnil" && !a.Val && (a.V == ssa.Value(call) || derivesFromValue(a.V, call)) {
						return true
					}
				}
				return false
			}
			stop := func(in ssa.Instruction) bool {
				if isReturn(in) {
					return !failed(in.Block())
				}
				if cj, ok := in.(ssa.CallInstruction); ok && cj != ci && calleeIs(cj, pkgRoot, "Writer.write") {
					return true
				}
				if cc, ok := isBuiltinCall(in, "copy"); ok && len(cc.Args) == 2 && derivesFromField(cc.Args[0], "Writer.data") {
					return true
				}
				return false
			}
			miss, trail := reachAvoid(fn, ci.(ssa.Instruction), stop, isReset)
			where := "a return or the next hand-over"
			if len(trail) > 0 {
				where = trail[len(trail)-1]
			}
			c.Cond(!miss, rule, shortFn(fn)+"#pending-reset-after-handover", p.InstrPos(ci), "once the accumulated bytes have been handed to the block writer, w.idx is reset to 0 before the function returns, hands over again, or accumulates again", "every success path passes w.idx = 0", "after the hand-over "+where+" is reachable with w.idx unchanged: the same bytes are emitted a second time by the next Flush, Write or Close")
		}
	}
	c.Cond(n >= 2, rule, "Writer#pending-handover-sites", "", "the hand-over sites of the accumulation buffer were found (Write: buffer full; Flush: pending bytes)", fmt.Sprintf("%d sites", n), fmt.Sprintf("only %d calls of Writer.write with the accumulation buffer found (expected 2)", n))
	// (b)
	rf := findFn(c, p, rule, "", "Writer.ReadFrom")
	if rf == nil {
		return
	}
	isSrcRead := func(in ssa.Instruction) bool {
		ci, ok := in.(ssa.CallInstruction)
		if !ok {
			return false
		}
		if !(calleeIs(ci, "io", "ReadFull") || calleeIs(ci, "io", "ReadAtLeast")) {
			// a helper that performs the read
			return callReaches(ci, func(x ssa.CallInstruction) bool { return calleeIs(x, "io", "ReadFull") || calleeIs(x, "io", "ReadAtLeast") }) && !calleeIs(ci, pkgRoot, "Writer.Flush") && !calleeIs(ci, pkgRoot, "Writer.init")
		}
		return true
	}
	isFlushOrInit := func(in ssa.Instruction) bool {
		ci, ok := in.(ssa.CallInstruction)
		if !ok {
			return false
		}
		return callReaches(ci, func(x ssa.CallInstruction) bool {
			return calleeIs(x, pkgRoot, "Writer.Flush") || calleeIs(x, pkgRoot, "Writer.init")
		}) || calleeIs(ci, pkgRoot, "Writer.Flush") || calleeIs(ci, pkgRoot, "Writer.init")
	}
	skip, _ := reachAvoid(rf, nil, isSrcRead, isFlushOrInit)
	c.Cond(!skip, rule, "Writer.ReadFrom#pending-goes-first", p.Pos(rf.Pos()), "bytes buffered by earlier Write calls are flushed before ReadFrom compresses what it reads (data is emitted in call order)", "every path to the source read passes Flush or the first-use init", "the source is read on a path that neither flushes pending bytes nor initialises the Writer: bytes of an earlier short Write are emitted after those of ReadFrom")
}

// R14.12: block boundaries do not depend on how the source fragments its reads: the write side reads the source
// into the block buffer with io.ReadFull (a short count only at the end of the source).
func ruleFullBlockReads(c *Check, p *Program, rule string) {
	n := 0
	for _, rs := range sourceReadSites(p) {
		if rs.role != "uncompressed input (write side)" {
			continue
		}
		n++
		c.Sites++
		ok := rs.prim == "io.ReadFull"
		if rs.prim == "io.ReadAtLeast" {
			// equivalent when the minimum is the length of the buffer
			a := rs.call.Common().Args
			if len(a) == 3 {
				if call, isC := a[2].(*ssa.Call); isC {
					if bi, isB := call.Call.Value.(*ssa.Builtin); isB && bi.Name() == "len" && call.Call.Args[0] == a[1] {
						ok = true
					}
				}
			}
		}
		c.Cond(ok, rule, shortFn(rs.fn)+"#fills-whole-blocks", p.InstrPos(rs.call), "the source is read until the block buffer is full (io.ReadFull): where a block ends depends on the data only, not on how the source splits its reads", rs.prim, rs.prim+" returns as soon as some bytes are available: every short read of the source closes a block, so the same stream yields different frames")
	}
	c.Cond(n >= 2, rule, "write-side#source-reads", "", "the reads of uncompressed input were found (Writer.ReadFrom, CompressingReader.Read)", fmt.Sprintf("%d sites", n), fmt.Sprintf("only %d reads of uncompressed input found (expected 2)", n))
}

// R05.11 / R19.7: who may parse a header. Frame.ParseHeaders marks the frame as "header read" before it validates the
// descriptor, so a caller that drops its error leaves a frame that later code takes for validated. It is called only by
// the Reader's first-use init (whose error latches the Reader) and by ValidFrameHeader on a private frame, which
// hands the whole input to it.
func ruleHeaderParsers(c *Check, p *Program, rule string) {
	ph := findFn(c, p, rule, "internal/lz4stream", "Frame.ParseHeaders")
	if ph == nil {
		return
	}
	n := 0
	for _, fn := range moduleFuncs(p, pkgRoot, pkgStream) {
		for _, g := range withAnon(fn) {
			for _, ci := range callsIn(g) {
				if !calleeIs(ci, pkgStream, "Frame.ParseHeaders") {
					continue
				}
				n++
				c.Sites++
				okC := false
				var names []string
				for _, ctx := range anchorContexts(g, 2) {
					nm := shortFn(ctx)
					names = append(names, nm)
					if nm == "Reader.init" || nm == "ValidFrameHeader" {
						okC = true
					} else {
						okC = false
						break
					}
				}
				// merged init: a Reader method that performs the newState transition itself
				if !okC && recvTypeName(g) == "Reader" {
					if miss, _ := reachAvoid(g, ci.(ssa.Instruction), isReturn, func(in ssa.Instruction) bool {
						cj, ok := in.(ssa.CallInstruction)
						return ok && (calleeIs(cj, pkgRoot, "_State.next") || callReaches(cj, func(x ssa.CallInstruction) bool { return calleeIs(x, pkgRoot, "_State.next") }))
					}); !miss {
						okC = true
					}
				}
				c.Cond(okC, rule, "ParseHeaders#called-from:"+shortFn(g), p.InstrPos(ci), "the frame header is parsed by the Reader's first-use initialisation (its error latches the Reader) or by ValidFrameHeader on a private frame; nowhere else", strings.Join(names, ", "), shortFn(g)+" parses the header: ParseHeaders marks the frame as read before validating it, so an error dropped here is never reported and the unverified descriptor is used")
				if shortFn(g) == "ValidFrameHeader" {
					// the whole input goes to the parser
					whole := false
					if mi, isMI := ci.Common().Args[1].(*ssa.MakeInterface); isMI {
						if nr, isNR := mi.X.(*ssa.Call); isNR && calleeIs(nr, "bytes", "NewReader") {
							_, whole = nr.Call.Args[0].(*ssa.Parameter)
						}
					}
					c.Cond(whole, rule, "ValidFrameHeader#whole-input", p.InstrPos(ci), "ValidFrameHeader hands its input unchanged to the header parser (a cut input loses the check byte of headers with a content size)", "bytes.NewReader(in) with in the parameter", "the parser does not receive the parameter itself: the header may be truncated or altered before it is judged")
				}
			}
		}
	}
	c.Cond(n >= 2, rule, "ParseHeaders#call-sites", "", "the call sites of Frame.ParseHeaders were found", fmt.Sprintf("%d sites", n), fmt.Sprintf("only %d call sites found (expected Reader.init and ValidFrameHeader)", n))
}

// R06.7 / R02.14: the synthetic descriptor of a legacy frame declares nothing but the block size: in the legacy
// branch of the descriptor parser the only setter called is BlockSizeIndexSet. (An independence bit would route
// legacy frames through the concurrent pipeline, whose end-of-stream handling is written for frames with an end mark.)
func ruleLegacyDescriptor(c *Check, p *Program, rule string) {
	fn := findFn(c, p, rule, "internal/lz4stream", "FrameDescriptor.initR")
	if fn == nil {
		return
	}
	var bad []string
	n := 0
	for _, g := range deepFuncs(fn, 1) {
		for _, ci := range callsIn(g) {
			f := staticCallee(ci)
			if f == nil || recvTypeName(f) != "DescriptorFlags" || !strings.HasSuffix(f.Name(), "Set") {
				continue
			}
			if !hasAtom(atomsOfBlock(ci.Block()), "legacy", "", true) {
				continue
			}
			n++
			if f.Name() != "BlockSizeIndexSet" {
				bad = append(bad, f.Name()+" at "+p.InstrPos(ci))
			}
		}
	}
	c.Cond(len(bad) == 0, rule, "initR#legacy-descriptor-declares-only-block-size", p.Pos(fn.Pos()), "for a legacy frame the parser builds a descriptor that declares the 8 MiB block size and nothing else", fmt.Sprintf("%d setter call(s) in the legacy branch, all BlockSizeIndexSet", n), "the legacy branch also calls "+strings.Join(bad, ", ")+": legacy frames have no such feature; an independence bit sends them through the concurrent pipeline")
}

// R09.15 / R18.12: SizeOption behaves alike for every object it applies to: in each arm of its type switch the
// Size flag is set from `size > 0` and the content size is stored, neither under a condition on the size
// (SizeOption(0) clears a size announced earlier; the descriptor survives Reset).
func ruleSizeOptionArms(c *Check, p *Program, rule string, owner string) {
	n := 0
	for _, fn := range moduleFuncs(p, pkgRoot) {
		if fn.Parent() == nil || fn.Parent().Name() != "SizeOption" {
			continue
		}
		var sizePrm ssa.Value
		for _, fv := range fn.FreeVars {
			sizePrm = fv
		}
		onSize := func(b *ssa.BasicBlock) bool {
			for _, a := range atomsOfBlockLocal(b) {
				if a.Kind != "cmp" {
					continue
				}
				if bo, ok := a.V.(*ssa.BinOp); ok {
					for _, o := range []ssa.Value{bo.X, bo.Y} {
						if sizePrm != nil && (o == sizePrm || derivesFromValue(o, sizePrm)) {
							return true
						}
					}
				}
			}
			return false
		}
		allInstrs(fn, func(in ssa.Instruction) {
			if o := optionArmOwner(in); owner != "" && o != "" && o != owner {
				return // the arm of another object kind
			}
			switch x := in.(type) {
			case *ssa.Store:
				if lastField(x.Addr) == "FrameDescriptor.ContentSize" {
					n++
					c.Sites++
					c.Cond(!onSize(in.Block()), rule, "SizeOption#unconditional-store", p.InstrPos(in), "the content size is stored whatever its value (0 clears an earlier announcement)", "no comparison of the size governs the store", "the store is skipped for some sizes: a size applied earlier (the descriptor survives Reset) stays in the header of the next frame")
				}
			case ssa.CallInstruction:
				if calleeIs(x, pkgStream, "DescriptorFlags.SizeSet") {
					n++
					c.Sites++
					arg := x.Common().Args[1]
					fromCmp := false
					if bo, ok := arg.(*ssa.BinOp); ok && (bo.Op == token.GTR || bo.Op == token.NEQ || bo.Op == token.LSS) {
						fromCmp = true
					}
					c.Cond(!onSize(in.Block()) && fromCmp, rule, "SizeOption#flag-from-size", p.InstrPos(in), "the Size flag is computed from the size (size > 0) on every application", "SizeSet(size > 0), not under a condition on the size", "the flag is not recomputed for every size: SizeOption(0) no longer clears it")
				}
			}
		})
	}
	c.Cond(n >= 2, rule, "SizeOption#arms", "", "the flag and size stores of SizeOption were found", fmt.Sprintf("%d sites", n), fmt.Sprintf("only %d flag/size sites found in SizeOption (expected at least one of each)", n))
}

// R08.14: the concurrency stored by ConcurrencyOption is at least 1: a value of 0 selects the concurrent code paths
// (the test is num == 1) with a queue of capacity 0 that is never allocated, and the first block blocks forever.
func ruleConcurrencyAtLeastOne(c *Check, p *Program, rule string) {
	fn := findFn(c, p, rule, "", "ConcurrencyOption")
	if fn == nil {
		return
	}
	prm := fn.Params[0]
	// the parameter may live in a cell (it is reassigned and captured): loads in the entry block that follow the
	// initial store of the parameter stand for the parameter
	alias := func(v ssa.Value) bool {
		v = stripSameWidth(v)
		if v == ssa.Value(prm) {
			return true
		}
		if ld, ok := v.(*ssa.UnOp); ok && ld.Op == token.MUL && ld.Block() == fn.Blocks[0] {
			if al, isAl := ld.X.(*ssa.Alloc); isAl {
				var last ssa.Value
				for _, in := range fn.Blocks[0].Instrs {
					if in == ssa.Instruction(ld) {
						break
					}
					if st, isS := in.(*ssa.Store); isS && st.Addr == ssa.Value(al) {
						last = st.Val
					}
				}
				return last == ssa.Value(prm)
			}
		}
		return false
	}
	sets, perEdge := valueSetsFull(fn, alias, fn.Blocks[0], 64)
	// the value captured by the closure: the parameter itself or a phi of it and the GOMAXPROCS result
	var captured ssa.Value
	var capBlk *ssa.BasicBlock
	allInstrs(fn, func(in ssa.Instruction) {
		if mc, ok := in.(*ssa.MakeClosure); ok && len(mc.Bindings) > 0 {
			captured, capBlk = mc.Bindings[0], in.Block()
		}
	})
	okV, why := false, "the closure does not capture the (normalised) argument"
	positive := func(s vset) bool {
		// int64 seen as uint64: [1, 2^63-1]
		for _, iv := range s {
			if iv.lo == 0 || iv.hi > 1<<63-1 {
				return false
			}
		}
		return true
	}
	var evalV func(v ssa.Value, s vset, depth int) bool
	evalV = func(v ssa.Value, s vset, depth int) bool {
		if depth > 4 {
			return false
		}
		switch x := v.(type) {
		case *ssa.Parameter:
			return x == prm && positive(s)
		case *ssa.Call:
			return calleeIs(x, "runtime", "GOMAXPROCS")
		case *ssa.Phi:
			for i, e := range x.Edges {
				if !evalV(e, perEdge[cfgEdge{x.Block().Preds[i], x.Block()}], depth+1) {
					return false
				}
			}
			return true
		case *ssa.UnOp:
			// a local cell (the parameter is reassigned): every store must be fine in its own block
			if al, ok := x.X.(*ssa.Alloc); ok && x.Op == token.MUL {
				all := true
				for _, st := range storesTo(al) {
					if !evalV(st.Val, sets[st.Block()], depth+1) {
						all = false
					}
				}
				return all
			}
		case *ssa.Alloc:
			// the cell as seen at the closure: per incoming edge, the last store on the way
			all := true
			lastStore := func(b *ssa.BasicBlock) ssa.Value {
				for hops := 0; b != nil && hops < 8; hops++ {
					var last ssa.Value
					for _, in := range b.Instrs {
						if st, isS := in.(*ssa.Store); isS && st.Addr == ssa.Value(x) {
							last = st.Val
						}
					}
					if last != nil {
						return last
					}
					if len(b.Preds) != 1 {
						return nil
					}
					b = b.Preds[0]
				}
				return nil
			}
			if v0 := lastStore(capBlk); v0 != nil && len(capBlk.Preds) == 0 {
				return evalV(v0, s, depth+1)
			}
			for _, pr := range capBlk.Preds {
				v0 := lastStore(pr)
				if v0 == nil {
					all = false
					continue
				}
				if v0 == ssa.Value(prm) {
					// the argument itself survives on this edge: the branch taken must say it is positive
					// (a signed comparison: n <= 0 / n < 1 false, n > 0 / n >= 1 true)
					if !edgeSaysPositive(pr, capBlk, alias) {
						all = false
					}
					continue
				}
				if !evalV(v0, perEdge[cfgEdge{pr, capBlk}], depth+1) {
					all = false
				}
			}
			return all && len(capBlk.Preds) > 0
		}
		return false
	}
	if captured != nil {
		okV = evalV(captured, sets[capBlk], 0)
		why = "the captured value may be 0 or negative for some argument: num = 0 takes the concurrent paths with an unallocated queue (every Write blocks forever)"
	}
	c.Cond(okV, rule, "ConcurrencyOption#at-least-one", p.Pos(fn.Pos()), "the concurrency handed to the Writer/Reader is at least 1 (non-positive arguments are replaced by GOMAXPROCS)", "argument kept only when >= 1, otherwise runtime.GOMAXPROCS(0)", why)
}

// edgeSaysPositive: the branch pred -> blk is taken only when the aliased signed integer is >= 1.
func edgeSaysPositive(pred, blk *ssa.BasicBlock, alias func(ssa.Value) bool) bool {
	ifi, ok := pred.Instrs[len(pred.Instrs)-1].(*ssa.If)
	if !ok {
		return false
	}
	val := pred.Succs[0] == blk
	if pred.Succs[0] == blk && pred.Succs[1] == blk {
		return false
	}
	cond := ifi.Cond
	for {
		if u, isU := cond.(*ssa.UnOp); isU && u.Op == token.NOT {
			cond, val = u.X, !val
			continue
		}
		break
	}
	bo, ok := cond.(*ssa.BinOp)
	if !ok {
		return false
	}
	op, x, y := bo.Op, bo.X, bo.Y
	if _, isK := constUint(x); isK {
		x, y = y, x
		switch op {
		case token.LSS:
			op = token.GTR
		case token.LEQ:
			op = token.GEQ
		case token.GTR:
			op = token.LSS
		case token.GEQ:
			op = token.LEQ
		}
	}
	k, isK := constUint(y)
	if !isK || !alias(x) {
		return false
	}
	if !val {
		switch op {
		case token.LSS:
			op = token.GEQ
		case token.LEQ:
			op = token.GTR
		case token.GTR:
			op = token.LEQ
		case token.GEQ:
			op = token.LSS
		default:
			return false
		}
	}
	switch {
	case op == token.GTR && k < 1<<62, op == token.GEQ && k >= 1 && k < 1<<62:
		return true
	}
	return false
}

// R10.7 / R11.10: no count is reported together with an error. The block compressors turn an index panic (destination
// too small) into an error with a deferred recover; the handler only sets the error, so the count that reaches the
// caller is whatever the count result holds at the moment of the panic. It must therefore not be a working variable:
// the count result is written only as part of a return statement. (The frame writer uses the count without looking at
// the error.)
func ruleCountZeroOnError(c *Check, p *Program, rule string, names ...string) {
	for _, name := range names {
		fn := findFn(c, p, rule, "internal/lz4block", name)
		if fn == nil {
			continue
		}
		recovers := false
		allInstrs(fn, func(in ssa.Instruction) {
			if d, ok := in.(*ssa.Defer); ok {
				var callee *ssa.Function
				if mc, isMC := d.Call.Value.(*ssa.MakeClosure); isMC {
					callee, _ = mc.Fn.(*ssa.Function)
				} else {
					callee = d.Call.StaticCallee()
				}
				if callee != nil {
					for _, f := range withAnon(callee) {
						allInstrs(f, func(j ssa.Instruction) {
							if _, isRec := isBuiltinCall(j, "recover"); isRec {
								recovers = true
							}
						})
					}
				}
			}
		})
		if !recovers {
			c.OK(rule, name+"#count-zero-on-error", p.Pos(fn.Pos()), "no count is reported together with a recovered panic", "the function installs no recovering handler: a panic is not turned into a result", false)
			continue
		}
		// the cell of the count result: what the return instructions load for result 0
		var cell *ssa.Alloc
		allInstrs(fn, func(in ssa.Instruction) {
			if r, ok := in.(*ssa.Return); ok && len(r.Results) >= 1 {
				if ld, isLd := r.Results[0].(*ssa.UnOp); isLd && ld.Op == token.MUL {
					if al, isAl := ld.X.(*ssa.Alloc); isAl {
						cell = al
					}
				}
			}
		})
		if cell == nil {
			c.OK(rule, name+"#count-zero-on-error", p.Pos(fn.Pos()), "no count is reported together with a recovered panic", "the count result is not a variable: it is zero unless a return statement sets it", true)
			continue
		}
		bad := ""
		for _, st := range storesTo(cell) {
			// part of a return statement: the block runs the deferred calls and returns
			isRet := false
			for _, in := range st.Block().Instrs {
				if _, ok := in.(*ssa.Return); ok {
					isRet = true
				}
			}
			if k, isK := constUint(st.Val); isK && k == 0 {
				continue
			}
			if !isRet {
				bad = p.InstrPos(st)
			}
		}
		c.Sites++
		c.Cond(bad == "", rule, name+"#count-zero-on-error", p.Pos(fn.Pos()), "the count result is written only by return statements, so a panic recovered into an error leaves it at zero (callers use the count without looking at the error)", "stores to the count result occur only in returning blocks", "the count result is used as a working variable (written at "+bad+"): after a recovered panic a positive count is returned together with the error, and the frame writer emits that many bytes of an incomplete block")
	}
}

// R11.11: the package-level entry points (CompressBlock, CompressBlockHC: a pooled compressor) return exactly what
// the compressor method returns: no result of their own.
func ruleWrapperReturnsMethodResult(c *Check, p *Program, rule string) {
	for _, w := range []struct{ name, method string }{{"CompressBlock", "Compressor.CompressBlock"}, {"CompressBlockHC", "CompressorHC.CompressBlock"}} {
		fn := findFn(c, p, rule, "internal/lz4block", w.name)
		if fn == nil {
			continue
		}
		var call *ssa.Call
		for _, ci := range callsInDeep(fn) {
			if cc, ok := ci.(*ssa.Call); ok && calleeIs(ci, pkgBlock, w.method) {
				call = cc
			}
		}
		if call == nil {
			c.Fail(rule, w.name+"#forwards", p.Pos(fn.Pos()), "the entry point runs the compressor method", "no call of "+w.method)
			continue
		}
		bad := ""
		allInstrs(fn, func(in ssa.Instruction) {
			r, ok := in.(*ssa.Return)
			if !ok {
				return
			}
			for _, res := range r.Results {
				if !derivesFromValue(res, call) {
					bad = p.InstrPos(in)
				}
			}
		})
		c.Sites++
		c.Cond(bad == "", rule, w.name+"#returns-method-result", p.InstrPos(call), "every result of the entry point is the compressor method's result (the contract proved for the method holds for the entry point)", "all returns forward the call's results", "the return at "+bad+" yields a value of its own: the destination contract (0 only when the block does not fit) is bypassed for some inputs")
	}
}

// walkPathsPhi visits every acyclic path of fn (each block at most once per path) and calls visit for every
// instruction with the phi choices of that path.
func walkPathsPhi(fn *ssa.Function, visit func(in ssa.Instruction, phis map[*ssa.Phi]ssa.Value)) {
	if len(fn.Blocks) == 0 || len(fn.Blocks) > 60 {
		return
	}
	budget := 20000
	// known: conditions (SSA values) whose outcome an earlier branch of the path has fixed
	known := map[ssa.Value]bool{}
	var walk func(b, from *ssa.BasicBlock, phis map[*ssa.Phi]ssa.Value, seen map[*ssa.BasicBlock]bool)
	walk = func(b, from *ssa.BasicBlock, phis map[*ssa.Phi]ssa.Value, seen map[*ssa.BasicBlock]bool) {
		if seen[b] || budget <= 0 {
			return
		}
		budget--
		seen[b] = true
		defer delete(seen, b)
		if from != nil {
			np := map[*ssa.Phi]ssa.Value{}
			for k, v := range phis {
				np[k] = v
			}
			for pi, pr := range b.Preds {
				if pr != from {
					continue
				}
				for _, in := range b.Instrs {
					ph, isPhi := in.(*ssa.Phi)
					if !isPhi {
						break
					}
					np[ph] = ph.Edges[pi]
				}
				break
			}
			phis = np
		}
		for _, in := range b.Instrs {
			visit(in, phis)
		}
		// a branch on a boolean phi whose value this path has fixed takes only the matching side
		if ifi, ok := b.Instrs[len(b.Instrs)-1].(*ssa.If); ok && len(b.Succs) == 2 {
			cond, neg := ifi.Cond, false
			for i := 0; i < 4; i++ {
				if u, isU := cond.(*ssa.UnOp); isU && u.Op == token.NOT {
					cond, neg = u.X, !neg
					continue
				}
				if ph, isPhi := cond.(*ssa.Phi); isPhi {
					if e, has := phis[ph]; has {
						cond = e
						continue
					}
				}
				break
			}
			if k, isK := cond.(*ssa.Const); isK && k.Value != nil && k.Value.Kind() == constant.Bool {
				v := constant.BoolVal(k.Value) != neg
				if v {
					walk(b.Succs[0], b, phis, seen)
				} else {
					walk(b.Succs[1], b, phis, seen)
				}
				return
			}
			// the same condition tested again further down the path: only the side already taken
			if _, isPhi := cond.(*ssa.Phi); !isPhi {
				if v, has := known[cond]; has {
					if v != neg {
						walk(b.Succs[0], b, phis, seen)
					} else {
						walk(b.Succs[1], b, phis, seen)
					}
					return
				}
				for i, su := range b.Succs {
					known[cond] = (i == 0) != neg
					walk(su, b, phis, seen)
					delete(known, cond)
				}
				return
			}
		}
		for _, su := range b.Succs {
			walk(su, b, phis, seen)
		}
	}
	walk(fn.Blocks[0], nil, map[*ssa.Phi]ssa.Value{}, map[*ssa.BasicBlock]bool{})
}

// R02.15: the Reader's own block buffer never becomes the caller's buffer. Reader.read decodes either into r.data
// or, when the caller's buffer is large enough, directly into that; only in the first case may the result be kept in
// r.data (the next block is decoded into r.data[:cap], which would overwrite bytes already delivered).
func ruleOwnBufferNotAliased(c *Check, p *Program, rule string) {
	fn := findFn(c, p, rule, "", "Reader.read")
	if fn == nil {
		return
	}
	fromParam := func(v ssa.Value, phis map[*ssa.Phi]ssa.Value) (bool, bool) { // (is caller's buffer, resolved)
		for i := 0; i < 8; i++ {
			switch x := v.(type) {
			case *ssa.Parameter:
				return isSliceType(x.Type()), true
			case *ssa.Slice:
				v = x.X
			case *ssa.Phi:
				e, ok := phis[x]
				if !ok {
					return false, false
				}
				v = e
			case *ssa.Extract:
				call, isC := x.Tuple.(*ssa.Call)
				if !isC || x.Index != 0 || !calleeIs(call, pkgStream, "FrameDataBlock.Uncompress") || len(call.Call.Args) < 3 {
					return false, false
				}
				v = call.Call.Args[2]
			case *ssa.UnOp:
				if x.Op == token.MUL && lastField(x.X) == "Reader.data" {
					return false, true
				}
				return false, false
			default:
				return false, false
			}
		}
		return false, false
	}
	bad := ""
	n := 0
	walkPathsPhi(fn, func(in ssa.Instruction, phis map[*ssa.Phi]ssa.Value) {
		st, ok := in.(*ssa.Store)
		if !ok || lastField(st.Addr) != "Reader.data" {
			return
		}
		n++
		if alias, resolved := fromParam(st.Val, phis); resolved && alias {
			bad = p.InstrPos(st)
		}
	})
	c.Sites++
	c.Cond(bad == "", rule, "Reader.read#own-buffer-not-aliased", p.Pos(fn.Pos()), "r.data is never assigned (a slice of) the caller's buffer: the next block is decoded into r.data[:cap(r.data)]", fmt.Sprintf("%d store(s) to r.data examined along all paths", n), "on a path through the direct-decode branch the store at "+bad+" makes the caller's buffer the Reader's block buffer: the next buffered block is decoded over bytes already returned to the caller")
}

// R07.9: numbers read from the input do not size anything outside the module. An integer that derives from a header
// or block field (content size, block size word, checksums) is passed to a function outside the module only where
// that is known to allocate nothing of that size (io.CopyN to Discard, fmt, encoding/binary, errors).
func ruleInputSizedExternalCalls(c *Check, p *Program, rule string) {
	reach := readerEntryReach(p)
	var taintedFn func(f *ssa.Function, depth int) bool
	tainted := func(v ssa.Value) (bool, string) {
		bad, why := false, ""
		walkBack(v, true, func(x ssa.Value) bool {
			if call, ok := x.(*ssa.Call); ok {
				f := staticCallee(call)
				if f != nil && (isSourceRead32(f) || (f.Pkg != nil && f.Pkg.Pkg.Path() == "encoding/binary")) {
					bad, why = true, "derives from "+f.Name()+"()"
				}
				if f != nil && inModule(f) && taintedFn(f, 2) {
					bad, why = true, "derives from "+shortFn(f)+"(), which returns a field read from the input"
				}
				return false
			}
			if lf := loadField(x); lf == "FrameDataBlock.Size" || lf == "FrameDescriptor.ContentSize" || lf == "Frame.Checksum" || lf == "FrameDataBlock.Checksum" {
				bad, why = true, "derives from "+lf
			}
			return !bad
		})
		return bad, why
	}
	memo := map[*ssa.Function]int{}
	taintedFn = func(f *ssa.Function, depth int) bool {
		if depth <= 0 || len(f.Blocks) == 0 {
			return false
		}
		if v, ok := memo[f]; ok {
			return v == 1
		}
		memo[f] = 2
		res := false
		allInstrs(f, func(in ssa.Instruction) {
			r, ok := in.(*ssa.Return)
			if !ok {
				return
			}
			for _, x := range r.Results {
				if _, _, isI := isIntType(x.Type()); !isI {
					continue
				}
				hit := false
				walkBack(x, true, func(y ssa.Value) bool {
					if lf := loadField(y); lf == "FrameDescriptor.ContentSize" || lf == "FrameDataBlock.Size" {
						hit = true
					}
					if call, isC := y.(*ssa.Call); isC {
						if g := staticCallee(call); g != nil && inModule(g) && taintedFn(g, depth-1) {
							hit = true
						}
						return false
					}
					return !hit
				})
				if hit {
					res = true
				}
			}
		})
		if res {
			memo[f] = 1
		} else {
			memo[f] = 0
		}
		return res
	}
	allowed := func(ci ssa.CallInstruction) bool {
		f := staticCallee(ci)
		if f == nil || f.Pkg == nil {
			return false
		}
		switch f.Pkg.Pkg.Path() {
		case "fmt", "encoding/binary", "errors", "math/bits":
			return true
		case "io":
			return f.Name() == "CopyN" || f.Name() == "ReadFull"
		}
		return false
	}
	var fs []*ssa.Function
	for f := range reach {
		fs = append(fs, f)
	}
	sort.Slice(fs, func(i, j int) bool { return fs[i].Pos() < fs[j].Pos() })
	n := 0
	for _, fn := range fs {
		for _, ci := range callsIn(fn) {
			f := staticCallee(ci)
			if f != nil && inModule(f) {
				continue
			}
			if _, isB := ci.Common().Value.(*ssa.Builtin); isB {
				continue // make / append are judged by R07.4
			}
			for _, a := range ci.Common().Args {
				if _, _, isI := isIntType(a.Type()); !isI {
					continue
				}
				if t, why := tainted(a); t {
					n++
					c.Sites++
					callee := "a dynamic call"
					if f != nil {
						callee = shortFn(f)
					} else if ci.Common().IsInvoke() {
						callee = "method " + ci.Common().Method.Name()
					}
					c.Cond(allowed(ci), rule, shortFn(fn)+"#input-number-to:"+callee, p.InstrPos(ci), "a number read from the input is handed outside the module only to functions known not to allocate by it", callee, "the argument "+why+" and is passed to "+callee+": the input decides how much that call allocates or how long it runs (a 64-bit size field costs the attacker eight bytes)")
				}
			}
		}
	}
	c.Cond(n >= 1, rule, "reader#input-numbers-leaving-the-module", "", "call sites that pass input-derived numbers outside the module were found (the skippable-frame length)", fmt.Sprintf("%d sites", n), "no such call site found (expected io.CopyN for skippable frames)")
}

// R17.13: after Close further writes fail. Every return of Writer.Write / Writer.ReadFrom that is reachable in
// closedState yields an error that cannot be nil. (Returning the latched error is not enough: after a clean Close the
// latch is empty, and (0, nil) for a non-empty buffer also breaks the io.Writer contract.)
func ruleWritesFailAfterClose(c *Check, p *Program, rule string) {
	en := stateEnum(p)
	closed := vset{{en["closedState"], en["closedState"]}}
	for _, name := range []string{"Writer.Write", "Writer.ReadFrom"} {
		fn := findFn(c, p, rule, "", name)
		if fn == nil {
			continue
		}
		sv := stateLoadOf(fn)
		if sv == nil {
			continue // the dispatch was moved into a helper: not decided in this shape
		}
		sets := valueSetsAt(fn, sv, sv.(ssa.Instruction).Block(), 8)
		bad := ""
		n := 0
		allInstrs(fn, func(in ssa.Instruction) {
			r, ok := in.(*ssa.Return)
			if !ok || len(r.Results) != 2 {
				return
			}
			if len(sets[in.Block()].intersect(closed)) == 0 {
				return
			}
			// the state word is not tested again after the dispatch: returns further down are reached in other states
			// too; only those that lie in a block whose value set is confined to the closed/error arm count
			if len(sets[in.Block()].intersect(vset{{en["writeState"], en["writeState"]}, {en["newState"], en["newState"]}}.norm())) != 0 {
				return
			}
			n++
			res := r.Results[1]
			if ld, isLd := res.(*ssa.UnOp); isLd && ld.Op == token.MUL {
				if al, isAl := ld.X.(*ssa.Alloc); isAl {
					// named result: the value stored in this block
					for _, j := range in.Block().Instrs {
						if st, isS := j.(*ssa.Store); isS && st.Addr == ssa.Value(al) {
							res = st.Val
						}
					}
				}
			}
			if mayBeNilErr(res, in.Block()) {
				bad = p.InstrPos(in)
			}
		})
		c.Sites++
		c.Cond(n > 0 && bad == "", rule, name+"#fails-after-close", p.Pos(fn.Pos()), "in closedState "+name+" returns an error that cannot be nil", fmt.Sprintf("%d return(s) confined to the closed arm, each with a definite error", n), "the return at "+bad+" hands out the error latch, which is empty after a clean Close: the call reports (0, nil) and the data is silently dropped")
	}
}

// ---------------------------------------------------------------------------
// Effect rules.
//
// R17.15 / R05.12: observers are pure. Methods that only report something about the object (Size, the concurrency
// test, the error-latch peek, the descriptor getters) perform no I/O on the user's streams and store to no field,
// directly or in a module callee. (A reader of state that also parses, flushes or resets changes what later calls see.)
type obsSpec struct{ rel, name string }

func ruleObserversPure(c *Check, p *Program, rule string) {
	ruleObserversPureOf(c, p, rule, []obsSpec{{"", "Reader.Size"}, {"", "Writer.isNotConcurrent"}, {"", "Reader.isNotConcurrent"}, {"internal/lz4stream", "Blocks.ErrorR"}, {"internal/lz4stream", "Frame.isLegacy"}}, 2)
}

func ruleObserversPureOf(c *Check, p *Program, rule string, obs []obsSpec, atLeast int) {
	n := 0
	for _, o := range obs {
		fn := p.Func(o.rel, o.name)
		if fn == nil || len(fn.Blocks) == 0 {
			continue // inlined away by a refactoring: nothing to check
		}
		n++
		c.Funcs[fname(fn)] = true
		bad := ""
		seen := map[*ssa.Function]bool{}
		var visit func(f *ssa.Function, depth int)
		visit = func(f *ssa.Function, depth int) {
			if seen[f] || depth > 3 {
				return
			}
			seen[f] = true
			allInstrs(f, func(in ssa.Instruction) {
				switch x := in.(type) {
				case *ssa.Store:
					if lf := lastField(x.Addr); lf != "" {
						bad = "stores to " + lf + " at " + p.InstrPos(in)
					} else if _, isAl := x.Addr.(*ssa.Alloc); !isAl {
						if _, isIA := x.Addr.(*ssa.IndexAddr); !isIA {
							bad = "stores through a pointer at " + p.InstrPos(in)
						}
					}
				case ssa.CallInstruction:
					cc := x.Common()
					if cc.IsInvoke() {
						m := cc.Method.Name()
						if m == "Read" || m == "Write" || m == "Close" {
							bad = "calls " + m + " on a stream at " + p.InstrPos(in)
						}
						return
					}
					g := staticCallee(x)
					if g == nil {
						return
					}
					if g.Pkg != nil && (g.Pkg.Pkg.Path() == "io" || g.Pkg.Pkg.Path() == "io/ioutil" || g.Pkg.Pkg.Path() == "os") {
						bad = "calls " + shortFn(g) + " at " + p.InstrPos(in)
						return
					}
					if inModule(g) && len(g.Blocks) > 0 {
						visit(g, depth+1)
					}
				}
			})
		}
		visit(fn, 0)
		c.Sites++
		c.Cond(bad == "", rule, o.name+"#observer-is-pure", p.Pos(fn.Pos()), o.name+" only reports: it reads no stream and changes no field (directly or in a callee)", "no field store, no stream call", o.name+" "+bad+": a call that is supposed to observe changes what later calls see (a header consumed, an error dropped, a state changed)")
	}
	c.Cond(n >= atLeast, rule, "observers#found", "", "observer methods were found", fmt.Sprintf("%d analysed", n), fmt.Sprintf("only %d of the observer methods exist", n))
}

// R07.10 / R15.8: the user's streams are used only through the interface they were given as. A value that comes from
// the source/sink fields (Writer.src, Reader.src, CompressingReader.src) or from the stream parameter of
// ReadFrom / WriteTo / Reset / NewReader / NewWriter is never type-asserted or converted to another interface:
// optional methods of the concrete stream (Grow, ReadFrom, Seek, Len, ...) would be driven by numbers or decisions
// taken from untrusted input, and errors of such calls bypass the error rules.
func ruleStreamsThroughInterface(c *Check, p *Program, rule string) {
	isStreamType := func(t types.Type) bool {
		it, ok := t.Underlying().(*types.Interface)
		if !ok || it.NumMethods() == 0 || it.NumMethods() > 2 {
			return false
		}
		for i := 0; i < it.NumMethods(); i++ {
			switch it.Method(i).Name() {
			case "Read", "Write", "Close":
			default:
				return false
			}
		}
		return true
	}
	isUserStream := func(v ssa.Value) bool {
		found := false
		walkBack(v, false, func(x ssa.Value) bool {
			switch y := x.(type) {
			case *ssa.Parameter:
				if isStreamType(y.Type()) {
					found = true
				}
			case *ssa.UnOp:
				if lf := loadField(y); lf == "Writer.src" || lf == "Reader.src" || lf == "CompressingReader.src" {
					found = true
				}
			}
			return !found
		})
		return found
	}
	n := 0
	var bad []string
	for _, fn := range moduleFuncs(p, pkgRoot, pkgStream) {
		for _, g := range withAnon(fn) {
			allInstrs(g, func(in ssa.Instruction) {
				switch x := in.(type) {
				case *ssa.TypeAssert:
					if isStreamType(x.X.Type()) && isUserStream(x.X) {
						n++
						bad = append(bad, shortFn(g)+" asserts "+types.TypeString(x.AssertedType, nil)+" at "+p.InstrPos(in))
					}
				case *ssa.ChangeInterface:
					if isStreamType(x.X.Type()) && isUserStream(x.X) {
						if it, ok := x.Type().Underlying().(*types.Interface); ok && !isStreamType(x.Type()) && it.NumMethods() > 0 {
							bad = append(bad, shortFn(g)+" converts the stream to "+types.TypeString(x.Type(), nil)+" at "+p.InstrPos(in))
						}
					}
				}
			})
		}
	}
	c.Sites++
	c.Cond(len(bad) == 0, rule, "streams#used-through-their-interface", "", "source and sink are used only as the io.Reader / io.Writer (io.ReadCloser) they were passed as: no type assertion or conversion to a wider interface", "no assertion on a user stream in the root package or lz4stream", strings.Join(bad, "; ")+": an optional method of the concrete stream is driven by data or decisions from the input, outside the error and allocation rules")
}

// ---------------------------------------------------------------------------
// Round 5.

// R08.15: the writer's shutdown handshake is unconditional: every path of Frame.CloseW to a return passes
// Blocks.close (whatever the frame kind): otherwise Close returns while the ordering goroutine still writes.
func ruleCloseWAlwaysCloses(c *Check, p *Program, rule string) {
	fn := findFn(c, p, rule, "internal/lz4stream", "Frame.CloseW")
	if fn == nil {
		return
	}
	miss, _ := reachAvoid(fn, nil, isReturn, func(in ssa.Instruction) bool {
		ci, ok := in.(ssa.CallInstruction)
		return ok && (calleeIs(ci, pkgStream, "Blocks.close") || callReaches(ci, func(x ssa.CallInstruction) bool { return calleeIs(x, pkgStream, "Blocks.close") }))
	})
	c.Sites++
	c.Cond(!miss, rule, "Frame.CloseW#always-closes-pipeline", p.Pos(fn.Pos()), "every path of CloseW shuts the block pipeline down (sentinel handshake) before it returns, for legacy frames too", "Blocks.close on every path", "a return of CloseW is reachable without Blocks.close: with concurrency the ordering goroutine is still writing (and stays alive) when Close returns, and its sink error is never reported")
}

// R17.16 / R15.9: a failed object stays failed. In errorState every return of the data-path methods yields the latched
// error (a load of _State.err) or a definite error; no path reachable in errorState returns a possibly-nil error.
func ruleStickyError(c *Check, p *Program, rule string) {
	en := stateEnum(p)
	es := vset{{en["errorState"], en["errorState"]}}
	for _, name := range []string{"Writer.Write", "Writer.Flush", "Writer.ReadFrom", "Reader.Read", "Reader.WriteTo"} {
		fn := findFn(c, p, rule, "", name)
		if fn == nil {
			continue
		}
		sv := stateLoadOf(fn)
		if sv == nil {
			continue // the dispatch was moved into a helper: not decided here
		}
		sets := valueSetsAt(fn, sv, sv.(ssa.Instruction).Block(), 8)
		bad := ""
		n := 0
		allInstrs(fn, func(in ssa.Instruction) {
			r, ok := in.(*ssa.Return)
			if !ok || len(r.Results) == 0 {
				return
			}
			if len(sets[in.Block()].intersect(es)) == 0 {
				return
			}
			n++
			res := r.Results[len(r.Results)-1]
			if ld, isLd := res.(*ssa.UnOp); isLd && ld.Op == token.MUL {
				if al, isAl := ld.X.(*ssa.Alloc); isAl {
					for _, j := range in.Block().Instrs {
						if st, isS := j.(*ssa.Store); isS && st.Addr == ssa.Value(al) {
							res = st.Val
						}
					}
				}
			}
			if loadField(res) == "_State.err" {
				return
			}
			if call, isC := res.(*ssa.Call); isC && calleeIs(call, pkgRoot, "_State.fail") {
				return
			}
			if mayBeNilErr(res, in.Block()) {
				bad = p.InstrPos(in)
			}
		})
		c.Sites++
		c.Cond(bad == "", rule, name+"#error-is-sticky", p.Pos(fn.Pos()), "every return of "+name+" that can be reached in errorState yields the latched error", fmt.Sprintf("%d such return(s)", n), "the return at "+bad+" is reachable with the object in errorState and may yield nil: the failure is forgotten (Close then completes the frame on a sink that lost data)")
	}
}

// R17.17 / R08.16 / R18.14: a pool buffer is released once. After lz4block.Put(x.f) of a buffer held in a field, the
// field is overwritten (nil or a new buffer) before the function returns: a later Reset / Close / end of stream
// puts a non-nil field back, and the same slice would then be handed out twice by the pool.
func ruleNoDoubleRelease(c *Check, p *Program, rule string, owners ...string) {
	n := 0
	for _, fn := range moduleFuncs(p, pkgRoot) {
		ownerOK := len(owners) == 0
		for _, o := range owners {
			if recvTypeName(fn) == o {
				ownerOK = true
			}
		}
		if !ownerOK || fn.Parent() != nil {
			continue
		}
		for _, ci := range callsIn(fn) {
			if !calleeIs(ci, pkgBlock, "Put") || len(ci.Common().Args) != 1 {
				continue
			}
			if _, isDefer := ci.(*ssa.Defer); isDefer {
				continue
			}
			f := loadField(ci.Common().Args[0])
			if f == "" {
				continue // a local buffer
			}
			n++
			c.Sites++
			isStore := func(in ssa.Instruction) bool {
				st, ok := in.(*ssa.Store)
				return ok && lastField(st.Addr) == f
			}
			miss, _ := reachAvoid(fn, ci.(ssa.Instruction), isReturn, isStore)
			c.Cond(!miss, rule, shortFn(fn)+"#released-field-overwritten:"+f, p.InstrPos(ci), "after a buffer held in "+f+" has been returned to the pool the field is overwritten before the function returns", "every path stores to "+f, f+" still refers to the released buffer when the function returns: the next Reset / Close / end of stream releases it again, and the pool hands the same slice to two users")
		}
	}
	if len(owners) == 0 {
		c.Cond(n >= 1, rule, "pool-release-of-fields", "", "releases of field-held pool buffers were found", fmt.Sprintf("%d sites", n), "no lz4block.Put of a field-held buffer found")
	}
}

// R18.13: every failing Read ends the compressing reader. In the deferred epilogue of Read every path on which the
// error result may be non-nil stores crStateDone (a retry after an error would skip the bytes already pulled from
// the source into the input buffer).
func ruleDoneOnEveryError(c *Check, p *Program, rule string) {
	fn := findFn(c, p, rule, "", "CompressingReader.Read")
	if fn == nil {
		return
	}
	var ep *ssa.Function
	allInstrs(fn, func(in ssa.Instruction) {
		if d, ok := in.(*ssa.Defer); ok {
			if mc, isMC := d.Call.Value.(*ssa.MakeClosure); isMC {
				ep, _ = mc.Fn.(*ssa.Function)
			} else if f := d.Call.StaticCallee(); f != nil && inModule(f) {
				ep = f
			}
		}
	})
	if ep == nil || len(ep.Blocks) == 0 {
		c.Fail(rule, "CompressingReader.Read#done-on-error", p.Pos(fn.Pos()), "Read has a deferred epilogue that ends the reader on error", "no deferred function found")
		return
	}
	isDone := func(in ssa.Instruction) bool {
		st, ok := in.(*ssa.Store)
		if !ok || lastField(st.Addr) != "CompressingReader.state" {
			return false
		}
		k, isK := constUint(st.Val)
		return isK && k == 3
	}
	bad := ""
	allInstrs(ep, func(in ssa.Instruction) {
		if !isReturn(in) {
			return
		}
		// a return of the epilogue that does not pass the store must lie on the err == nil side
		pass := false
		for _, j := range in.Block().Instrs {
			if isDone(j) {
				pass = true
			}
		}
		if pass {
			return
		}
		if r, _ := reachAvoid(ep, nil, func(j ssa.Instruction) bool { return j == in }, isDone); !r {
			return
		}
		nilSide := false
		for _, a := range atomsOfBlockLocal(in.Block()) {
			if a.Kind == "errnil" && a.Val {
				nilSide = true
			}
		}
		// the join after `if err != nil { state = done }`: reachable avoiding the store only through the nil edge
		if !nilSide {
			onlyNil := true
			for _, b := range ep.Blocks {
				ifi, ok := b.Instrs[len(b.Instrs)-1].(*ssa.If)
				if !ok {
					continue
				}
				at := atomOf(ifi.Cond, true)
				if at.Kind == "errnil" {
					continue
				}
				// any other branch in the epilogue can route an error past the store
				for _, s := range b.Succs {
					if r, _ := reachAvoid(ep, s.Instrs[0], func(j ssa.Instruction) bool { return j == in }, isDone); r || s == in.Block() {
						onlyNil = false
					}
				}
			}
			if !onlyNil {
				bad = p.InstrPos(in)
			}
		}
	})
	c.Sites++
	c.Cond(bad == "", rule, "CompressingReader.Read#done-on-every-error", p.Pos(ep.Pos()), "whenever Read returns an error the reader moves to its final state (the only branch of the epilogue that skips the transition is err == nil)", "the transition is skipped only on the err == nil edge", "the epilogue can return at "+bad+" without ending the reader although the error may be non-nil: a retry resumes mid-block and silently drops the bytes already taken from the source")
}


// deferredBefore: the defer statements of the function whose block dominates
// the block of at (they are registered on every path that reaches at).
func deferredBefore(at ssa.Instruction) []*ssa.Defer {
	var out []*ssa.Defer
	fn := at.Parent()
	for _, b := range fn.Blocks {
		for _, in := range b.Instrs {
			if d, ok := in.(*ssa.Defer); ok && (b == at.Block() || b.Dominates(at.Block())) {
				out = append(out, d)
			}
		}
	}
	return out
}

// deferTarget: the function a defer statement runs (a closure literal or a static callee).
func deferTarget(d *ssa.Defer) *ssa.Function {
	if f := staticCallee(d); f != nil {
		return f
	}
	if mc, ok := d.Call.Value.(*ssa.MakeClosure); ok {
		f, _ := mc.Fn.(*ssa.Function)
		return f
	}
	return nil
}

// deferredResult: the return yields a named result that a deferred closure of the
// function assigns on all of its paths; the values assigned there are returned.
func deferredResult(v ssa.Value, ret ssa.Instruction) []ssa.Value {
	u, ok := v.(*ssa.UnOp)
	if !ok || u.Op != token.MUL {
		return nil
	}
	cell, ok := u.X.(*ssa.Alloc)
	if !ok {
		return nil
	}
	for _, d := range deferredBefore(ret) {
		mc, isMC := d.Call.Value.(*ssa.MakeClosure)
		if !isMC {
			continue
		}
		f, _ := mc.Fn.(*ssa.Function)
		if f == nil {
			continue
		}
		for i, bnd := range mc.Bindings {
			if bnd != ssa.Value(cell) || i >= len(f.FreeVars) {
				continue
			}
			fv := f.FreeVars[i]
			var vals []ssa.Value
			isSt := func(in ssa.Instruction) bool {
				st, isS := in.(*ssa.Store)
				return isS && st.Addr == ssa.Value(fv)
			}
			allInstrs(f, func(in ssa.Instruction) {
				if isSt(in) {
					vals = append(vals, in.(*ssa.Store).Val)
				}
			})
			if okAll, _ := mustOnAllPaths(nil, f, isSt, false, 0); okAll && len(vals) > 0 {
				return vals
			}
		}
	}
	return nil
}

// ---------------------------------------------------------------------------
// R14.13: the block compressors never observe what the destination held before
// the call. Every load from the destination buffer reads a byte that the same
// call has stored at the same index before, on every path (the token byte is
// written, then or-ed with the literal length); the destination is never the
// source of a copy or of a word read.

func ruleDestinationWriteOnly(c *Check, p *Program, rule string) {
	nRMW := 0
	for _, name := range []string{"Compressor.CompressBlock", "CompressorHC.CompressBlock"} {
		fn := findFn(c, p, rule, "internal/lz4block", name)
		if fn == nil {
			continue
		}
		for _, g := range splitFns(fn) {
			// the destination: a byte-slice parameter the function stores into
			rootOf := func(v ssa.Value) ssa.Value {
				for i := 0; i < 8; i++ {
					switch x := v.(type) {
					case *ssa.Slice:
						v = x.X
						continue
					case *ssa.Phi:
						// a re-sliced parameter carried around a loop
						var r ssa.Value
						same := true
						for _, e := range x.Edges {
							if e == ssa.Value(x) {
								continue
							}
							if r == nil {
								r = e
							} else if r != e {
								same = false
							}
						}
						if same && r != nil {
							v = r
							continue
						}
					}
					break
				}
				return v
			}
			dsts := map[ssa.Value]bool{}
			allInstrs(g, func(in ssa.Instruction) {
				if st, ok := in.(*ssa.Store); ok {
					if ia, isIA := st.Addr.(*ssa.IndexAddr); isIA {
						if pr, isP := rootOf(ia.X).(*ssa.Parameter); isP && isSliceType(pr.Type()) {
							dsts[pr] = true
						}
					}
				}
			})
			if len(dsts) == 0 {
				continue
			}
			isDst := func(v ssa.Value) bool { return dsts[rootOf(v)] }
			allInstrs(g, func(in ssa.Instruction) {
				switch x := in.(type) {
				case *ssa.UnOp:
					if x.Op != token.MUL {
						return
					}
					ia, isIA := x.X.(*ssa.IndexAddr)
					if !isIA || !isDst(ia.X) {
						return
					}
					nRMW++
					c.Sites++
					idx := ia.Index
					// forward exploration with one bit: "this call has stored at this index"
					stored := func(j ssa.Instruction) bool {
						st, ok := j.(*ssa.Store)
						if !ok {
							return false
						}
						ja, isJ := st.Addr.(*ssa.IndexAddr)
						return isJ && isDst(ja.X) && ja.Index == idx
					}
					type state struct {
						b    *ssa.BasicBlock
						have bool
					}
					seen := map[state]bool{}
					bad := false
					var walk func(b *ssa.BasicBlock, have bool)
					walk = func(b *ssa.BasicBlock, have bool) {
						if seen[state{b, have}] || bad {
							return
						}
						seen[state{b, have}] = true
						for _, j := range b.Instrs {
							if v, isV := j.(ssa.Value); isV && v == idx {
								have = false // a new value of the index: nothing stored there yet
							}
							if stored(j) {
								have = true
							}
							if j == ssa.Instruction(x) && !have {
								bad = true
								return
							}
						}
						for _, s := range b.Succs {
							walk(s, have)
						}
					}
					walk(g.Blocks[0], false)
					c.Cond(!bad, rule, fmt.Sprintf("%s#reads-only-own-bytes#%d", shortFn(g), nRMW), p.InstrPos(in), "a byte of the destination is read only after this call has stored at the same index on every path (the output never depends on what the buffer held before)", "a store to dst[same index] precedes the load on all paths", "the load of dst["+shortVal(idx)+"] is reachable without a store to that index in this call: the emitted byte depends on the previous contents of the destination (a reused or pooled buffer gives different output for the same input)")
				case ssa.CallInstruction:
					if cc, ok := isBuiltinCall(in, "copy"); ok && len(cc.Args) == 2 && isDst(cc.Args[1]) {
						c.Fail(rule, shortFn(g)+"#destination-copied-from", p.InstrPos(in), "the destination is never the source of a copy", "copy reads from the destination buffer")
					}
					if f := staticCallee(x); f != nil && f.Pkg != nil && f.Pkg.Pkg.Path() == "encoding/binary" && strings.HasPrefix(f.Name(), "Uint") {
						for _, a := range x.Common().Args {
							if isDst(a) {
								c.Fail(rule, shortFn(g)+"#destination-word-read", p.InstrPos(in), "no word is read back from the destination", "binary."+f.Name()+" reads the destination buffer")
							}
						}
					}
				}
			})
		}
	}
	if nRMW < 2 {
		c.Fail(rule, "compressors#destination-loads", "", "the read-modify-write sites of the token byte are resolved", fmt.Sprintf("only %d loads from a destination buffer found in the two compressors", nRMW))
	}
}

// ---------------------------------------------------------------------------
// R02.20: nothing is appended to a slice of block bytes. FrameDataBlock.Data
// may be a window of the caller's buffer (zero-copy path) or of a pooled block
// buffer; append writes into the spare capacity behind it, i.e. into the
// caller's next block or into bytes another part of the pipeline still owns.
// The slices the library appends to are its own scratch buffers (Frame.buf,
// the rolling dictionary, the overflow adapter).

func ruleNoAppendOntoBlockBytes(c *Check, p *Program, rule string) {
	borrowed := []string{"FrameDataBlock.Data", "FrameDataBlock.data", "FrameDataBlock.src", "Writer.data", "Reader.data", "CompressingReader.in"}
	n := 0
	for _, fn := range moduleFuncs(p, pkgRoot, pkgStream) {
		for _, f := range withAnon(fn) {
			allInstrs(f, func(in ssa.Instruction) {
				cc, ok := isBuiltinCall(in, "append")
				if !ok || len(cc.Args) < 1 {
					return
				}
				n++
				c.Sites++
				base := cc.Args[0]
				for _, fld := range borrowed {
					if loadField(base) == fld || derivesFromField(base, fld) {
						c.Fail(rule, shortFn(f)+"#append-onto:"+fld, p.InstrPos(in), "no append has a slice of block bytes as its base (the spare capacity behind a block belongs to the caller's buffer or to a pooled buffer in use)", "append writes behind "+fld+": on the zero-copy path that is the caller's next block, which is overwritten before it is compressed")
						return
					}
				}
			})
		}
	}
	c.Cond(n >= 3, rule, "stream#append-sites", "", "the append sites of the frame layer are resolved (trailer buffer, rolling dictionary, overflow adapter)", fmt.Sprintf("%d append sites, none onto block bytes", n), fmt.Sprintf("only %d append sites found", n))
}

// ---------------------------------------------------------------------------
// R14.16: the block pipeline of a frame is set up only once the descriptor's
// block size is final. Blocks.initW fetches the sequential block buffer from
// the pool selected by the descriptor's block-size code; a code written after
// that call (the legacy branch sets the 8 MiB code) leaves a buffer of the
// previous size in place, and whether a block fits - compressed or stored raw -
// then depends on what the Writer did before.

func ruleInitWAfterDescriptor(c *Check, p *Program, rule string) {
	fn := findFn(c, p, rule, "internal/lz4stream", "Frame.InitW")
	if fn == nil {
		return
	}
	var init ssa.Instruction
	for _, ci := range callsIn(fn) {
		if calleeIs(ci, pkgStream, "Blocks.initW") {
			init = ci
		}
	}
	if init == nil {
		c.Fail(rule, "Frame.InitW#pipeline-after-descriptor", p.Pos(fn.Pos()), "Frame.InitW sets up the block pipeline", "no call of Blocks.initW in Frame.InitW (anchor unresolved)")
		return
	}
	c.Sites++
	setsSize := func(in ssa.Instruction) bool {
		ci, ok := in.(ssa.CallInstruction)
		if !ok {
			return false
		}
		isSet := func(x ssa.CallInstruction) bool {
			return calleeIs(x, pkgStream, "DescriptorFlags.BlockSizeIndexSet")
		}
		if st, isSt := in.(*ssa.Store); isSt && lastField(st.Addr) == "FrameDescriptor.Flags" {
			return true
		}
		return isSet(ci) || callReaches(ci, isSet)
	}
	late, _ := reachAvoid(fn, init, func(in ssa.Instruction) bool {
		if st, isSt := in.(*ssa.Store); isSt && lastField(st.Addr) == "FrameDescriptor.Flags" {
			return true
		}
		return setsSize(in)
	}, nil)
	c.Cond(!late, rule, "Frame.InitW#pipeline-after-descriptor", p.InstrPos(init), "Blocks.initW (which fetches the block buffer for the descriptor's block size) runs after every write of the block-size code in Frame.InitW", "no block-size write is reachable after the call", "the block-size code is written after Blocks.initW has fetched the block buffer: a fresh sequential legacy Writer compresses its 8 MiB blocks into a buffer of the previous size and stores them raw when they do not fit, a reused or concurrent one does not")
}

// ---------------------------------------------------------------------------
// R16.8: the decoding mode is looked at after the frame header has decided it.
// Reader.init forces sequential decoding for frames with dependent blocks (and
// legacy frames): it stores num = 1 and creates no pipeline. A mode test whose
// value was computed before a call that reaches Reader.init and is used after
// it selects the concurrent path for such a frame and waits on a channel that
// does not exist.

func ruleModeAfterInit(c *Check, p *Program, rule string) {
	n := 0
	for _, name := range []string{"Reader.Read", "Reader.WriteTo"} {
		fn := findFn(c, p, rule, "", name)
		if fn == nil {
			continue
		}
		isInit := func(in ssa.Instruction) bool {
			ci, ok := in.(ssa.CallInstruction)
			if !ok {
				return false
			}
			hit := func(x ssa.CallInstruction) bool { return calleeIs(x, pkgRoot, "Reader.init") }
			return hit(ci) || callReaches(ci, hit)
		}
		hasInit := false
		allInstrs(fn, func(in ssa.Instruction) {
			if isInit(in) {
				hasInit = true
			}
		})
		// mode tests in the helpers the method was split into count for the floor: they run where they are called
		for _, g := range deepFuncs(fn, 2)[1:] {
			allInstrs(g, func(in ssa.Instruction) {
				if call, ok := in.(*ssa.Call); ok && calleeIs(call, pkgRoot, "Reader.isNotConcurrent") {
					n++
				}
				if ld, ok := in.(*ssa.UnOp); ok && ld.Op == token.MUL && lastField(ld.X) == "Reader.num" {
					n++
				}
			})
		}
		if !hasInit {
			continue
		}
		allInstrs(fn, func(in ssa.Instruction) {
			v, isV := in.(ssa.Value)
			if !isV {
				return
			}
			mode := false
			if call, ok := in.(*ssa.Call); ok && calleeIs(call, pkgRoot, "Reader.isNotConcurrent") {
				mode = true
			}
			if ld, ok := in.(*ssa.UnOp); ok && ld.Op == token.MUL && lastField(ld.X) == "Reader.num" {
				mode = true
			}
			if !mode {
				return
			}
			n++
			c.Sites++
			// a use of the value (or of a comparison built on it) that can be reached from a later init
			stale := ""
			var uses []ssa.Instruction
			var collect func(x ssa.Value, depth int)
			collect = func(x ssa.Value, depth int) {
				if depth > 3 || x.Referrers() == nil {
					return
				}
				for _, r := range *x.Referrers() {
					switch y := r.(type) {
					case *ssa.If:
						uses = append(uses, y)
					case *ssa.BinOp:
						collect(y, depth+1)
					case *ssa.UnOp:
						collect(y, depth+1)
					case *ssa.Phi:
						collect(y, depth+1)
					}
				}
			}
			collect(v, 0)
			allInstrs(fn, func(j ssa.Instruction) {
				if stale != "" || !isInit(j) {
					return
				}
				if r, _ := reachAvoid(fn, in, func(x ssa.Instruction) bool { return x == j }, nil); !r {
					return // this init cannot run after the value was computed
				}
				for _, u := range uses {
					uu := u
					if r2, _ := reachAvoid(fn, j, func(x ssa.Instruction) bool { return x == uu }, func(x ssa.Instruction) bool { return x == in }); r2 {
						stale = p.InstrPos(uu)
					}
				}
			})
			c.Cond(stale == "", rule, fmt.Sprintf("%s#mode-read-after-init#%d", name, n), p.InstrPos(in), "the sequential/concurrent decision uses a value of the mode obtained after Reader.init (which forces sequential decoding for dependent and legacy frames)", "no use of the value is reachable from a later call of init", "the mode value computed here is still used at "+stale+" after Reader.init may have changed the mode: a dependent frame opened with a concurrency above 1 takes the concurrent path and blocks on the missing pipeline")
		})
	}
	if n < 2 {
		c.Fail(rule, "Reader#mode-tests", "", "the mode tests of Reader.Read and Reader.WriteTo are resolved", fmt.Sprintf("only %d mode test(s) found", n))
	}
}

// ---------------------------------------------------------------------------
// R07.16, numeric: FrameDataBlock.Uncompress cannot panic on any (block bytes, destination) pair: the destination is
// whatever the caller has (after the end of a frame it is the caller's own, possibly tiny, buffer) and the block bytes
// are whatever the stream announced, so every re-slice of the destination must be bounded by a quantity known not to
// exceed it (the result of copy, or the count the block decoder returns: 0 <= n <= len(dst), its result obligation
// under C03/C04).

func ruleUncompressNoPanic(c *Check, p *Program, rule string) {
	if !bndArch() {
		return
	}
	fn := findFn(c, p, rule, "internal/lz4stream", "FrameDataBlock.Uncompress")
	if fn == nil {
		return
	}
	coll := newCollector()
	hooks := goHooks{
		inlineOnly: func(g *goProg, a *AbsState, call *ssa.Call, f *ssa.Function) bool {
			if pureCallee(f) {
				return true
			}
			return f.Pkg == fn.Pkg && isHelper(f) && len(f.Blocks) <= 12
		},
		afterCall: func(g *goProg, a *AbsState, call *ssa.Call, f *ssa.Function) {
			if len(call.Call.Args) < 2 {
				return
			}
			// the block decoder, or a decoder picked through a function value: each candidate is the block decoder or
			// a function whose count is what copy(dst, ...) returned
			bounded := func(h *ssa.Function) bool {
				if h == nil || h.Pkg == nil {
					return false
				}
				if strings.HasSuffix(h.Pkg.Pkg.Path(), "internal/lz4block") && h.Name() == "UncompressBlock" {
					return true
				}
				if !inModule(h) || len(h.Params) < 2 || len(h.Blocks) > 3 {
					return false
				}
				ok, n := true, 0
				allInstrs(h, func(in ssa.Instruction) {
					r, isR := in.(*ssa.Return)
					if !isR || len(r.Results) == 0 {
						return
					}
					n++
					cc, isC := r.Results[0].(*ssa.Call)
					if !isC {
						ok = false
						return
					}
					bi, isB := cc.Call.Value.(*ssa.Builtin)
					if !isB || bi.Name() != "copy" || cc.Call.Args[0] != ssa.Value(h.Params[1]) {
						ok = false
					}
				})
				return ok && n > 0
			}
			good := bounded(f)
			if f == nil {
				if ph, isPhi := call.Call.Value.(*ssa.Phi); isPhi && !call.Call.IsInvoke() {
					good = len(ph.Edges) > 0
					for _, e := range ph.Edges {
						hf, isF := e.(*ssa.Function)
						if !isF || !bounded(hf) {
							good = false
						}
					}
				}
			}
			if !good {
				return
			}
			if v, has := a.vals[g.k(call)+"#0"]; has {
				a.st.le(v.Neg())
				a.st.leq(v, g.sliceOf(a, call.Call.Args[1]).len)
			}
		},
	}
	lp0 := lpCount
	roots := []string{"field:FrameDataBlock.data"}
	for _, prm := range fn.Params {
		if isSliceType(prm.Type()) {
			roots = append(roots, prm.Name())
		}
	}
	res, _, err := analyseGoFunc(p, fn, "FrameDataBlock.Uncompress", roots, hooks, coll)
	c.LPQ += lpCount - lp0
	if err != nil {
		c.TroubleF("FrameDataBlock.Uncompress: %v", err)
		return
	}
	if res.trouble != "" {
		c.TroubleF("FrameDataBlock.Uncompress: %s", res.trouble)
	}
	desc := "no slice or index operation of Uncompress can panic, whatever the sizes of the block and of the destination (after the end of a frame the destination is the caller's own buffer)"
	n := 0
	for _, k := range coll.order {
		o := coll.obls[k]
		if o.kind != "nopanic" {
			continue
		}
		n++
		if o.ok {
			c.OK(rule, o.site, o.pos, desc, fmt.Sprintf("entailed in all %d abstract state(s)", o.states), true)
		} else {
			c.Fail(rule, o.site, o.pos, desc, "not entailed: "+strings.Join(o.fail, " || "))
		}
	}
	if n == 0 {
		c.Fail(rule, "FrameDataBlock.Uncompress#no-panic", p.Pos(fn.Pos()), desc, "no slice operation reached by the analysis")
	}
}

// ---------------------------------------------------------------------------
// R07.17: the channel the consuming side of the concurrent Reader receives from (Reader.reads) is never left nil
// where a receive can follow: a receive from a nil channel blocks forever. A nil store to the field is admitted only
// together with the state reset (`_State.reset`, which sends the next call through init, where the channel is set).

func ruleReadsChannelNotNil(c *Check, p *Program, rule string) {
	n := 0
	for _, fn := range moduleFuncs(p, pkgRoot) {
		if recvTypeName(fn) != "Reader" && (fn.Parent() == nil || recvTypeName(fn.Parent()) != "Reader") {
			continue
		}
		isReset := func(in ssa.Instruction) bool {
			ci, ok := in.(ssa.CallInstruction)
			return ok && calleeIs(ci, pkgRoot, "_State.reset")
		}
		allInstrs(fn, func(in ssa.Instruction) {
			st, ok := in.(*ssa.Store)
			if !ok || lastField(st.Addr) != "Reader.reads" {
				return
			}
			n++
			c.Sites++
			key := shortFn(fn) + "#reads-channel-store"
			desc := "the channel Read and WriteTo receive from is set by init and cleared only together with the state reset: a receive from a nil channel never returns"
			if !isNilConst(st.Val) {
				c.Cond(true, rule, key, p.InstrPos(in), desc, "a channel value is stored", "")
				return
			}
			before := false
			for _, b := range fn.Blocks {
				for _, j := range b.Instrs {
					if isReset(j) && (b != in.Block() && b.Dominates(in.Block()) || b == in.Block() && idxOf(j) < idxOf(in)) {
						before = true
					}
				}
			}
			miss := true
			if !before {
				miss, _ = reachAvoid(fn, in, isReturn, isReset)
			}
			c.Cond(before || !miss, rule, key, p.InstrPos(in), desc, "nil store accompanied by _State.reset on every path", "the channel is set to nil while the Reader stays in its current state: the next Read or WriteTo in concurrent mode receives from a nil channel and blocks forever")
		})
	}
	if n == 0 {
		c.Fail(rule, "Reader#reads-channel-store", "", "stores to Reader.reads are resolved", "no store to Reader.reads found (anchor unresolved)")
	}
}
