package main

import (
	"fmt"
	"go/constant"
	"go/token"
	"go/types"
	"strings"

	"golang.org/x/tools/go/ssa"
)

func init() {
	register("C10", checkC10)
	register("C11", checkC11)
	portableDecoderRules = portableDecoderRulesImpl
	dstNonNilAtCallSite = dstNonNilAtCallSiteImpl
}

// emit turns collected prover obligations into check obligations.
func emitObls(c *Check, coll *collector, prefix string, ruleOf map[string]string) int {
	n := 0
	for _, k := range coll.order {
		o := coll.obls[k]
		rule, want := ruleOf[o.kind]
		if !want {
			continue
		}
		n++
		if o.ok {
			c.OK(rule, prefix+o.site, o.pos, o.desc, fmt.Sprintf("entailed in all %d abstract state(s) reaching the site", o.states), true)
		} else {
			c.Fail(rule, prefix+o.site, o.pos, o.desc, "not entailed: "+strings.Join(o.fail, " || "))
		}
	}
	return n
}

// ---------------------------------------------------------------------------
// compressor hooks

type compHooks struct {
	hc            bool // HC compressor: offset >= 1 is not decided
	name          string
	boundV        ssa.Value
	finalCopySeen bool
}

func (h *compHooks) hooks() goHooks {
	return goHooks{
		onStore:  h.onStore,
		onCopy:   h.onCopy,
		onReturn: h.onReturn,
	}
}

func byteConvOperand(v ssa.Value) (ssa.Value, bool) {
	cv, ok := v.(*ssa.Convert)
	if !ok {
		return nil, false
	}
	n, u, isI := isIntType(cv.Type())
	if !isI || !u || n != 8 {
		return nil, false
	}
	if _, isConst := cv.X.(*ssa.Const); isConst {
		return nil, false
	}
	return cv.X, true
}

func (h *compHooks) onStore(g *goProg, a *AbsState, st *ssa.Store) {
	ia, ok := st.Addr.(*ssa.IndexAddr)
	if !ok || a.meta[vkey(ia)+".root"] != "dst" {
		return
	}
	x, ok := byteConvOperand(st.Val)
	if !ok {
		return
	}
	// offset pair? another store in this block writes byte(x >> 8)
	isLow, isHigh := false, false
	if b, isB := x.(*ssa.BinOp); isB && b.Op == token.SHR {
		if k, isK := constUint(b.Y); isK && k == 8 {
			isHigh = true
		}
	}
	for _, in := range st.Block().Instrs {
		if s2, isSt := in.(*ssa.Store); isSt && s2 != st {
			if y, okY := byteConvOperand(s2.Val); okY {
				if b, isB := y.(*ssa.BinOp); isB && b.Op == token.SHR && b.X == x {
					isLow = true
				}
			}
		}
	}
	xv := g.val(a, x)
	switch {
	case isLow:
		g.coll.check("offset", g.siteKey(st, "offset-store"), g.prog.InstrPos(st), "the 16-bit offset written into the block is at most 65535 (and at least 1 for the fast compressor)", a.st.maxLE(xv, qi(65535)) && (h.hc || a.st.minGE(xv, qi(1))), func() string {
			_, mx := a.st.max(xv)
			_, mn := a.st.max(xv.Neg())
			return fmt.Sprintf("offset %s ranges over [%s, %s]", xv.Str(g.tab), mn.Neg().String(), mx.String())
		})
	case isHigh:
	default:
		// a length shifted into the high nibble of a token: 15 is the escape value that announces extension bytes, so a
		// length stored there directly is at most 14
		if b, isB := x.(*ssa.BinOp); isB && b.Op == token.SHL {
			if k, isK := constUint(b.Y); isK && k == 4 {
				lv := g.val(a, b.X)
				g.coll.check("lenbyte", g.siteKey(st, "token-nibble"), g.prog.InstrPos(st), "a literal length stored directly in the token's high nibble is at most 14 (15 announces length-extension bytes that must follow)", a.st.maxLE(lv, qi(14)), func() string {
					_, mx := a.st.max(lv)
					return fmt.Sprintf("length %s can reach %s here: the token would announce extension bytes that are not written", lv.Str(g.tab), mx.String())
				})
			}
		}
		// the HC compressor's match length is 0 or >= 4 (a disjunction outside the convex domain): only the upper bound is armed there
		g.coll.check("lenbyte", g.siteKey(st, "length-byte"), g.prog.InstrPos(st), "a computed byte stored into the block (token nibble, length terminator) is at most 254 (and not negative in the fast compressor): it is not truncated and a terminator is never 0xFF", a.st.maxLE(xv, qi(254)) && (h.hc || a.st.minGE(xv, qi(0))), func() string {
			_, mx := a.st.max(xv)
			return fmt.Sprintf("value %s can reach %s", xv.Str(g.tab), mx.String())
		})
	}
}

func (h *compHooks) onCopy(g *goProg, a *AbsState, call *ssa.Call, n Lin, dstOff, dstLen, srcOff, srcLen Lin, dstRoot, srcRoot string, srcOpen bool) {
	if dstRoot != "dst" || srcRoot != "src" {
		return
	}
	L := g.lenSym["src"]
	if srcOpen {
		h.finalCopySeen = true
		// final literals: everything that is left is copied
		g.coll.check("final", g.siteKey(call, "final-literal-copy"), g.prog.InstrPos(call), "the final literal copy transfers every remaining source byte (a positive result is a complete block)", a.st.entailsEq(n, srcLen) && a.st.entailsEq(srcOff.Add(srcLen), L), func() string {
			return fmt.Sprintf("copied %s of %s remaining bytes", n.Str(g.tab), srcLen.Str(g.tab))
		})
		g.coll.check("litstart", g.siteKey(call, "final-literal-start"), g.prog.InstrPos(call), "the last literal run starts at 0 (no match at all) or at least 5 bytes before the end (the last five bytes are literals)", a.st.entails(srcOff) || a.st.entailsLeq(srcOff, L.AddK(-5)), func() string {
			_, mx := a.st.max(srcOff.Sub(L))
			return fmt.Sprintf("literal start %s: max(start - len(src)) = %s", srcOff.Str(g.tab), mx.String())
		})
		return
	}
	end := srcOff.Add(srcLen)
	g.coll.check("matchstart", g.siteKey(call, "sequence-literal-copy"), g.prog.InstrPos(call), "a sequence's literals end (= its match starts) at least 12 bytes before the end of the source", a.st.entailsLeq(end, L.AddK(-12)), func() string {
		_, mx := a.st.max(end.Sub(L))
		return fmt.Sprintf("match start %s: max(start - len(src)) = %s", end.Str(g.tab), mx.String())
	})
	g.coll.check("litstart", g.siteKey(call, "sequence-literal-start"), g.prog.InstrPos(call), "a literal run starts at 0 or where the previous match ended, at least 5 bytes before the end", a.st.entailsLeq(srcOff, L.AddK(-5)), func() string {
		_, mx := a.st.max(srcOff.Sub(L))
		return fmt.Sprintf("literal start %s: max(start - len(src)) = %s", srcOff.Str(g.tab), mx.String())
	})
}

func (h *compHooks) onReturn(g *goProg, a *AbsState, r *ssa.Return) {
	if len(r.Results) != 2 {
		return
	}
	L := g.lenSym["dst"]
	n := r.Results[0]
	errRes := r.Results[1]
	// named results (a function with a deferred recover): the return statement stores into the result cells in the
	// returning block and the Return loads them: judge the values stored
	storedInBlock := func(v ssa.Value) ssa.Value {
		ld, ok := v.(*ssa.UnOp)
		if !ok || ld.Op != token.MUL {
			return v
		}
		al, isAl := ld.X.(*ssa.Alloc)
		if !isAl {
			return v
		}
		var last ssa.Value
		for _, in := range r.Block().Instrs {
			if st, isS := in.(*ssa.Store); isS && st.Addr == ssa.Value(al) {
				last = st.Val
			}
		}
		if last != nil {
			return last
		}
		return v
	}
	errRes = storedInBlock(errRes)
	nConst := storedInBlock(n)
	errNil := isNilConst(errRes)
	var nv Lin
	if u, ok := n.(*ssa.UnOp); ok && u.Op == token.MUL {
		// named result cell
		if al, isAl := u.X.(*ssa.Alloc); isAl {
			nv = a.vals["cell:"+al.Name()]
		}
	} else {
		nv = g.val(a, n)
	}
	key := "return"
	if k, isK := nConst.(*ssa.Const); isK && k.Value != nil && k.Value.Kind() == constant.Int {
		if k.Int64() == 0 && errNil {
			// (0, nil): only on paths that passed the true edge of `len(dst) < CompressBlockBound(len(src))`
			ok := false
			for _, l := range guardsOf(r.Block()) {
				b, isB := l.Cond.(*ssa.BinOp)
				if !isB || !l.Val {
					continue
				}
				isLenDst := func(v ssa.Value) bool {
					call, isC := v.(*ssa.Call)
					if !isC {
						return false
					}
					bi, isBi := call.Call.Value.(*ssa.Builtin)
					if !isBi || bi.Name() != "len" {
						return false
					}
					root := call.Call.Args[0]
					for {
						if sl, isS := root.(*ssa.Slice); isS {
							root = sl.X
							continue
						}
						break
					}
					prm, isP := root.(*ssa.Parameter)
					return isP && prm.Name() == "dst"
				}
				isBound := func(v ssa.Value) bool {
					call, isC := v.(*ssa.Call)
					if !isC || !calleeIs(call, pkgBlock, "CompressBlockBound") {
						return false
					}
					return isLenOfParam(call.Call.Args[0], "src")
				}
				if (b.Op == token.LSS && isLenDst(b.X) && isBound(b.Y)) || (b.Op == token.GTR && isBound(b.X) && isLenDst(b.Y)) {
					ok = true
				}
			}
			// numerically: the state entails len(dst) <= len(src) + len(src)/255 + 15, which for integers is
			// 255*len(dst) <= 256*len(src) + 3825 (whatever form the bound takes in the source)
			if !ok {
				D, N := g.lenSym["dst"], g.lenSym["src"]
				need := D.Scale(qi(255)).Sub(N.Scale(qi(256))).AddK(-3825)
				ok = a.st.entails(need)
				// the guard may be a comparison computed once in the entry block and branched on
				// later (isNotCompressible): evaluate that comparison in the entry state
				if !ok && g.parent == nil {
					for _, l := range guardsOf(r.Block()) {
						bo, isB := l.Cond.(*ssa.BinOp)
						if !isB || bo.Block() != g.fn.Blocks[0] {
							continue
						}
						e := g.initial()
						states := []*AbsState{e}
						for _, in := range g.fn.Blocks[0].Instrs {
							if in == ssa.Instruction(bo) {
								break
							}
							var next []*AbsState
							for _, st := range states {
								next = append(next, g.step(st, in, false)...)
							}
							states = next
						}
						all := len(states) > 0
						for _, st := range states {
							if !g.condRefine(st, bo, l.Val, nil) || !st.st.feasible() {
								continue
							}
							if !st.st.entails(need) {
								all = false
							}
						}
						if all {
							ok = true
						}
					}
				}
			}
			g.coll.check("zero", g.siteKey(r, "zero-nil-return"), g.prog.InstrPos(r), "(0, nil) is returned only when len(dst) < CompressBlockBound(len(src))", ok, func() string {
				return "the return is not dominated by the true edge of len(dst) < CompressBlockBound(len(src)), and the state does not entail 255*len(dst) <= 256*len(src) + 3825"
			})
		}
		return
	}
	g.coll.check("count", g.siteKey(r, key), g.prog.InstrPos(r), "the returned count lies in [0, len(dst)]", a.st.minGE(nv, qi(0)) && a.st.entailsLeq(nv, L), func() string {
		_, mx := a.st.max(nv.Sub(L))
		return fmt.Sprintf("count %s: max(count - len(dst)) = %s", nv.Str(g.tab), mx.String())
	})
}

func isLenOfParam(v ssa.Value, name string) bool {
	call, isC := v.(*ssa.Call)
	if !isC {
		return false
	}
	bi, isBi := call.Call.Value.(*ssa.Builtin)
	if !isBi || bi.Name() != "len" {
		return false
	}
	root := call.Call.Args[0]
	for {
		if sl, isS := root.(*ssa.Slice); isS {
			root = sl.X
			continue
		}
		break
	}
	prm, isP := root.(*ssa.Parameter)
	return isP && prm.Name() == name
}

func findBoundCall(fn *ssa.Function) ssa.Value {
	var v ssa.Value
	for _, ci := range callsIn(fn) {
		if call, ok := ci.(*ssa.Call); ok && calleeIs(call, pkgBlock, "CompressBlockBound") {
			v = call
		}
	}
	return v
}

type compResult struct {
	coll *collector
	res  *bndResult
	g    *goProg
}

var compCache = map[string]*compResult{}

func runCompressor(c *Check, p *Program, hc bool) *compResult {
	name := "Compressor.CompressBlock"
	if hc {
		name = "CompressorHC.CompressBlock"
	}
	if !bndArch() {
		return nil
	}
	ck := name + "|" + archSubst
	if r, ok := compCache[ck]; ok {
		return r
	}
	fn := findFn(c, p, "R11.1", "internal/lz4block", name)
	if fn == nil {
		return nil
	}
	// The body of the compressor may have been moved into a method of its own, leaving the table preparation and the
	// recovering defer in CompressBlock: the prover then works on the body (same parameter names), and the recover is
	// looked for in the wrapper, in front of the call.
	wrapperRecovers := false
	if body, call := compressorBodyOf(fn); body != nil {
		c.Funcs[fname(body)] = true
		allInstrs(fn, func(in ssa.Instruction) {
			d, ok := in.(*ssa.Defer)
			if !ok {
				return
			}
			covers := (d.Block() == call.Block() && idxOf(d) < idxOf(call)) || (d.Block() != call.Block() && d.Block().Dominates(call.Block()))
			if t := deferTarget(d); t != nil && covers {
				for _, f := range withAnon(t) {
					allInstrs(f, func(j ssa.Instruction) {
						if _, isRec := isBuiltinCall(j, "recover"); isRec {
							wrapperRecovers = true
						}
					})
				}
			}
		})
		fn = body
	}
	h := &compHooks{hc: hc, name: name, boundV: findBoundCall(fn)}
	coll := newCollector()
	var roots []string
	if !hc {
		roots = []string{"dst"}
	}
	lp0 := lpCount
	res, g, err := analyseGoFunc(p, fn, name, roots, h.hooks(), coll)
	c.LPQ += lpCount - lp0
	if err != nil {
		c.TroubleF("%s: %v", name, err)
		return nil
	}
	if res.trouble != "" {
		c.TroubleF("%s: %s", name, res.trouble)
	}
	if hc && !g.recovers && !wrapperRecovers {
		c.Fail("R11.3", name+"#recover", p.Pos(fn.Pos()), "the HC compressor turns index panics into an error (deferred recover)", "no deferred recover found: an undersized destination would panic")
	}
	c.Extra["rounds_"+name] = res.rounds
	r := &compResult{coll, res, g}
	compCache[ck] = r
	return r
}

func checkC10(c *Check) {
	c.Level = "other"
	c.Explain = "Strict validity of emitted blocks as linear facts proven by the bounds prover on both block compressors: (R10.1) at the two-byte offset store the value is <= 65535 (and >= 1 for the fast compressor); (R10.2) every literal run starts at 0 or at least five bytes before the end (match ends leave five literal bytes); (R10.3) every sequence's literals end - i.e. its match starts - at least twelve bytes before the end; (R10.4) the final literal copy transfers all remaining bytes and every positive result passes through it; (R10.5) computed length bytes are within 0..254, so a length terminator is never 0xFF and nothing is truncated."
	c.Uncov = []string{"HC offset >= 1 and 'offset never reaches before the start' for both compressors (needs an invariant over hash-table contents: every entry is a position < si of this call)", "that partial successes for short destinations are valid blocks (they return 0)"}
	c.Assume = []string{"source-side index and slice operations of the fast compressor do not panic (needs the table-content invariant); lengths are below 2^46"}
	c.Trusted = append(trustedSSA, "exact simplex and template-polyhedra engine in /verif/tool/ebnd_*.go")
	for k, v := range map[string]string{"R10.1": "offset range at the offset store", "R10.2": "literal run start", "R10.3": "match start at least 12 before the end", "R10.4": "final literal copy complete", "R10.5": "length bytes 0..254"} {
		c.RuleDoc[k] = v
	}
	p := loadOrTrouble(c, cfgAMD64)
	if p == nil {
		return
	}
	for _, hc := range []bool{false, true} {
		r := runCompressor(c, p, hc)
		if r == nil {
			continue
		}
		c.Funcs[r.g.name] = true
		n := emitObls(c, r.coll, "", map[string]string{"offset": "R10.1", "litstart": "R10.2", "matchstart": "R10.3", "final": "R10.4", "lenbyte": "R10.5"})
		if n < 6 {
			c.Fail("R10.1", r.g.name+"#floor", "", "offset store, literal copies and length bytes of "+r.g.name+" are resolved", fmt.Sprintf("only %d obligations recorded", n))
		}
	}
	if archSubst == "" {
		// stale table entries of an earlier call would be taken for positions of this one (offsets
		// before the start, matches beyond the end): the tables are reset before they are read
		c.RuleDoc["R10.6"] = "match tables are reset before they are read (fast: validity bitmap; HC: needsReset set before anything can fail)"
		ruleFastReset(c, p, "R10.6")
		ruleHCReset(c, p, "R10.6")
	}
	c.RuleDoc["R10.7"] = "an incomplete block is never reported with a positive count: the count result is written only by return statements (= R11.10)"
	ruleCountZeroOnError(c, p, "R10.7", "Compressor.CompressBlock", "CompressorHC.CompressBlock")
	c.RuleDoc["R10.8"] = "= R14.13: every byte of the block is determined by this call (a token or-ed onto a byte the call has not stored takes stale bits: a final token with a match length, or any other invalid sequence)"
	ruleDestinationWriteOnly(c, p, "R10.8")
}

func checkC11(c *Check) {
	c.Level = "other"
	c.Explain = "Destination contract of the block compressors, proven by the bounds prover: (R11.1) in the fast compressor every index and slice operation on dst is shown not to panic; (R11.2) the returned count lies in [0, len(dst)] for both compressors; (R11.3) every write (element store, copy, PutUint) lies below len(dst) of the caller's slice - the length, not the capacity; for the HC compressor panics are recovered, so this is the clause that matters and slice expressions checked against cap are exactly the risk; (R11.4) (0, nil) is returned only under len(dst) < CompressBlockBound(len(src)); (R11.5) a positive count passes through the final literal copy, which transfers every remaining byte."
	c.Uncov = []string{"that len(dst) >= CompressBlockBound(len(src)) always succeeds (amortised size argument)", "source-side indexing of the fast compressor cannot panic (needs the table-content invariant)"}
	c.Assume = []string{"source-side index and slice operations do not panic; lengths are below 2^46"}
	c.Trusted = append(trustedSSA, "exact simplex and template-polyhedra engine in /verif/tool/ebnd_*.go")
	for k, v := range map[string]string{"R11.1": "fast: no panic on dst", "R11.2": "count within [0, len(dst)]", "R11.3": "writes below len(dst)", "R11.4": "(0,nil) only below the bound", "R11.5": "final copy complete"} {
		c.RuleDoc[k] = v
	}
	p := loadOrTrouble(c, cfgAMD64)
	if p == nil {
		return
	}
	for _, hc := range []bool{false, true} {
		r := runCompressor(c, p, hc)
		if r == nil {
			continue
		}
		c.Funcs[r.g.name] = true
		n := emitObls(c, r.coll, "", map[string]string{"nopanic": "R11.1", "count": "R11.2", "write": "R11.3", "zero": "R11.4", "final": "R11.5", "uncovered": "R11.8", "offset": "R11.12", "lenbyte": "R11.12"})
		c.RuleDoc["R11.12"] = "= R10.1/R10.5: a positive count stands for a block whose offsets and length bytes are in range (what is reported as compressed is decodable)"
		if n < 8 {
			c.Fail("R11.3", r.g.name+"#floor", "", "destination accesses of "+r.g.name+" are resolved", fmt.Sprintf("only %d obligations recorded", n))
		}
	}
	if archSubst == "" {
		c.RuleDoc["R11.9"] = "match tables are reset before they are read: a failed call does not poison the next one"
		ruleFastReset(c, p, "R11.9")
		ruleHCReset(c, p, "R11.9")
	}
	c.RuleDoc["R11.10"] = "no count is reported together with an error: the count result is written only by return statements (a recovered panic leaves it at zero)"
	ruleCountZeroOnError(c, p, "R11.10", "Compressor.CompressBlock", "CompressorHC.CompressBlock")
	c.RuleDoc["R11.11"] = "the pooled entry points CompressBlock / CompressBlockHC return exactly the method's results"
	ruleWrapperReturnsMethodResult(c, p, "R11.11")
	c.RuleDoc["R11.6"] = "public entry points forward src and dst unchanged"
	c.RuleDoc["R11.7"] = "CompressBlockBound(n) >= n + n/255 + 16"
	c.RuleDoc["R11.8"] = "HC: no index or slice operation that can panic lies outside the deferred recover"
	ruleBoundFormula(c, p, "R11.7")
	// public wrappers forward unchanged
	for _, w := range []struct{ rel, name, callee string }{{"", "Compressor.CompressBlock", "Compressor.CompressBlock"}, {"", "CompressorHC.CompressBlock", "CompressorHC.CompressBlock"}, {"internal/lz4block", "CompressBlock", "Compressor.CompressBlock"}, {"internal/lz4block", "CompressBlockHC", "CompressorHC.CompressBlock"}} {
		fn := p.Func(w.rel, w.name)
		if fn == nil || len(fn.Params) < 2 {
			continue
		}
		ok := false
		for _, ci := range callsIn(fn) {
			if calleeIs(ci, pkgBlock, w.callee) {
				args := ci.Common().Args
				// src, dst forwarded as given
				var ps []ssa.Value
				for _, pr := range fn.Params {
					if isSliceType(pr.Type()) {
						ps = append(ps, pr)
					}
				}
				var as []ssa.Value
				for _, ar := range args {
					if isSliceType(ar.Type()) {
						as = append(as, ar)
					}
				}
				if len(ps) >= 2 && len(as) >= 2 && as[0] == ps[0] && as[1] == ps[1] {
					ok = true
				}
			}
		}
		_ = 0
		c.Cond(ok, "R11.6", shortFn(fn)+"#forwards-slices", p.Pos(fn.Pos()), "the public entry point hands src and dst to the compressor unchanged (the contract proven for the method holds for the caller's slices)", "src, dst forwarded as given", "src/dst are re-sliced or replaced before the call")
	}
}

// ---------------------------------------------------------------------------
// portable decoder

var portableDecoderRules func(c *Check, prefix string)
var dstNonNilAtCallSite func(c *Check, p *Program, rule string) bool

type decHooks struct {
	cursorCands []ssa.Value
	srcLenVals  map[ssa.Value]bool
	offsetVals  []ssa.Value // results of 16-bit little-endian loads (match offsets)
	lenCands    []ssa.Value // unsigned word-sized sums and phis (accumulated lengths)
}

// bndArch: the bounds prover's Go front end runs on the default pass (64-bit
// words) and, in the thorough tier, once more on linux/386 with 32-bit words.
// arm64 and arm select the same Go files as amd64 and 386 respectively.
func bndArch() bool {
	return archSubst == "" || archSubst == "386"
}

func portableDecoderRulesImpl(c *Check, prefix string) {
	if !bndArch() {
		return
	}
	p := loadOrTrouble(c, cfgNoasm)
	if p == nil {
		return
	}
	c.curCfg = cfgNoasm.String()
	defer func() { c.curCfg = "" }()
	fn := p.Func("internal/lz4block", "decodeBlock")
	rule := func(n string) string {
		if strings.Contains(prefix, ".") {
			return prefix
		}
		return prefix + "." + n
	}
	if fn == nil || fn.Blocks == nil {
		c.Fail(rule("4"), "decodeBlock(portable)", "", "the portable decoder is selected in the noasm configuration", "no Go body of decodeBlock in the noasm build")
		return
	}
	c.Funcs[fname(fn)+" [noasm]"] = true
	if prefix == "R03" {
		// R03.4: both slices are clipped to their length before any other use; no unsafe
		clipped := map[string]bool{}
		otherUse := map[string]string{}
		for _, prm := range fn.Params[:2] {
			for _, r := range *prm.Referrers() {
				switch x := r.(type) {
				case *ssa.Slice:
					if x.X == prm && x.Low == nil && isLenOf(x.High, prm) && isLenOf(x.Max, prm) {
						clipped[prm.Name()] = true
						continue
					}
					otherUse[prm.Name()] = p.InstrPos(x)
				case *ssa.Call:
					if b, ok := x.Call.Value.(*ssa.Builtin); ok && (b.Name() == "len") {
						continue
					}
					otherUse[prm.Name()] = p.InstrPos(x)
				case *ssa.DebugRef:
				default:
					otherUse[prm.Name()] = p.InstrPos(r.(ssa.Instruction))
				}
			}
		}
		for _, n := range []string{"dst", "src"} {
			c.Cond(clipped[n] && otherUse[n] == "", "R03.4", "decodeBlock(portable)#clip:"+n, p.Pos(fn.Pos()), n+" is re-sliced to [:len:len] and the parameter has no other use, so Go's own bounds checks confine every access to len("+n+")", "clip found, no other use", fmt.Sprintf("clip found: %v; other use of the unclipped parameter at %s", clipped[n], otherUse[n]))
		}
		imp := false
		for _, im := range fn.Pkg.Pkg.Imports() {
			if im.Path() == "unsafe" {
				imp = true
			}
		}
		c.Cond(!imp, "R03.4", "lz4block#no-unsafe", "internal/lz4block", "the block package does not import unsafe", "not imported", "package imports unsafe: bounds checks can be bypassed")
		// R03.5: deferred recover installed before any instruction that can panic
		var def ssa.Instruction
		allInstrs(fn, func(in ssa.Instruction) {
			if d, ok := in.(*ssa.Defer); ok {
				// a function literal, or a named function deferred directly (recover works in either)
				if t := deferTarget(d); t != nil && inModule(t) {
					for _, f := range withAnon(t) {
						allInstrs(f, func(j ssa.Instruction) {
							if _, isRec := isBuiltinCall(j, "recover"); isRec {
								def = in
							}
						})
					}
				}
			}
		})
		okRec := def != nil
		why := "no deferred recover"
		if okRec {
			canPanic := func(in ssa.Instruction) bool {
				switch x := in.(type) {
				case *ssa.IndexAddr:
					return true
				case *ssa.Slice:
					// the two clipping slices cannot panic
					if prm, isP := x.X.(*ssa.Parameter); isP && isLenOf(x.High, prm) {
						return false
					}
					return true
				case *ssa.Call:
					if b, isB := x.Call.Value.(*ssa.Builtin); isB {
						return b.Name() != "len" && b.Name() != "cap" && b.Name() != "copy"
					}
					return true
				case *ssa.BinOp:
					return x.Op == token.QUO || x.Op == token.REM
				}
				return false
			}
			if r, _ := reachAvoid(fn, nil, canPanic, func(in ssa.Instruction) bool { return in == def }); r {
				okRec = false
				why = "an instruction that can panic is reachable before the deferred recover is installed"
			}
			// the recover handler stores a negative result
			neg := false
			dfr := def.(*ssa.Defer)
			ht := deferTarget(dfr)
			allInstrs(ht, func(j ssa.Instruction) {
				if st, isSt := j.(*ssa.Store); isSt {
					if k, isK := st.Val.(*ssa.Const); isK && k.Value != nil && k.Value.Kind() == constant.Int && k.Int64() < 0 {
						neg = true
					}
					// the code to store is a parameter of the deferred function: the value given at the defer statement
					if prm, isP := st.Val.(*ssa.Parameter); isP {
						for i, q := range ht.Params {
							if q == prm && i < len(dfr.Call.Args) {
								if k, isK := dfr.Call.Args[i].(*ssa.Const); isK && k.Value != nil && k.Value.Kind() == constant.Int && k.Int64() < 0 {
									neg = true
								}
							}
						}
					}
				}
			})
			if !neg {
				okRec = false
				why = "the recover handler does not store a negative result"
			}
		}
		c.Cond(okRec, "R03.5", "decodeBlock(portable)#recover", p.Pos(fn.Pos()), "a deferred recover is installed before any instruction that can panic and turns the panic into a negative result", "defer dominates all panicking instructions; handler stores a negative constant", why)
	}
	// The body of the decoder may have been moved into a function of its own, leaving clipping, the empty-input exit
	// and the recover in decodeBlock: `return body(dst, src, dict)` as the only non-constant result, with the clipped
	// slices as arguments. The prover then works on the body under what the wrapper has established.
	wrapper := fn
	if body, clipped, nonEmpty := decoderBodyOf(fn); body != nil {
		c.Funcs[fname(body)+" [noasm]"] = true
		fn = body
		goPre = func(g *goProg, a *AbsState) {
			for name := range clipped {
				if L, ok := g.lenSym[name]; ok {
					if C, okC := g.capSym[name]; okC {
						a.st.eqq(C, L)
					}
				}
			}
			if nonEmpty {
				if L, ok := g.lenSym["src"]; ok {
					a.st.le(linI(1).Sub(L))
				}
			}
		}
	}
	// prover
	h := &decHooks{srcLenVals: map[ssa.Value]bool{}}
	coll := newCollector()
	hooks := goHooks{
		onInstr: func(g *goProg, a *AbsState, in ssa.Instruction) {
			b, ok := in.(*ssa.BinOp)
			if !ok || b.Op != token.SUB {
				return
			}
			call, isC := b.Y.(*ssa.Call)
			if !isC {
				return
			}
			if n, okR := calleeRange(staticCallee(call)); !okR || n != 16 {
				return
			}
			y := g.val(a, b.Y)
			g.coll.check("offset", g.siteKey(in, "offset-distance"), g.prog.InstrPos(in), "the 16-bit match offset is at least 1 where it is subtracted from a position", a.st.minGE(y, qi(1)), func() string { return "offset may be 0 here" })
		},
		mustNotPanic: func(in ssa.Instruction) bool {
			// a slice that only feeds copies whose count is not consumed (the over-copying shortcuts)
			sl, ok := in.(*ssa.Slice)
			if !ok || sl.Referrers() == nil || len(*sl.Referrers()) == 0 {
				return false
			}
			constWidth := func(v ssa.Value) bool {
				x, isS := v.(*ssa.Slice)
				if !isS || x.High == nil {
					return false
				}
				if _, isK := constUint(x.High); isK && x.Low == nil {
					return true
				}
				if bo, isB := x.High.(*ssa.BinOp); isB && bo.Op == token.ADD && x.Low != nil {
					for _, pr := range [][2]ssa.Value{{bo.X, bo.Y}, {bo.Y, bo.X}} {
						if _, isK := constUint(pr[1]); isK && pr[0] == x.Low {
							return true
						}
					}
				}
				return false
			}
			fixed := false
			for _, r := range *sl.Referrers() {
				if _, isDbg := r.(*ssa.DebugRef); isDbg {
					continue
				}
				cc, isCopy := isBuiltinCall(r, "copy")
				if !isCopy || cc == nil {
					return false
				}
				if v, isV := r.(ssa.Value); !isV || (v.Referrers() != nil && len(*v.Referrers()) > 0) {
					return false
				}
				// a copy of a fixed number of bytes (16, 18): more than the sequence needs
				if len(cc.Args) == 2 && (constWidth(cc.Args[0]) || constWidth(cc.Args[1])) {
					fixed = true
				}
			}
			return fixed
		},
		onCopy: func(g *goProg, a *AbsState, call *ssa.Call, n Lin, dstOff, dstLen, srcOff, srcLen Lin, dstRoot, srcRoot string, srcHigh bool) {
			// A copy within one buffer has memmove semantics, while an LZ4 match is defined byte by
			// byte (an overlapping match replicates). Where the copy's count is not what advances the
			// cursor (over-copying shortcuts, pattern doubling), the bytes that become final must not
			// overlap their source: advance <= distance (or, with no separate advance, count <= distance).
			if dstRoot != srcRoot || dstRoot == "" {
				return
			}
			if refs := call.Referrers(); refs != nil && len(*refs) > 0 {
				// the count itself is consumed (the general match copy): not decided here. Its safety rests on
				// count = mLen - offset*(mLen/offset) < offset, a relation the template domain does not carry across the
				// doubling loop that precedes the copy (tried: the fact is available before the loop and lost at its head).
				return
			}
			dist := dstOff.Sub(srcOff)
			adv, what := n, "count"
			if sl, isS := call.Call.Args[0].(*ssa.Slice); isS && sl.Low != nil {
				blk := call.Block()
				for _, in := range blk.Instrs[idxOf(call)+1:] {
					if bo, isB := in.(*ssa.BinOp); isB && bo.Op == token.ADD && bo.X == sl.Low {
						if _, _, isI := isIntType(bo.Y.Type()); isI {
							if v, has := a.vals[vkey(bo.Y)]; has {
								adv, what = v, "cursor advance "+bo.Y.Name()
							} else if _, isK := bo.Y.(*ssa.Const); isK {
								adv, what = g.val(a, bo.Y), "cursor advance"
							}
						}
						break
					}
				}
			}
			if what != "count" && a.st.entailsEq(adv, n) {
				// the cursor advances by exactly what is copied: the general match copy, whose count the expansion that
				// precedes it has reduced below the offset (the relation is not carried by the domain: see R04.7 in DESIGN.md)
				return
			}
			g.coll.check("overlap", g.siteKey(call, "same-buffer-copy"), g.prog.InstrPos(call), "a copy inside "+dstRoot+" whose "+what+" makes bytes final does not overlap its source ("+what+" <= distance): Go's copy is a memmove, an LZ4 match is byte-wise", a.st.entailsLeq(adv, dist), func() string {
				_, mx := a.st.max(adv.Sub(dist))
				return fmt.Sprintf("%s %s may exceed the distance %s by %s (state from block %d): the tail of the match would come from stale destination bytes instead of the replicated pattern", what, adv.Str(g.tab), dist.Str(g.tab), mx.String(), a.from)
			})
		},
		onReturn: func(g *goProg, a *AbsState, r *ssa.Return) {
			if len(r.Results) != 1 {
				return
			}
			var v Lin
			has := false
			if u, ok := r.Results[0].(*ssa.UnOp); ok {
				if al, isAl := u.X.(*ssa.Alloc); isAl {
					v, has = a.vals["cell:"+al.Name()]
				}
			}
			if !has {
				// a result that is not the named-result cell: its value in this state
				if _, _, isI := isIntType(r.Results[0].Type()); !isI {
					return
				}
				if _, isRecoverBlock := r.Results[0].(*ssa.UnOp); isRecoverBlock && r.Block().Comment == "recover" {
					return
				}
				v = g.val(a, r.Results[0])
			}
			if v.isConst() {
				g.coll.check("result", g.siteKey(r, "const-result"), g.prog.InstrPos(r), "constant results are negative error codes", v.k.Sign() < 0, func() string { return "constant result " + v.k.String() })
				// explicit error exit: the state that reaches it entails one of the format violations
				// the assembly decoders also reject: empty input, accumulated length beyond the
				// positive int range, read cursor at or beyond the end of the source, zero offset
				why := ""
				Ls := g.lenSym["src"]
				half := qPow2(goWordBits - 1)
				switch {
				case a.st.entailsEq(Ls, linI(0)):
					why = "empty input"
				default:
					for _, cand := range h.cursorCands {
						if cv, has := a.vals[vkey(cand)]; has && a.st.entailsLeq(Ls, cv) {
							why = "read cursor at or beyond the end of the source"
						}
					}
					if why == "" {
						for _, ov := range h.offsetVals {
							if x, has := a.vals[vkey(ov)]; has && a.st.entailsEq(x, linI(0)) {
								why = "zero offset"
							}
						}
					}
					if why == "" {
						for _, lv := range h.lenCands {
							if x, has := a.vals[vkey(lv)]; has && a.st.minGE(x, half) {
								why = "length beyond the positive int range"
							}
						}
					}
				}
				g.coll.check("errexit", g.siteKey(r, "error-exit"), g.prog.InstrPos(r), "an explicit error exit of the portable decoder is taken only on a format violation the assembly decoders reject as well (empty input, length overflow, truncated sequence, zero offset)", why != "", func() string {
					return fmt.Sprintf("the state reaching this error return (from block %d) entails none of: len(src)=0, cursor>=len(src), offset=0, length>=2^%d: the portable decoder rejects a block on a condition of its own", a.from, goWordBits-1)
				})
				return
			}
			g.coll.check("nonempty", "decodeBlock#success-needs-input", g.prog.InstrPos(r), "a success result is only returned for a non-empty source (the assembly decoders reject an empty one)", a.st.minGE(g.lenSym["src"], qi(1)), func() string { return "len(src) may be 0 at the success return" })
			L := g.lenSym["dst"]
			g.coll.check("result", "decodeBlock#cursor-result", g.prog.InstrPos(r), "the success result lies in [0, len(dst)]", a.st.minGE(v, qi(0)) && a.st.entailsLeq(v, L), func() string {
				_, mx := a.st.max(v.Sub(L))
				return fmt.Sprintf("result %s: max(result - len(dst)) = %s (state from block %d)", v.Str(g.tab), mx.String(), a.from)
			})
			// the read cursor equals len(src): some cursor candidate (a phi compared with len(src)) is entailed equal
			Ls := g.lenSym["src"]
			okC := false
			var tried []string
			for _, cand := range h.cursorCands {
				if cv, hasC := a.vals[vkey(cand)]; hasC {
					tried = append(tried, cand.Name()+"="+cv.Str(g.tab))
					if a.st.entailsEq(cv, Ls) {
						okC = true
					}
				}
			}
			g.coll.check("consumed", "decodeBlock#source-consumed", g.prog.InstrPos(r), "on success the read cursor is exactly at the end of the source", okC, func() string { return "no read cursor is entailed equal to len(src): " + strings.Join(tried, ", ") })
		},
	}
	allInstrs(fn, func(in ssa.Instruction) {
		v, isV := in.(ssa.Value)
		if !isV {
			return
		}
		if call, isC := in.(*ssa.Call); isC {
			if n, okR := calleeRange(staticCallee(call)); okR && n == 16 {
				h.offsetVals = append(h.offsetVals, v)
			}
			// the same word read in place: binary.LittleEndian.Uint16(src[si:]), usually widened at once
			if f := staticCallee(call); f != nil && f.Pkg != nil && f.Pkg.Pkg.Path() == "encoding/binary" && f.Name() == "Uint16" {
				h.offsetVals = append(h.offsetVals, v)
				for _, r := range *call.Referrers() {
					if cv, isCv := r.(*ssa.Convert); isCv {
						h.offsetVals = append(h.offsetVals, cv)
					}
				}
			}
			return
		}
		if n, u, isI := isIntType(v.Type()); isI && u && n >= goWordBits {
			switch x := in.(type) {
			case *ssa.Phi, *ssa.Extract:
				h.lenCands = append(h.lenCands, v)
			case *ssa.BinOp:
				if x.Op == token.ADD {
					h.lenCands = append(h.lenCands, v)
				}
			}
		}
	})
	// cursor candidates: phis compared with uint(len(src))
	allInstrs(fn, func(in ssa.Instruction) {
		b, ok := in.(*ssa.BinOp)
		if !ok {
			return
		}
		isSrcLen := func(v ssa.Value) bool {
			cv, isC := v.(*ssa.Convert)
			if !isC {
				return false
			}
			call, isCall := cv.X.(*ssa.Call)
			if !isCall {
				return false
			}
			bi, isB := call.Call.Value.(*ssa.Builtin)
			if !isB || bi.Name() != "len" {
				return false
			}
			root := call.Call.Args[0]
			for {
				if sl, isS := root.(*ssa.Slice); isS {
					root = sl.X
					continue
				}
				break
			}
			prm, isP := root.(*ssa.Parameter)
			return isP && prm.Name() == "src"
		}
		var other ssa.Value
		if isSrcLen(b.Y) {
			other = b.X
		} else if isSrcLen(b.X) {
			other = b.Y
		}
		if ph, isPhi := other.(*ssa.Phi); isPhi {
			dup := false
			for _, cnd := range h.cursorCands {
				if cnd == ph {
					dup = true
				}
			}
			if !dup {
				h.cursorCands = append(h.cursorCands, ph)
			}
		}
	})
	lp0 := lpCount
	res, g, err := analyseGoFunc(p, fn, "decodeBlock", nil, hooks, coll)
	c.LPQ += lpCount - lp0
	if err != nil {
		c.TroubleF("portable decoder: %v", err)
		return
	}
	if res.trouble != "" {
		c.TroubleF("portable decoder: %s", res.trouble)
	}
	recovers := g.recovers
	if wrapper != fn {
		// the recover sits in the wrapper: it must be installed before the body is called
		allInstrs(wrapper, func(in ssa.Instruction) {
			d, ok := in.(*ssa.Defer)
			if !ok {
				return
			}
			if t := deferTarget(d); t != nil {
				for _, f := range withAnon(t) {
					allInstrs(f, func(j ssa.Instruction) {
						if _, isRec := isBuiltinCall(j, "recover"); isRec {
							for _, ci := range callsIn(wrapper) {
								if staticCallee(ci) == fn && (d.Block() == ci.Block() && idxOf(d) < idxOf(ci) || d.Block() != ci.Block() && d.Block().Dominates(ci.Block())) {
									recovers = true
								}
							}
						}
					})
				}
			}
		})
	}
	if !recovers {
		c.Fail(rule("5"), "decodeBlock(portable)#recover-mode", p.Pos(fn.Pos()), "panics of the portable decoder are recovered", "no deferred recover: index panics would escape")
	}
	switch {
	case prefix == "R03":
		emitObls(c, coll, "go|", map[string]string{"result": "R03.6", "write": "R03.6"})
	case prefix == "R04":
		emitObls(c, coll, "go|", map[string]string{"offset": "R04.1", "consumed": "R04.2", "nonempty": "R04.2", "overlap": "R04.7", "shortcut": "R04.7", "errexit": "R04.6"})
		c.RuleDoc["R04.7"] = "portable decoder: same-buffer copies whose count is not the cursor advance do not overlap their source"
		c.RuleDoc["R04.9"] = "portable decoder: a length extension ends only with a byte below 255 (or an error): the loops that add source bytes to a length have no other exit"
		ruleExtensionLoops(c, p, fn, "R04.9")
		rulePortableEndsAfterMatch(c, p, fn, "R04.4")
	default:
		emitObls(c, coll, "go|", map[string]string{"result": prefix, "offset": prefix, "consumed": prefix, "nonempty": prefix, "overlap": prefix, "shortcut": prefix, "errexit": prefix})
		if prefix != "R03" {
			ruleExtensionLoops(c, p, fn, prefix)
			rulePortableEndsAfterMatch(c, p, fn, prefix)
		}
	}
}

// ruleExtensionLoops: in the portable decoder, a loop that reads source bytes and adds them to a length (the 255-run
// of an extended literal or match length) is left only through the test of the byte just read against 255, or
// through an error return. An exit on any other condition (end of input, a count) accepts a length whose encoding
// was cut short, which the assembly decoders reject.
func ruleExtensionLoops(c *Check, p *Program, top *ssa.Function, rule string) {
	n := 0
	// the loops may sit in the decoder or in a helper it calls (one loop shared by both lengths counts once per call)
	for _, fn := range deepFuncs(top, 2) {
		weight := 1
		if fn != top {
			weight = len(callSitesOf(fn))
		}
		for _, h := range fn.Blocks {
			// natural loop of every back edge into h
			body := map[*ssa.BasicBlock]bool{}
			for _, pr := range h.Preds {
				if !(pr.Index >= h.Index && h.Dominates(pr)) {
					continue
				}
				body[h] = true
				stack := []*ssa.BasicBlock{pr}
				for len(stack) > 0 {
					x := stack[len(stack)-1]
					stack = stack[:len(stack)-1]
					if body[x] {
						continue
					}
					body[x] = true
					stack = append(stack, x.Preds...)
				}
			}
			if len(body) == 0 || len(body) > 6 {
				continue // not a loop head, or the main loop of the decoder
			}
			// the byte read in the loop and added to a length
			var xs []ssa.Value
			for b := range body {
				for _, in := range b.Instrs {
					ld, ok := in.(*ssa.UnOp)
					if !ok || ld.Op != token.MUL {
						continue
					}
					if _, isIA := ld.X.(*ssa.IndexAddr); !isIA {
						continue
					}
					if bt, isB := ld.Type().Underlying().(*types.Basic); !isB || bt.Kind() != types.Uint8 {
						continue
					}
					xs = append(xs, ld)
				}
			}
			if len(xs) == 0 {
				continue
			}
			isX := func(v ssa.Value) bool {
				for _, x := range xs {
					if v == x || derivesFromValue(v, x) {
						return true
					}
				}
				return false
			}
			adds := false
			for b := range body {
				for _, in := range b.Instrs {
					if bo, ok := in.(*ssa.BinOp); ok && bo.Op == token.ADD && (isX(bo.X) || isX(bo.Y)) {
						adds = true
					}
				}
			}
			if !adds {
				continue
			}
			n += weight
			c.Sites++
			bad := ""
			for b := range body {
				for k, su := range b.Succs {
					if body[su] {
						continue
					}
					// an exit edge: an error return, or the terminator test
					if len(su.Instrs) > 0 {
						if r, isRet := su.Instrs[len(su.Instrs)-1].(*ssa.Return); isRet && len(su.Instrs) <= 5 && len(r.Results) > 1 {
							// a helper reports failure with a false flag or a negative number among its results
							failed := false
							for _, res := range r.Results {
								if kk, isK := res.(*ssa.Const); isK && kk.Value != nil {
									if kk.Value.Kind() == constant.Bool && !constant.BoolVal(kk.Value) {
										failed = true
									}
									if kk.Value.Kind() == constant.Int && kk.Int64() < 0 {
										failed = true
									}
								}
							}
							if failed {
								continue
							}
						}
						if r, isRet := su.Instrs[len(su.Instrs)-1].(*ssa.Return); isRet && len(su.Instrs) <= 5 && len(r.Results) == 1 {
							res := r.Results[0]
							// named result: the value the return statement stores in this block
							if ld, isLd := res.(*ssa.UnOp); isLd && ld.Op == token.MUL {
								for _, j := range su.Instrs {
									if st, isS := j.(*ssa.Store); isS && st.Addr == ld.X {
										res = st.Val
									}
								}
							}
							if kk, isK := res.(*ssa.Const); isK && kk.Value != nil && kk.Int64() < 0 {
								continue
							}
						}
					}
					ok := false
					if ifi, isIf := b.Instrs[len(b.Instrs)-1].(*ssa.If); isIf {
						if bo, isBO := ifi.Cond.(*ssa.BinOp); isBO {
							for _, pr := range [][2]ssa.Value{{bo.X, bo.Y}, {bo.Y, bo.X}} {
								if kv, isK := constUint(pr[1]); isK && (kv == 255 || kv == 254) && isX(pr[0]) {
									ok = true
								}
							}
						}
						_ = k
					}
					if !ok {
						bad = p.InstrPos(b.Instrs[len(b.Instrs)-1])
					}
				}
			}
			c.Cond(bad == "", rule, fmt.Sprintf("go|decodeBlock#length-extension-loop#%d", n), p.InstrPos(xs[0].(ssa.Instruction)), "a length extension is left only when the byte just read is below 255 (or with an error)", "every exit edge tests the byte against 255 or returns an error", "the loop can also be left at "+bad+" on another condition: a length whose extension bytes were cut short is accepted with the partial value")
		}
	}
	fn := top
	c.Cond(n >= 2, rule, "go|decodeBlock#length-extension-loops", p.Pos(fn.Pos()), "the two length-extension loops of the portable decoder were found", fmt.Sprintf("%d loops", n), fmt.Sprintf("only %d loops that add source bytes to a length were found (expected 2)", n))
}

func isLenOf(v ssa.Value, of ssa.Value) bool {
	call, ok := v.(*ssa.Call)
	if !ok {
		return false
	}
	b, ok := call.Call.Value.(*ssa.Builtin)
	return ok && b.Name() == "len" && call.Call.Args[0] == of
}

// ruleDecoderErrorExits: the explicit error returns of the portable decoder are
// exactly the format violations (guard table). An added or altered exit rejects
// blocks the assembly decoders accept.
func dstNonNilAtCallSiteImpl(c *Check, p *Program, rule string) bool {
	fn := p.Func("internal/lz4block", "UncompressBlock")
	if fn == nil {
		c.Fail(rule, "UncompressBlock#dst-non-nil", "", "call site resolved", "UncompressBlock not found")
		return false
	}
	all := true
	n := 0
	for _, ci := range callsIn(fn) {
		f := staticCallee(ci)
		if f == nil || f.Name() != "decodeBlock" {
			continue
		}
		n++
		dst := ci.Common().Args[0]
		var nonNil func(v ssa.Value, pred, blk *ssa.BasicBlock) bool
		nonNil = func(v ssa.Value, pred, blk *ssa.BasicBlock) bool {
			switch x := v.(type) {
			case *ssa.Slice:
				if _, isAl := x.X.(*ssa.Alloc); isAl {
					return true // slice of a fresh array: non-nil pointer
				}
				return false
			case *ssa.MakeSlice:
				return true
			case *ssa.Phi:
				for i, e := range x.Edges {
					if !nonNil(e, x.Block().Preds[i], x.Block()) {
						return false
					}
				}
				return true
			case *ssa.Parameter:
				var ats []Atom
				if pred != nil {
					ats = edgeAtoms(pred, blk)
				} else {
					ats = atomsOfBlock(ci.Block())
				}
				for _, a := range ats {
					if a.Kind == "isnil" && !a.Val && a.V == v {
						return true
					}
				}
				return false
			}
			return false
		}
		ok := nonNil(dst, nil, ci.Block())
		if !ok {
			all = false
		}
		c.Cond(ok, rule, "UncompressBlock#dst-non-nil", p.InstrPos(ci), "the destination passed to decodeBlock is never nil (the assembly derives its end-of-buffer marks from the destination pointer; a nil base makes them wrap)", "dst is the parameter under dst != nil or a fresh empty slice", "a nil destination can reach the assembly decoder: the nil-destination cases are analysed as well")
	}
	return all && n > 0
}

var _ = types.Typ


// rulePortableEndsAfterMatch: a block may end right after a match (the format
// does not require a closing literal-only sequence, and the assembly decoders
// accept such blocks: R04.4). In the portable decoder that means: from the head
// of the sequence loop the success return is reachable without another byte of
// the source being read. A loop that can only be left from inside a sequence
// reads past the end instead and reports an error the other decoders do not.
func rulePortableEndsAfterMatch(c *Check, p *Program, top *ssa.Function, rule string) {
	var best *ssa.BasicBlock
	bestSize := 0
	for _, fn := range deepFuncs(top, 2) {
		for _, h := range fn.Blocks {
			body := map[*ssa.BasicBlock]bool{}
			for _, pr := range h.Preds {
				if !(pr.Index >= h.Index && h.Dominates(pr)) {
					continue
				}
				body[h] = true
				stack := []*ssa.BasicBlock{pr}
				for len(stack) > 0 {
					x := stack[len(stack)-1]
					stack = stack[:len(stack)-1]
					if body[x] {
						continue
					}
					body[x] = true
					stack = append(stack, x.Preds...)
				}
			}
			if len(body) > bestSize {
				best, bestSize = h, len(body)
			}
		}
	}
	if best == nil || bestSize < 8 {
		c.Fail(rule, "go|decodeBlock#ends-after-match", p.Pos(top.Pos()), "the sequence loop of the portable decoder is resolved", "no loop of at least 8 blocks found in the decoder (anchor unresolved)")
		return
	}
	fn := best.Parent()
	rootIsSrc := func(v ssa.Value) bool {
		for i := 0; i < 8; i++ {
			switch x := v.(type) {
			case *ssa.Slice:
				v = x.X
				continue
			case *ssa.IndexAddr:
				v = x.X
				continue
			}
			break
		}
		prm, ok := v.(*ssa.Parameter)
		return ok && len(fn.Params) >= 2 && prm == fn.Params[1]
	}
	readsSrc := func(in ssa.Instruction) bool {
		switch x := in.(type) {
		case *ssa.UnOp:
			if x.Op == token.MUL {
				if ia, ok := x.X.(*ssa.IndexAddr); ok && rootIsSrc(ia.X) {
					return true
				}
			}
		case *ssa.Slice:
			// a re-slice of src with a low bound (src[si:]) is the start of a read
			if x.Low != nil && rootIsSrc(x.X) {
				return true
			}
		}
		return false
	}
	success := func(in ssa.Instruction) bool {
		r, ok := in.(*ssa.Return)
		if !ok || len(r.Results) != 1 {
			return false
		}
		res := r.Results[0]
		if ld, isLd := res.(*ssa.UnOp); isLd && ld.Op == token.MUL {
			for _, j := range in.Block().Instrs {
				if st, isS := j.(*ssa.Store); isS && st.Addr == ld.X {
					res = st.Val
				}
			}
		}
		if k, isK := res.(*ssa.Const); isK && k.Value != nil && k.Value.Kind() == constant.Int && k.Int64() < 0 {
			return false
		}
		return in.Block() != fn.Recover
	}
	ok, _ := reachAvoid(fn, best.Instrs[0], success, readsSrc)
	c.Sites++
	c.Cond(ok, rule, "go|decodeBlock#ends-after-match", p.InstrPos(best.Instrs[0]), "from the head of the sequence loop the success return is reachable without reading another source byte: a block may end right after a match, as the assembly decoders accept", "loop head tests the cursor against len(src) and leaves to the success return", "every path from the loop head to the success return reads the source first: a block whose last sequence is a match makes the portable decoder read past the end and report an error that the assembly decoders do not")
	// ... and once a token has been read in an iteration, the block ends successfully only if the token announces no
	// match (low nibble zero): a token with a match nibble whose offset is missing is a truncated sequence
	nibbleZero := func(b *ssa.BasicBlock, k int) bool {
		ifi, isIf := b.Instrs[len(b.Instrs)-1].(*ssa.If)
		if !isIf || len(b.Succs) != 2 {
			return false
		}
		bo, isB := ifi.Cond.(*ssa.BinOp)
		if !isB || (bo.Op != token.EQL && bo.Op != token.NEQ) {
			return false
		}
		x, y := bo.X, bo.Y
		if _, isK := constUint(x); isK {
			x, y = y, x
		}
		if kv, isK := constUint(y); !isK || kv != 0 {
			return false
		}
		isNib := func(v ssa.Value) bool {
			for i := 0; i < 3; i++ {
				if cv, isC := v.(*ssa.Convert); isC {
					v = cv.X
					continue
				}
				break
			}
			and, isA := v.(*ssa.BinOp)
			if !isA || and.Op != token.AND {
				return false
			}
			m, isK := constUint(and.Y)
			if !isK {
				m, isK = constUint(and.X)
			}
			return isK && m == 0xF
		}
		if !isNib(x) {
			return false
		}
		return (bo.Op == token.EQL && k == 0) || (bo.Op == token.NEQ && k == 1)
	}
	type wst struct {
		b          *ssa.BasicBlock
		read, zero bool
	}
	seenW := map[wst]bool{}
	badAt := ""
	var walkW func(s wst)
	walkW = func(s wst) {
		if seenW[s] || badAt != "" {
			return
		}
		seenW[s] = true
		read := s.read
		for _, in := range s.b.Instrs {
			if readsSrc(in) {
				read = true
			}
			if success(in) {
				if read && !s.zero {
					badAt = p.InstrPos(in)
				}
				return
			}
			if isReturn(in) {
				return
			}
		}
		for k, nx := range s.b.Succs {
			if nx == best {
				continue // next sequence
			}
			walkW(wst{nx, read, s.zero || nibbleZero(s.b, k)})
		}
	}
	walkW(wst{best, false, false})
	c.Sites++
	c.Cond(badAt == "", rule, "go|decodeBlock#end-after-literals-needs-zero-match-nibble", p.InstrPos(best.Instrs[0]), "within a sequence the block ends successfully only behind a test that the token's match nibble is zero: a token that announces a match and is followed by nothing but its literals is a truncated sequence", fmt.Sprintf("%d (block, token read, nibble tested) states walked", len(seenW)), "the success return at "+badAt+" is reachable after a token has been read without a test of its low nibble: a block cut off right after the literals of a sequence that announces a match is accepted")
}


// decoderBodyOf: decodeBlock reduced to a wrapper. Its only non-constant result is the result of a call of a
// function of the package that receives the three slices under their own names; returns that function, the names of
// the parameters handed over clipped to their length (x[:len(x):len(x)]), and whether the call lies behind an exit
// taken for an empty source.
func decoderBodyOf(fn *ssa.Function) (*ssa.Function, map[string]bool, bool) {
	var call *ssa.Call
	ok := true
	resolve := func(v ssa.Value, blk *ssa.BasicBlock) ssa.Value {
		if ld, isL := v.(*ssa.UnOp); isL && ld.Op == token.MUL {
			if _, isAl := ld.X.(*ssa.Alloc); isAl {
				for _, j := range blk.Instrs {
					if st, isS := j.(*ssa.Store); isS && st.Addr == ld.X {
						v = st.Val
					}
				}
			}
		}
		return v
	}
	allInstrs(fn, func(in ssa.Instruction) {
		r, isR := in.(*ssa.Return)
		if !isR || len(r.Results) != 1 || in.Block() == fn.Recover {
			return
		}
		v := resolve(r.Results[0], in.Block())
		if _, isK := v.(*ssa.Const); isK {
			return
		}
		cl, isC := v.(*ssa.Call)
		if !isC || (call != nil && call != cl) {
			ok = false
			return
		}
		call = cl
	})
	if !ok || call == nil {
		return nil, nil, false
	}
	body := staticCallee(call)
	if body == nil || !inModule(body) || body.Pkg != fn.Pkg || len(body.Blocks) == 0 || len(body.Params) != len(call.Call.Args) {
		return nil, nil, false
	}
	clipped := map[string]bool{}
	slices := 0
	for i, a := range call.Call.Args {
		if !isSliceType(a.Type()) {
			continue
		}
		slices++
		root := a
		isClip := false
		if sl, isS := a.(*ssa.Slice); isS {
			if prm, isP := sl.X.(*ssa.Parameter); isP && sl.Low == nil && isLenOf(sl.High, prm) && isLenOf(sl.Max, prm) {
				root, isClip = prm, true
			}
		}
		prm, isP := root.(*ssa.Parameter)
		if !isP || prm.Name() != body.Params[i].Name() {
			return nil, nil, false // the prover's obligations name the slices dst, src and dict
		}
		if isClip {
			clipped[prm.Name()] = true
		}
	}
	if slices < 3 {
		return nil, nil, false
	}
	nonEmpty := false
	for _, a := range atomsOfBlock(call.Block()) {
		neg := a
		neg.Val = !a.Val
		if z := atomSaysZero(neg); z != nil {
			if lc, isL := z.(*ssa.Call); isL && len(fn.Params) >= 2 {
				if bi, isB := lc.Call.Value.(*ssa.Builtin); isB && bi.Name() == "len" {
					if sl, isS := lc.Call.Args[0].(*ssa.Slice); isS && sl.X == ssa.Value(fn.Params[1]) || lc.Call.Args[0] == ssa.Value(fn.Params[1]) {
						nonEmpty = true
					}
				}
			}
		}
	}
	return body, clipped, nonEmpty
}


// compressorBodyOf: CompressBlock reduced to a wrapper around one large unexported method of the same receiver that
// is handed the wrapper's slice parameters under the same names. Returns that method and the call, or nil.
func compressorBodyOf(fn *ssa.Function) (*ssa.Function, *ssa.Call) {
	if len(fn.Blocks) > 16 {
		return nil, nil
	}
	var body *ssa.Function
	var at *ssa.Call
	n := 0
	for _, ci := range callsIn(fn) {
		call, isCall := ci.(*ssa.Call)
		g := staticCallee(ci)
		if !isCall || g == nil || !inModule(g) || g.Pkg != fn.Pkg || recvTypeName(g) != recvTypeName(fn) || recvTypeName(g) == "" || len(g.Blocks) < 20 {
			continue
		}
		if g.Object() != nil && g.Object().Exported() {
			continue
		}
		n++
		body, at = g, call
	}
	if n != 1 || len(callSitesOf(body)) != 1 {
		return nil, nil
	}
	// the slices are handed on under their own names
	slices := 0
	for i, a := range at.Call.Args {
		if !isSliceType(a.Type()) {
			continue
		}
		prm, isP := a.(*ssa.Parameter)
		if !isP || i >= len(body.Params) || body.Params[i].Name() != prm.Name() {
			return nil, nil
		}
		slices++
	}
	if slices < 2 {
		return nil, nil
	}
	return body, at
}
