package main

import (
	"strings"

	"golang.org/x/tools/go/callgraph"
	"golang.org/x/tools/go/ssa"
)

func init() { register("C15", checkC15) }

// ioFuncs computes the module functions from which an interface call of
// io.Writer.Write / io.Reader.Read (or io.ReadFull/CopyN) is reachable.
func ioFuncs(p *Program) map[*ssa.Function]bool {
	cg := p.CallGraph()
	direct := map[*ssa.Function]bool{}
	inMod := func(f *ssa.Function) bool {
		return f != nil && f.Pkg != nil && strings.HasPrefix(f.Pkg.Pkg.Path(), modPath)
	}
	for _, fn := range p.SrcFuncs() {
		for _, ci := range callsIn(fn) {
			cc := ci.Common()
			if cc.IsInvoke() && (cc.Method.Name() == "Write" || cc.Method.Name() == "Read") {
				t := cc.Value.Type().String()
				if t == "io.Writer" || t == "io.Reader" || t == "io.ReadCloser" {
					direct[fn] = true
				}
			}
			if calleeIs(ci, "io", "ReadFull") || calleeIs(ci, "io", "CopyN") {
				direct[fn] = true
			}
		}
	}
	res := map[*ssa.Function]bool{}
	for f := range direct {
		res[f] = true
	}
	changed := true
	for changed {
		changed = false
		for fn, node := range cg.Nodes {
			if !inMod(fn) || res[fn] {
				continue
			}
			for _, e := range node.Out {
				if res[e.Callee.Func] && inMod(e.Callee.Func) {
					res[fn] = true
					changed = true
					break
				}
			}
		}
	}
	_ = callgraph.CalleesOf
	return res
}

func moduleFuncs(p *Program, pkgs ...string) []*ssa.Function {
	var out []*ssa.Function
	for _, fn := range p.SrcFuncs() {
		if fn.Pkg == nil {
			continue
		}
		for _, q := range pkgs {
			if fn.Pkg.Pkg.Path() == q {
				out = append(out, fn)
			}
		}
	}
	return out
}

func checkC15(c *Check) {
	c.Explain = "Error discipline of the I/O paths, decided on the SSA of every function of lz4stream and of the root package: (R15.1) no error result of a call that can reach the sink or the source is discarded (callee set computed from the VTA call graph; the one listed exception is Frame.Reset); (R15.E) once such a call has failed, every path to a return yields a non-nil error - the pending error is never cleared, and only replaced by a value that is certainly non-nil (path-sensitive walk through phis and the named-result cell); (R15.3) the source is only accessed through io.ReadFull / io.CopyN; (R15.4) the constant io.EOF is produced only at the known end-of-stream decisions, never over a pending source error; (R15.5) the ordering goroutine stops writing after the first sink error and latches it; (R15.6) Blocks.close hands the latched error to its caller."
	c.Uncov = []string{"that the sink contents are a prefix of the fault-free output (value-level)", "decoding independence from read fragmentation beyond 'all reads are io.ReadFull/CopyN' (R15.3)"}
	c.Trusted = append(trustedSSA, "VTA call graph (x/tools v0.29.0) for the may-reach-I/O callee set")
	c.RuleDoc["R15.1"] = "I/O errors are never discarded"
	c.RuleDoc["R15.E"] = "a pending error is never absorbed"
	c.RuleDoc["R15.3"] = "source access only via io.ReadFull / io.CopyN"
	c.RuleDoc["R15.4"] = "synthetic io.EOF sites and guards"
	c.RuleDoc["R15.5"] = "ordering goroutine: write guarded by latch == nil; error latched"
	c.RuleDoc["R15.6"] = "Blocks.close returns the latched error"
	p := loadOrTrouble(c, cfgAMD64)
	if p == nil {
		return
	}
	io := ioFuncs(p)
	fns := moduleFuncs(p, pkgStream, pkgRoot)
	// functions that hand out the latched sink / source error count as I/O for this purpose:
	// discarding their result discards the I/O failure
	returnsLatch := func(f *ssa.Function) bool {
		if !inModule(f) {
			return false
		}
		found := false
		allInstrs(f, func(in ssa.Instruction) {
			if r, ok := in.(*ssa.Return); ok {
				for _, res := range r.Results {
					if isErrorType(res.Type()) && (loadField(res) == "Blocks.err" || derivesFromField(res, "Blocks.err")) {
						found = true
					}
				}
			}
		})
		return found
	}
	ioPrimitive := func(f *ssa.Function) bool {
		// the library's own read primitives: their error is the source's error
		if f == nil || f.Pkg == nil || f.Pkg.Pkg.Path() != "io" {
			return false
		}
		switch f.Name() {
		case "ReadFull", "ReadAtLeast", "CopyN", "Copy", "CopyBuffer":
			return true
		}
		return false
	}
	ruleErrorsNotDiscarded(c, p, "R15.1", fns, func(f *ssa.Function) bool { return io[f] || returnsLatch(f) || ioPrimitive(f) }, map[string]string{
		"Frame.Reset#discard:Blocks.close": "documented: pending data may be dropped when Reset is called without Close (writer.go: 'w.Close must be called before Reset or pending data may be dropped')",
	})
	ruleErrorsNotAbsorbed(c, p, "R15.E", fns, errAbsorbExempt)
	ruleEOFProvenance(c, p, "R15.3", true)
	ruleSyntheticEOF(c, p, "R15.4")
	ruleOrderingGoroutineLatch(c, p, "R15.5")
	ruleBlocksCloseLatch(c, p, "R15.6")
	c.only(func(k string) bool { return strings.HasSuffix(k, "#closeR-only-on-eof") }, func() { ruleEOSCallsCloseR(c, p, "R15.11") })
	c.RuleDoc["R15.11"] = "= R06.4: the end-of-frame decision is taken only on identity with io.EOF (errors.Is would also match a transport error that wraps io.EOF and turn a source failure into a clean end)"
	ruleReadValueAfterCheck(c, p, "R15.10")
	c.RuleDoc["R15.10"] = "the word returned by a source read is used only after its error was tested (a failed read is reported as the source's error, not as a verdict on unread data)"
	ruleStickyError(c, p, "R15.9")
	c.RuleDoc["R15.9"] = "= R17.16: once a sink or source error has put the object in errorState every later call reports it"
	ruleStreamsThroughInterface(c, p, "R15.8")
	c.RuleDoc["R15.8"] = "source and sink are used only through Read / Write / Close (= R07.10): every I/O failure passes the error rules"
	ruleLockset(c, p, "R15.7")
	c.RuleDoc["R15.7"] = "the sink-error latch is read only under its lock, inside the ordering goroutine, or in Blocks.close after the shutdown handshake (a read before the handshake misses errors of blocks still in flight)"
}

// R15.5: in initW's goroutine the sink write is governed by Blocks.err == nil
// and its error is stored into Blocks.err.
func ruleOrderingGoroutineLatch(c *Check, p *Program, rule string) {
	iw := findFn(c, p, rule, "internal/lz4stream", "Blocks.initW")
	if iw == nil {
		return
	}
	found := false
	for _, fn := range orderingFns(iw) {
		for _, ci := range callsIn(fn) {
			if !calleeIs(ci, pkgStream, "FrameDataBlock.Write") {
				continue
			}
			found = true
			c.Funcs[fname(fn)] = true
			guarded := false
			for _, a := range atomsOfBlock(ci.Block()) {
				if a.Kind == "errnil" && a.Val && loadField(a.V) == "Blocks.err" {
					guarded = true
				}
			}
			c.Cond(guarded, rule, "initW.goroutine#write-needs-no-previous-error", p.InstrPos(ci), "after a sink failure no further block is written (the sink keeps a prefix of the fault-free output)", "block.Write is governed by b.err == nil", "block.Write in the ordering goroutine is not governed by b.err == nil: blocks would still be written after a failed write, leaving a hole in the sink")
			// error latched
			ev := ci.Value()
			latched := false
			if ev != nil && ev.Referrers() != nil {
				for _, r := range *ev.Referrers() {
					if st, ok := r.(*ssa.Store); ok && lastField(st.Addr) == "Blocks.err" && st.Val == ev {
						for _, a := range atomsOfBlock(st.Block()) {
							if a.Kind == "errnil" && !a.Val && a.V == ev {
								latched = true
							}
						}
					}
				}
			}
			if !latched {
				// or the result goes into the latch directly, under the test that the latch is still empty (storing a
				// nil result over nil changes nothing)
				for _, r := range *ev.Referrers() {
					if st, ok := r.(*ssa.Store); ok && lastField(st.Addr) == "Blocks.err" && st.Val == ev {
						for _, a := range atomsOfBlock(st.Block()) {
							if a.Kind == "errnil" && a.Val && loadField(a.V) == "Blocks.err" {
								latched = true
							}
						}
					}
				}
			}
			c.Cond(latched, rule, "initW.goroutine#write-error-latched", p.InstrPos(ci), "a sink error in the ordering goroutine is stored in Blocks.err", "stored under err != nil", "the error of block.Write is not stored into Blocks.err")
		}
	}
	if !found {
		c.Fail(rule, "initW.goroutine#write-needs-no-previous-error", p.Pos(iw.Pos()), "ordering goroutine writes blocks", "no call of FrameDataBlock.Write in a closure of initW (anchor unresolved)")
	}
}

// R15.6 / R17.x: every return of Blocks.close returns the value loaded from
// Blocks.err and clears the latch before returning.
func ruleBlocksCloseLatch(c *Check, p *Program, rule string) {
	fn := findFn(c, p, rule, "internal/lz4stream", "Blocks.close")
	if fn == nil {
		return
	}
	isClear := func(in ssa.Instruction) bool {
		st, isSt := in.(*ssa.Store)
		return isSt && lastField(st.Addr) == "Blocks.err" && isNilConst(st.Val)
	}
	// latchValue: v is the latch as loaded from Blocks.err, possibly through a module
	// helper all of whose returns yield the latch ("take the error" helpers)
	var latchValue func(v ssa.Value, depth int) bool
	latchValue = func(v ssa.Value, depth int) bool {
		if loadField(v) == "Blocks.err" {
			return true
		}
		call, isC := v.(*ssa.Call)
		if !isC || depth <= 0 {
			return false
		}
		f := staticCallee(call)
		if !inModule(f) {
			return false
		}
		all, any := true, false
		allInstrs(f, func(in ssa.Instruction) {
			if r, isR := in.(*ssa.Return); isR && len(r.Results) == 1 {
				any = true
				if !latchValue(r.Results[0], depth-1) {
					all = false
				}
			}
		})
		return all && any
	}
	n := 0
	ok := true
	var why []string
	allInstrs(fn, func(in ssa.Instruction) {
		r, isR := in.(*ssa.Return)
		if !isR || len(r.Results) != 1 {
			return
		}
		if in.Block() == fn.Recover {
			return // the return after a recovered panic hands back the named results as they are
		}
		n++
		if vals := deferredResult(r.Results[0], in); len(vals) > 0 {
			// the named result is assigned by a deferred closure on all of its paths
			for _, v := range vals {
				if !latchValue(v, 2) {
					ok = false
					why = append(why, "return at "+p.InstrPos(in)+": the deferred assignment yields "+shortVal(v)+" instead of the latched error")
				}
			}
			return
		}
		if !latchValue(r.Results[0], 2) {
			ok = false
			why = append(why, "return at "+p.InstrPos(in)+" yields "+shortVal(r.Results[0])+" instead of the latched error")
		}
	})
	// every path to a return passes a store of nil into Blocks.err (directly or in a helper)
	if cleared, bad := mustOnAllPaths(p, fn, isClear, false, 2); !cleared {
		ok = false
		why = append(why, "the return at "+bad+" is reachable without clearing Blocks.err: a stale error (or io.EOF of the previous stream) survives Close/Reset")
	}
	c.Cond(ok && n > 0, rule, "Blocks.close#returns-and-clears-latch", p.Pos(fn.Pos()), "Blocks.close returns the latched error and clears the latch on every path", "all returns yield b.err; every path stores nil into it", strings.Join(why, "; "))
}

var errAbsorbExempt = map[string]string{
	"ValidFrameHeader#err-of:Frame.ParseHeaders": "by contract a bad magic number is reported as (false, nil); the mapping itself is checked by R19.5",
}
