package main

// Fast path of the exact simplex: int64 rationals without pointers; any
// overflow aborts and the caller falls back to the big.Rat implementation.

type F struct{ n, d int64 }

type fOverflow struct{}

func fnorm(n, d int64) F {
	if d < 0 {
		n, d = -n, -d
	}
	if n == 0 {
		return F{0, 1}
	}
	g := gcd64(n, d)
	return F{n / g, d / g}
}

func fmulChk(a, b int64) int64 {
	r, ok := mul64(a, b)
	if !ok {
		panic(fOverflow{})
	}
	return r
}

func faddChk(a, b int64) int64 {
	r, ok := add64(a, b)
	if !ok {
		panic(fOverflow{})
	}
	return r
}

func (a F) mul(c F) F {
	if a.n == 0 || c.n == 0 {
		return F{0, 1}
	}
	g1 := gcd64(a.n, c.d)
	g2 := gcd64(c.n, a.d)
	return fnorm(fmulChk(a.n/g1, c.n/g2), fmulChk(a.d/g2, c.d/g1))
}

func (a F) sub(c F) F {
	if c.n == 0 {
		return a
	}
	if a.d == 1 && c.d == 1 {
		return F{faddChk(a.n, -c.n), 1}
	}
	g := gcd64(a.d, c.d)
	x := fmulChk(a.n, c.d/g)
	y := fmulChk(c.n, a.d/g)
	return fnorm(faddChk(x, -y), fmulChk(a.d/g, c.d))
}

func (a F) add(c F) F { return a.sub(F{-c.n, c.d}) }
func (a F) neg() F   { return F{-a.n, a.d} }
func (a F) inv() F   { return fnorm(a.d, a.n) }
func (a F) sign() int {
	switch {
	case a.n > 0:
		return 1
	case a.n < 0:
		return -1
	}
	return 0
}

// cmp compares a and c without overflow risk beyond the checked products.
func (a F) cmp(c F) int { return a.sub(c).sign() }

type fslack struct {
	m, n int
	A    []F // m x n row-major
	b    []F
	c    []F
	v    F
	N    []int
	B    []int
}

func (s *fslack) at(i, j int) *F { return &s.A[i*s.n+j] }

func (s *fslack) pivot(l, e int) {
	m, n := s.m, s.n
	inv := s.at(l, e).inv()
	s.b[l] = s.b[l].mul(inv)
	rowL := s.A[l*n : l*n+n]
	for j := 0; j < n; j++ {
		if j != e && rowL[j].n != 0 {
			rowL[j] = rowL[j].mul(inv)
		}
	}
	rowL[e] = inv
	for i := 0; i < m; i++ {
		if i == l {
			continue
		}
		row := s.A[i*n : i*n+n]
		aie := row[e]
		if aie.n == 0 {
			continue
		}
		s.b[i] = s.b[i].sub(aie.mul(s.b[l]))
		for j := 0; j < n; j++ {
			if j != e && rowL[j].n != 0 {
				row[j] = row[j].sub(aie.mul(rowL[j]))
			}
		}
		row[e] = aie.mul(rowL[e]).neg()
	}
	ce := s.c[e]
	if ce.n != 0 {
		s.v = s.v.add(ce.mul(s.b[l]))
		for j := 0; j < n; j++ {
			if j != e && rowL[j].n != 0 {
				s.c[j] = s.c[j].sub(ce.mul(rowL[j]))
			}
		}
		s.c[e] = ce.mul(rowL[e]).neg()
	}
	s.N[e], s.B[l] = s.B[l], s.N[e]
}

func (s *fslack) run() lpStatus {
	for iter := 0; iter < 100000; iter++ {
		e := -1
		for j := 0; j < s.n; j++ {
			if s.c[j].n > 0 && (e < 0 || s.N[j] < s.N[e]) {
				e = j
			}
		}
		if e < 0 {
			return lpOptimal
		}
		l := -1
		var best F
		for i := 0; i < s.m; i++ {
			a := *s.at(i, e)
			if a.n > 0 {
				r := s.b[i].mul(a.inv())
				if l < 0 {
					l, best = i, r
				} else if c := r.cmp(best); c < 0 || (c == 0 && s.B[i] < s.B[l]) {
					l, best = i, r
				}
			}
		}
		if l < 0 {
			return lpUnbounded
		}
		s.pivot(l, e)
	}
	panic("simplex: iteration limit")
}

// lpSolveFast mirrors lpSolve on F; ok=false on overflow.
func lpSolveFast(A [][]F, b []F, c []F) (st lpStatus, val F, ok bool) {
	st, val, ok, _ = lpSolveFastKeep(A, b, c)
	return
}

func lpSolveFastKeep(A [][]F, b []F, c []F) (st lpStatus, val F, ok bool, keep *fslack) {
	defer func() {
		if r := recover(); r != nil {
			if _, isOv := r.(fOverflow); isOv {
				ok = false
				return
			}
			panic(r)
		}
	}()
	m, n := len(A), len(c)
	if m == 0 {
		for _, cj := range c {
			if cj.n > 0 {
				return lpUnbounded, F{}, true, nil
			}
		}
		return lpOptimal, F{0, 1}, true, nil
	}
	s := &fslack{m: m, n: n, A: make([]F, m*n), b: append([]F{}, b...), c: append([]F{}, c...), v: F{0, 1}, N: make([]int, n), B: make([]int, m)}
	for i := range A {
		copy(s.A[i*n:], A[i])
		s.B[i] = n + i
	}
	for j := 0; j < n; j++ {
		s.N[j] = j
	}
	k := 0
	for i := 1; i < m; i++ {
		if s.b[i].cmp(s.b[k]) < 0 {
			k = i
		}
	}
	if s.b[k].n < 0 {
		an := n + 1
		aux := &fslack{m: m, n: an, A: make([]F, m*an), b: append([]F{}, s.b...), c: make([]F, an), v: F{0, 1}, N: make([]int, an), B: append([]int{}, s.B...)}
		for i := 0; i < m; i++ {
			copy(aux.A[i*an:], s.A[i*n:i*n+n])
			aux.A[i*an+n] = F{-1, 1}
		}
		for j := 0; j < n; j++ {
			aux.N[j] = j
			aux.c[j] = F{0, 1}
		}
		aux.N[n] = n + m
		aux.c[n] = F{-1, 1}
		aux.pivot(k, n)
		if st := aux.run(); st != lpOptimal || aux.v.n != 0 {
			return lpInfeasible, F{}, true, nil
		}
		for i := 0; i < m; i++ {
			if aux.B[i] == n+m {
				e := -1
				for j := 0; j < an; j++ {
					if aux.at(i, j).n != 0 {
						e = j
						break
					}
				}
				if e >= 0 {
					aux.pivot(i, e)
				}
				break
			}
		}
		col := -1
		for j := 0; j < an; j++ {
			if aux.N[j] == n+m {
				col = j
			}
		}
		ns := &fslack{m: m, n: n, A: make([]F, m*n), b: aux.b, c: make([]F, n), v: F{0, 1}, N: make([]int, 0, n), B: aux.B}
		for j := 0; j < an; j++ {
			if j != col {
				ns.N = append(ns.N, aux.N[j])
			}
		}
		for i := 0; i < m; i++ {
			jj := 0
			for j := 0; j < an; j++ {
				if j != col {
					ns.A[i*n+jj] = aux.A[i*an+j]
					jj++
				}
			}
		}
		pos := map[int]int{}
		for j, id := range ns.N {
			pos[id] = j
			ns.c[j] = F{0, 1}
		}
		rowOf := map[int]int{}
		for i, id := range ns.B {
			rowOf[id] = i
		}
		for j := 0; j < n; j++ {
			cj := c[j]
			if cj.n == 0 {
				continue
			}
			if pj, isN := pos[j]; isN {
				ns.c[pj] = ns.c[pj].add(cj)
			} else {
				i := rowOf[j]
				ns.v = ns.v.add(cj.mul(ns.b[i]))
				for jj := 0; jj < n; jj++ {
					if a := ns.A[i*n+jj]; a.n != 0 {
						ns.c[jj] = ns.c[jj].sub(cj.mul(a))
					}
				}
			}
		}
		s = ns
	}
	if st := s.run(); st != lpOptimal {
		return st, F{}, true, s
	}
	return lpOptimal, s.v, true, s
}

// fastLP: phase I once, then many objectives over the same feasible region.
type fastLP struct {
	s        *fslack
	n        int
	status   lpStatus // lpInfeasible if the region is empty
	overflow bool
}

func newFastLP(A [][]F, b []F) (lp *fastLP) {
	lp = &fastLP{}
	defer func() {
		if r := recover(); r != nil {
			if _, isOv := r.(fOverflow); isOv {
				lp.overflow = true
				return
			}
			panic(r)
		}
	}()
	n := 0
	if len(A) > 0 {
		n = len(A[0])
	}
	lp.n = n
	zero := make([]F, n)
	for j := range zero {
		zero[j] = F{0, 1}
	}
	st, _, ok, s := lpSolveFastKeep(A, b, zero)
	if !ok {
		lp.overflow = true
		return
	}
	lp.status = st
	lp.s = s
	return
}

// maximize optimises c over the region; ok=false on overflow (caller falls back).
func (lp *fastLP) maximize(c []F) (st lpStatus, val F, ok bool) {
	if lp.overflow {
		return 0, F{}, false
	}
	if lp.status == lpInfeasible {
		return lpInfeasible, F{}, true
	}
	defer func() {
		if r := recover(); r != nil {
			if _, isOv := r.(fOverflow); isOv {
				// the tableau may be inconsistent now
				lp.overflow = true
				ok = false
				return
			}
			panic(r)
		}
	}()
	s := lp.s
	if s == nil { // no constraints
		for _, cj := range c {
			if cj.n > 0 {
				return lpUnbounded, F{}, true
			}
		}
		return lpOptimal, F{0, 1}, true
	}
	n := s.n
	pos := map[int]int{}
	for j, id := range s.N {
		pos[id] = j
		s.c[j] = F{0, 1}
	}
	rowOf := map[int]int{}
	for i, id := range s.B {
		rowOf[id] = i
	}
	s.v = F{0, 1}
	for j := 0; j < lp.n; j++ {
		cj := c[j]
		if cj.n == 0 {
			continue
		}
		if pj, isN := pos[j]; isN {
			s.c[pj] = s.c[pj].add(cj)
		} else {
			i := rowOf[j]
			s.v = s.v.add(cj.mul(s.b[i]))
			for jj := 0; jj < n; jj++ {
				if a := s.A[i*n+jj]; a.n != 0 {
					s.c[jj] = s.c[jj].sub(cj.mul(a))
				}
			}
		}
	}
	if st := s.run(); st != lpOptimal {
		return st, F{}, true
	}
	return lpOptimal, s.v, true
}
