package main

import (
	"fmt"
	"math/big"
	"math/bits"
)

// Exact rational numbers with an int64 fast path and a big.Rat fallback.
type Q struct {
	n, d int64 // d > 0 when b == nil
	b    *big.Rat
}

func qi(n int64) Q { return Q{n: n, d: 1} }

func qBig(r *big.Rat) Q {
	if r.Num().IsInt64() && r.Denom().IsInt64() {
		n, d := r.Num().Int64(), r.Denom().Int64()
		const lim = int64(1) << 62
		if n <= lim && n >= -lim && d <= lim {
			return Q{n: n, d: d}
		}
	}
	return Q{b: r}
}

func (a Q) rat() *big.Rat {
	if a.b != nil {
		return a.b
	}
	if a.d == 0 {
		return new(big.Rat) // zero value of Q is 0
	}
	return big.NewRat(a.n, a.d)
}

func abs64(x int64) (uint64, bool) {
	if x < 0 {
		return uint64(-x), true
	}
	return uint64(x), false
}

func mul64(a, b int64) (int64, bool) {
	ua, na := abs64(a)
	ub, nb := abs64(b)
	hi, lo := bits.Mul64(ua, ub)
	if hi != 0 || lo > 1<<62 {
		return 0, false
	}
	r := int64(lo)
	if na != nb {
		r = -r
	}
	return r, true
}

func add64(a, b int64) (int64, bool) {
	r := a + b
	if (a > 0 && b > 0 && r < 0) || (a < 0 && b < 0 && r >= 0) || r > 1<<62 || r < -(1<<62) {
		return 0, false
	}
	return r, true
}

func gcd64(a, b int64) int64 {
	if a < 0 {
		a = -a
	}
	if b < 0 {
		b = -b
	}
	for b != 0 {
		a, b = b, a%b
	}
	if a == 0 {
		return 1
	}
	return a
}

func qnorm(n, d int64) Q {
	if d < 0 {
		n, d = -n, -d
	}
	g := gcd64(n, d)
	return Q{n: n / g, d: d / g}
}

func (a Q) Add(c Q) Q {
	if a.b == nil && c.b == nil {
		if a.d == 1 && c.d == 1 {
			if r, ok := add64(a.n, c.n); ok {
				return Q{n: r, d: 1}
			}
		} else {
			x, ok1 := mul64(a.n, c.d)
			y, ok2 := mul64(c.n, a.d)
			z, ok3 := mul64(a.d, c.d)
			if ok1 && ok2 && ok3 {
				if s, ok := add64(x, y); ok {
					return qnorm(s, z)
				}
			}
		}
	}
	return qBig(new(big.Rat).Add(a.rat(), c.rat()))
}

func (a Q) Neg() Q {
	if a.b == nil {
		return Q{n: -a.n, d: a.d}
	}
	return qBig(new(big.Rat).Neg(a.b))
}

func (a Q) Sub(c Q) Q { return a.Add(c.Neg()) }

func (a Q) Mul(c Q) Q {
	if a.b == nil && c.b == nil {
		// cross-reduce first
		g1 := gcd64(a.n, c.d)
		g2 := gcd64(c.n, a.d)
		n1, d1 := a.n/g1, c.d/g1
		n2, d2 := c.n/g2, a.d/g2
		x, ok1 := mul64(n1, n2)
		y, ok2 := mul64(d1, d2)
		if ok1 && ok2 {
			return qnorm(x, y)
		}
	}
	return qBig(new(big.Rat).Mul(a.rat(), c.rat()))
}

func (a Q) Inv() Q {
	if a.b == nil {
		return qnorm(a.d, a.n)
	}
	return qBig(new(big.Rat).Inv(a.b))
}

func (a Q) Div(c Q) Q { return a.Mul(c.Inv()) }

func (a Q) Sign() int {
	if a.b != nil {
		return a.b.Sign()
	}
	switch {
	case a.n > 0:
		return 1
	case a.n < 0:
		return -1
	}
	return 0
}

func (a Q) Cmp(c Q) int { return a.Sub(c).Sign() }
func (a Q) IsZero() bool { return a.Sign() == 0 }

func (a Q) String() string {
	r := a.rat()
	if r.IsInt() {
		return r.Num().String()
	}
	return r.String()
}

func (a Q) IsInt() bool {
	if a.b == nil {
		return a.d == 1
	}
	return a.b.IsInt()
}

// Floor / Ceil to integers (as Q).
func (a Q) Floor() Q {
	r := a.rat()
	if r.IsInt() {
		return a
	}
	q := new(big.Int).Div(r.Num(), r.Denom()) // Euclidean division: floor for positive denom
	return qBig(new(big.Rat).SetInt(q))
}

func qPow2(k uint) Q {
	if k < 62 {
		return qi(1 << k)
	}
	return qBig(new(big.Rat).SetInt(new(big.Int).Lsh(big.NewInt(1), k)))
}

// ---------------------------------------------------------------------------
// Simplex (CLRS slack form, Bland's rule), exact.
//
// maximize  c.x  subject to  A x <= b,  x >= 0.

type lpStatus int

const (
	lpOptimal lpStatus = iota
	lpInfeasible
	lpUnbounded
)

var lpCount int

type slack struct {
	m, n int
	A    [][]Q // m x n
	b    []Q
	c    []Q
	v    Q
	N    []int // nonbasic variable ids (len n)
	B    []int // basic variable ids (len m)
}

func (s *slack) pivot(l, e int) {
	// l: row index (basic var leaving), e: column index (nonbasic entering)
	m, n := s.m, s.n
	ale := s.A[l][e]
	inv := ale.Inv()
	// new row for entering variable
	s.b[l] = s.b[l].Mul(inv)
	for j := 0; j < n; j++ {
		if j == e {
			continue
		}
		s.A[l][j] = s.A[l][j].Mul(inv)
	}
	s.A[l][e] = inv
	for i := 0; i < m; i++ {
		if i == l {
			continue
		}
		aie := s.A[i][e]
		if aie.IsZero() {
			continue
		}
		s.b[i] = s.b[i].Sub(aie.Mul(s.b[l]))
		for j := 0; j < n; j++ {
			if j == e {
				continue
			}
			if !s.A[l][j].IsZero() {
				s.A[i][j] = s.A[i][j].Sub(aie.Mul(s.A[l][j]))
			}
		}
		s.A[i][e] = aie.Mul(s.A[l][e]).Neg()
	}
	ce := s.c[e]
	if !ce.IsZero() {
		s.v = s.v.Add(ce.Mul(s.b[l]))
		for j := 0; j < n; j++ {
			if j == e {
				continue
			}
			if !s.A[l][j].IsZero() {
				s.c[j] = s.c[j].Sub(ce.Mul(s.A[l][j]))
			}
		}
		s.c[e] = ce.Mul(s.A[l][e]).Neg()
	}
	s.N[e], s.B[l] = s.B[l], s.N[e]
}

// run performs simplex iterations on a feasible slack form.
func (s *slack) run() lpStatus {
	for iter := 0; iter < 100000; iter++ {
		// Bland: entering variable with the smallest id among positive coefficients
		e := -1
		for j := 0; j < s.n; j++ {
			if s.c[j].Sign() > 0 && (e < 0 || s.N[j] < s.N[e]) {
				e = j
			}
		}
		if e < 0 {
			return lpOptimal
		}
		l := -1
		var best Q
		for i := 0; i < s.m; i++ {
			if s.A[i][e].Sign() > 0 {
				r := s.b[i].Div(s.A[i][e])
				if l < 0 || r.Cmp(best) < 0 || (r.Cmp(best) == 0 && s.B[i] < s.B[l]) {
					l, best = i, r
				}
			}
		}
		if l < 0 {
			return lpUnbounded
		}
		s.pivot(l, e)
	}
	panic("simplex: iteration limit")
}

// lpSolve maximises c.x over {x >= 0 : A x <= b}.
var lpFastCount, lpSlowCount int

func lpSolve(A [][]Q, b []Q, c []Q) (lpStatus, Q) {
	lpCount++
	// fast path on int64 rationals
	small := true
	toF := func(q Q) F {
		if q.b != nil {
			small = false
			return F{}
		}
		if q.d == 0 {
			return F{0, 1}
		}
		return F{q.n, q.d}
	}
	fa := make([][]F, len(A))
	for i := range A {
		fa[i] = make([]F, len(A[i]))
		for j := range A[i] {
			fa[i][j] = toF(A[i][j])
		}
	}
	fb := make([]F, len(b))
	for i := range b {
		fb[i] = toF(b[i])
	}
	fc := make([]F, len(c))
	for i := range c {
		fc[i] = toF(c[i])
	}
	if small {
		if st, v, ok := lpSolveFast(fa, fb, fc); ok {
			lpFastCount++
			if lpCrossCheck {
				st2, v2 := lpSolveSlow(A, b, c)
				if st2 != st || (st == lpOptimal && v2.Cmp(Q{n: v.n, d: v.d}) != 0) {
					panic(fmt.Sprintf("LP mismatch: fast %v %v slow %v %v", st, v, st2, v2.String()))
				}
			}
			if st == lpOptimal {
				return st, Q{n: v.n, d: v.d}
			}
			return st, Q{}
		}
	}
	lpSlowCount++
	return lpSolveSlow(A, b, c)
}

var lpCrossCheck bool

func lpSolveSlow(A [][]Q, b []Q, c []Q) (lpStatus, Q) {
	m := len(A)
	n := len(c)
	if m == 0 {
		for _, cj := range c {
			if cj.Sign() > 0 {
				return lpUnbounded, Q{}
			}
		}
		return lpOptimal, qi(0)
	}
	s := &slack{m: m, n: n, A: make([][]Q, m), b: make([]Q, m), c: make([]Q, n), v: qi(0), N: make([]int, n), B: make([]int, m)}
	for i := range A {
		s.A[i] = append([]Q{}, A[i]...)
		s.b[i] = b[i]
		s.B[i] = n + i
	}
	copy(s.c, c)
	for j := 0; j < n; j++ {
		s.N[j] = j
	}
	// initial feasibility
	k := 0
	for i := 1; i < m; i++ {
		if s.b[i].Cmp(s.b[k]) < 0 {
			k = i
		}
	}
	if s.b[k].Sign() < 0 {
		// auxiliary problem with x0 (id n+m), column appended
		aux := &slack{m: m, n: n + 1, A: make([][]Q, m), b: append([]Q{}, s.b...), c: make([]Q, n+1), v: qi(0), N: make([]int, n+1), B: append([]int{}, s.B...)}
		for i := 0; i < m; i++ {
			aux.A[i] = append(append([]Q{}, s.A[i]...), qi(-1))
		}
		for j := 0; j < n; j++ {
			aux.N[j] = j
			aux.c[j] = qi(0)
		}
		aux.N[n] = n + m
		aux.c[n] = qi(-1)
		aux.pivot(k, n)
		if st := aux.run(); st != lpOptimal {
			return lpInfeasible, Q{}
		}
		if aux.v.Sign() != 0 {
			return lpInfeasible, Q{}
		}
		// if x0 is basic, pivot it out
		for i := 0; i < m; i++ {
			if aux.B[i] == n+m {
				e := -1
				for j := 0; j < aux.n; j++ {
					if !aux.A[i][j].IsZero() {
						e = j
						break
					}
				}
				if e >= 0 {
					aux.pivot(i, e)
				}
				break
			}
		}
		// remove x0 column, rebuild objective
		col := -1
		for j := 0; j < aux.n; j++ {
			if aux.N[j] == n+m {
				col = j
			}
		}
		ns := &slack{m: m, n: n, A: make([][]Q, m), b: aux.b, c: make([]Q, n), v: qi(0), N: make([]int, 0, n), B: aux.B}
		for j := 0; j < aux.n; j++ {
			if j != col {
				ns.N = append(ns.N, aux.N[j])
			}
		}
		for i := 0; i < m; i++ {
			row := make([]Q, 0, n)
			for j := 0; j < aux.n; j++ {
				if j != col {
					row = append(row, aux.A[i][j])
				}
			}
			ns.A[i] = row
		}
		// objective in terms of nonbasic variables
		pos := map[int]int{}
		for j, id := range ns.N {
			pos[id] = j
			ns.c[j] = qi(0)
		}
		rowOf := map[int]int{}
		for i, id := range ns.B {
			rowOf[id] = i
		}
		for j := 0; j < n; j++ {
			cj := c[j]
			if cj.IsZero() {
				continue
			}
			if pj, ok := pos[j]; ok {
				ns.c[pj] = ns.c[pj].Add(cj)
			} else {
				i := rowOf[j]
				ns.v = ns.v.Add(cj.Mul(ns.b[i]))
				for jj := 0; jj < n; jj++ {
					if !ns.A[i][jj].IsZero() {
						ns.c[jj] = ns.c[jj].Sub(cj.Mul(ns.A[i][jj]))
					}
				}
			}
		}
		s = ns
	}
	st := s.run()
	if st != lpOptimal {
		return st, Q{}
	}
	return lpOptimal, s.v
}
