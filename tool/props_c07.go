package main

import (
	"fmt"
	"go/token"
	"sort"
	"strings"

	"golang.org/x/tools/go/ssa"
)

func init() { register("C07", checkC07) }

func checkC07(c *Check) {
	c.Explain = "Termination and resource safety of the Reader on arbitrary input, as far as they are visible in the shape of the code: (R07.1) no call-graph cycle reachable from the Reader entry points contains a function that reads the source (input-driven recursion depth); (R07.2) the magic dispatch accepts exactly the specification's values (interval sets); (R07.3) the block-size word is checked against the pooled buffer's capacity before the buffer is re-sliced and filled; (R07.4) no allocation reachable from the Reader is sized by a value read from the source; (R07.5) BlockSizeIndex.Get is total on every code that can reach it; (R07.6) the concurrent reader's shutdown protocol holds on every exit path; (R07.7) a source failure or truncation always surfaces as an error (no silent absorption)."
	c.Uncov = []string{"liveness under every schedule", "heap growth as a number", "panics inside the block decoders (C03)"}
	c.Trusted = append(trustedSSA, "VTA call graph for reachability and cycles")
	for k, v := range map[string]string{"R07.1": "no input-driven recursion", "R07.2": "magic dispatch exact", "R07.3": "block size guard before re-slice", "R07.4": "allocation sizes independent of input", "R07.5": "Get total", "R07.6": "reader shutdown protocol", "R07.7": "errors surface"} {
		c.RuleDoc[k] = v
	}
	p := loadOrTrouble(c, cfgAMD64)
	if p == nil {
		return
	}
	ruleNoInputRecursion(c, p, "R07.1")
	ruleMagicDispatch(c, p, "R07.2")
	ruleBlockSizeNumeric(c, p, "R07.3")
	ruleUncompressNoPanic(c, p, "R07.16")
	ruleReadsChannelNotNil(c, p, "R07.17")
	c.RuleDoc["R07.17"] = "the consumer's data channel is never left nil while a receive can follow (a nil channel blocks forever)"
	c.RuleDoc["R07.16"] = "FrameDataBlock.Uncompress cannot panic for any sizes of block and destination (bounds prover)"
	ruleAllocSites(c, p, "R07.4")
	ruleGetTotal(c, p, "R07.5")
	ruleReaderShutdown(c, p, "R07.6")
	ruleHeaderGate(c, p, "R07.11")
	c.RuleDoc["R07.11"] = "= R19.2: a descriptor is accepted only behind the check-byte comparison and the block-size validity test (an undefined block-size code would reach the buffer pools, whose lookup panics)"
	ruleBuffersRefetched(c, p, "R07.14", "Reader")
	ruleStreamFieldsRearmed(c, p, "R07.14")
	c.RuleDoc["R07.14"] = "= R17.8/R17.9 for the Reader: block buffer and position are re-initialised for every stream in every mode (a stale position indexes a nil or shorter buffer)"
	{
		cases := []asmCase{{false, false}, {false, true}}
		runAsm(c, p, cases, map[string]string{"result": "R07.15"})
		c.RuleDoc["R07.15"] = "= R03.2: the assembly decoder's result is a negative constant or a count within [0, len(dst)] (the frame layer slices the pooled buffer with it)"
	}
	ruleConsumerDrains(c, p, "R07.13")
	c.RuleDoc["R07.13"] = "the consumer of the concurrent decoder reads the error latch only once the data channel has delivered an empty buffer (otherwise an early error return strands the pipeline goroutines)"
	ruleObservationalCollapse(c, "R07.12")
	c.RuleDoc["R07.12"] = "= R12.2: every negative result of either block decoder becomes an error (a negative count returned as success is used as a slice bound by the frame layer and panics)"
	ruleStreamsThroughInterface(c, p, "R07.10")
	c.RuleDoc["R07.10"] = "user streams are used only through the interface they were passed as (no type assertion to optional methods)"
	ruleInputSizedExternalCalls(c, p, "R07.9")
	c.RuleDoc["R07.9"] = "numbers read from the input do not size anything outside the module (allow-list: io.CopyN, fmt, encoding/binary)"
	ruleReleaseAfterUse(c, p, "R07.6")
	rfns := readerSideFuncs(p)
	ruleErrorsNotAbsorbed(c, p, "R07.7", rfns, errAbsorbExempt)
	ruleWindowNumeric(c, p, "", "R07.8")
	c.RuleDoc["R07.8"] = "the rolling dictionary does not grow with the stream: after each update its length is bounded by a constant of the trim rule or equals the last block (bounds prover on Reader.read with the field tracked as a slice)"
}

// readerSideFuncs: the functions of the reading path whose error results decide
// what the caller of Read/WriteTo is told.
func readerSideFuncs(p *Program) []*ssa.Function {
	var rfns []*ssa.Function
	for _, fn := range moduleFuncs(p, pkgRoot, pkgStream) {
		s := shortFn(fn)
		if strings.HasPrefix(s, "Reader.") || strings.HasPrefix(s, "Frame.ParseHeaders") || strings.HasPrefix(s, "Frame.CloseR") || strings.HasPrefix(s, "FrameDescriptor.initR") || strings.HasPrefix(s, "FrameDataBlock.Read") || strings.HasPrefix(s, "FrameDataBlock.Uncompress") || strings.HasPrefix(s, "Blocks.initR") || s == "Frame.readUint32" {
			rfns = append(rfns, fn)
		}
	}
	return rfns
}

// readerEntryReach: module functions reachable from the Reader entry points.
func readerEntryReach(p *Program) map[*ssa.Function]bool {
	cg := p.CallGraph()
	reach := map[*ssa.Function]bool{}
	var stack []*ssa.Function
	for _, n := range []string{"Reader.Read", "Reader.WriteTo", "Reader.Size", "Reader.Reset", "Reader.Apply"} {
		if f := p.Func("", n); f != nil {
			stack = append(stack, f)
		}
	}
	if f := p.Func("", "ValidFrameHeader"); f != nil {
		stack = append(stack, f)
	}
	if f := p.Func("", "NewReader"); f != nil {
		stack = append(stack, f)
	}
	for len(stack) > 0 {
		f := stack[len(stack)-1]
		stack = stack[:len(stack)-1]
		if reach[f] {
			continue
		}
		reach[f] = true
		for _, a := range f.AnonFuncs {
			stack = append(stack, a)
		}
		if n := cg.Nodes[f]; n != nil {
			for _, e := range n.Out {
				g := e.Callee.Func
				if g != nil && g.Pkg != nil && strings.HasPrefix(g.Pkg.Pkg.Path(), modPath) && !reach[g] {
					stack = append(stack, g)
				}
			}
		}
	}
	return reach
}

func ruleNoInputRecursion(c *Check, p *Program, rule string) {
	reach := readerEntryReach(p)
	io := ioFuncs(p)
	cg := p.CallGraph()
	// Tarjan SCC over the reachable module functions
	index := map[*ssa.Function]int{}
	low := map[*ssa.Function]int{}
	on := map[*ssa.Function]bool{}
	var st []*ssa.Function
	idx := 0
	var sccs [][]*ssa.Function
	var strong func(v *ssa.Function)
	strong = func(v *ssa.Function) {
		index[v], low[v] = idx, idx
		idx++
		st = append(st, v)
		on[v] = true
		if n := cg.Nodes[v]; n != nil {
			for _, e := range n.Out {
				w := e.Callee.Func
				if !reach[w] {
					continue
				}
				if _, seen := index[w]; !seen {
					strong(w)
					if low[w] < low[v] {
						low[v] = low[w]
					}
				} else if on[w] && index[w] < low[v] {
					low[v] = index[w]
				}
			}
		}
		if low[v] == index[v] {
			var comp []*ssa.Function
			for {
				w := st[len(st)-1]
				st = st[:len(st)-1]
				on[w] = false
				comp = append(comp, w)
				if w == v {
					break
				}
			}
			sccs = append(sccs, comp)
		}
	}
	var fs []*ssa.Function
	for f := range reach {
		fs = append(fs, f)
	}
	sort.Slice(fs, func(i, j int) bool { return fs[i].Pos() < fs[j].Pos() })
	for _, f := range fs {
		if _, seen := index[f]; !seen {
			strong(f)
		}
	}
	cycles := 0
	for _, comp := range sccs {
		cyc := len(comp) > 1
		if !cyc {
			if n := cg.Nodes[comp[0]]; n != nil {
				for _, e := range n.Out {
					if e.Callee.Func == comp[0] {
						cyc = true
					}
				}
			}
		}
		if !cyc {
			continue
		}
		reads := false
		var names []string
		for _, f := range comp {
			names = append(names, shortFn(f))
			if io[f] {
				reads = true
			}
		}
		sort.Strings(names)
		if reads {
			cycles++
			c.Fail(rule, "recursion#"+strings.Join(names, ","), p.Pos(comp[0].Pos()), "no recursion whose depth is driven by the input", "call-graph cycle {"+strings.Join(names, ", ")+"} is reachable from the Reader and reads the source on each level: the input controls the stack depth (Go stack overflow is fatal and cannot be recovered)")
		}
	}
	c.Extra[rule+"_functions_reachable_from_reader"] = len(reach)
	c.Extra[rule+"_sccs"] = len(sccs)
	if cycles == 0 {
		c.OK(rule, "recursion#none", "", "no recursion whose depth is driven by the input", fmt.Sprintf("%d module functions reachable from the Reader entry points, %d strongly connected components, none cyclic with a source read", len(reach), len(sccs)), true)
	}
}

func ruleBlockSizeGuard(c *Check, p *Program, rule string) {
	fn := findFn(c, p, rule, "internal/lz4stream", "FrameDataBlock.Read")
	if fn == nil {
		return
	}
	n := 0
	allInstrs(fn, func(in ssa.Instruction) {
		sl, ok := in.(*ssa.Slice)
		if !ok || loadField(sl.X) != "FrameDataBlock.data" || sl.High == nil {
			return
		}
		n++
		c.Sites++
		h := sl.High
		// h must be the masked size (result of DataBlockSize.size) and guarded by !(h > cap(b.data))
		masked := derivesFromCall(h, func(f *ssa.Function) bool { return f.Name() == "size" && recvTypeName(f) == "DataBlockSize" })
		guarded := false
		for _, l := range guardsOf(in.Block()) {
			b, isB := l.Cond.(*ssa.BinOp)
			if !isB {
				continue
			}
			isCap := func(v ssa.Value) bool {
				call, isC := v.(*ssa.Call)
				if !isC {
					return false
				}
				bi, isBi := call.Call.Value.(*ssa.Builtin)
				return isBi && bi.Name() == "cap" && loadField(call.Call.Args[0]) == "FrameDataBlock.data"
			}
			switch {
			case b.Op == token.GTR && b.X == h && isCap(b.Y) && !l.Val,
				b.Op == token.LEQ && b.X == h && isCap(b.Y) && l.Val,
				b.Op == token.LSS && isCap(b.X) && b.Y == h && !l.Val,
				b.Op == token.GEQ && isCap(b.X) && b.Y == h && l.Val:
				guarded = true
			}
		}
		// no store to b.data between the guard and the slice other than this one: the capacity compared is the one sliced
		c.Cond(masked && guarded, rule, "FrameDataBlock.Read#size-le-cap-before-reslice", p.InstrPos(in), "the 31-bit block size is compared with the capacity of the pooled buffer before the buffer is re-sliced to it and filled from the source (no panic, no over-read, no input-sized allocation)",
			"re-slice dominated by !(size > cap(b.data)); size is DataBlockSize.size() (non-negative 31-bit)", fmt.Sprintf("size derives from the masked accessor: %v; dominated by size <= cap(b.data): %v", masked, guarded))
	})
	if n == 0 {
		c.Fail(rule, "FrameDataBlock.Read#size-le-cap-before-reslice", p.Pos(fn.Pos()), "block buffer re-slice resolved", "no re-slice of b.data found")
	}
	// the oversize exit reports ErrOptionInvalidBlockSize
}

func ruleAllocSites(c *Check, p *Program, rule string) {
	reach := readerEntryReach(p)
	tainted := func(v ssa.Value) (bool, string) {
		bad := false
		why := ""
		walkBack(v, true, func(x ssa.Value) bool {
			if call, ok := x.(*ssa.Call); ok {
				f := staticCallee(call)
				if f != nil && (isSourceRead32(f) || (f.Pkg != nil && f.Pkg.Pkg.Path() == "encoding/binary")) {
					bad, why = true, "derives from "+f.Name()+"()"
				}
				if f != nil && recvTypeName(f) == "DataBlockSize" {
					bad, why = true, "derives from the block size word"
				}
				return false
			}
			if lf := loadField(x); lf == "FrameDataBlock.Size" || lf == "FrameDescriptor.ContentSize" || lf == "Frame.Checksum" || lf == "FrameDataBlock.Checksum" {
				bad, why = true, "derives from "+lf
			}
			return !bad
		})
		return bad, why
	}
	n := 0
	var fs []*ssa.Function
	for f := range reach {
		fs = append(fs, f)
	}
	sort.Slice(fs, func(i, j int) bool { return fs[i].Pos() < fs[j].Pos() })
	per := map[string]int{}
	for _, fn := range fs {
		allInstrs(fn, func(in ssa.Instruction) {
			var sizes []ssa.Value
			kind := ""
			switch x := in.(type) {
			case *ssa.MakeSlice:
				sizes, kind = []ssa.Value{x.Len, x.Cap}, "make([]T)"
			case *ssa.MakeChan:
				sizes, kind = []ssa.Value{x.Size}, "make(chan)"
			case *ssa.MakeMap:
				if x.Reserve != nil {
					sizes, kind = []ssa.Value{x.Reserve}, "make(map)"
				}
			default:
				if cc, ok := isBuiltinCall(in, "append"); ok {
					kind = "append"
					// appended slice length
					sizes = []ssa.Value{}
					if len(cc.Args) == 2 {
						// only flagged when the appended data length is read from the stream: covered by provenance of the slice bounds
						if sl, isS := cc.Args[1].(*ssa.Slice); isS {
							if sl.High != nil {
								sizes = append(sizes, sl.High)
							}
						}
					}
				}
			}
			if kind == "" {
				return
			}
			n++
			c.Sites++
			sfn := shortFn(fn)
			per[sfn+kind]++
			key := fmt.Sprintf("alloc#%s#%s#%d", sfn, kind, per[sfn+kind])
			bad := false
			why := ""
			for _, s := range sizes {
				if s == nil {
					continue
				}
				if b, w := tainted(s); b {
					bad, why = true, w
				}
			}
			c.Cond(!bad, rule, key, p.InstrPos(in), "allocation reachable from the Reader is not sized by a value read from the compressed stream", "size is constant / configuration / decoded-data bounded", "allocation size "+why+": an attacker-controlled field drives memory use")
		})
	}
	if n < 5 {
		c.Fail(rule, "alloc#floor", "", "allocation sites reachable from the Reader are resolved", fmt.Sprintf("only %d found", n))
	}
}

func ruleGetTotal(c *Check, p *Program, rule string) {
	g := findFn(c, p, rule, "internal/lz4block", "BlockSizeIndex.Get")
	v := findFn(c, p, rule, "internal/lz4block", "BlockSizeIndex.IsValid")
	if g == nil || v == nil {
		return
	}
	sets := valueSetsAt(g, g.Params[0], g.Blocks[0], 8)
	var handled vset
	for _, ci := range callsIn(g) {
		if f := staticCallee(ci); f != nil && f.Name() == "Get" && strings.Contains(f.String(), "sync.Pool") {
			handled = handled.union(sets[ci.Block()])
		}
	}
	need := vset{{3, 7}} // IsValid's {4..7} (R19.4) plus the legacy code 3
	c.Cond(len(need.intersect(handled.complement(8))) == 0, rule, "BlockSizeIndex.Get#total", p.Pos(g.Pos()), "Get returns a pooled buffer for every code that can reach it: the four valid codes and the legacy code (otherwise the nil interface conversion panics)", "handled codes "+handled.String(), "handled codes "+handled.String()+" do not cover "+need.String())
	// option: validity test dominates the setter in BlockSizeOption closures
	n := 0
	for _, fn := range moduleFuncs(p, pkgRoot) {
		if fn.Parent() == nil || fn.Parent().Name() != "BlockSizeOption" {
			continue
		}
		for _, ci := range callsIn(fn) {
			if calleeIs(ci, pkgStream, "DescriptorFlags.BlockSizeIndexSet") {
				n++
				ok := false
				for _, a := range atomsOfBlock(ci.Block()) {
					if a.Kind == "call" && strings.HasSuffix(a.Name, "IsValid") && a.Val {
						ok = true
					}
					// a validator helper: err == nil, where the helper returns nil only under IsValid
					if a.Kind == "errnil" && a.Val {
						av := a.V
						if ex, isEx := av.(*ssa.Extract); isEx {
							av = ex.Tuple // the error of a helper that returns (code, error)
						}
						if call, isC := av.(*ssa.Call); isC {
							if f := staticCallee(call); inModule(f) && nilOnlyUnder(f, "IsValid") {
								ok = true
							}
						}
					}
				}
				if !ok {
					// the code itself was tested: it is what lz4block.Index returned (0 for a size that has no code, and
					// otherwise one of the codes Get handles) and it is known to be non-zero here
					args := ci.Common().Args
					code := stripConv(args[len(args)-1])
					if call, isC := code.(*ssa.Call); isC && calleeIs(call, pkgBlock, "Index") {
						idxFn := staticCallee(call)
						codesOK := true
						allInstrs(idxFn, func(in ssa.Instruction) {
							if r, isR := in.(*ssa.Return); isR {
								k, isK := constUint(r.Results[0])
								if !isK || !(k == 0 || len(vset{{k, k}}.intersect(handled)) > 0) {
									codesOK = false
								}
							}
						})
						for _, a := range atomsOfBlock(ci.Block()) {
							neg := a
							neg.Val = !a.Val
							if z := atomSaysZero(neg); z != nil && stripConv(z) == code && codesOK {
								ok = true
							}
						}
					}
				}
				c.Cond(ok, rule, fmt.Sprintf("BlockSizeOption#validated#%d", n), p.InstrPos(ci), "BlockSizeOption stores a block-size code only after lz4block.IsValid accepted the size", "guarded by IsValid(size)", "BlockSizeIndexSet is not guarded by IsValid: an undefined size would make Get panic later")
			}
		}
	}
}

// nilOnlyUnder: every return of a nil error in f lies under the true edge of a
// call whose callee name ends in pred (f is a validator built on pred).
func nilOnlyUnder(f *ssa.Function, pred string) bool {
	found, ok := false, true
	allInstrs(f, func(in ssa.Instruction) {
		r, isR := in.(*ssa.Return)
		if !isR || len(r.Results) == 0 {
			return
		}
		ev := r.Results[len(r.Results)-1] // the error is the last result
		if !isErrorType(ev.Type()) {
			return
		}
		if !mayBeNilErr(ev, r.Block()) {
			return
		}
		found = true
		guarded := false
		for _, a := range atomsOfBlock(r.Block()) {
			if a.Kind == "call" && strings.HasSuffix(a.Name, pred) && a.Val {
				guarded = true
			}
		}
		if !guarded {
			ok = false
		}
	})
	return found && ok
}
