package main

import (
	"crypto/sha1"
	"encoding/json"
	"fmt"
	"os"
	"path/filepath"
	"sort"
	"strings"
	"time"
)

// Status of one obligation.
const (
	Discharged = "discharged"
	Violated   = "violated"
	Undecided  = "undecided" // checker could not decide: treated as a failure, never as a pass
)

// Obligation is one rule instance on one construct.
type Obligation struct {
	Rule       string   `json:"rule"`
	Key        string   `json:"key"` // rule+construct key, never a line number
	Pos        string   `json:"pos,omitempty"`
	Config     string   `json:"config,omitempty"`
	Desc       string   `json:"desc"`
	Status     string   `json:"status"`
	How        string   `json:"how,omitempty"` // how it was discharged / why it is violated
	Nontrivial bool     `json:"nontrivial"`
	Trail      []string `json:"trail,omitempty"` // path / witness
}

// Check accumulates the obligations of one property run.
type Check struct {
	Property string
	Tier     string
	Level    string
	start    time.Time
	Obls     []*Obligation
	keep     func(string) bool
	asRule   string
	Explain  string
	Uncov    []string
	Configs  []string
	Funcs    map[string]bool
	Sites    int
	AsmInstr int
	LPQ      int
	Extra    map[string]interface{}
	Assume   []string
	Trusted  []string
	Trouble  []string // checker trouble (exit 2)
	RuleDoc  map[string]string
	Selftest []map[string]interface{}
	curCfg   string
}

func NewCheck(prop, tier string) *Check {
	return &Check{Property: prop, Tier: tier, Level: "other", start: time.Now(), Funcs: map[string]bool{}, Extra: map[string]interface{}{}, RuleDoc: map[string]string{}}
}

// only runs a rule function and keeps just the obligations whose key satisfies keep (used to cross-list one
// obligation of a larger rule under another property).
func (c *Check) only(keep func(key string) bool, run func()) {
	old := c.keep
	c.keep = keep
	run()
	c.keep = old
}

// as runs a rule function whose rule ids are fixed and records its obligations under another id
// (cross-listing a whole rule of another property).
func (c *Check) as(rule string, run func()) {
	old := c.asRule
	c.asRule = rule
	run()
	c.asRule = old
}

func (c *Check) add(o *Obligation) *Obligation {
	if c.keep != nil && !c.keep(o.Key) {
		return o
	}
	if c.asRule != "" {
		o.Rule = c.asRule
	}
	// de-duplicate by rule+key+config
	for _, p := range c.Obls {
		if p.Rule == o.Rule && p.Key == o.Key && p.Config == o.Config {
			// keep the worst status
			if rank(o.Status) > rank(p.Status) {
				*p = *o
			}
			return p
		}
	}
	c.Obls = append(c.Obls, o)
	return o
}

func rank(s string) int {
	switch s {
	case Discharged:
		return 0
	case Undecided:
		return 1
	}
	return 2
}

// OK records a discharged obligation.
func (c *Check) OK(rule, key, pos, desc, how string, nontrivial bool) {
	c.add(&Obligation{Rule: rule, Key: key, Pos: pos, Desc: desc, Status: Discharged, How: how, Nontrivial: nontrivial, Config: c.cfgLabel()})
}

// Fail records a violated obligation.
func (c *Check) Fail(rule, key, pos, desc, why string, trail ...string) {
	c.add(&Obligation{Rule: rule, Key: key, Pos: pos, Desc: desc, Status: Violated, How: why, Nontrivial: true, Trail: trail, Config: c.cfgLabel()})
}

// Unknown records an obligation the checker could not decide.
func (c *Check) Unknown(rule, key, pos, desc, why string) {
	c.add(&Obligation{Rule: rule, Key: key, Pos: pos, Desc: desc, Status: Undecided, How: why, Nontrivial: true, Config: c.cfgLabel()})
}

// Cond records discharged or violated depending on ok.
func (c *Check) Cond(ok bool, rule, key, pos, desc, how, why string) bool {
	if ok {
		c.OK(rule, key, pos, desc, how, true)
	} else {
		c.Fail(rule, key, pos, desc, why)
	}
	return ok
}

func (c *Check) TroubleF(format string, a ...interface{}) {
	c.Trouble = append(c.Trouble, fmt.Sprintf(format, a...))
}


type knownFinding struct {
	Property string `json:"property"`
	Rule     string `json:"rule"`
	Key      string `json:"key"`
	What     string `json:"what"`
	ID       string `json:"id,omitempty"`
}

type knownFile struct {
	Findings []knownFinding `json:"findings"`
	Fixed    []string       `json:"fixed"`
}

func loadKnown(verifDir string) (*knownFile, error) {
	var k knownFile
	b, err := os.ReadFile(filepath.Join(verifDir, "known_findings.json"))
	if err != nil {
		if os.IsNotExist(err) {
			return &k, nil
		}
		return nil, err
	}
	if err := json.Unmarshal(b, &k); err != nil {
		return nil, err
	}
	return &k, nil
}

func (k *knownFile) match(prop string, o *Obligation) *knownFinding {
	for i := range k.Findings {
		f := &k.Findings[i]
		if f.Property == prop && f.Rule == o.Rule && f.Key == o.Key {
			return f
		}
	}
	return nil
}

// Finish writes the evidence file, prints KNOWN-FINDING / VIOLATION lines and
// returns the process exit code.
func (c *Check) Finish(verifDir string) int {
	known, err := loadKnown(verifDir)
	if err != nil {
		c.TroubleF("known_findings.json: %v", err)
		known = &knownFile{}
	}
	sort.SliceStable(c.Obls, func(i, j int) bool {
		if c.Obls[i].Rule != c.Obls[j].Rule {
			return c.Obls[i].Rule < c.Obls[j].Rule
		}
		return c.Obls[i].Key < c.Obls[j].Key
	})
	var viol, und, disc, nontriv int
	var knownHit []string
	var lines []string
	distinct := map[string]bool{}
	os.MkdirAll(filepath.Join(verifDir, "evidence", "replay"), 0o755)
	for _, o := range c.Obls {
		switch o.Status {
		case Discharged:
			disc++
			if o.Nontrivial && !distinct[o.Rule+"|"+o.Key] {
				distinct[o.Rule+"|"+o.Key] = true
				nontriv++
			}
		case Violated, Undecided:
			if f := known.match(c.Property, o); f != nil && o.Status == Violated {
				knownHit = append(knownHit, fmt.Sprintf("KNOWN-FINDING: property=%s %s [%s %s] %s", c.Property, f.What, o.Rule, o.Key, o.Pos))
				continue
			}
			if o.Status == Violated {
				viol++
			} else {
				und++
			}
			h := sha1.Sum([]byte(o.Rule + "|" + o.Key + "|" + o.Config))
			rp := filepath.Join("evidence", "replay", fmt.Sprintf("%s-%s-%x.json", c.Property, o.Rule, h[:5]))
			b, _ := json.MarshalIndent(map[string]interface{}{"property": c.Property, "tier": c.Tier, "obligation": o}, "", " ")
			os.WriteFile(filepath.Join(verifDir, rp), b, 0o644)
			lines = append(lines, fmt.Sprintf("%s rule=%s construct=%q at %s: %s -- %s", strings.ToUpper(o.Status), o.Rule, o.Key, o.Pos, o.Desc, o.How))
			for _, t := range o.Trail {
				lines = append(lines, "    "+t)
			}
			lines = append(lines, fmt.Sprintf("VIOLATION property=%s replay=%s", c.Property, rp))
		}
	}
	printed := map[string]bool{}
	for _, l := range knownHit {
		if !printed[l] { // one line per finding, however many configurations show it
			fmt.Println(l)
		}
		printed[l] = true
	}
	for _, l := range lines {
		fmt.Println(l)
	}
	for _, t := range c.Trouble {
		fmt.Println("CHECKER-TROUBLE:", t)
	}
	// samples
	var samples []interface{}
	perRule := map[string]int{}
	for _, o := range c.Obls {
		if perRule[o.Rule] < 3 || o.Status != Discharged {
			perRule[o.Rule]++
			samples = append(samples, o)
		}
	}
	var allKeys []string
	for _, o := range c.Obls {
		k := o.Rule + " " + o.Key
		if o.Config != "" {
			k += " [" + o.Config + "]"
		}
		allKeys = append(allKeys, k+" : "+o.Status)
	}
	var funcs []string
	for f := range c.Funcs {
		funcs = append(funcs, f)
	}
	sort.Strings(funcs)
	level := c.Level
	if level == "proof" && (viol+und+len(knownHit) > 0) {
		level = "other"
	}
	cov := map[string]interface{}{
		"explanation":         c.Explain,
		"obligations":         len(c.Obls),
		"discharged":          disc,
		"checker_cmd":         fmt.Sprintf("./check.sh %s %s", c.Property, c.Tier),
		"trusted_base":        orEmpty(c.Trusted),
		"evaluations":         len(c.Obls),
		"distinct_nontrivial": nontriv,
		"rule":                "one evaluation per rule instance (rule id + construct key + build configuration); an instance is non-trivial when discharging it needed a guard set, a dominance/reachability query, a provenance trace, a table evaluation or an LP query (counted by the checker); distinct = distinct rule+construct keys",
		"samples":             samples,
		"configurations":      c.Configs,
		"functions_analysed":  funcs,
		"call_sites":          c.Sites,
		"asm_instructions":    c.AsmInstr,
		"lp_queries":          c.LPQ,
		"known_findings":      knownHit,
		"uncovered":           c.Uncov,
		"rules":               c.RuleDoc,
		"undecided":           und,
		"exhaustive":          false,
		"all_obligations":     allKeys,
	}
	for k, v := range c.Extra {
		cov[k] = v
	}
	if len(c.Selftest) > 0 {
		cov["selftest"] = c.Selftest
	}
	if c.Assume == nil {
		c.Assume = []string{}
	}
	if c.Trusted == nil {
		c.Trusted = []string{}
	}
	if c.Uncov == nil {
		c.Uncov = []string{}
	}
	seed := 0
	fmt.Sscanf(os.Getenv("VERIF_SEED"), "%d", &seed)
	ev := map[string]interface{}{
		"property_id": c.Property,
		"tier":        c.Tier,
		"seed":        seed,
		"level":       level,
		"coverage":    cov,
		"assumptions": c.Assume,
		"wall_s":      time.Since(c.start).Seconds(),
		"violations":  viol + und,
	}
	b, _ := json.MarshalIndent(ev, "", " ")
	if err := os.WriteFile(filepath.Join(verifDir, "evidence", c.Property+".json"), b, 0o644); err != nil {
		fmt.Println("CHECKER-TROUBLE: cannot write evidence:", err)
		return 2
	}
	fmt.Printf("%s %s: %d obligations, %d discharged, %d known findings, %d violations, %d undecided, %d trouble (%.1fs)\n",
		c.Property, c.Tier, len(c.Obls), disc, len(knownHit), viol, und, len(c.Trouble), time.Since(c.start).Seconds())
	if viol+und > 0 {
		return 1
	}
	if len(c.Trouble) > 0 {
		return 2
	}
	return 0
}

func orEmpty(s []string) []string {
	if s == nil {
		return []string{}
	}
	return s
}
