package main

import (
	"fmt"
	"sort"
	"strings"
)

// E-BND domain: conjunctions of linear inequalities over integer-valued
// symbols, with exact LP queries.

type Sym int

type symTab struct {
	names     []string
	byName    map[string]Sym
	global    map[Sym]bool // function-entry symbols (loop-invariant anchors)
	allNonneg bool         // every symbol denotes a non-negative integer (unsigned machine words)
	wordMax   *Q           // if set: every symbol is at most this (2^64-1); used by interval reasoning only
	signed    map[Sym]bool // exceptions when allNonneg is false: symbols that may be negative
	implLo    map[Sym]Q    // implicit machine-word bounds, used by interval reasoning only (never put into an LP)
	implHi    map[Sym]Q
}

func newSymTab() *symTab {
	return &symTab{byName: map[string]Sym{}, global: map[Sym]bool{}, signed: map[Sym]bool{}, implLo: map[Sym]Q{}, implHi: map[Sym]Q{}}
}

func (t *symTab) nonneg(s Sym) bool { return t.allNonneg && !t.signed[s] }

func (t *symTab) get(name string) Sym {
	if s, ok := t.byName[name]; ok {
		return s
	}
	s := Sym(len(t.names))
	t.names = append(t.names, name)
	t.byName[name] = s
	return s
}

func (t *symTab) fresh(prefix string) Sym {
	name := fmt.Sprintf("%s#%d", prefix, len(t.names))
	return t.get(name)
}

// Lin is k + sum t[s]*s. Treated as immutable.
type Lin struct {
	k Q
	t map[Sym]Q
}

func linK(k Q) Lin       { return Lin{k: k} }
func linI(k int64) Lin   { return Lin{k: qi(k)} }
func linS(s Sym) Lin     { return Lin{k: qi(0), t: map[Sym]Q{s: qi(1)}} }
func (a Lin) isConst() bool { return len(a.t) == 0 }

func (a Lin) Add(b Lin) Lin {
	r := Lin{k: a.k.Add(b.k), t: map[Sym]Q{}}
	for s, c := range a.t {
		r.t[s] = c
	}
	for s, c := range b.t {
		if o, ok := r.t[s]; ok {
			n := o.Add(c)
			if n.IsZero() {
				delete(r.t, s)
			} else {
				r.t[s] = n
			}
		} else {
			r.t[s] = c
		}
	}
	return r
}

func (a Lin) Scale(q Q) Lin {
	if q.IsZero() {
		return linI(0)
	}
	r := Lin{k: a.k.Mul(q), t: map[Sym]Q{}}
	for s, c := range a.t {
		r.t[s] = c.Mul(q)
	}
	return r
}

func (a Lin) Neg() Lin        { return a.Scale(qi(-1)) }
func (a Lin) Sub(b Lin) Lin   { return a.Add(b.Neg()) }
func (a Lin) AddK(k int64) Lin { return a.Add(linI(k)) }
func (a Lin) AddQ(k Q) Lin    { return a.Add(linK(k)) }

func (a Lin) Equal(b Lin) bool {
	d := a.Sub(b)
	return len(d.t) == 0 && d.k.IsZero()
}

// Subst replaces symbols by linear expressions.
func (a Lin) Subst(m map[Sym]Lin) Lin {
	r := linK(a.k)
	for s, c := range a.t {
		if e, ok := m[s]; ok {
			r = r.Add(e.Scale(c))
		} else {
			r = r.Add(linS(s).Scale(c))
		}
	}
	return r
}

func (a Lin) syms() []Sym {
	var out []Sym
	for s := range a.t {
		out = append(out, s)
	}
	sort.Slice(out, func(i, j int) bool { return out[i] < out[j] })
	return out
}

func (a Lin) key() string {
	var sb strings.Builder
	for _, s := range a.syms() {
		fmt.Fprintf(&sb, "%d:%s,", s, a.t[s].String())
	}
	sb.WriteString(a.k.String())
	return sb.String()
}

func (a Lin) Str(t *symTab) string {
	var parts []string
	for _, s := range a.syms() {
		c := a.t[s]
		switch {
		case c.Cmp(qi(1)) == 0:
			parts = append(parts, "+"+t.names[s])
		case c.Cmp(qi(-1)) == 0:
			parts = append(parts, "-"+t.names[s])
		case c.Sign() > 0:
			parts = append(parts, "+"+c.String()+"*"+t.names[s])
		default:
			parts = append(parts, c.String()+"*"+t.names[s])
		}
	}
	if !a.k.IsZero() || len(parts) == 0 {
		if a.k.Sign() >= 0 {
			parts = append(parts, "+"+a.k.String())
		} else {
			parts = append(parts, a.k.String())
		}
	}
	return strings.TrimPrefix(strings.Join(parts, ""), "+")
}

// State: conjunction of constraints c <= 0.
type State struct {
	tab   *symTab
	cons  []Lin
	keys  map[string]bool
	cache map[string]lpRes
	ub    map[Sym]Q // simple bounds from single-symbol constraints
	lb    map[Sym]Q
}

type lpRes struct {
	st lpStatus
	v  Q
}

var defaultTab *symTab

func newState() *State {
	return &State{tab: defaultTab, keys: map[string]bool{}, cache: map[string]lpRes{}, ub: map[Sym]Q{}, lb: map[Sym]Q{}}
}

func (s *State) clone() *State {
	n := &State{tab: s.tab, cons: append([]Lin{}, s.cons...), keys: make(map[string]bool, len(s.keys)), cache: map[string]lpRes{}, ub: make(map[Sym]Q, len(s.ub)), lb: make(map[Sym]Q, len(s.lb))}
	for k := range s.keys {
		n.keys[k] = true
	}
	for k, v := range s.ub {
		n.ub[k] = v
	}
	for k, v := range s.lb {
		n.lb[k] = v
	}
	return n
}

func (s *State) isNonneg(sy Sym) bool { return s.tab != nil && s.tab.nonneg(sy) }

// ivMax: upper bound of d from the simple per-symbol bounds (ok=false: unbounded).
func (s *State) ivMax(d Lin) (Q, bool) {
	r := d.k
	for sy, c := range d.t {
		if c.Sign() > 0 {
			u, ok := s.ub[sy]
			if !ok {
				if s.tab == nil {
					return Q{}, false
				}
				if hi, has := s.tab.implHi[sy]; has {
					u = hi
				} else if s.tab.wordMax != nil {
					u = *s.tab.wordMax
				} else {
					return Q{}, false
				}
			}
			r = r.Add(c.Mul(u))
		} else {
			l, ok := s.lb[sy]
			if !ok {
				if s.isNonneg(sy) {
					l = qi(0)
				} else if lo, has := s.tab.implLo[sy]; has {
					l = lo
				} else {
					return Q{}, false
				}
			}
			r = r.Add(c.Mul(l))
		}
	}
	return r, true
}

// le adds a <= 0.
func (s *State) le(a Lin) {
	if a.isConst() {
		if a.k.Sign() > 0 && traceContra {
			fmt.Println("CONTRADICTION added:\n" + string(debugStack()))
		}
		if a.k.Sign() > 0 {
			// contradiction: keep as an explicit infeasible row
			s.cons = append(s.cons, a)
			s.cache = map[string]lpRes{}
		}
		return
	}
	if len(a.t) == 1 {
		for sy, c := range a.t {
			bnd := a.k.Neg().Div(c)
			// a bound outside the machine-word range of the symbol is a contradiction
			if s.tab != nil {
				if c.Sign() < 0 {
					if hi, has := s.tab.implHi[sy]; has && bnd.Cmp(hi) > 0 {
						s.cons = append(s.cons, linI(1))
						s.cache = map[string]lpRes{}
						return
					}
				} else if lo, has := s.tab.implLo[sy]; has && bnd.Cmp(lo) < 0 {
					s.cons = append(s.cons, linI(1))
					s.cache = map[string]lpRes{}
					return
				} else if s.isNonneg(sy) && bnd.Sign() < 0 {
					s.cons = append(s.cons, linI(1))
					s.cache = map[string]lpRes{}
					return
				}
			}
			if c.Sign() > 0 {
				if o, ok := s.ub[sy]; !ok || bnd.Cmp(o) < 0 {
					s.ub[sy] = bnd
				} else {
					return // not stronger
				}
			} else {
				if s.isNonneg(sy) && bnd.Sign() <= 0 {
					return // implied by the sign convention
				}
				if o, ok := s.lb[sy]; !ok || bnd.Cmp(o) > 0 {
					s.lb[sy] = bnd
				} else {
					return
				}
			}
		}
	}
	k := a.key()
	if s.keys[k] {
		return
	}
	// already implied by the simple bounds?
	if v, ok := s.ivMax(a); ok && v.Sign() <= 0 && len(a.t) > 1 {
		return
	}
	s.keys[k] = true
	s.cons = append(s.cons, a)
	s.cache = map[string]lpRes{}
}

func (s *State) eq(a Lin)       { s.le(a); s.le(a.Neg()) }
func (s *State) leq(a, b Lin)   { s.le(a.Sub(b)) }        // a <= b
func (s *State) lt(a, b Lin)    { s.le(a.Sub(b).AddK(1)) } // a < b (integers)
func (s *State) eqq(a, b Lin)   { s.eq(a.Sub(b)) }
func (s *State) rng(a Lin, lo, hi Q) {
	s.le(linK(lo).Sub(a))
	s.le(a.Sub(linK(hi)))
}

// max computes sup{ d(x) : x in state }.
func (s *State) max(d Lin) (lpStatus, Q) {
	if d.isConst() {
		// still need feasibility? callers treat infeasible states separately
		return lpOptimal, d.k
	}
	key := d.key()
	if r, ok := s.cache[key]; ok {
		return r.st, r.v
	}
	// relevant constraints: transitive closure over shared symbols
	rel := map[Sym]bool{}
	for sy := range d.t {
		rel[sy] = true
	}
	used := make([]bool, len(s.cons))
	for changed := true; changed; {
		changed = false
		for i, c := range s.cons {
			if used[i] {
				continue
			}
			hit := len(c.t) == 0
			for sy := range c.t {
				if rel[sy] {
					hit = true
					break
				}
			}
			if hit {
				used[i] = true
				changed = true
				for sy := range c.t {
					rel[sy] = true
				}
			}
		}
	}
	var syms []Sym
	for sy := range rel {
		syms = append(syms, sy)
	}
	sort.Slice(syms, func(i, j int) bool { return syms[i] < syms[j] })
	col := map[Sym]int{}
	n := 0
	for _, sy := range syms {
		col[sy] = n
		if s.isNonneg(sy) {
			n++
		} else {
			n += 2
		}
	}
	var A [][]Q
	var b []Q
	zero := qi(0)
	put := func(row []Q, sy Sym, co Q) {
		row[col[sy]] = co
		if !s.isNonneg(sy) {
			row[col[sy]+1] = co.Neg()
		}
	}
	for i, c := range s.cons {
		if !used[i] {
			continue
		}
		row := make([]Q, n)
		for j := range row {
			row[j] = zero
		}
		for sy, co := range c.t {
			put(row, sy, co)
		}
		A = append(A, row)
		b = append(b, c.k.Neg())
	}
	obj := make([]Q, n)
	for j := range obj {
		obj[j] = zero
	}
	for sy, co := range d.t {
		put(obj, sy, co)
	}
	st, v := lpSolve(A, b, obj)
	if st == lpOptimal {
		v = v.Add(d.k)
		if dirIntegral(d) {
			v = v.Floor() // all symbols are integers
		}
	}
	s.cache[key] = lpRes{st, v}
	return st, v
}

// maxMulti evaluates many directions over the same state, sharing phase I.
func (s *State) maxMulti(ds []Lin) []lpRes {
	out := make([]lpRes, len(ds))
	// symbols of the whole state and of the directions
	symSet := map[Sym]bool{}
	for _, c := range s.cons {
		for sy := range c.t {
			symSet[sy] = true
		}
	}
	for _, d := range ds {
		for sy := range d.t {
			symSet[sy] = true
		}
	}
	var syms []Sym
	for sy := range symSet {
		syms = append(syms, sy)
	}
	sort.Slice(syms, func(i, j int) bool { return syms[i] < syms[j] })
	col := map[Sym]int{}
	n := 0
	for _, sy := range syms {
		col[sy] = n
		if s.isNonneg(sy) {
			n++
		} else {
			n += 2
		}
	}
	small := true
	toF := func(q Q) F {
		if q.b != nil {
			small = false
			return F{0, 1}
		}
		if q.d == 0 {
			return F{0, 1}
		}
		return F{q.n, q.d}
	}
	var A [][]F
	var b []F
	for _, c := range s.cons {
		row := make([]F, n)
		for j := range row {
			row[j] = F{0, 1}
		}
		for sy, co := range c.t {
			f := toF(co)
			row[col[sy]] = f
			if !s.isNonneg(sy) {
				row[col[sy]+1] = f.neg()
			}
		}
		A = append(A, row)
		b = append(b, toF(c.k.Neg()))
	}
	var lp *fastLP
	if small {
		lp = newFastLP(A, b)
		lpCount++
		lpFastCount++
	}
	for i, d := range ds {
		if d.isConst() {
			out[i] = lpRes{lpOptimal, d.k}
			continue
		}
		if r, ok := s.cache[d.key()]; ok {
			out[i] = r
			continue
		}
		done := false
		if lp != nil && !lp.overflow {
			obj := make([]F, n)
			for j := range obj {
				obj[j] = F{0, 1}
			}
			okObj := true
			for sy, co := range d.t {
				if co.b != nil {
					okObj = false
					break
				}
				f := F{co.n, co.d}
				obj[col[sy]] = f
				if !s.isNonneg(sy) {
					obj[col[sy]+1] = f.neg()
				}
			}
			if okObj {
				st, v, ok := lp.maximize(obj)
				lpMultiCount++
				if ok {
					r := lpRes{st: st}
					if st == lpOptimal {
						r.v = Q{n: v.n, d: v.d}.Add(d.k)
						if dirIntegral(d) {
							r.v = r.v.Floor()
						}
					}
					if lpCrossCheck {
						st2, v2 := s.max(d)
						if st2 != r.st || (r.st == lpOptimal && v2.Cmp(r.v) != 0) {
							panic(fmt.Sprintf("maxMulti mismatch on %s: multi %v %s single %v %s", d.Str(s.tab), r.st, r.v.String(), st2, v2.String()))
						}
					}
					out[i] = r
					s.cache[d.key()] = r
					done = true
				}
			}
		}
		if !done {
			st, v := s.max(d)
			out[i] = lpRes{st, v}
		}
	}
	return out
}

var lpMultiCount int

// entails reports whether a <= 0 holds in every point of the state (true for
// infeasible states).
func (s *State) entails(a Lin) bool {
	if v, ok := s.ivMax(a); ok && v.Sign() <= 0 {
		return true
	}
	if s.keys[a.key()] {
		return true
	}
	st, v := s.max(a)
	switch st {
	case lpInfeasible:
		return true
	case lpUnbounded:
		return false
	}
	return v.Sign() <= 0
}

// maxLE: sup d <= K (K may be a big constant kept out of the LP).
func (s *State) maxLE(d Lin, K Q) bool {
	if v, ok := s.ivMax(d); ok && v.Cmp(K) <= 0 {
		return true
	}
	st, v := s.max(d)
	switch st {
	case lpInfeasible:
		return true
	case lpUnbounded:
		return false
	}
	return v.Cmp(K) <= 0
}

// minGE: inf d >= K.
func (s *State) minGE(d Lin, K Q) bool { return s.maxLE(d.Neg(), K.Neg()) }

func (s *State) entailsLeq(a, b Lin) bool { return s.entails(a.Sub(b)) }
func (s *State) entailsLt(a, b Lin) bool  { return s.entails(a.Sub(b).AddK(1)) }
func (s *State) entailsEq(a, b Lin) bool {
	return s.entails(a.Sub(b)) && s.entails(b.Sub(a))
}

func (s *State) feasible() bool {
	// any query detects infeasibility; use a constant objective over all constraints
	for _, c := range s.cons {
		if c.isConst() && c.k.Sign() > 0 {
			return false
		}
	}
	if len(s.cons) == 0 {
		return true
	}
	if r, ok := s.cache["#feas"]; ok {
		return r.st != lpInfeasible
	}
	// group constraints into connected components and test each
	seen := make([]bool, len(s.cons))
	ok := true
	for i := range s.cons {
		if seen[i] || len(s.cons[i].t) == 0 {
			continue
		}
		// pick a symbol of this constraint as objective seed with zero objective: use max of 0*sym by querying a Lin that touches the component
		var sy Sym
		for x := range s.cons[i].t {
			sy = x
			break
		}
		d := Lin{k: qi(0), t: map[Sym]Q{sy: qi(0)}}
		// mark component
		rel := map[Sym]bool{sy: true}
		for changed := true; changed; {
			changed = false
			for j, c := range s.cons {
				if seen[j] {
					continue
				}
				hit := false
				for x := range c.t {
					if rel[x] {
						hit = true
						break
					}
				}
				if hit {
					seen[j] = true
					changed = true
					for x := range c.t {
						rel[x] = true
					}
				}
			}
		}
		// zero objective: status only
		dd := Lin{k: qi(0), t: map[Sym]Q{sy: qi(1)}}
		_ = d
		st, _ := s.max(dd)
		if st == lpInfeasible {
			ok = false
			break
		}
	}
	if ok {
		s.cache["#feas"] = lpRes{lpOptimal, qi(0)}
	} else {
		s.cache["#feas"] = lpRes{lpInfeasible, qi(0)}
	}
	return ok
}

func (s *State) Str(t *symTab) string {
	var out []string
	for _, c := range s.cons {
		out = append(out, c.Str(t)+" <= 0")
	}
	return strings.Join(out, "; ")
}

// ---------------------------------------------------------------------------
// Abstract state of a program point: constraints plus an environment mapping
// program variables (registers, stack slots, SSA values, slice attributes) to
// linear expressions.

type AbsState struct {
	st   *State
	vals map[string]Lin
	meta map[string]string // non-numeric facts (flag kind, tags)
	from int               // predecessor block (for edge-sensitive asserts)
	tag  string            // provenance note for diagnostics
}

func newAbs() *AbsState {
	return &AbsState{st: newState(), vals: map[string]Lin{}, meta: map[string]string{}, from: -1}
}

func (a *AbsState) clone() *AbsState {
	n := &AbsState{st: a.st.clone(), vals: make(map[string]Lin, len(a.vals)), meta: make(map[string]string, len(a.meta)), from: a.from, tag: a.tag}
	for k, v := range a.vals {
		n.vals[k] = v
	}
	for k, v := range a.meta {
		n.meta[k] = v
	}
	return n
}

// ---------------------------------------------------------------------------
// Template hull at loop heads / over-full joins

type tmplHead struct {
	blk      int
	phiSym   map[string]Sym  // variable key -> phi symbol
	keep     map[string]Lin  // variables with an identical global-only value on all edges
	dirs     []Lin           // directions over phi symbols and global symbols
	dirKeys  map[string]int
	bound    []Q
	has      []bool // bound finite
	unstable []int
	dropped  []bool
	meta     map[string]string
	rounds   int
	idSyms   map[Sym]bool // non-global symbols of unchanged values: bounded through the same templates
	entryVal map[string]Lin // value a loop-carried variable had when the merge point was first reached
}

type hullCtx struct {
	tab     *symTab
	anchors []Lin // expressions over global symbols used as reference points
	heads   map[int]*tmplHead
	liveAt  func(blk int) map[string]bool // variables live at block entry (nil = all)
	maxDirs int
	globals []Lin // constraints over global symbols only: invariant, re-added after every hull
	onPhi   func(key string, s Sym)
	diffAnchors bool // also try (p-q)-a style directions
	idPairs      bool // symbols of unchanged values take part in pair templates
	localAnchors bool // unchanged (loop-invariant) values serve as anchors even when not global
	thresholds   []Q  // widening thresholds (constants the program compares against), ascending
}

func (h *hullCtx) onlyGlobal(l Lin) bool {
	for s := range l.t {
		if !h.tab.global[s] {
			return false
		}
	}
	return true
}

// hull merges the incoming states of block blk into one state expressed over
// phi symbols. It is monotone across calls (bounds only grow; directions whose
// bound keeps growing are dropped after 3 rounds).
func (h *hullCtx) hull(key int, blk int, ins []*AbsState, widen bool) *AbsState {
	hd := h.heads[key]
	if hd == nil {
		hd = &tmplHead{blk: key, phiSym: map[string]Sym{}, keep: map[string]Lin{}, dirKeys: map[string]int{}, meta: map[string]string{}}
		h.heads[key] = hd
	}
	hd.rounds++
	var live map[string]bool
	if h.liveAt != nil {
		live = h.liveAt(blk)
	}
	// variables present in all incoming states
	keys := map[string]int{}
	for _, in := range ins {
		for k := range in.vals {
			keys[k]++
		}
	}
	var names []string
	for k, n := range keys {
		if strings.HasPrefix(k, "$") {
			continue // condition flags and other pseudo variables do not survive a merge
		}
		if n == len(ins) && (live == nil || live[k] || strings.HasPrefix(k, "fld:")) {
			names = append(names, k)
		}
	}
	sort.Strings(names)
	newPhi := false
	inNames := map[string]bool{}
	for _, k := range names {
		inNames[k] = true
		if _, isPhi := hd.phiSym[k]; isPhi {
			continue
		}
		first := ins[0].vals[k]
		same := true
		for _, in := range ins[1:] {
			if !in.vals[k].Equal(first) {
				same = false
				break
			}
		}
		if kv, kept := hd.keep[k]; kept && same && !kv.Equal(first) {
			same = false
		}
		if same {
			hd.keep[k] = first
			continue
		}
		if old, had := hd.keep[k]; had {
			if hd.entryVal == nil {
				hd.entryVal = map[string]Lin{}
			}
			hd.entryVal[k] = old
		}
		delete(hd.keep, k)
		hd.phiSym[k] = h.tab.get(fmt.Sprintf("φ%d.%s", key, k))
		if h.onPhi != nil {
			h.onPhi(k, hd.phiSym[k])
		}
		newPhi = true
	}
	for k := range hd.keep {
		if !inNames[k] {
			delete(hd.keep, k)
		}
	}
	for k := range hd.phiSym {
		if !inNames[k] {
			// variable no longer defined on every edge: its phi symbol stays unconstrained and is not exported
			delete(hd.phiSym, k)
			newPhi = true
		}
	}
	// variables that disappeared (not in all states) are dropped from keep/phi silently
	// meta: keep entries equal in all incoming states
	meta := map[string]string{}
	for k, v := range ins[0].meta {
		same := true
		for _, in := range ins[1:] {
			if in.meta[k] != v {
				same = false
			}
		}
		if same {
			meta[k] = v
		}
	}
	// anchors of this merge point: the global ones plus the values that are unchanged here
	// (loop-invariant inside an inner loop) and not constant
	localAnchors := append([]Lin{}, h.anchors...)
	{
		var ks []string
		for k := range hd.keep {
			ks = append(ks, k)
		}
		sort.Strings(ks)
		seenA := map[string]bool{}
		for _, a := range localAnchors {
			seenA[a.key()] = true
		}
		for _, k := range ks {
			v := hd.keep[k]
			if v.isConst() || seenA[v.key()] || len(v.t) > 3 || (!h.localAnchors && !h.onlyGlobal(v) && !(h.diffAnchors && len(v.t) == 1)) {
				continue
			}
			seenA[v.key()] = true
			localAnchors = append(localAnchors, v)
		}
		if len(localAnchors) > 10 {
			localAnchors = localAnchors[:10]
		}
	}
	_ = newPhi
	if hd.idSyms == nil {
		hd.idSyms = map[Sym]bool{}
	}
	for _, v := range hd.keep {
		for sy := range v.t {
			if !h.tab.global[sy] {
				hd.idSyms[sy] = true
			}
		}
	}
	h.makeDirs(hd, localAnchors)
	// evaluate every direction over every incoming state (phase I shared per state);
	// the new bound of a direction is the maximum over the incoming states of this call
	cur := make([]Q, len(hd.dirs))
	curHas := make([]bool, len(hd.dirs))
	for _, in := range ins {
		sub := map[Sym]Lin{}
		ok := true
		for k, ps := range hd.phiSym {
			if v, has := in.vals[k]; has {
				sub[ps] = v
			} else {
				ok = false
			}
		}
		if !ok {
			continue
		}
		if !in.st.feasible() {
			continue
		}
		var idx []int
		var es []Lin
		for i, d := range hd.dirs {
			if hd.dropped[i] {
				continue
			}
			idx = append(idx, i)
			es = append(es, d.Subst(sub))
		}
		rs := in.st.maxMulti(es)
		for j, r := range rs {
			i := idx[j]
			switch r.st {
			case lpInfeasible:
			case lpUnbounded:
				hd.dropped[i] = true
				if debugDrop != nil {
					debugDrop(key, hd, i, "unbounded", in)
				}
			default:
				v := r.v
				if dirIntegral(hd.dirs[i]) {
					v = v.Floor()
				}
				// a bound of the order of the address space says nothing useful
				if v.Cmp(trivialBound) >= 0 && len(hd.dirs[i].t) > 1 {
					hd.dropped[i] = true
					if debugDrop != nil {
						debugDrop(key, hd, i, "trivial "+v.String(), in)
					}
					continue
				}
				if debugDir != nil {
					debugDir(key, hd, i, v, in)
				}
				if !curHas[i] || v.Cmp(cur[i]) > 0 {
					cur[i], curHas[i] = v, true
				}
			}
		}
	}
	for i := range hd.dirs {
		if hd.dropped[i] || !curHas[i] {
			continue
		}
		if !hd.has[i] {
			hd.has[i], hd.bound[i] = true, cur[i]
			continue
		}
		if cur[i].Cmp(hd.bound[i]) <= 0 {
			continue
		}
		// the bound grows
		if !widen {
			hd.bound[i] = cur[i]
			continue
		}
		hd.unstable[i]++
		switch {
		case hd.unstable[i] <= 1:
			hd.bound[i] = cur[i]
		case cur[i].Cmp(qi(-1)) <= 0:
			hd.bound[i] = qi(-1) // threshold: strict order is kept
		case cur[i].Sign() <= 0:
			hd.bound[i] = qi(0) // threshold: weak order is kept
		default:
			// widening with thresholds: the smallest constant the program compares against
			// that covers the new bound (single-symbol directions only)
			done := false
			if len(hd.dirs[i].t) == 1 {
				for _, t := range h.thresholds {
					if t.Cmp(cur[i]) >= 0 {
						hd.bound[i] = t
						done = true
						break
					}
				}
			}
			if !done {
				hd.dropped[i] = true
				if debugDrop != nil {
					debugDrop(key, hd, i, "widened "+cur[i].String(), nil)
				}
			}
		}
	}
	if debugHull != nil {
		debugHull(key, hd, ins)
	}
	out := newAbs()
	out.meta = meta
	if _, hasFlags := out.meta["fk"]; hasFlags {
		out.meta["fk"] = "none"
	}
	for _, g := range h.globals {
		out.st.le(g)
	}
	// constraints over symbols of unchanged values (and globals) that hold in every incoming state
	{
		allowed := map[Sym]bool{}
		for _, v := range hd.keep {
			for sy := range v.t {
				allowed[sy] = true
			}
		}
		{
			for _, cns := range ins[0].st.cons {
				ok := len(cns.t) > 0
				for sy := range cns.t {
					if !allowed[sy] && !h.tab.global[sy] {
						ok = false
						break
					}
				}
				if !ok {
					continue
				}
				key := cns.key()
				for _, in := range ins[1:] {
					if !in.st.keys[key] && !in.st.entails(cns) {
						ok = false
						break
					}
				}
				if ok {
					out.st.le(cns)
				}
			}
		}
	}
	for k, v := range hd.keep {
		out.vals[k] = v
	}
	for k, ps := range hd.phiSym {
		out.vals[k] = linS(ps)
	}
	for i, d := range hd.dirs {
		if hd.dropped[i] || !hd.has[i] {
			continue
		}
		out.st.le(d.AddQ(hd.bound[i].Neg()))
	}
	return out
}

var trivialBound = qPow2(40)

var debugDir func(key int, hd *tmplHead, i int, v Q, in *AbsState)
var traceContra bool
var debugStack = func() []byte { return nil }

var debugDrop func(key int, hd *tmplHead, i int, why string, in *AbsState)

var debugHull func(blk int, hd *tmplHead, ins []*AbsState)

func dirIntegral(d Lin) bool {
	for _, c := range d.t {
		if !c.IsInt() {
			return false
		}
	}
	return d.k.IsInt()
}

// sig renders the current template state (for change detection).
func (hd *tmplHead) sig() string {
	var sb strings.Builder
	for i, d := range hd.dirs {
		if hd.dropped[i] || !hd.has[i] {
			continue
		}
		sb.WriteString(d.key())
		sb.WriteString("<=")
		sb.WriteString(hd.bound[i].String())
		sb.WriteString(";")
	}
	var ks []string
	for k, v := range hd.keep {
		ks = append(ks, k+"="+v.key())
	}
	sort.Strings(ks)
	sb.WriteString(strings.Join(ks, ";"))
	return sb.String()
}

func (h *hullCtx) addDir(hd *tmplHead, d Lin) {
	if d.isConst() {
		return
	}
	k := d.key()
	if _, ok := hd.dirKeys[k]; ok {
		return
	}
	hd.dirKeys[k] = len(hd.dirs)
	hd.dirs = append(hd.dirs, d)
	hd.bound = append(hd.bound, qi(0))
	hd.has = append(hd.has, false)
	hd.unstable = append(hd.unstable, 0)
	hd.dropped = append(hd.dropped, false)
}

func (h *hullCtx) makeDirs(hd *tmplHead, anchors []Lin) {
	type pv struct {
		s     Sym
		entry *Lin
	}
	var ps []pv
	var keys []string
	for k := range hd.phiSym {
		keys = append(keys, k)
	}
	sort.Strings(keys)
	usable := func(l Lin) bool {
		for sy := range l.t {
			if !h.tab.global[sy] && !hd.idSyms[sy] {
				return false
			}
		}
		return true
	}
	for _, k := range keys {
		x := pv{s: hd.phiSym[k]}
		if e, ok := hd.entryVal[k]; ok && usable(e) {
			ev := e
			x.entry = &ev
		}
		ps = append(ps, x)
	}
	pairMember := map[Sym]bool{}
	if h.localAnchors || h.idPairs {
		// symbols of unchanged values take part in all pair templates as well
		var ids0 []Sym
		for sy := range hd.idSyms {
			ids0 = append(ids0, sy)
		}
		sort.Slice(ids0, func(i, j int) bool { return ids0[i] < ids0[j] })
		for _, sy := range ids0 {
			// in idPairs mode only loop-carried variables of enclosing loops take part in pairs
			if h.localAnchors || strings.HasPrefix(h.tab.names[sy], "φ") {
				ps = append(ps, pv{s: sy})
				pairMember[sy] = true
			}
		}
	}
	for _, p := range ps {
		lp := linS(p.s)
		h.addDir(hd, lp)
		h.addDir(hd, lp.Neg())
		for _, a := range anchors {
			h.addDir(hd, lp.Sub(a))
			h.addDir(hd, a.Sub(lp))
		}
		if p.entry != nil && !p.entry.isConst() {
			h.addDir(hd, lp.Sub(*p.entry))
			h.addDir(hd, p.entry.Sub(lp))
		}
	}
	// symbols of unchanged values: simple bounds only (their mutual relations are carried over syntactically)
	var ids []Sym
	for sy := range hd.idSyms {
		if !pairMember[sy] {
			ids = append(ids, sy)
		}
	}
	sort.Slice(ids, func(i, j int) bool { return ids[i] < ids[j] })
	for _, sy := range ids {
		l := linS(sy)
		h.addDir(hd, l)
		h.addDir(hd, l.Neg())
		for _, a := range anchors {
			h.addDir(hd, l.Sub(a))
			h.addDir(hd, a.Sub(l))
		}
	}
	for i, p := range ps {
		for _, q := range ps[i+1:] {
			d := linS(p.s).Sub(linS(q.s))
			h.addDir(hd, d)
			h.addDir(hd, d.Neg())
			sum := linS(p.s).Add(linS(q.s))
			for _, a := range anchors {
				h.addDir(hd, sum.Sub(a))
				h.addDir(hd, a.Sub(sum))
			}
			if h.diffAnchors && !pairMember[p.s] && !pairMember[q.s] {
				for _, a := range anchors {
					h.addDir(hd, d.Sub(a))
					h.addDir(hd, a.Sub(d))
				}
			}
			if p.entry != nil && q.entry != nil {
				ed := p.entry.Sub(*q.entry)
				es := p.entry.Add(*q.entry)
				if !ed.isConst() {
					h.addDir(hd, d.Sub(ed))
					h.addDir(hd, ed.Sub(d))
				}
				if !es.isConst() {
					h.addDir(hd, sum.Sub(es))
					h.addDir(hd, es.Sub(sum))
				} else {
					// constant entry sum: the plain sum direction (anchor 0)
					h.addDir(hd, sum)
					h.addDir(hd, sum.Neg())
				}
			}
		}
		// loop-carried variable against a symbol of an unchanged value
		for _, sy := range ids {
			d := linS(p.s).Sub(linS(sy))
			h.addDir(hd, d)
			h.addDir(hd, d.Neg())
		}
	}
}

// addRatioDirs adds p - c*(q - a) style directions for loop-carried variables
// whose per-iteration increments are bounded (p) and constant (q).
func (h *hullCtx) addRatioDirs(blk int, incs map[string][2]Q, finite map[string][2]bool) {
	hd := h.heads[blk]
	if hd == nil {
		return
	}
	for kp, ip := range incs {
		if !finite[kp][1] || ip[1].Sign() <= 0 {
			continue
		}
		for kq, iq := range incs {
			if kq == kp || !finite[kq][0] || !finite[kq][1] || iq[0].Cmp(iq[1]) != 0 || iq[0].Sign() <= 0 {
				continue
			}
			c := ip[1].Div(iq[0])
			p, okp := hd.phiSym[kp]
			q, okq := hd.phiSym[kq]
			if !okp || !okq {
				continue
			}
			for _, a := range h.anchors {
				d := linS(p).Sub(linS(q).Sub(a).Scale(c))
				h.addDir(hd, d)
			}
		}
	}
}
