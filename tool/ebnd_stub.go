package main

// sharedDecoderObligations is filled in by the bounds prover (ebnd_*.go).
var sharedDecoderObligations = func(c *Check, rule string) {
	p := loadOrTrouble(c, cfgAMD64)
	if p == nil {
		return
	}
	// the portable decoder never reads outside its slices (bounds-checked and recovered): an assembly access outside
	// src, dst or dict is a place where the two can differ, so the access obligations belong here as well; a nil
	// destination is excluded at the call site (the assembly derives its limits from the pointer)
	cases := []asmCase{{false, false}, {false, true}}
	if !dstNonNilAtCallSite(c, p, rule) {
		cases = append(cases, asmCase{true, false}, asmCase{true, true})
	}
	runAsm(c, p, cases, map[string]string{"access": rule, "result": rule, "offset": rule, "consumed": rule, "blockend": rule, "exit": rule, "nowrap32": rule})
	portableDecoderRules(c, rule)
}

