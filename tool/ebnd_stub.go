package main

// sharedDecoderObligations is filled in by the bounds prover (ebnd_*.go).
var sharedDecoderObligations = func(c *Check, rule string) {
	p := loadOrTrouble(c, cfgAMD64)
	if p == nil {
		return
	}
	runAsm(c, p, []asmCase{{false, false}, {false, true}}, map[string]string{"result": rule, "offset": rule, "consumed": rule, "blockend": rule, "exit": rule, "nowrap32": rule})
	portableDecoderRules(c, rule)
}

