package main

// sharedDecoderObligations is filled in by the bounds prover (ebnd_*.go).
var sharedDecoderObligations = func(c *Check, rule string) {}
