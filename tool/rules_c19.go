package main

import (
	"fmt"
	"go/constant"
	"go/token"
	"go/types"
	"strings"

	"golang.org/x/tools/go/ssa"
)

func init() {
	register("C19", checkC19)
}

// errSentinel returns the string value of the lz4errors constant `name`.
func errSentinel(p *Program, name string) (string, bool) {
	pkg := p.Pkg("internal/lz4errors")
	if pkg == nil {
		return "", false
	}
	obj, ok := pkg.Pkg.Scope().Lookup(name).(*types.Const)
	if !ok {
		return "", false
	}
	return constant.StringVal(obj.Val()), true
}

// sentinelsIn lists the lz4errors sentinel messages that v may derive from
// (through fmt.Errorf wrapping as well).
func sentinelsIn(v ssa.Value) []string {
	var out []string
	seen := map[ssa.Value]bool{}
	var rec func(v ssa.Value)
	rec = func(v ssa.Value) {
		if v == nil || seen[v] {
			return
		}
		seen[v] = true
		switch x := v.(type) {
		case *ssa.Const:
			if x.Value != nil && x.Value.Kind() == constant.String {
				if n, ok := x.Type().(*types.Named); ok && n.Obj().Pkg() != nil && n.Obj().Pkg().Path() == pkgErrors {
					out = append(out, constant.StringVal(x.Value))
				}
			}
		case *ssa.MakeInterface:
			rec(x.X)
		case *ssa.ChangeInterface:
			rec(x.X)
		case *ssa.Phi:
			for _, e := range x.Edges {
				rec(e)
			}
		case *ssa.Extract:
			rec(x.Tuple)
		case *ssa.Call:
			if f := staticCallee(x); f != nil && f.Pkg != nil && f.Pkg.Pkg.Path() == "fmt" && f.Name() == "Errorf" {
				// variadic args packed into a slice: find stores into the backing array
				for _, a := range x.Call.Args {
					rec(a)
				}
			} else if inModule(f) {
				// a module helper: the errors it may return; a parameter among them stands for the argument
				for i, prm := range f.Params {
					if i < len(x.Call.Args) && isErrorType(prm.Type()) {
						wrapped := false
						allInstrs(f, func(in ssa.Instruction) {
							if r, isR := in.(*ssa.Return); isR {
								for _, res := range r.Results {
									if isErrorType(res.Type()) && (res == ssa.Value(prm) || derivesFromValue(res, prm) || errorfWraps(res, prm)) {
										wrapped = true
									}
									// handed to fmt.Errorf as an operand (converted to interface{} for the variadic list)
									if call, isC := res.(*ssa.Call); isC && calleeIs(call, "fmt", "Errorf") && prm.Referrers() != nil {
										for _, pr := range *prm.Referrers() {
											switch pr.(type) {
											case *ssa.ChangeInterface, *ssa.MakeInterface:
												wrapped = true
											}
										}
									}
								}
							}
						})
						if wrapped {
							rec(x.Call.Args[i])
						}
					}
				}
				allInstrs(f, func(in ssa.Instruction) {
					if r, isR := in.(*ssa.Return); isR {
						for _, res := range r.Results {
							if isErrorType(res.Type()) {
								rec(res)
							}
						}
					}
				})
			}
		case *ssa.Slice:
			rec(x.X)
		case *ssa.Alloc:
			// variadic backing array: look at the stores into its elements
			if refs := x.Referrers(); refs != nil {
				for _, r := range *refs {
					if ia, ok := r.(*ssa.IndexAddr); ok {
						if rr := ia.Referrers(); rr != nil {
							for _, s := range *rr {
								if st, ok := s.(*ssa.Store); ok {
									rec(st.Val)
								}
							}
						}
					}
				}
			}
		case *ssa.UnOp:
			if x.Op == token.MUL {
				if a, ok := x.X.(*ssa.Alloc); ok {
					for _, st := range storesTo(a) {
						rec(st.Val)
					}
				}
			}
		}
	}
	rec(v)
	return out
}

// mayBeNilErr: conservative "this error value may be nil when control is in
// block b".
var mayNilDepth int

func mayBeNilErr(v ssa.Value, b *ssa.BasicBlock) bool {
	switch x := v.(type) {
	case *ssa.Const:
		return x.IsNil()
	case *ssa.MakeInterface:
		return false
	case *ssa.UnOp:
		// the sentinel variables of package io are never nil
		if g, ok := x.X.(*ssa.Global); ok && x.Op == token.MUL && g.Pkg != nil && g.Pkg.Pkg.Path() == "io" {
			return false
		}
	case *ssa.Phi:
		for i, e := range x.Edges {
			pb := x.Block().Preds[i]
			if mayBeNilErr(e, pb) {
				return true
			}
		}
		return false
	case *ssa.Call:
		if f := staticCallee(x); f != nil && f.Pkg != nil && ((f.Pkg.Pkg.Path() == "fmt" && f.Name() == "Errorf") || (f.Pkg.Pkg.Path() == "errors" && f.Name() == "New")) {
			return false
		}
		// error filters such as unexpectedEOF(err): non-nil in, non-nil out
		if f := staticCallee(x); f != nil {
			if pi := nonNilPreserving(f); pi >= 0 && pi < len(x.Call.Args) {
				return mayBeNilErr(x.Call.Args[pi], b)
			}
			// an error constructor of the module: every return yields a value that is never nil
			if inModule(f) && len(f.Blocks) > 0 && len(f.Blocks) <= 6 && mayNilDepth < 3 {
				all, any := true, false
				mayNilDepth++
				allInstrs(f, func(in ssa.Instruction) {
					if r, isR := in.(*ssa.Return); isR && len(r.Results) == 1 && isErrorType(r.Results[0].Type()) {
						any = true
						if mayBeNilErr(r.Results[0], in.Block()) {
							all = false
						}
					}
				})
				mayNilDepth--
				if all && any {
					return false
				}
			}
		}
	}
	for _, a := range atomsOfBlock(b) {
		if a.Kind == "errnil" && !a.Val && a.V == v {
			return false
		}
	}
	return true
}

// nonNilPreserving: if every return of f yields either its error parameter i
// or a value that is never nil, returns i; else -1.
func nonNilPreserving(f *ssa.Function) int {
	if f.Blocks == nil || f.Signature.Results().Len() != 1 || !isErrorType(f.Signature.Results().At(0).Type()) {
		return -1
	}
	pi := -1
	for i, p := range f.Params {
		if isErrorType(p.Type()) {
			if pi >= 0 {
				return -1
			}
			pi = i
		}
	}
	if pi < 0 {
		return -1
	}
	ok := true
	allInstrs(f, func(in ssa.Instruction) {
		r, isR := in.(*ssa.Return)
		if !isR {
			return
		}
		var chk func(v ssa.Value)
		seen := map[ssa.Value]bool{}
		chk = func(v ssa.Value) {
			if seen[v] {
				return
			}
			seen[v] = true
			switch x := v.(type) {
			case *ssa.Parameter:
				if x != f.Params[pi] {
					ok = false
				}
			case *ssa.MakeInterface:
			case *ssa.Phi:
				for _, e := range x.Edges {
					chk(e)
				}
			case *ssa.UnOp:
				if g, isG := x.X.(*ssa.Global); isG && x.Op == token.MUL && g.Pkg != nil && g.Pkg.Pkg.Path() == "io" {
					return // io.ErrUnexpectedEOF and friends are never nil
				}
				// the parameter spilled to a cell because its address is handed to callees that only read it
				if al, isAl := x.X.(*ssa.Alloc); isAl && x.Op == token.MUL && cellHoldsOnlyParam(al, f.Params[pi]) {
					return
				}
				ok = false
			default:
				ok = false
			}
		}
		chk(r.Results[0])
	})
	if !ok {
		return -1
	}
	return pi
}

// equalEdge finds, in fn, the If instructions whose condition compares two
// values selected by isA and isB for (in)equality, and returns for each the
// block and the successor index taken when the two are EQUAL.
type eqEdge struct {
	ifi  *ssa.If
	eqIx int
	cmp  *ssa.BinOp
}

func findEqEdges(fn *ssa.Function, isA, isB func(ssa.Value) bool) []eqEdge {
	out := findEqEdgesDirect(fn, isA, isB)
	// validator helpers: a module function that returns a nil error only behind the equal
	// edge of such a comparison; the caller's test of its result stands for the comparison
	for _, b := range fn.Blocks {
		if len(b.Instrs) == 0 {
			continue
		}
		ifi, ok := b.Instrs[len(b.Instrs)-1].(*ssa.If)
		if !ok {
			continue
		}
		bo, ok := ifi.Cond.(*ssa.BinOp)
		if !ok || (bo.Op != token.EQL && bo.Op != token.NEQ) {
			continue
		}
		var v ssa.Value
		if isNilConst(bo.Y) {
			v = bo.X
		} else if isNilConst(bo.X) {
			v = bo.Y
		}
		call, isC := v.(*ssa.Call)
		if !isC || !isErrorType(call.Type()) {
			continue
		}
		f := staticCallee(call)
		if !inModule(f) || f == fn {
			continue
		}
		inner := findEqEdgesDirect(f, isA, isB)
		if len(inner) != 1 {
			continue
		}
		reach := reachWithoutEdge(f, inner[0].ifi.Block(), inner[0].eqIx)
		validator, sawNil := true, false
		allInstrs(f, func(in ssa.Instruction) {
			if r, isR := in.(*ssa.Return); isR && len(r.Results) == 1 && mayBeNilErr(r.Results[0], in.Block()) {
				sawNil = true
				if reach[in.Block()] {
					validator = false
				}
			}
		})
		if !validator || !sawNil {
			continue
		}
		ix := 1 // err != nil: the nil (accepted) branch is the false edge
		if bo.Op == token.EQL {
			ix = 0
		}
		out = append(out, eqEdge{ifi, ix, bo})
	}
	return out
}

func findEqEdgesDirect(fn *ssa.Function, isA, isB func(ssa.Value) bool) []eqEdge {
	var out []eqEdge
	for _, b := range fn.Blocks {
		if len(b.Instrs) == 0 {
			continue
		}
		ifi, ok := b.Instrs[len(b.Instrs)-1].(*ssa.If)
		if !ok {
			continue
		}
		cond := ifi.Cond
		neg := false
		for {
			if u, ok := cond.(*ssa.UnOp); ok && u.Op == token.NOT {
				cond = u.X
				neg = !neg
				continue
			}
			break
		}
		bo, ok := cond.(*ssa.BinOp)
		if !ok || (bo.Op != token.EQL && bo.Op != token.NEQ) {
			continue
		}
		if !((isA(bo.X) && isB(bo.Y)) || (isA(bo.Y) && isB(bo.X))) {
			continue
		}
		eq := bo.Op == token.EQL
		if neg {
			eq = !eq
		}
		ix := 1
		if eq {
			ix = 0
		}
		out = append(out, eqEdge{ifi, ix, bo})
	}
	return out
}

// derivesFromCall reports whether v derives from a call whose static callee
// satisfies pred.
func derivesFromCall(v ssa.Value, pred func(*ssa.Function) bool) bool {
	found := false
	var visit func(x ssa.Value, depth int) bool
	check := func(v ssa.Value, depth int) {
		walkBack(v, true, func(x ssa.Value) bool { return visit(x, depth) })
	}
	visit = func(x ssa.Value, depth int) bool {
		if c, ok := x.(*ssa.Call); ok {
			f := staticCallee(c)
			if f != nil && pred(f) {
				found = true
			} else if depth > 0 && inModuleAny(f) {
				// a module helper: what it returns
				allInstrs(f, func(in ssa.Instruction) {
					if r, isR := in.(*ssa.Return); isR {
						for _, res := range r.Results {
							check(res, depth-1)
						}
					}
				})
			}
			return false
		}
		return !found
	}
	check(v, 2)
	return found
}

// inModuleAny: a function with a body defined in the analysed module or in cmd/lz4c (package main).
func inModuleAny(f *ssa.Function) bool {
	if f == nil || f.Pkg == nil || len(f.Blocks) == 0 {
		return false
	}
	path := f.Pkg.Pkg.Path()
	return strings.HasPrefix(path, modPath) || f.Pkg.Pkg.Name() == "main"
}

func callsFunc(fn *ssa.Function, pkg, name string) bool {
	return len(callsTo(fn, pkg, name)) > 0
}

// isHeaderHash: a function of lz4stream that computes the header check byte:
// it (transitively one level) calls xxh32.ChecksumZero and returns a byte.
func isHeaderHash(f *ssa.Function) bool {
	if f == nil || f.Pkg == nil || f.Blocks == nil {
		return false
	}
	if f.Pkg.Pkg.Path() == pkgXXH && f.Name() == "ChecksumZero" {
		return true
	}
	if f.Pkg.Pkg.Path() != pkgStream {
		return false
	}
	return callsFunc(f, pkgXXH, "ChecksumZero") && f.Signature.Results().Len() == 1 && widthOf(f.Signature.Results().At(0).Type()) == 8
}

func checkC19(c *Check) {
	c.Explain = "Static rules over the type-checked SSA of the header path: (R19.1) the set of first words treated as frame / legacy / skippable magic is computed exactly from the comparison chain in ParseHeaders as interval sets; (R19.2) in FrameDescriptor.initR every nil return lies behind the equal-edge of the header check-byte comparison and the true edge of the block-size validity test, in that order, with distinct sentinels on the two failure exits; (R19.3) bit provenance of every DescriptorFlags getter and setter against the frame-format layout; (R19.4) the accepted block-size codes are exactly {4,5,6,7}; (R19.5) ValidFrameHeader's three outcome classes; (R19.6) content size is written only from the 8-byte little-endian load and Size() returns it unconverted. This decides the structure of acceptance symbolically for the whole 2^25 header space; it does not evaluate XXH32 (C13 covers its constants)."
	c.Uncov = []string{"numeric value of the header check byte (depends on XXH32; see C13)"}
	c.Trusted = []string{"go/types, go/ssa (x/tools v0.29.0)", "interval-set and bit-provenance evaluators in tool/bits.go"}
	c.RuleDoc["R19.1"] = "value set of the magic word per dispatch target"
	c.RuleDoc["R19.2"] = "acceptance gate of initR"
	c.RuleDoc["R19.3"] = "bit provenance of DescriptorFlags accessors vs. frame format layout"
	c.RuleDoc["R19.4"] = "BlockSizeIndex.IsValid accepts exactly 4..7"
	c.RuleDoc["R19.5"] = "ValidFrameHeader outcome classes"
	c.RuleDoc["R19.6"] = "content size store and Size()"
	for _, cfg := range []Config{cfgAMD64} {
		p := loadOrTrouble(c, cfg)
		if p == nil {
			return
		}
		ruleMagicDispatch(c, p, "R19.1")
		ruleHeaderGate(c, p, "R19.2")
		ruleFlagBits(c, p, "R19.3")
		ruleIsValid(c, p, "R19.4")
		ruleValidFrameHeader(c, p, "R19.5")
		ruleContentSize(c, p, "R19.6")
		c.only(func(k string) bool { return strings.Contains(k, "FrameDescriptor.initR") || strings.Contains(k, "descriptor") }, func() { ruleEOFProvenance(c, p, "R19.9", true) })
		c.RuleDoc["R19.9"] = "= R06.1 for the descriptor: its bytes are read with io.ReadFull (a single Read may return part of the content size and leave the check byte unread)"
		c.only(func(k string) bool { return strings.HasPrefix(k, "descriptorChecksum#") || strings.HasPrefix(k, "FrameDescriptor.Write#hash-range") }, func() { ruleDescriptorConstants(c, p, "R19.10") })
		c.RuleDoc["R19.10"] = "= R13.8: the header check byte covers the whole descriptor, content size included"
		ruleErrorOperandsWrapped(c, p, "R19.11")
		ruleXXHZeroExtends(c, p, "R19.12")
		c.RuleDoc["R19.12"] = "= R13.17: the descriptor checksum is computed with zero-extended input bytes (a sign-extending hash rejects every descriptor with a byte >= 0x80 in its tail and accepts a wrong check byte)"
		c.RuleDoc["R19.11"] = "errors that become part of another error are wrapped with %w (the latched header error keeps its identity on later calls)"
		ruleHeaderParsers(c, p, "R19.7")
		c.RuleDoc["R19.7"] = "who parses a header: Reader.init and ValidFrameHeader (which hands its whole input to the parser)"
		c.RuleDoc["R19.8"] = "Reset re-arms the frame on every path, so the next stream's header is parsed afresh (= R17.4)"
		c.only(func(k string) bool { return k == "Reader.Reset#rearms" }, func() { ruleResetRearms(c, p, "R19.8") })
	}
}

// ---------------------------------------------------------------------------
// R19.1 / R07.2: magic dispatch

const (
	magicFrame  = 0x184D2204
	magicLegacy = 0x184C2102
	magicSkipLo = 0x184D2A50
	magicSkipHi = 0x184D2A5F
)

func ruleMagicDispatch(c *Check, p *Program, rule string) {
	fn := p.Func("internal/lz4stream", "Frame.ParseHeaders")
	if fn == nil {
		c.Fail(rule, "lz4stream.Frame.ParseHeaders", "", "magic dispatch function must exist", "function not found")
		return
	}
	c.Funcs[fname(fn)] = true
	// m: the word stored into Frame.Magic that comes from a source read.
	var m ssa.Value
	var mblk *ssa.BasicBlock
	// the dispatch may live in a helper that ParseHeaders was split into
	top := fn
	for _, g := range deepFuncs(fn, 2) {
		found := false
		allInstrs(g, func(in ssa.Instruction) {
			if st, ok := in.(*ssa.Store); ok && strings.HasSuffix(lastField(st.Addr), "Frame.Magic") {
				if _, isConst := st.Val.(*ssa.Const); !isConst {
					m = st.Val
					mblk = st.Block()
					found = true
				}
			}
		})
		if found {
			fn = g
			break
		}
	}
	if m == nil {
		c.Fail(rule, "ParseHeaders#magic-read", p.Pos(fn.Pos()), "the first word must be read into Frame.Magic", "no non-constant store to Frame.Magic found")
		return
	}
	// The dispatch may compare a reload of f.Magic: treat loads of Frame.Magic as m.
	alias := func(v ssa.Value) bool {
		v = stripSameWidth(v)
		return v == m || loadField(v) == "Frame.Magic"
	}
	// canonicalise: build sets using a predicate matcher that accepts aliases
	sets := valueSetsAtAlias(fn, alias, mblk, 32)
	// targets
	var skipBlk, frameBlk, rejectBlk []*ssa.BasicBlock
	bad, _ := errSentinel(p, "ErrInvalidFrame")
	allInstrs(fn, func(in ssa.Instruction) {
		switch x := in.(type) {
		case ssa.CallInstruction:
			if calleeIs(x, "io", "CopyN") || callReaches(x, func(y ssa.CallInstruction) bool { return calleeIs(y, "io", "CopyN") }) {
				skipBlk = append(skipBlk, in.Block())
			}
			if f := staticCallee(x); f != nil && f.Name() == "initR" && recvTypeName(f) == "FrameDescriptor" {
				frameBlk = append(frameBlk, in.Block())
			}
		case *ssa.Return:
			if fn != top && len(x.Results) == 1 && isNilConst(x.Results[0]) {
				// the helper reports "a frame starts here" by returning nil: the caller parses the descriptor
				callerParses := false
				for _, ci := range callsIn(top) {
					if f := staticCallee(ci); f != nil && f.Name() == "initR" && recvTypeName(f) == "FrameDescriptor" {
						callerParses = true
					}
				}
				if callerParses {
					frameBlk = append(frameBlk, in.Block())
				}
			}
			if len(x.Results) == 1 {
				for _, s := range sentinelsIn(x.Results[0]) {
					if s == bad {
						rejectBlk = append(rejectBlk, in.Block())
					}
				}
			}
		}
	})
	c.Sites += len(skipBlk) + len(frameBlk) + len(rejectBlk)
	union := func(bs []*ssa.BasicBlock) vset {
		var s vset
		for _, b := range bs {
			s = s.union(sets[b])
		}
		return s
	}
	pos := p.Pos(fn.Pos())
	wantSkip := vset{{magicSkipLo, magicSkipHi}}
	wantFrame := vset{{magicLegacy, magicLegacy}, {magicFrame, magicFrame}}.norm()
	if len(skipBlk) == 0 {
		c.Fail(rule, "ParseHeaders#skippable", pos, "skippable frames are skipped by discarding the announced length", "no io.CopyN call found")
	} else {
		got := union(skipBlk)
		c.Cond(got.equal(wantSkip), rule, "ParseHeaders#skippable", p.InstrPos(skipBlk[0].Instrs[0]),
			"the words skipped as skippable frames are exactly 0x184D2A50..0x184D2A5F",
			"value set at the skip path = "+got.String(), fmt.Sprintf("value set at the skip path = %s (%d values), specification: %s", got, got.count(), wantSkip))
	}
	if len(frameBlk) == 0 {
		c.Fail(rule, "ParseHeaders#frame", pos, "frame and legacy magics lead to descriptor parsing", "no call of FrameDescriptor.initR found")
	} else {
		got := union(frameBlk)
		c.Cond(got.equal(wantFrame), rule, "ParseHeaders#frame", p.InstrPos(frameBlk[0].Instrs[0]),
			"the words accepted as frame magic are exactly 0x184D2204 and 0x184C2102",
			"value set at descriptor parsing = "+got.String(), fmt.Sprintf("value set at descriptor parsing = %s, specification: %s", got, wantFrame))
	}
	if len(rejectBlk) == 0 {
		c.Fail(rule, "ParseHeaders#reject", pos, "every other first word is reported as ErrInvalidFrame", "no return of ErrInvalidFrame found")
	} else {
		got := union(rejectBlk)
		want := wantSkip.union(wantFrame).complement(32)
		c.Cond(got.equal(want), rule, "ParseHeaders#reject", p.InstrPos(rejectBlk[0].Instrs[0]),
			"every first word that is not a magic is rejected with ErrInvalidFrame",
			fmt.Sprintf("rejected set has %d values = complement of the accepted ones", got.count()), fmt.Sprintf("rejected set = %s, expected complement of accepted magics %s", got, want))
	}
	// ValidFrameHeader recognises "not a frame" by identity with the sentinel (err == ErrInvalidFrame): where that is so,
	// the rejecting returns hand back the sentinel itself, not an error that merely wraps it
	if vf := p.Func("", "ValidFrameHeader"); vf != nil {
		identity := false
		allInstrs(vf, func(in ssa.Instruction) {
			bo, ok := in.(*ssa.BinOp)
			if !ok || (bo.Op != token.EQL && bo.Op != token.NEQ) {
				return
			}
			for _, o := range []ssa.Value{bo.X, bo.Y} {
				if mi, isMI := o.(*ssa.MakeInterface); isMI {
					if k, isK := mi.X.(*ssa.Const); isK && k.Value != nil && k.Value.Kind() == constant.String && constant.StringVal(k.Value) == bad {
						identity = true
					}
				}
			}
		})
		if identity && len(rejectBlk) > 0 {
			var bare func(v ssa.Value, depth int) bool
			bare = func(v ssa.Value, depth int) bool {
				if depth > 4 {
					return false
				}
				switch x := v.(type) {
				case *ssa.MakeInterface:
					k, isK := x.X.(*ssa.Const)
					return isK && k.Value != nil && k.Value.Kind() == constant.String && constant.StringVal(k.Value) == bad
				case *ssa.Phi:
					for _, e := range x.Edges {
						// only the edges that can carry the sentinel matter: others are other errors
						has := false
						for _, s := range sentinelsIn(e) {
							if s == bad {
								has = true
							}
						}
						if has && !bare(e, depth+1) {
							return false
						}
					}
					return true
				}
				return false
			}
			wrapped := ""
			for _, b := range rejectBlk {
				r := b.Instrs[len(b.Instrs)-1].(*ssa.Return)
				if !bare(r.Results[0], 0) {
					wrapped = p.InstrPos(r)
				}
			}
			c.Cond(wrapped == "", rule, "ParseHeaders#reject-is-the-sentinel", pos, "a first word that is not a magic is reported with the sentinel ErrInvalidFrame itself: ValidFrameHeader tells 'not a frame' (false, nil) from a failure by identity with it", "every rejecting return yields the bare sentinel", "the return at "+wrapped+" wraps the sentinel: errors.Is still matches, but ValidFrameHeader compares by identity and reports (false, error) for those first words instead of (false, nil)")
		}
	}
	// Legacy predicate agrees with the constant.
	if il := p.Func("internal/lz4stream", "Frame.isLegacy"); il != nil {
		ok := false
		allInstrs(il, func(in ssa.Instruction) {
			if b, isb := in.(*ssa.BinOp); isb && b.Op == token.EQL {
				if k, okk := constUint(b.Y); okk && k == magicLegacy && loadField(b.X) == "Frame.Magic" {
					ok = true
				}
			}
			// or hands the word to a predicate accepting exactly the legacy magic
			if call, isC := in.(*ssa.Call); isC && !ok {
				if ps, okP := predSetAlias(call, func(v ssa.Value) bool { return loadField(v) == "Frame.Magic" }, 32); okP {
					ok = ps.equal(vset{{magicLegacy, magicLegacy}})
				}
			}
		})
		c.Cond(ok, rule, "Frame.isLegacy", p.Pos(il.Pos()), "isLegacy tests Magic == 0x184C2102", "comparison found", "isLegacy does not compare Frame.Magic with the legacy magic")
	} else {
		c.Fail(rule, "Frame.isLegacy", "", "isLegacy must exist", "function not found")
	}
}

// valueSetsAtAlias is valueSetsAt with a predicate deciding which SSA values
// stand for the word. Propagation is per CFG edge so that boolean phis (the
// SSA form of || and &&) are resolved by the incoming edge.
func valueSetsAtAlias(fn *ssa.Function, alias func(ssa.Value) bool, start *ssa.BasicBlock, width uint) map[*ssa.BasicBlock]vset {
	res, _ := valueSetsFull(fn, alias, start, width)
	return res
}

type cfgEdge struct{ from, to *ssa.BasicBlock }

// acceptSetOf: the set of values of parameter prm for which the boolean
// function fn returns true; ok is false when a return value has a shape the
// evaluator does not understand.
func acceptSetOf(fn *ssa.Function, prm ssa.Value, width uint) (vset, bool) {
	alias := func(v ssa.Value) bool { return stripSameWidth(v) == prm }
	per, perEdge := valueSetsFull(fn, alias, fn.Blocks[0], width)
	var acc vset
	ok := true
	var evalBool func(v ssa.Value, blk *ssa.BasicBlock, S vset, depth int) vset
	evalBool = func(v ssa.Value, blk *ssa.BasicBlock, S vset, depth int) vset {
		if depth > 6 {
			ok = false
			return nil
		}
		switch x := v.(type) {
		case *ssa.Const:
			if x.Value != nil && x.Value.Kind() == constant.Bool {
				if constant.BoolVal(x.Value) {
					return S
				}
				return nil
			}
		case *ssa.Phi:
			if x.Block() == blk {
				var out vset
				for i, e := range x.Edges {
					pred := blk.Preds[i]
					out = out.union(evalBool(e, pred, perEdge[cfgEdge{pred, blk}], depth+1))
				}
				return out
			}
		}
		if ps, okP := predSetAlias(v, alias, width); okP {
			return S.intersect(ps)
		}
		ok = false
		return nil
	}
	found := false
	allInstrs(fn, func(in ssa.Instruction) {
		if r, isR := in.(*ssa.Return); isR && len(r.Results) == 1 {
			found = true
			acc = acc.union(evalBool(r.Results[0], in.Block(), per[in.Block()], 0))
		}
	})
	return acc, ok && found
}

func valueSetsFull(fn *ssa.Function, alias func(ssa.Value) bool, start *ssa.BasicBlock, width uint) (map[*ssa.BasicBlock]vset, map[cfgEdge]vset) {
	res := map[*ssa.BasicBlock]vset{}
	type edge = cfgEdge
	type item struct {
		from, b *ssa.BasicBlock
		s       vset
	}
	perEdge := map[edge]vset{}
	work := []item{{nil, start, fullSet(width)}}
	for steps := 0; len(work) > 0 && steps < 200000; steps++ {
		it := work[len(work)-1]
		work = work[:len(work)-1]
		e := edge{it.from, it.b}
		old, seen := perEdge[e]
		nu := old.union(it.s)
		if seen && nu.equal(old) {
			continue
		}
		perEdge[e] = nu
		res[it.b] = res[it.b].union(it.s)
		if len(it.b.Instrs) == 0 {
			continue
		}
		push := func(to *ssa.BasicBlock, s vset) {
			if to == start || len(s) == 0 {
				return
			}
			work = append(work, item{it.b, to, s})
		}
		if ifi, ok := it.b.Instrs[len(it.b.Instrs)-1].(*ssa.If); ok && len(it.b.Succs) == 2 {
			cond := ifi.Cond
			// resolve a boolean phi of this block by the incoming edge
			if ph, isPhi := cond.(*ssa.Phi); isPhi && ph.Block() == it.b && it.from != nil {
				for k, pb := range it.b.Preds {
					if pb == it.from {
						cond = ph.Edges[k]
					}
				}
			}
			if k, isK := cond.(*ssa.Const); isK && k.Value != nil && k.Value.Kind() == constant.Bool {
				if constant.BoolVal(k.Value) {
					push(it.b.Succs[0], it.s)
				} else {
					push(it.b.Succs[1], it.s)
				}
				continue
			}
			if ps, ok := predSetAlias(cond, alias, width); ok {
				push(it.b.Succs[0], it.s.intersect(ps))
				push(it.b.Succs[1], it.s.intersect(ps.complement(width)))
				continue
			}
		}
		for _, s := range it.b.Succs {
			push(s, it.s)
		}
	}
	return res, perEdge
}

func predSetAlias(cond ssa.Value, alias func(ssa.Value) bool, width uint) (vset, bool) {
	// a predicate function of the module applied to the word: its accept set
	neg := false
	cv := cond
	if u, isU := cv.(*ssa.UnOp); isU && u.Op == token.NOT {
		neg, cv = true, u.X
	}
	if call, isC := cv.(*ssa.Call); isC {
		if f := staticCallee(call); f != nil && inModule(f) && len(f.Blocks) > 0 && len(f.Blocks) <= 8 && f.Signature.Recv() == nil && len(call.Call.Args) == len(f.Params) {
			for i, a := range call.Call.Args {
				if alias(a) && len(*f.Params[i].Referrers()) > 0 {
					if acc, ok := acceptSetOf(f, f.Params[i], width); ok {
						if neg {
							return acc.complement(width), true
						}
						return acc, true
					}
				}
			}
		}
	}
	// find the operand standing for the word
	var m ssa.Value
	var find func(v ssa.Value)
	find = func(v ssa.Value) {
		if m != nil || v == nil {
			return
		}
		if alias(v) {
			m = stripSameWidth(v)
			return
		}
		switch x := v.(type) {
		case *ssa.UnOp:
			if x.Op == token.NOT {
				find(x.X)
			}
		case *ssa.BinOp:
			find(x.X)
			find(x.Y)
		case *ssa.Convert:
			find(x.X)
		case *ssa.ChangeType:
			find(x.X)
		}
	}
	find(cond)
	if m == nil {
		return nil, false
	}
	return predSet(cond, m, width)
}

// ---------------------------------------------------------------------------
// R19.2 / R05.1: header acceptance gate

func ruleHeaderGate(c *Check, p *Program, rule string) {
	fn := p.Func("internal/lz4stream", "FrameDescriptor.initR")
	if fn == nil {
		c.Fail(rule, "lz4stream.FrameDescriptor.initR", "", "descriptor parser must exist", "function not found")
		return
	}
	c.Funcs[fname(fn)] = true
	pos := p.Pos(fn.Pos())
	isHash := func(v ssa.Value) bool { return derivesFromCall(v, isHeaderHash) }
	isStored := func(v ssa.Value) bool {
		// the stored check byte: FrameDescriptor.Checksum or a byte loaded from the header buffer
		if derivesFromCall(v, isHeaderHash) {
			return false
		}
		if loadField(v) == "FrameDescriptor.Checksum" {
			return true
		}
		if u, ok := stripConv(v).(*ssa.UnOp); ok && u.Op == token.MUL {
			if _, ok := u.X.(*ssa.IndexAddr); ok {
				return true
			}
		}
		return false
	}
	edges := findEqEdges(fn, isHash, isStored)
	if len(edges) == 0 {
		// the validation may be the tail of the parser moved into a function of its own: every possibly-nil result of
		// the parser (outside the legacy branch) is then that function's result, and the gate is decided there
		var tail *ssa.Function
		onlyTail := true
		allInstrs(fn, func(in ssa.Instruction) {
			r, isR := in.(*ssa.Return)
			if !isR || len(r.Results) != 1 || !mayBeNilErr(r.Results[0], in.Block()) {
				return
			}
			if call, isC := r.Results[0].(*ssa.Call); isC {
				if t := staticCallee(call); t != nil && inModule(t) && t.Pkg == fn.Pkg && len(t.Blocks) > 0 {
					if tail == nil || tail == t {
						tail = t
						return
					}
				}
			}
			if !hasAtom(atomsOfBlock(in.Block()), "legacy", "", true) {
				onlyTail = false
			}
		})
		if tail != nil && onlyTail {
			if inner := findEqEdges(tail, isHash, isStored); len(inner) == 1 {
				c.Funcs[fname(tail)] = true
				fn, edges = tail, inner
			}
		}
	}
	if len(edges) != 1 {
		c.Fail(rule, "initR#checkbyte-compare", pos, "the header check byte is compared with the hash of the descriptor", fmt.Sprintf("found %d comparisons between descriptorChecksum(...) and the stored byte (need exactly 1)", len(edges)))
		return
	}
	e := edges[0]
	c.Sites++
	// (a) with the equal edge removed, no nil return outside the legacy branch and no validity test is reachable.
	reach := reachWithoutEdge(fn, e.ifi.Block(), e.eqIx)
	okGate := true
	var why []string
	nilReturns := 0
	validCalls := 0
	for _, b := range fn.Blocks {
		for _, in := range b.Instrs {
			if r, ok := in.(*ssa.Return); ok && len(r.Results) == 1 && mayBeNilErr(r.Results[0], b) {
				if hasAtom(atomsOfBlock(b), "legacy", "", true) {
					continue
				}
				nilReturns++
				if reach[b] {
					okGate = false
					why = append(why, "a nil return at "+p.InstrPos(in)+" is reachable without passing the equal edge of the check-byte comparison")
				}
			}
			if ci, ok := in.(ssa.CallInstruction); ok && calleeIs(ci, pkgBlock, "BlockSizeIndex.IsValid") {
				validCalls++
				if reach[b] {
					okGate = false
					why = append(why, "the block-size validity test at "+p.InstrPos(in)+" can run before the check byte has been verified")
				}
			}
		}
	}
	if nilReturns == 0 {
		okGate = false
		why = append(why, "no accepting return found")
	}
	c.Cond(okGate, rule, "initR#accept-needs-checkbyte-equal", p.InstrPos(e.cmp), "every accepting return lies behind the equal edge of the check-byte comparison, which precedes the validity test",
		fmt.Sprintf("%d accepting return(s) and %d validity test(s) unreachable once the equal edge is deleted", nilReturns, validCalls), strings.Join(why, "; "))
	// (b) validity test: nil returns need IsValid true edge
	okValid := validCalls > 0
	whyV := "no call of BlockSizeIndex.IsValid in initR"
	for _, b := range fn.Blocks {
		if len(b.Instrs) == 0 {
			continue
		}
		ifi, ok := b.Instrs[len(b.Instrs)-1].(*ssa.If)
		if !ok {
			continue
		}
		cond, neg := ifi.Cond, false
		for {
			if u, ok := cond.(*ssa.UnOp); ok && u.Op == token.NOT {
				cond, neg = u.X, !neg
				continue
			}
			break
		}
		call, ok := cond.(*ssa.Call)
		if !ok || !calleeIs(call, pkgBlock, "BlockSizeIndex.IsValid") {
			continue
		}
		// receiver must derive from the parsed flags
		trueIx := 0
		if neg {
			trueIx = 1
		}
		r2 := reachWithoutEdge(fn, b, trueIx)
		for _, bb := range fn.Blocks {
			for _, in := range bb.Instrs {
				if r, ok := in.(*ssa.Return); ok && len(r.Results) == 1 && mayBeNilErr(r.Results[0], bb) && !hasAtom(atomsOfBlock(bb), "legacy", "", true) && r2[bb] {
					okValid = false
					whyV = "a nil return at " + p.InstrPos(in) + " is reachable without the block-size code having been found valid"
				}
			}
		}
		if len(call.Call.Args) > 0 && !derivesFromCall(call.Call.Args[0], func(f *ssa.Function) bool { return f.Name() == "BlockSizeIndex" && recvTypeName(f) == "DescriptorFlags" }) {
			okValid = false
			whyV = "IsValid is not applied to the descriptor's block-size code"
		}
	}
	c.Cond(okValid, rule, "initR#accept-needs-valid-blocksize", pos, "every accepting return lies behind the true edge of BlockSizeIndex.IsValid on the parsed code", "deleting the true edge makes every accepting return unreachable", whyV)
	// (c) distinct sentinels
	hdr, _ := errSentinel(p, "ErrInvalidHeaderChecksum")
	bsz, _ := errSentinel(p, "ErrOptionInvalidBlockSize")
	var sawHdr, sawBsz bool
	allInstrs(fn, func(in ssa.Instruction) {
		if r, ok := in.(*ssa.Return); ok && len(r.Results) == 1 {
			for _, s := range sentinelsIn(r.Results[0]) {
				ats := atomsOfBlock(in.Block())
				_ = ats
				if s == hdr {
					// must be on the not-equal side
					if !reachWithoutEdge(fn, e.ifi.Block(), 1-e.eqIx)[in.Block()] {
						sawHdr = true
					}
				}
				if s == bsz {
					if !reach[in.Block()] {
						sawBsz = true
					}
				}
			}
		}
	})
	c.Cond(sawHdr, rule, "initR#sentinel-header-checksum", pos, "a wrong check byte is reported as ErrInvalidHeaderChecksum", "return on the unequal edge wraps ErrInvalidHeaderChecksum", "no return wrapping ErrInvalidHeaderChecksum is confined to the unequal edge of the comparison")
	c.Cond(sawBsz, rule, "initR#sentinel-block-size", pos, "an undefined block size is reported as ErrOptionInvalidBlockSize", "return behind the equal edge wraps ErrOptionInvalidBlockSize", "no return of ErrOptionInvalidBlockSize behind the check-byte comparison")
	// (d) the hash covers the descriptor bytes read from the source: its argument derives from the frame buffer
	okArg := false
	walkBack(e.cmp, true, func(x ssa.Value) bool {
		if call, ok := x.(*ssa.Call); ok && isHeaderHash(staticCallee(call)) {
			if len(call.Call.Args) > 0 && derivesFromField(call.Call.Args[0], "Frame.buf") {
				okArg = true
			}
			return false
		}
		return true
	})
	c.Cond(okArg, rule, "initR#hash-covers-buffer", p.InstrPos(e.cmp), "the check byte is computed over the descriptor bytes read into the frame buffer", "argument derives from Frame.buf", "the hashed bytes do not derive from the frame's read buffer")
}

// ---------------------------------------------------------------------------
// R19.3 bit layout

type fieldSpec struct {
	name   string
	lo, n  int  // bit position and width in the 16-bit little-endian descriptor
	isBool bool // getter returns bool
}

var flagLayout = []fieldSpec{
	{"ContentChecksum", 2, 1, true},
	{"Size", 3, 1, true},
	{"BlockChecksum", 4, 1, true},
	{"BlockIndependence", 5, 1, true},
	{"Version", 6, 2, false},
	{"BlockSizeIndex", 12, 3, false},
}

func ruleFlagBits(c *Check, p *Program, rule string) {
	for _, fs := range flagLayout {
		g := p.Func("internal/lz4stream", "DescriptorFlags."+fs.name)
		key := "DescriptorFlags." + fs.name
		if g == nil {
			c.Fail(rule, key, "", "getter must exist", "function not found")
			continue
		}
		c.Funcs[fname(g)] = true
		checkGetter(c, p, rule, key, g, fs.lo, fs.n, fs.isBool, 16)
		s := p.Func("internal/lz4stream", "DescriptorFlags."+fs.name+"Set")
		keyS := key + "Set"
		if s == nil {
			c.Fail(rule, keyS, "", "setter must exist", "function not found")
			continue
		}
		c.Funcs[fname(s)] = true
		checkSetter(c, p, rule, keyS, s, fs.lo, fs.n, fs.isBool, 16)
	}
	// DataBlockSize: size = low 31 bits, Uncompressed = bit 31
	for _, fs := range []fieldSpec{{"size", 0, 31, false}, {"Uncompressed", 31, 1, true}} {
		g := p.Func("internal/lz4stream", "DataBlockSize."+fs.name)
		key := "DataBlockSize." + fs.name
		if g == nil {
			c.Fail(rule, key, "", "getter must exist", "function not found")
			continue
		}
		c.Funcs[fname(g)] = true
		checkGetter(c, p, rule, key, g, fs.lo, fs.n, fs.isBool, 32)
		s := p.Func("internal/lz4stream", "DataBlockSize."+fs.name+"Set")
		if s == nil {
			c.Fail(rule, key+"Set", "", "setter must exist", "function not found")
			continue
		}
		c.Funcs[fname(s)] = true
		checkSetter(c, p, rule, key+"Set", s, fs.lo, fs.n, fs.isBool, 32)
	}
}

func checkGetter(c *Check, p *Program, rule, key string, g *ssa.Function, lo, n int, isBool bool, width uint) {
	pos := p.Pos(g.Pos())
	desc := fmt.Sprintf("getter reads bits %d..%d of the word", lo, lo+n-1)
	if len(g.Blocks) != 1 || len(g.Params) != 1 {
		c.Unknown(rule, key, pos, desc, "getter is not a single-block pure function of its receiver")
		return
	}
	env := &bitEnv{vals: map[ssa.Value]bitvec{g.Params[0]: inputVec('i', width)}, ok: true}
	ret, _ := g.Blocks[0].Instrs[len(g.Blocks[0].Instrs)-1].(*ssa.Return)
	if ret == nil || len(ret.Results) != 1 {
		c.Unknown(rule, key, pos, desc, "no single return")
		return
	}
	if isBool {
		src, ok := env.boolSource(ret.Results[0])
		if !ok || !env.ok {
			c.Unknown(rule, key, pos, desc, "result is not a recognised single-bit test: "+env.why)
			return
		}
		c.Cond(src.kind == 'i' && src.idx == lo, rule, key, pos, desc, fmt.Sprintf("result = input bit %d", src.idx), fmt.Sprintf("result tests input bit %d, the format puts the field at bit %d", src.idx, lo))
		return
	}
	v := env.eval(ret.Results[0])
	if !env.ok {
		c.Unknown(rule, key, pos, desc, env.why)
		return
	}
	ok := true
	var got []string
	for i := 0; i < 64; i++ {
		want := bitSrc{'0', 0}
		if i < n {
			want = bitSrc{'i', lo + i}
		}
		if v[i] != want {
			ok = false
		}
		if v[i].kind != '0' {
			got = append(got, fmt.Sprintf("out%d=%c%d", i, v[i].kind, v[i].idx))
		}
	}
	c.Cond(ok, rule, key, pos, desc, strings.Join(got, " "), "bit provenance of the result is "+strings.Join(got, " "))
}

func checkSetter(c *Check, p *Program, rule, key string, s *ssa.Function, lo, n int, isBool bool, width uint) {
	pos := p.Pos(s.Pos())
	desc := fmt.Sprintf("setter rewrites exactly bits %d..%d of the word and leaves the others unchanged", lo, lo+n-1)
	if len(s.Params) != 2 {
		c.Unknown(rule, key, pos, desc, "unexpected signature")
		return
	}
	recv, arg := s.Params[0], s.Params[1]
	nStores := 0
	ok := true
	var why []string
	// values of the body's other parameters (a generic helper called with constants)
	pre := map[ssa.Value]bitvec{}
	argWidth := widthOf(arg.Type())
	// a setter that only hands its receiver and argument to a generic helper of the package: the helper's body is
	// verified with the constants of this call
	direct := false
	allInstrs(s, func(in ssa.Instruction) {
		if st, isSt := in.(*ssa.Store); isSt && st.Addr == ssa.Value(recv) {
			direct = true
		}
	})
	if !direct {
		var fwd *ssa.Call
		nCalls := 0
		for _, ci := range callsIn(s) {
			call, isCall := ci.(*ssa.Call)
			g := staticCallee(ci)
			if !isCall || g == nil || !inModule(g) || len(g.Blocks) == 0 {
				continue
			}
			nCalls++
			if len(call.Call.Args) == len(g.Params) && len(g.Params) >= 2 && call.Call.Args[0] == ssa.Value(recv) {
				fwd = call
			}
		}
		if fwd != nil && nCalls == 1 {
			g := staticCallee(fwd)
			tmp := &bitEnv{vals: map[ssa.Value]bitvec{}, ok: true}
			if !isBool {
				tmp.vals[arg] = inputVec('a', argWidth)
			}
			var newArg *ssa.Parameter
			bound := true
			for i, a := range fwd.Call.Args[1:] {
				prm := g.Params[i+1]
				if isBool && a == ssa.Value(arg) {
					newArg = prm
					continue
				}
				bv := tmp.eval(a)
				if !tmp.ok {
					bound = false
				}
				pre[prm] = bv
				if !isBool && derivesFromValue(a, arg) {
					newArg = prm
				}
			}
			if bound && (newArg != nil || !isBool) {
				c.Funcs[fname(g)] = true
				s, recv = g, g.Params[0]
				if isBool {
					arg = newArg
				} else {
					arg = nil
				}
			}
		}
	}
	// the polarity of the boolean argument on the edge pred -> blk (1 true, 0 false, -1 not decided by it)
	edgePol := func(pred, blk *ssa.BasicBlock) int {
		if ifi, isIf := pred.Instrs[len(pred.Instrs)-1].(*ssa.If); isIf && arg != nil && ifi.Cond == ssa.Value(arg) {
			if pred.Succs[0] == blk && pred.Succs[1] != blk {
				return 1
			}
			if pred.Succs[1] == blk && pred.Succs[0] != blk {
				return 0
			}
		}
		for _, l := range guardsOf(pred) {
			if l.Cond == ssa.Value(arg) {
				if l.Val {
					return 1
				}
				return 0
			}
		}
		return -1
	}
	var cases [][2]interface{} // (store, polarity) pairs to verify
	allInstrs(s, func(in ssa.Instruction) {
		st, isSt := in.(*ssa.Store)
		if !isSt || st.Addr != ssa.Value(recv) {
			return
		}
		if isBool {
			known := false
			for _, l := range guardsOf(st.Block()) {
				if l.Cond == ssa.Value(arg) {
					known = true
					cases = append(cases, [2]interface{}{st, l.Val})
				}
			}
			if !known {
				// one store after the branches have joined: verify it once per polarity, phis resolved by the edge taken
				cases = append(cases, [2]interface{}{st, true}, [2]interface{}{st, false})
			}
		} else {
			cases = append(cases, [2]interface{}{st, true})
		}
	})
	polSeen := map[bool]bool{}
	for _, cs := range cases {
		st, pol := cs[0].(*ssa.Store), cs[1].(bool)
		polSeen[pol] = true
		func() {
		nStores++
		env := &bitEnv{vals: map[ssa.Value]bitvec{}, ok: true}
		if isBool {
			env.pick = func(ph *ssa.Phi) ssa.Value {
				var sel ssa.Value
				n := 0
				for i, pred := range ph.Block().Preds {
					ep := edgePol(pred, ph.Block())
					if ep == -1 || (ep == 1) == pol {
						sel = ph.Edges[i]
						n++
					}
				}
				if n == 1 {
					return sel
				}
				return nil
			}
		}
		// loads of *recv are the input word
		allInstrs(s, func(j ssa.Instruction) {
			if u, isU := j.(*ssa.UnOp); isU && u.Op == token.MUL && u.X == recv {
				env.vals[u] = inputVec('i', width)
			}
		})
		if !isBool && arg != nil {
			env.vals[arg] = inputVec('a', argWidth)
		}
		for k, bv := range pre {
			env.vals[k] = bv
		}
		v := env.eval(st.Val)
		if !env.ok {
			ok = false
			why = append(why, env.why)
			return
		}
		// polarity for bool setters: which edge of `if v` are we on
		var wantField func(i int) bitSrc
		if isBool {
			val := pol
			wantField = func(i int) bitSrc {
				if val {
					return bitSrc{'1', 0}
				}
				return bitSrc{'0', 0}
			}
		} else {
			wantField = func(i int) bitSrc { return bitSrc{'a', i} }
		}
		for i := 0; i < int(width); i++ {
			want := bitSrc{'i', i}
			if i >= lo && i < lo+n {
				want = wantField(i - lo)
			}
			if v[i] != want {
				ok = false
				why = append(why, fmt.Sprintf("bit %d of the stored word is %c%d, expected %c%d", i, v[i].kind, v[i].idx, want.kind, want.idx))
			}
		}
		}()
	}
	if nStores == 0 {
		ok = false
		why = append(why, "no store through the receiver")
	}
	if isBool && !(polSeen[true] && polSeen[false]) {
		ok = false
		why = append(why, "boolean setter must store on both polarities")
	}
	c.Cond(ok, rule, key, pos, desc, fmt.Sprintf("%d store(s) verified bit by bit", nStores), strings.Join(why, "; "))
}

// ---------------------------------------------------------------------------
// R19.4

func ruleIsValid(c *Check, p *Program, rule string) {
	fn := p.Func("internal/lz4block", "BlockSizeIndex.IsValid")
	if fn == nil || len(fn.Params) != 1 {
		c.Fail(rule, "lz4block.BlockSizeIndex.IsValid", "", "validity predicate must exist", "function not found")
		return
	}
	c.Funcs[fname(fn)] = true
	acc, found := acceptSetOf(fn, fn.Params[0], 8)
	if !found {
		c.Unknown(rule, "lz4block.BlockSizeIndex.IsValid", p.Pos(fn.Pos()), "accepted block-size codes are exactly 4..7", "a return value is not a constant, a comparison of the code, or a phi of those")
		return
	}
	want := vset{{4, 7}}
	c.Cond(acc.equal(want), rule, "lz4block.BlockSizeIndex.IsValid", p.Pos(fn.Pos()), "accepted block-size codes are exactly 4..7", "accepted set "+acc.String(), "accepted set is "+acc.String()+", the format defines "+want.String())
}

// ---------------------------------------------------------------------------
// R19.5

func ruleValidFrameHeader(c *Check, p *Program, rule string) {
	fn := p.Func("", "ValidFrameHeader")
	if fn == nil {
		c.Fail(rule, "lz4.ValidFrameHeader", "", "function must exist", "not found")
		return
	}
	c.Funcs[fname(fn)] = true
	pos := p.Pos(fn.Pos())
	var perr ssa.Value
	for _, ci := range callsIn(fn) {
		if calleeIs(ci, pkgStream, "Frame.ParseHeaders") {
			perr = ci.Value()
		}
	}
	if perr == nil {
		c.Fail(rule, "ValidFrameHeader#parse", pos, "the header is parsed with Frame.ParseHeaders", "no such call")
		return
	}
	bad, _ := errSentinel(p, "ErrInvalidFrame")
	var sawTrue, sawFalseNil, sawFalseErr bool
	ok := true
	var why []string
	allInstrs(fn, func(in ssa.Instruction) {
		r, isR := in.(*ssa.Return)
		if !isR || len(r.Results) != 2 {
			return
		}
		k, isK := r.Results[0].(*ssa.Const)
		if !isK || k.Value == nil {
			ok = false
			why = append(why, "non-constant boolean result at "+p.InstrPos(in))
			return
		}
		bv := constant.BoolVal(k.Value)
		ats := atomsOfBlock(in.Block())
		errNil := isNilConst(r.Results[1])
		switch {
		case bv:
			// needs err == nil guard on the parse error, and nil error result
			g := false
			for _, a := range ats {
				if a.Kind == "errnil" && a.Val && a.V == perr {
					g = true
				}
			}
			if g && errNil {
				sawTrue = true
			} else {
				ok = false
				why = append(why, "(true, _) returned at "+p.InstrPos(in)+" without the parse error being nil")
			}
		case !bv && errNil:
			g := false
			for _, l := range guardsOf(in.Block()) {
				if b, isB := l.Cond.(*ssa.BinOp); isB && (b.Op == token.EQL) == l.Val && (b.Op == token.EQL || b.Op == token.NEQ) {
					var other ssa.Value
					if b.X == perr {
						other = b.Y
					} else if b.Y == perr {
						other = b.X
					}
					if other != nil {
						for _, s := range sentinelsIn(other) {
							if s == bad {
								g = true
							}
						}
					}
				}
			}
			if g {
				sawFalseNil = true
			} else {
				ok = false
				why = append(why, "(false, nil) returned at "+p.InstrPos(in)+" on a path where the parse error is not known to be ErrInvalidFrame")
			}
		default:
			if r.Results[1] == perr {
				sawFalseErr = true
			} else {
				ok = false
				why = append(why, "(false, err) at "+p.InstrPos(in)+" does not return the parse error")
			}
		}
	})
	if !(sawTrue && sawFalseNil && sawFalseErr) {
		ok = false
		why = append(why, fmt.Sprintf("outcome classes present: accept=%v badmagic=%v error=%v", sawTrue, sawFalseNil, sawFalseErr))
	}
	c.Cond(ok, rule, "lz4.ValidFrameHeader#outcomes", pos, "(true,nil) exactly when parsing succeeds, (false,nil) exactly on ErrInvalidFrame, (false,err) otherwise", "three outcome classes, each under its guard", strings.Join(why, "; "))
}

// ---------------------------------------------------------------------------
// R19.6

func ruleContentSize(c *Check, p *Program, rule string) {
	// writers of FrameDescriptor.ContentSize in lz4stream and the Reader side of the root package
	var readWriters []string
	okW := true
	var why []string
	for _, fn := range p.SrcFuncs() {
		if fn.Pkg == nil {
			continue
		}
		path := fn.Pkg.Pkg.Path()
		if path != pkgStream && path != pkgRoot {
			continue
		}
		allInstrs(fn, func(in ssa.Instruction) {
			st, ok := in.(*ssa.Store)
			if !ok || !strings.HasSuffix(lastField(st.Addr), "FrameDescriptor.ContentSize") {
				return
			}
			// option closures (SizeOption) write the field on the write side: they take an applier
			name := fname(fn)
			if strings.Contains(name, "SizeOption") {
				return
			}
			readWriters = append(readWriters, name)
			le := derivesFromCall(st.Val, func(f *ssa.Function) bool {
				return f.Pkg != nil && f.Pkg.Pkg.Path() == "encoding/binary" && f.Name() == "Uint64"
			})
			if !(name == "lz4stream.(*FrameDescriptor).initR" || strings.HasSuffix(name, "FrameDescriptor).initR")) || !le {
				okW = false
				why = append(why, fmt.Sprintf("%s writes ContentSize at %s (value %s)", name, p.InstrPos(in), shortVal(st.Val)))
			}
			if !hasAtom(atomsOfBlock(in.Block()), "flag", "Size", true) {
				okW = false
				why = append(why, "the content-size store at "+p.InstrPos(in)+" is not guarded by the Size flag")
			}
		})
	}
	if len(readWriters) == 0 {
		okW = false
		why = append(why, "no store of the parsed content size found")
	}
	c.Cond(okW, rule, "FrameDescriptor.ContentSize#writers", "", "on the read path the content size is written only by the 8-byte little-endian load in initR under the Size flag", fmt.Sprintf("writers: %v", readWriters), strings.Join(why, "; "))
	// Reader.Size
	fn := p.Func("", "Reader.Size")
	if fn == nil {
		c.Fail(rule, "lz4.Reader.Size", "", "Size must exist", "not found")
		return
	}
	c.Funcs[fname(fn)] = true
	ok := true
	var whyS []string
	sawField := false
	allInstrs(fn, func(in ssa.Instruction) {
		r, isR := in.(*ssa.Return)
		if !isR || len(r.Results) != 1 {
			return
		}
		var check func(v ssa.Value, b *ssa.BasicBlock)
		check = func(v ssa.Value, b *ssa.BasicBlock) {
			if ph, isPhi := v.(*ssa.Phi); isPhi {
				for i, e := range ph.Edges {
					check(e, ph.Block().Preds[i])
				}
				return
			}
			if k, isK := constUint(v); isK && k == 0 {
				return
			}
			inner := v
			if cv, isC := v.(*ssa.Convert); isC {
				inner = cv.X
			}
			if loadField(inner) == "FrameDescriptor.ContentSize" {
				sawField = true
				if !hasAtom(atomsOfBlock(b), "flag", "Size", true) {
					ok = false
					whyS = append(whyS, "content size returned without the Size flag being set")
				}
				// only once a header has been parsed for the current stream (the descriptor survives Reset)
				en := stateEnum(p)
				sv := stateLoadOf(fn)
				if sv == nil {
					ok = false
					whyS = append(whyS, "the content size is returned without looking at the lifecycle state: after Reset the size of the previous frame is reported")
				} else {
					sets := valueSetsAt(fn, sv, sv.(ssa.Instruction).Block(), 8)
					got := sets[b]
					if len(got.intersect(vset{{en["newState"], en["newState"]}, {en["errorState"], en["errorState"]}, {en["noState"], en["noState"]}}.norm())) != 0 {
						ok = false
						whyS = append(whyS, "the content size is returned in states "+got.String()+": before a header has been parsed for this stream the descriptor holds the previous frame's size")
					}
				}
				return
			}
			ok = false
			whyS = append(whyS, "Size returns "+shortVal(v)+" which is neither 0 nor the parsed content size")
		}
		check(r.Results[0], in.Block())
	})
	if !sawField {
		ok = false
		whyS = append(whyS, "Size never returns the parsed content size")
	}
	// once the Size flag is known to be set (in a state where a header has been parsed) the result is the size:
	// no path from the true edge of the flag test to a return of 0
	for _, b := range fn.Blocks {
		ifi, isIf := b.Instrs[len(b.Instrs)-1].(*ssa.If)
		if !isIf {
			continue
		}
		at := atomOf(ifi.Cond, true)
		if at.Kind != "flag" || at.Name != "Size" {
			continue
		}
		tgt := b.Succs[0]
		if !at.Val {
			tgt = b.Succs[1]
		}
		// blocks reachable from the flag-is-set side
		reach := map[*ssa.BasicBlock]bool{}
		stack := []*ssa.BasicBlock{tgt}
		for len(stack) > 0 {
			x := stack[len(stack)-1]
			stack = stack[:len(stack)-1]
			if reach[x] {
				continue
			}
			reach[x] = true
			stack = append(stack, x.Succs...)
		}
		zeroReach := false
		allInstrs(fn, func(in ssa.Instruction) {
			r, isR := in.(*ssa.Return)
			if !isR || len(r.Results) != 1 {
				return
			}
			res := r.Results[0]
			if ph, isPhi := res.(*ssa.Phi); isPhi && ph.Block() == in.Block() {
				for i, e := range ph.Edges {
					if k, isK := constUint(e); isK && k == 0 && reach[ph.Block().Preds[i]] {
						zeroReach = true
					}
				}
				return
			}
			if k, isK := constUint(res); isK && k == 0 && reach[in.Block()] {
				zeroReach = true
			}
		})
		if zeroReach {
			ok = false
			whyS = append(whyS, "with the Size flag set a return of 0 is still reachable: some announced sizes are reported as 'no size'")
		}
	}
	c.Cond(ok, rule, "lz4.Reader.Size", p.Pos(fn.Pos()), "Size returns the parsed content size unchanged (or 0)", "returns are 0 or int(FrameDescriptor.ContentSize) under the Size flag", strings.Join(whyS, "; "))
}

// cellHoldsOnlyParam: the local cell is stored exactly once, with the parameter, and its address is
// otherwise only loaded from or passed to module functions that do not write through that pointer.
func cellHoldsOnlyParam(al *ssa.Alloc, prm *ssa.Parameter) bool {
	if al.Referrers() == nil {
		return false
	}
	stores := 0
	for _, r := range *al.Referrers() {
		switch x := r.(type) {
		case *ssa.Store:
			if x.Addr != ssa.Value(al) || x.Val != ssa.Value(prm) {
				return false
			}
			stores++
		case *ssa.UnOp:
			if x.Op != token.MUL {
				return false
			}
		case *ssa.DebugRef:
		case ssa.CallInstruction:
			f := staticCallee(x)
			if f == nil || !inModule(f) {
				return false
			}
			for i, a := range x.Common().Args {
				if a == ssa.Value(al) && !readOnlyPtrParam(f, i, 2) {
					return false
				}
			}
		default:
			return false
		}
	}
	return stores == 1
}

// readOnlyPtrParam: the function never stores through its i-th (pointer) parameter, directly or in a callee.
func readOnlyPtrParam(f *ssa.Function, i, depth int) bool {
	if f == nil || len(f.Blocks) == 0 || i >= len(f.Params) || depth <= 0 {
		return false
	}
	q := f.Params[i]
	if q.Referrers() == nil {
		return true
	}
	for _, r := range *q.Referrers() {
		switch x := r.(type) {
		case *ssa.UnOp:
			if x.Op != token.MUL {
				return false
			}
		case *ssa.BinOp, *ssa.DebugRef:
		case *ssa.Store:
			return false
		case ssa.CallInstruction:
			g := staticCallee(x)
			if g == nil || !inModule(g) {
				return false
			}
			for j, a := range x.Common().Args {
				if a == ssa.Value(q) && !readOnlyPtrParam(g, j, depth-1) {
					return false
				}
			}
		default:
			return false
		}
	}
	return true
}


// errorfWraps: v is fmt.Errorf(...) with prm among its operands.
func errorfWraps(v ssa.Value, prm ssa.Value) bool {
	call, ok := v.(*ssa.Call)
	if !ok {
		return false
	}
	f := staticCallee(call)
	if f == nil || f.Pkg == nil || f.Pkg.Pkg.Path() != "fmt" || f.Name() != "Errorf" {
		return false
	}
	found := false
	for _, a := range call.Call.Args {
		walkBack(a, false, func(x ssa.Value) bool {
			if x == prm {
				found = true
			}
			if al, isAl := x.(*ssa.Alloc); isAl && al.Referrers() != nil {
				for _, r := range *al.Referrers() {
					if ia, isIA := r.(*ssa.IndexAddr); isIA && ia.Referrers() != nil {
						for _, rr := range *ia.Referrers() {
							if st, isS := rr.(*ssa.Store); isS {
								if mi, isMI := st.Val.(*ssa.MakeInterface); isMI && mi.X == prm {
									found = true
								}
								if st.Val == prm {
									found = true
								}
							}
						}
					}
				}
			}
			return true
		})
	}
	return found
}

// errorfOperands: the operands of a fmt.Errorf call with a constant format, each with the verb that formats it.
// ok is false when the format is not a constant or uses explicit argument indexes or '*' widths.
type errorfOperand struct {
	val  ssa.Value // the value before its conversion to interface{}
	verb byte
}

func errorfOperands(call *ssa.Call) ([]errorfOperand, bool) {
	if !calleeIs(call, "fmt", "Errorf") || len(call.Call.Args) < 2 {
		return nil, false
	}
	k, isK := call.Call.Args[0].(*ssa.Const)
	if !isK || k.Value == nil || k.Value.Kind() != constant.String {
		return nil, false
	}
	format := constant.StringVal(k.Value)
	var verbs []byte
	for i := 0; i < len(format); i++ {
		if format[i] != '%' {
			continue
		}
		i++
		for i < len(format) && strings.IndexByte("+-# 0123456789.", format[i]) >= 0 {
			i++
		}
		if i >= len(format) || format[i] == '[' || format[i] == '*' {
			return nil, false
		}
		if format[i] == '%' {
			continue
		}
		verbs = append(verbs, format[i])
	}
	sl, isS := call.Call.Args[1].(*ssa.Slice)
	if !isS {
		return nil, false
	}
	al, isA := sl.X.(*ssa.Alloc)
	if !isA || al.Referrers() == nil {
		return nil, false
	}
	ops := make([]errorfOperand, len(verbs))
	for _, r := range *al.Referrers() {
		ia, isIA := r.(*ssa.IndexAddr)
		if !isIA || ia.Referrers() == nil {
			continue
		}
		ik, isIK := ia.Index.(*ssa.Const)
		if !isIK {
			return nil, false
		}
		idx := int(ik.Int64())
		for _, rr := range *ia.Referrers() {
			st, isSt := rr.(*ssa.Store)
			if !isSt || idx < 0 || idx >= len(verbs) {
				continue
			}
			v := st.Val
			switch x := v.(type) {
			case *ssa.MakeInterface:
				v = x.X
			case *ssa.ChangeInterface:
				v = x.X
			}
			ops[idx] = errorfOperand{v, verbs[idx]}
		}
	}
	return ops, true
}

// ruleErrorOperandsWrapped: an error handed to fmt.Errorf is formatted with %w. The library reports its conditions
// as sentinels that callers tell apart with errors.Is; the state machine latches the first failure as
// fmt.Errorf("%s: %w", state, err) and hands that to every later call: an error formatted with %v or %s keeps its
// text and loses its identity.
func ruleErrorOperandsWrapped(c *Check, p *Program, rule string) {
	errIface := types.Universe.Lookup("error").Type().Underlying().(*types.Interface)
	n := 0
	for _, path := range []string{pkgRoot, pkgStream, pkgBlock} {
		for _, fn := range moduleFuncs(p, path) {
			for _, ci := range callsIn(fn) {
				call, isCall := ci.(*ssa.Call)
				if !isCall {
					continue
				}
				ops, ok := errorfOperands(call)
				if !ok {
					continue
				}
				for i, op := range ops {
					if op.val == nil || !types.Implements(op.val.Type(), errIface) {
						continue
					}
					n++
					c.Sites++
					c.Cond(op.verb == 'w', rule, fmt.Sprintf("%s#errorf-operand#%d", shortFn(fn), i+1), p.InstrPos(ci), "an error that becomes part of another error is wrapped (%w): callers, and later calls that return the latched error, recognise the cause with errors.Is", "verb %w", fmt.Sprintf("the error operand %s is formatted with %%%c: the resulting error has the same text but no longer matches its cause (an invalid header checksum and an invalid block size become indistinguishable by identity on every call after the first)", shortVal(op.val), op.verb))
				}
			}
		}
	}
	if n == 0 {
		c.Fail(rule, "errorf-operands", "", "error operands of fmt.Errorf are resolved", "no fmt.Errorf call with an error operand found (anchor unresolved)")
	}
}
