package main

func init() { register("C04", checkC04) }

func checkC04(c *Check) {
	c.Explain = "Shape-visible clauses of the block format, decided by the bounds prover on both decoders: (R04.1) wherever the 16-bit offset is used as a distance it is proven >= 1 (zero offsets are rejected first); (R04.2) a success return implies the read cursor is exactly at the end of the source (no trailing bytes accepted, no sequence read past the end); (R04.3) 'offset before the dictionary' and 'more output than dst holds' are errors: these are the in-bounds obligations on dict and dst (an absent check would make the access unprovable); (R04.4) a block may end right after a match: when the assembly's loop test falls through to `end`, the pending length register is 0; (R04.5) the dictionary-underflow error is raised only when the match needs more dictionary bytes than exist; (R04.6) the explicit error exits of the portable decoder are exactly the format violations (guard table)."
	c.Uncov = []string{"byte-exact output", "independence of the result from stale destination bytes (relational information flow)", "arm/arm64 assembly"}
	c.Assume = []string{"a non-nil slice has base >= 4096 and base+len <= 2^47; lengths are non-negative", "runtime.memmove preserves its argument slots and clobbers every register"}
	c.Trusted = append(trustedSSA, "exact simplex and template-polyhedra engine in /verif/tool/ebnd_*.go", "Plan 9 amd64 semantics table of the front end")
	for k, v := range map[string]string{"R04.1": "offset >= 1 at every distance use", "R04.2": "source fully consumed on success", "R04.3": "dict/dst bounds = format errors", "R04.4": "block may end after a match", "R04.5": "dictionary error exit justified", "R04.6": "portable decoder error exits"} {
		c.RuleDoc[k] = v
	}
	p := loadOrTrouble(c, cfgAMD64)
	if p == nil {
		return
	}
	cases := []asmCase{{false, false}, {false, true}}
	if !dstNonNilAtCallSite(c, p, "R04.3") {
		// a nil destination can reach the assembly: its limits are derived from the pointer, so those cases count too
		cases = append(cases, asmCase{true, false}, asmCase{true, true})
	}
	runAsm(c, p, cases, map[string]string{"offset": "R04.1", "consumed": "R04.2", "access": "R04.3", "blockend": "R04.4", "exit": "R04.5", "nowrap32": "R04.8"})
	c.RuleDoc["R04.8"] = "assembly: 32-bit arithmetic on lengths and positions does not wrap (no instance on the current tree: all length arithmetic is 64-bit)"
	portableDecoderRules(c, "R04")
	ruleObservationalCollapse(c, "R04.10")
	c.RuleDoc["R04.10"] = "= R12.2: UncompressBlock reports success exactly for the decoder's non-negative results (0 included: a block may decode to nothing) and returns the count unchanged"
}
