package main

import (
	"fmt"

	"golang.org/x/tools/go/ssa"
)

func init() { register("C17", checkC17) }

func checkC17(c *Check) {
	c.Explain = "Lifecycle rules read off the state tables and the per-method dispatch: the set of states each object can be in is the closure of its transition table (literal in the package initialiser) plus errorState; for every public method the value set of the state word at each ErrInternalUnhandledState exit is computed and must be disjoint from it (R17.1); Close and the end of stream perform their terminal transitions (R17.2); configuration fields are written only by Option closures, hence persist across Reset (R17.3); Reset re-arms state, frame and stream unconditionally (R17.4); Blocks.close always clears the error latch so that a Reset object starts clean (R17.5); the shutdown sentinel never targets a goroutine that is gone (R17.6); data is emitted in call order: Close flushes before the trailer, a caller buffer is compressed in place only when nothing is pending (R17.7)."
	c.Uncov = []string{"the bytes emitted per call sequence; 'indistinguishable from new' beyond the fields covered by R17.3/R17.4", "sequences longer than one transition are covered by the per-state tables, not enumerated"}
	c.Trusted = trustedSSA
	for k, v := range map[string]string{"R17.1": "dispatch totality per reachable state", "R17.2": "terminal transitions", "R17.3": "option fields written only by Option closures", "R17.4": "Reset re-arms", "R17.5": "Blocks.close clears the latch", "R17.6": "sentinel needs a live goroutine", "R17.7": "call order of data"} {
		c.RuleDoc[k] = v
	}
	p := loadOrTrouble(c, cfgAMD64)
	if p == nil {
		return
	}
	ruleDispatchTotal(c, p, "R17.1")
	ruleTerminalTransitions(c, p, "R17.2")
	ruleOptionFields(c, p, "R17.3")
	ruleResetRearms(c, p, "R17.4")
	ruleBlocksCloseLatch(c, p, "R17.5")
	ruleLiveness(c, p, "R17.6")
	ruleCloseFlushes(c, p, "R17.7")
	ruleDirectWrite(c, p, "R17.7")
	ruleBuffersRefetched(c, p, "R17.8", "Writer", "Reader", "CompressingReader")
	ruleStreamFieldsRearmed(c, p, "R17.9")
	c.RuleDoc["R17.14"] = "Size() reports a content size only once a header has been parsed for the current stream (= the Size part of R19.6): a Reset Reader is like a new one"
	c.only(func(k string) bool { return k == "lz4.Reader.Size" }, func() { ruleContentSize(c, p, "R17.14") })
	ruleStickyError(c, p, "R17.16")
	c.RuleDoc["R17.16"] = "a failed object stays failed: returns reachable in errorState yield the latched error"
	ruleNoDoubleRelease(c, p, "R17.17", "Writer", "Reader")
	c.RuleDoc["R17.17"] = "= R08.16 for Writer and Reader (a Reset object does not hold a buffer it has already released)"
	ruleObserversPure(c, p, "R17.15")
	c.RuleDoc["R17.15"] = "observer methods (Size, isNotConcurrent, ErrorR, isLegacy) read no stream and change no field"
	ruleWritesFailAfterClose(c, p, "R17.13")
	c.RuleDoc["R17.13"] = "after Close, Write and ReadFrom return a non-nil error"
	rulePendingConsumedOnce(c, p, "R17.12")
	c.RuleDoc["R17.12"] = "pending bytes are emitted once and before anything submitted later (= R02.13)"
	ruleNestedRearm(c, p, "R17.11")
	c.RuleDoc["R17.11"] = "struct-valued fields re-initialised through their own method are re-initialised completely"
	ruleInitTransition(c, p, "R17.10")
	ruleCloseWAlwaysCloses(c, p, "R17.19")
	c.RuleDoc["R17.19"] = "= R08.15: Close waits for the block pipeline on every path (legacy frames included): data accepted before Close is in the sink when Close returns"
	ruleContentHashDiscipline(c, p, "R17.21")
	c.RuleDoc["R17.21"] = "= R02.11: the running content hash is reset where a frame starts and nowhere else (a reset before the pipeline is drained lets blocks of the abandoned frame into the next frame's checksum)"
	ruleReaderDst(c, p, "R17.20")
	c.RuleDoc["R17.20"] = "= R02.6: every block is decoded into the whole block buffer, whatever the previous block left in the slice header"
	ruleWriteToStartsFresh(c, p, "R17.22")
	c.RuleDoc["R17.22"] = "WriteTo does not resume a stream that Read has started (the pending part of the current block would be lost)"
	ruleHandOff(c, p, "R17.23")
	c.RuleDoc["R17.23"] = "= R02.5: a buffer handed to a compression goroutine is replaced before the Writer writes into it again (accepted data is emitted once, as accepted)"
	ruleTerminalStatesStay(c, p, "R17.18")
	c.RuleDoc["R17.18"] = "terminal states are left only by Reset: no transition is registered or performed while the state word may be closedState (or errorState for deferred transitions)"
	c.RuleDoc["R17.10"] = "the first-use initialisation is followed by the state transition on every path"
	c.RuleDoc["R17.8"] = "block-sized buffers are re-fetched from the current block size at frame start"
	c.RuleDoc["R17.9"] = "per-stream fields written by the data path are re-initialised by init or Reset"
}

// ruleInitTransition: in every method that performs the lazy first-use initialisation (a call reaching Writer.init or
// Reader.init), no return is reachable after that call without the state transition (_State.next, directly or in a
// callee, or a plain store to the state word). A successful init that leaves the object in newState would run init
// again on the next call (a second frame header, a second header parse).
func ruleInitTransition(c *Check, p *Program, rule string) {
	n := 0
	for _, owner := range []string{"Writer", "Reader"} {
		for _, fn := range p.SrcFuncs() {
			if fn.Name() == "init" || recvTypeName(fn) != owner || fn.Pkg == nil || fn.Pkg.Pkg.Path() != pkgRoot {
				continue
			}
			for _, ci := range callsIn(fn) {
				if !calleeIs(ci, pkgRoot, owner+".init") {
					continue
				}
				if _, isGo := ci.(*ssa.Go); isGo {
					continue
				}
				n++
				isTrans := func(in ssa.Instruction) bool {
					if cj, ok := in.(ssa.CallInstruction); ok {
						if _, isDefer := cj.(*ssa.Defer); isDefer {
							return false
						}
						return callReaches(cj, func(x ssa.CallInstruction) bool { return calleeIs(x, pkgRoot, "_State.next") })
					}
					if st, ok := in.(*ssa.Store); ok && lastField(st.Addr) == "_State.state" {
						return true
					}
					return false
				}
				// a deferred transition covers every return
				deferred := false
				for _, cj := range callsIn(fn) {
					if d, ok := cj.(*ssa.Defer); ok && callReaches(d, func(x ssa.CallInstruction) bool { return calleeIs(x, pkgRoot, "_State.next") }) {
						deferred = true
					}
				}
				miss := false
				if !deferred {
					miss, _ = reachAvoid(fn, ci.(ssa.Instruction), isReturn, isTrans)
				}
				c.Cond(!miss, rule, owner+"."+fn.Name()+"#init-then-transition", p.InstrPos(ci), "after the first-use init the object leaves newState on every path (error or not)", "every path from init() to a return passes _State.next", "a return is reachable after init() without a state transition: the object stays in newState and the next call initialises again (the frame header is written or parsed twice)")
			}
		}
	}
	c.Cond(n >= 2, rule, "init-call-sites", "", "the lazy initialisation sites were found", fmt.Sprintf("%d call sites of init", n), fmt.Sprintf("only %d call sites of Writer.init/Reader.init found (expected at least one per object)", n))
}
