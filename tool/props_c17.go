package main

func init() { register("C17", checkC17) }

func checkC17(c *Check) {
	c.Explain = "Lifecycle rules read off the state tables and the per-method dispatch: the set of states each object can be in is the closure of its transition table (literal in the package initialiser) plus errorState; for every public method the value set of the state word at each ErrInternalUnhandledState exit is computed and must be disjoint from it (R17.1); Close and the end of stream perform their terminal transitions (R17.2); configuration fields are written only by Option closures, hence persist across Reset (R17.3); Reset re-arms state, frame and stream unconditionally (R17.4); Blocks.close always clears the error latch so that a Reset object starts clean (R17.5); the shutdown sentinel never targets a goroutine that is gone (R17.6); data is emitted in call order: Close flushes before the trailer, a caller buffer is compressed in place only when nothing is pending (R17.7)."
	c.Uncov = []string{"the bytes emitted per call sequence; 'indistinguishable from new' beyond the fields covered by R17.3/R17.4", "that writes after Close return a non-nil error (the closed arm returns the latched error, which is nil after a clean Close)", "sequences longer than one transition are covered by the per-state tables, not enumerated"}
	c.Trusted = trustedSSA
	for k, v := range map[string]string{"R17.1": "dispatch totality per reachable state", "R17.2": "terminal transitions", "R17.3": "option fields written only by Option closures", "R17.4": "Reset re-arms", "R17.5": "Blocks.close clears the latch", "R17.6": "sentinel needs a live goroutine", "R17.7": "call order of data"} {
		c.RuleDoc[k] = v
	}
	p := loadOrTrouble(c, cfgAMD64)
	if p == nil {
		return
	}
	ruleDispatchTotal(c, p, "R17.1")
	ruleTerminalTransitions(c, p, "R17.2")
	ruleOptionFields(c, p, "R17.3")
	ruleResetRearms(c, p, "R17.4")
	ruleBlocksCloseLatch(c, p, "R17.5")
	ruleLiveness(c, p, "R17.6")
	ruleCloseFlushes(c, p, "R17.7")
	ruleDirectWrite(c, p, "R17.7")
	ruleBuffersRefetched(c, p, "R17.8", "Writer", "Reader", "CompressingReader")
	ruleStreamFieldsRearmed(c, p, "R17.9")
	c.RuleDoc["R17.8"] = "block-sized buffers are re-fetched from the current block size at frame start"
	c.RuleDoc["R17.9"] = "per-stream fields written by the data path are re-initialised by init or Reset"
}
