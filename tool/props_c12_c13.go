package main

import (
	"fmt"
	"go/constant"
	"go/token"
	"go/types"
	"regexp"
	"sort"
	"strings"

	"golang.org/x/tools/go/ssa"
)

func init() {
	register("C13", checkC13)
}

// ---------------------------------------------------------------------------
// C13: XXH32 structure

const (
	xPrime1 = 2654435761
	xPrime2 = 2246822519
	xPrime3 = 3266489917
	xPrime4 = 668265263
	xPrime5 = 374761393
)

// rotOf recognises a rotate-left helper (u<<k | u>>(32-k)) or bits.RotateLeft32
// call and returns k.
func rotOf(call *ssa.Call) (int, ssa.Value, bool) {
	f := staticCallee(call)
	if f == nil {
		return 0, nil, false
	}
	if f.Pkg != nil && f.Pkg.Pkg.Path() == "math/bits" && f.Name() == "RotateLeft32" && len(call.Call.Args) == 2 {
		if k, ok := constUint(call.Call.Args[1]); ok {
			return int(k), call.Call.Args[0], true
		}
		return 0, nil, false
	}
	if f.Blocks == nil || len(f.Params) != 1 || len(f.Blocks) != 1 {
		return 0, nil, false
	}
	ret, ok := f.Blocks[0].Instrs[len(f.Blocks[0].Instrs)-1].(*ssa.Return)
	if !ok || len(ret.Results) != 1 {
		return 0, nil, false
	}
	or, ok := ret.Results[0].(*ssa.BinOp)
	if !ok || (or.Op != token.OR && or.Op != token.XOR && or.Op != token.ADD) {
		return 0, nil, false
	}
	l, ok1 := or.X.(*ssa.BinOp)
	r, ok2 := or.Y.(*ssa.BinOp)
	if !ok1 || !ok2 {
		return 0, nil, false
	}
	if l.Op == token.SHR {
		l, r = r, l
	}
	if l.Op != token.SHL || r.Op != token.SHR || l.X != f.Params[0] || r.X != f.Params[0] {
		return 0, nil, false
	}
	a, okA := constUint(l.Y)
	b, okB := constUint(r.Y)
	if !okA || !okB || a+b != 32 || widthOf(f.Params[0].Type()) != 32 {
		return 0, nil, false
	}
	return int(a), call.Call.Args[0], true
}

// canonSubst: parameter substitutions of helpers being expanded by canon.
var canonSubst []map[ssa.Value]string

// canon renders the expression tree of v in a canonical form: commutative
// operands sorted, rotates recognised, loads and phis abstracted.
func canon(v ssa.Value, depth int) string {
	if depth > 12 {
		return "…"
	}
	switch x := v.(type) {
	case *ssa.Const:
		if x.Value != nil && x.Value.Kind() == constant.Int {
			return x.Value.ExactString()
		}
		return "k"
	case *ssa.BinOp:
		a, b := canon(x.X, depth+1), canon(x.Y, depth+1)
		switch x.Op {
		case token.ADD, token.MUL, token.XOR, token.OR, token.AND:
			if a > b {
				a, b = b, a
			}
		}
		return "(" + a + x.Op.String() + b + ")"
	case *ssa.Call:
		if k, arg, ok := rotOf(x); ok {
			return fmt.Sprintf("rol%d[%s]", k, canon(arg, depth+1))
		}
		if f := staticCallee(x); f != nil && f.Pkg != nil && f.Pkg.Pkg.Path() == "encoding/binary" {
			return "le" + strings.TrimPrefix(f.Name(), "Uint")
		}
		if b, ok := x.Call.Value.(*ssa.Builtin); ok {
			return b.Name()
		}
		// a pure straight-line helper of the module (e.g. a "round" function): its result
		// expression with the arguments substituted
		if f := staticCallee(x); inModule(f) && len(f.Blocks) == 1 && len(f.Params) == len(x.Call.Args) && pureCallee(f) {
			if ret, ok := f.Blocks[0].Instrs[len(f.Blocks[0].Instrs)-1].(*ssa.Return); ok && len(ret.Results) == 1 {
				env := map[ssa.Value]string{}
				for i, prm := range f.Params {
					env[prm] = canon(x.Call.Args[i], depth+1)
				}
				canonSubst = append(canonSubst, env)
				r := canon(ret.Results[0], depth+1)
				canonSubst = canonSubst[:len(canonSubst)-1]
				return r
			}
		}
		return "call"
	case *ssa.Convert:
		inner := canon(x.X, depth+1)
		if widthOf(x.Type()) < widthOf(x.X.Type()) {
			return fmt.Sprintf("u%d[%s]", widthOf(x.Type()), inner)
		}
		if strings.HasPrefix(inner, "ld") || inner == "byte" {
			return "byte"
		}
		return inner
	case *ssa.Phi:
		return "φ"
	case *ssa.UnOp:
		if x.Op == token.MUL {
			if _, ok := x.X.(*ssa.IndexAddr); ok {
				if widthOf(x.Type()) == 8 {
					return "byte"
				}
				return "ld[]"
			}
			return "ld"
		}
		return x.Op.String() + canon(x.X, depth+1)
	case *ssa.Parameter:
		if n := len(canonSubst); n > 0 {
			if e, ok := canonSubst[n-1][x]; ok {
				return e
			}
		}
		return "p"
	case *ssa.Extract:
		return "x"
	}
	return "?"
}

func allExprs(fn *ssa.Function) map[string]bool {
	out := map[string]bool{}
	allInstrsDeep(fn, func(in ssa.Instruction) {
		if v, ok := in.(ssa.Value); ok {
			switch v.(type) {
			case *ssa.BinOp, *ssa.Call:
				out[canon(v, 0)] = true
			}
		}
	})
	return out
}

func containsExpr(set map[string]bool, sub string) bool {
	// "*K)" also matches "(K*": operands of commutative operators are sorted
	alt := ""
	if strings.HasPrefix(sub, "*") && strings.HasSuffix(sub, ")") {
		alt = "(" + strings.TrimSuffix(strings.TrimPrefix(sub, "*"), ")") + "*"
	}
	if strings.HasPrefix(sub, "*") && !strings.HasSuffix(sub, ")") {
		alt = "(" + strings.TrimPrefix(sub, "*") + "*"
	}
	for e := range set {
		if strings.Contains(e, sub) || (alt != "" && strings.Contains(e, alt)) {
			return true
		}
	}
	return false
}

func checkC13(c *Check) {
	c.Explain = "Structure of the XXH32 implementation against the specification: (R13.1) no ordering comparison takes a narrowed copy of the 64-bit running length; (R13.2) the running length is a 64-bit field only ever increased by the written length; (R13.3) primes and the per-phase rotations and multipliers (lanes: rol13/prime2/prime1; merge: rol1,7,12,18; 4-byte tail: prime3, rol17, prime4; byte tail: prime5, rol11, prime1; avalanche 15/prime2/13/prime3/16) appear with these constants in the streaming and the one-shot code; seeds of the four lanes; (R13.4) exactly one definition of update/ChecksumZero per build configuration; (R13.5) the streaming buffer is hashed only when full and never holds 16 bytes between calls (linear relation between the guard and the buffer arithmetic)."
	c.Uncov = []string{"equality with the reference XXH32 for all inputs and chunkings (value-level)", "xxh32zero_arm.s (32-bit ARM assembly is not analysed)"}
	c.Trusted = trustedSSA
	for k, v := range map[string]string{"R13.1": "full-width length in ordering comparisons", "R13.2": "length bookkeeping", "R13.3": "constants per phase", "R13.4": "build partition", "R13.5": "streaming buffer discipline"} {
		c.RuleDoc[k] = v
	}
	for _, cfg := range []Config{cfgAMD64} {
		p := loadOrTrouble(c, cfg)
		if p == nil {
			return
		}
		ruleXXHLength(c, p)
		ruleXXHConstants(c, p)
		ruleXXHThreshold(c, p, "R13.6")
		ruleContentHashDiscipline(c, p, "R13.7")
		c.RuleDoc["R13.8"] = "the header check byte is bits 8..15 of the hash of the whole descriptor (everything after the magic)"
		c.only(func(k string) bool { return strings.HasPrefix(k, "descriptorChecksum#") || strings.HasPrefix(k, "FrameDescriptor.Write#hash-range") }, func() { ruleDescriptorConstants(c, p, "R13.8") })
		c.RuleDoc["R13.9"] = "a buffer whose bytes are still to be hashed by the ordered path is not released to the pool (the compression worker releases its source only after the final receive)"
		c.only(func(k string) bool { return strings.HasPrefix(k, "Writer.write.worker#") }, func() { ruleReleaseAfterUse(c, p, "R13.9") })
		c.RuleDoc["R13.7"] = "the frame's streaming hash state is fed in stream order only and reset at frame start only"
		c.RuleDoc["R13.6"] = "short-input threshold is exactly 16 bytes"
		ruleXXHBuffer(c, p)
		c.RuleDoc["R13.10"] = "the stages of XXH32 consume their input exactly: stride loops continue only with a whole unit and stop only without one (bounds prover); no index of the hash code can panic"
		ruleXXHConsumption(c, p, "R13.10")
		c.RuleDoc["R13.11"] = "the lazy initialisation in Write is governed by the running length being 0 alone"
		ruleXXHLazyInit(c, p, "R13.11")
		c.RuleDoc["R13.13"] = "= R02.7/R08.13: what the content hash will read is never the caller's buffer once Write has returned (in-place compression only in sequential mode)"
		ruleDirectWrite(c, p, "R13.13")
		ruleBlockChecksumVerified(c, p, "R13.14")
		c.RuleDoc["R13.14"] = "= R05.2: with block checksums declared, every accepting return of Uncompress lies behind the comparison of the recomputed XXH32 with the stored word, for stored and compressed blocks alike"
		ruleBlockChecksumOnEveryPath(c, p, "R13.15")
		ruleXXHZeroExtends(c, p, "R13.17")
		c.RuleDoc["R13.17"] = "the hash code widens input bytes and words by zero extension only (no uint32(int8(b)))"
		ruleObserversPureOf(c, p, "R13.16", []obsSpec{{"internal/xxh32", "XXHZero.Sum32"}}, 1)
		c.RuleDoc["R13.16"] = "reading the digest does not change the running state (Sum32 stores to no field, directly, deferred or in a callee): a digest read twice, or read and then extended, stays the XXH32 of everything written"
		c.RuleDoc["R13.15"] = "= R02.22: every path through Compress decides (and where declared stores) the block checksum"
		c.RuleDoc["R13.12"] = "= R09.3 (content part): what is fed to the content hash is the uncompressed source of the block being written, recorded unconditionally by Compress"
		c.only(func(k string) bool { return strings.HasPrefix(k, "Write#contentchecksum") }, func() { ruleChecksumCoverage(c, p, "R13.12") })
	}
	checkPartition(c, "R13.4", "internal/xxh32", []string{"ChecksumZero", "update"}, []string{"gc"})
}

func ruleXXHLength(c *Check, p *Program) {
	pkg := p.Pkg("internal/xxh32")
	if pkg == nil {
		c.TroubleF("xxh32 package not loaded")
		return
	}
	// R13.2: field width
	obj := pkg.Pkg.Scope().Lookup("XXHZero")
	okW := false
	if obj != nil {
		if st, ok := obj.Type().Underlying().(*types.Struct); ok {
			for i := 0; i < st.NumFields(); i++ {
				if st.Field(i).Name() == "totalLen" {
					if b, isB := st.Field(i).Type().Underlying().(*types.Basic); isB && b.Kind() == types.Uint64 {
						okW = true
					}
				}
			}
		}
	}
	c.Cond(okW, "R13.2", "XXHZero.totalLen#width", "internal/xxh32/xxh32zero.go", "the running length is a 64-bit unsigned field", "uint64", "totalLen is not uint64")
	// stores to totalLen: reset to 0 or += uint64(len(input))
	for _, fn := range moduleFuncs(p, pkgXXH) {
		allInstrs(fn, func(in ssa.Instruction) {
			st, ok := in.(*ssa.Store)
			if !ok || lastField(st.Addr) != "XXHZero.totalLen" {
				return
			}
			c.Sites++
			key := "XXHZero.totalLen#store-in-" + shortFn(fn)
			if k, isK := constUint(st.Val); isK && k == 0 {
				c.OK("R13.2", key, p.InstrPos(in), "totalLen is reset to 0", "constant 0", true)
				return
			}
			good := false
			if b, isB := st.Val.(*ssa.BinOp); isB && b.Op == token.ADD && loadField(b.X) == "XXHZero.totalLen" {
				if cv, isC := b.Y.(*ssa.Convert); isC && widthOf(cv.Type()) == 64 {
					if call, isCall := cv.X.(*ssa.Call); isCall {
						if bi, isBi := call.Call.Value.(*ssa.Builtin); isBi && bi.Name() == "len" {
							good = true
						}
					}
				}
			}
			c.Cond(good, "R13.2", key, p.InstrPos(in), "totalLen is only increased by the 64-bit length of the written input", "totalLen += uint64(len(input))", "totalLen is assigned "+shortVal(st.Val))
		})
	}
	// R13.1: comparisons on narrowed length
	for _, fn := range moduleFuncs(p, pkgXXH) {
		allInstrs(fn, func(in ssa.Instruction) {
			b, ok := in.(*ssa.BinOp)
			if !ok {
				return
			}
			switch b.Op {
			case token.LSS, token.LEQ, token.GTR, token.GEQ:
			default:
				return
			}
			for _, opnd := range []ssa.Value{b.X, b.Y} {
				narrowed := false
				walkBack(opnd, true, func(v ssa.Value) bool {
					if cv, isC := v.(*ssa.Convert); isC && widthOf(cv.Type()) < 64 && loadField(cv.X) == "XXHZero.totalLen" {
						narrowed = true
					}
					return !narrowed
				})
				if narrowed {
					c.Sites++
					c.Fail("R13.1", shortFn(fn)+"#ordering-on-narrowed-length", p.InstrPos(in), "the choice between the short-input and the four-lane formula sees the full 64-bit length", "an ordering comparison uses the running length truncated to 32 bits: totals of 2^32 .. 2^32+15 (mod 2^32) select the short-input formula")
				}
			}
		})
	}
	// positive: Sum32 compares the full length with 16
	if sf := p.Func("internal/xxh32", "XXHZero.Sum32"); sf != nil {
		c.Funcs[fname(sf)] = true
		ok := false
		fullLen := func(v ssa.Value) bool {
			// the 64-bit running length itself (the field, or a parameter that receives it), not a narrowed copy
			return widthOf(v.Type()) == 64 && (loadField(v) == "XXHZero.totalLen" || derivesFromFieldWide(v, "XXHZero.totalLen"))
		}
		allInstrsDeep(sf, func(in ssa.Instruction) {
			if b, isB := in.(*ssa.BinOp); isB && (b.Op == token.GEQ || b.Op == token.LSS) && fullLen(b.X) {
				if k, isK := constUint(b.Y); isK && k == 16 {
					ok = true
				}
			}
		})
		c.Cond(ok, "R13.1", "XXHZero.Sum32#length-test", p.Pos(sf.Pos()), "Sum32 selects the formula by comparing the 64-bit total length with 16", "totalLen >= 16 on the uint64 field", "no comparison of the full totalLen with 16 in Sum32")
		// the low 32 bits of the length are what is added to the hash
		ok2 := containsExpr(allExprs(sf), "u32[ld]")
		if !ok2 {
			allInstrsDeep(sf, func(in ssa.Instruction) {
				if cv, isC := in.(*ssa.Convert); isC && widthOf(cv.Type()) == 32 && fullLen(cv.X) {
					ok2 = true
				}
			})
		}
		c.Cond(ok2, "R13.1", "XXHZero.Sum32#length-added-mod-2^32", p.Pos(sf.Pos()), "the length enters the hash modulo 2^32 (uint32(totalLen))", "uint32(totalLen) found", "no uint32(totalLen) term")
	}
}

func ruleXXHConstants(c *Check, p *Program) {
	pkg := p.Pkg("internal/xxh32")
	if pkg == nil {
		return
	}
	want := map[string]uint64{"prime1": xPrime1, "prime2": xPrime2, "prime3": xPrime3, "prime4": xPrime4, "prime5": xPrime5}
	var names []string
	for n := range want {
		names = append(names, n)
	}
	sort.Strings(names)
	for _, n := range names {
		okC := false
		if cst, ok := pkg.Pkg.Scope().Lookup(n).(*types.Const); ok {
			if v, exact := constant.Uint64Val(cst.Val()); exact && v == want[n] {
				okC = true
			}
		}
		c.Cond(okC, "R13.3", "xxh32."+n, "internal/xxh32/xxh32zero.go", fmt.Sprintf("%s = %d (XXH32 specification)", n, want[n]), "constant matches", "constant "+n+" differs from the specification or is missing")
	}
	lane := fmt.Sprintf("(%d*rol13[", uint64(xPrime1))
	laneIn := fmt.Sprintf("*%d)", uint64(xPrime2))
	type req struct {
		fn    string
		key   string
		subs  []string
		count int
		desc  string
	}
	p1, p2, p3, p4, p5 := fmt.Sprint(uint64(xPrime1)), fmt.Sprint(uint64(xPrime2)), fmt.Sprint(uint64(xPrime3)), fmt.Sprint(uint64(xPrime4)), fmt.Sprint(uint64(xPrime5))
	_ = p2
	reqs := []req{
		{"updateGo", "lanes", []string{lane, laneIn}, 0, "lane round: v = rol13(v + x*prime2) * prime1"},
		{"checksumZeroGo", "lanes", []string{lane, laneIn}, 0, "lane round: v = rol13(v + x*prime2) * prime1"},
		{"XXHZero.Sum32", "merge", []string{"rol1[", "rol7[", "rol12[", "rol18["}, 0, "lane merge: rol1(v1)+rol7(v2)+rol12(v3)+rol18(v4)"},
		{"checksumZeroGo", "merge", []string{"rol1[", "rol7[", "rol12[", "rol18["}, 0, "lane merge: rol1(v1)+rol7(v2)+rol12(v3)+rol18(v4)"},
		{"XXHZero.Sum32", "tail4", []string{"(" + p4 + "*rol17[", "*" + p3 + ")"}, 0, "4-byte tail: h = rol17(h + x*prime3) * prime4"},
		{"checksumZeroGo", "tail4", []string{"(" + p4 + "*rol17[", "*" + p3 + ")"}, 0, "4-byte tail: h = rol17(h + x*prime3) * prime4"},
		{"XXHZero.Sum32", "tail1", []string{"(" + p1 + "*rol11[", "*" + p5 + ")"}, 0, "byte tail: h = rol11(h + b*prime5) * prime1"},
		{"checksumZeroGo", "tail1", []string{"(" + p1 + "*rol11[", "*" + p5 + ")"}, 0, "byte tail: h = rol11(h + b*prime5) * prime1"},
		{"XXHZero.Sum32", "avalanche", []string{">>15)", ">>13)", ">>16)", "*" + p2, "*" + p3}, 0, "avalanche: h^=h>>15; h*=prime2; h^=h>>13; h*=prime3; h^=h>>16"},
		{"checksumZeroGo", "avalanche", []string{">>15)", ">>13)", ">>16)", "*" + p2, "*" + p3}, 0, "avalanche: h^=h>>15; h*=prime2; h^=h>>13; h*=prime3; h^=h>>16"},
		{"XXHZero.Sum32", "short", []string{p5}, 0, "short input: h = len + prime5"},
		{"checksumZeroGo", "short", []string{p5}, 0, "short input: h = len + prime5"},
	}
	for _, r := range reqs {
		fn := findFn(c, p, "R13.3", "internal/xxh32", r.fn)
		if fn == nil {
			continue
		}
		ex := allExprs(fn)
		var missing []string
		for _, s := range r.subs {
			if !containsExpr(ex, s) {
				missing = append(missing, s)
			}
		}
		c.Sites++
		c.Cond(len(missing) == 0, "R13.3", r.fn+"#"+r.key, p.Pos(fn.Pos()), r.desc, "expression shapes found in the SSA expression trees", "expression shape(s) not found: "+strings.Join(missing, ", "))
	}
	// avalanche order in Sum32 / checksumZeroGo: ((((h ^ h>>15) * p2) ^ >>13) * p3) ^ >>16 : check nesting via one canonical string
	for _, name := range []string{"XXHZero.Sum32", "checksumZeroGo"} {
		fn := p.Func("internal/xxh32", name)
		if fn == nil {
			continue
		}
		ok := false
		allInstrsDeep(fn, func(in ssa.Instruction) {
			r, isR := in.(*ssa.Return)
			if !isR || len(r.Results) != 1 {
				return
			}
			s := canon(r.Results[0], 0)
			i15 := strings.Index(s, ">>15)")
			i13 := strings.LastIndex(s, ">>13)")
			i16 := strings.LastIndex(s, ">>16)")
			// outermost operation is the xor with >>16; >>13 nested inside; >>15 innermost
			if i15 >= 0 && i13 >= 0 && i16 >= 0 && strings.HasSuffix(s, ">>16))") || (i16 >= 0 && strings.HasPrefix(s, "((")) {
				d16 := depthAt(s, i16)
				d13 := depthAt(s, i13)
				d15 := depthAt(s, i15)
				if d16 < d13 && d13 < d15 {
					ok = true
				}
			}
		})
		c.Cond(ok, "R13.3", name+"#avalanche-order", p.Pos(fn.Pos()), "the avalanche steps are nested in the order 15, 13, 16", "nesting depth of the three shifts in the returned expression", "the shifts 15/13/16 are not nested in that order in the returned expression")
	}
	// lane seeds in Reset and in the one-shot
	if rf := p.Func("internal/xxh32", "XXHZero.Reset"); rf != nil {
		seeds := map[uint64]bool{}
		allInstrs(rf, func(in ssa.Instruction) {
			if st, ok := in.(*ssa.Store); ok {
				if k, isK := constUint(st.Val); isK {
					seeds[k&0xffffffff] = true
				}
			}
		})
		want := []uint64{(xPrime1 + xPrime2) & 0xffffffff, xPrime2, 0, (1 << 32) - xPrime1}
		ok := true
		for _, w := range want {
			if !seeds[w] {
				ok = false
			}
		}
		c.Cond(ok, "R13.3", "XXHZero.Reset#seeds", p.Pos(rf.Pos()), "lane seeds for seed 0: prime1+prime2, prime2, 0, -prime1", "all four constants stored", "lane seeds differ from {prime1+prime2, prime2, 0, -prime1}")
	}
	// stride checks: lanes consume 16 bytes per round, tail 4 and 1
	if uf := p.Func("internal/xxh32", "updateGo"); uf != nil {
		ex := allExprs(uf)
		c.Cond(containsExpr(ex, "le32") , "R13.3", "updateGo#little-endian-words", p.Pos(uf.Pos()), "lanes read little-endian 32-bit words", "binary.LittleEndian.Uint32", "no little-endian 32-bit reads")
	}
}

func depthAt(s string, i int) int {
	d := 0
	for k := 0; k < i && k < len(s); k++ {
		switch s[k] {
		case '(', '[':
			d++
		case ')', ']':
			d--
		}
	}
	return d
}

// R13.5: Write's buffering: structural part (the numeric part is decided by the
// bounds prover when available): the early-return guard compares the input
// length with the free space of the buffer, i.e. (n < len(buf) - bufused).
func ruleXXHBuffer(c *Check, p *Program) {
	fn := findFn(c, p, "R13.5", "internal/xxh32", "XXHZero.Write")
	if fn == nil {
		return
	}
	// find the If whose true edge leads to the "stash and return" block (a return without calling update)
	var upd ssa.Instruction
	for _, ci := range callsInDeep(fn) {
		if f := staticCallee(ci); f != nil && f.Name() == "update" {
			upd = ci
		}
	}
	if upd == nil {
		c.Fail("R13.5", "XXHZero.Write#update-call", p.Pos(fn.Pos()), "Write processes full 16-byte blocks through update", "no call of update")
		return
	}
	lin := newLinCtx()
	ok := false
	why := "no guard of the form n < len(buf) - bufused dominates the block processing"
	lits := guardsOf(upd.Block())
	if g := upd.Parent(); g != fn {
		// Write was split: the guard sits before the call of the helper
		for _, ci := range callSitesOf(g) {
			if ci.Parent() == fn {
				lits = append(lits, guardsOf(ci.Block())...)
			}
		}
	}
	for _, l := range lits {
		b, isB := l.Cond.(*ssa.BinOp)
		if !isB {
			continue
		}
		// normalise to "lhs - rhs < 0 is FALSE on the path to update" i.e. n >= free
		var d linExpr
		var strict bool
		switch {
		case b.Op == token.LSS && !l.Val: // !(x < y)  => x - y >= 0
			d = lin.expr(b.X).sub(lin.expr(b.Y))
		case b.Op == token.GEQ && l.Val: // x >= y
			d = lin.expr(b.X).sub(lin.expr(b.Y))
		case b.Op == token.GTR && !l.Val: // !(x > y) => y - x >= 0
			d = lin.expr(b.Y).sub(lin.expr(b.X))
			strict = false
		case b.Op == token.LEQ && l.Val:
			d = lin.expr(b.Y).sub(lin.expr(b.X))
		default:
			continue
		}
		_ = strict
		// expected: n + bufused - 16 >= 0  where n = len(input), bufused = load of field
		want := lin.sym("len(input)").add(lin.sym("ld:XXHZero.bufused")).addConst(-16)
		if d.equal(want) {
			ok = true
		} else if d.hasSym("len(input)") && d.hasSym("ld:XXHZero.bufused") {
			why = "the guard before block processing is (" + d.String() + " >= 0), expected (len(input) + bufused - 16 >= 0): with a different constant the 16-byte buffer is hashed while not full, or overflows"
		}
	}
	c.Cond(ok, "R13.5", "XXHZero.Write#buffer-full-guard", p.InstrPos(upd), "buffered bytes are hashed only once input completes a full 16-byte block: block processing is reached exactly when len(input) + bufused >= 16 (linear normal form of the guard)", "guard normalises to len(input) + bufused - 16 >= 0", why)
}

// ---------------------------------------------------------------------------
// tiny linear normaliser over SSA integer expressions (symbols are parameters'
// lengths, field loads, other opaque values)

type linExpr struct {
	c    int64
	coef map[string]int64
}

type linCtx struct{}

func newLinCtx() *linCtx { return &linCtx{} }

func (l *linCtx) sym(s string) linExpr { return linExpr{0, map[string]int64{s: 1}} }

func (e linExpr) add(o linExpr) linExpr {
	r := linExpr{e.c + o.c, map[string]int64{}}
	for k, v := range e.coef {
		r.coef[k] += v
	}
	for k, v := range o.coef {
		r.coef[k] += v
	}
	for k, v := range r.coef {
		if v == 0 {
			delete(r.coef, k)
		}
	}
	return r
}

func (e linExpr) neg() linExpr {
	r := linExpr{-e.c, map[string]int64{}}
	for k, v := range e.coef {
		r.coef[k] = -v
	}
	return r
}

func (e linExpr) sub(o linExpr) linExpr   { return e.add(o.neg()) }
func (e linExpr) addConst(k int64) linExpr { return e.add(linExpr{k, nil}) }
func (e linExpr) hasSym(s string) bool     { return e.coef[s] != 0 }

func (e linExpr) equal(o linExpr) bool {
	d := e.sub(o)
	return d.c == 0 && len(d.coef) == 0
}

func (e linExpr) String() string {
	var ks []string
	for k := range e.coef {
		ks = append(ks, k)
	}
	sort.Strings(ks)
	var parts []string
	for _, k := range ks {
		parts = append(parts, fmt.Sprintf("%+d*%s", e.coef[k], k))
	}
	parts = append(parts, fmt.Sprintf("%+d", e.c))
	return strings.Join(parts, " ")
}

func (l *linCtx) expr(v ssa.Value) linExpr {
	switch x := v.(type) {
	case *ssa.Const:
		if k, ok := constUint(x); ok {
			return linExpr{int64(k), nil}
		}
	case *ssa.BinOp:
		switch x.Op {
		case token.ADD:
			return l.expr(x.X).add(l.expr(x.Y))
		case token.SUB:
			return l.expr(x.X).sub(l.expr(x.Y))
		}
	case *ssa.Convert:
		return l.expr(x.X)
	case *ssa.Call:
		if b, ok := x.Call.Value.(*ssa.Builtin); ok && b.Name() == "len" {
			a := x.Call.Args[0]
			if pr, isP := a.(*ssa.Parameter); isP {
				return l.sym("len(" + pr.Name() + ")")
			}
			if fa, isFA := a.(*ssa.FieldAddr); isFA {
				// len of an array field through its address: constant
				if pt, ok := fa.Type().(*types.Pointer); ok {
					if arr, ok := pt.Elem().Underlying().(*types.Array); ok {
						return linExpr{arr.Len(), nil}
					}
				}
			}
			if lf := loadField(a); lf != "" {
				return l.sym("len(" + lf + ")")
			}
			if arr, ok := a.Type().Underlying().(*types.Array); ok {
				return linExpr{arr.Len(), nil}
			}
			if pt, ok := a.Type().Underlying().(*types.Pointer); ok {
				if arr, ok := pt.Elem().Underlying().(*types.Array); ok {
					return linExpr{arr.Len(), nil}
				}
			}
		}
	case *ssa.UnOp:
		if lf := loadField(x); lf != "" {
			return l.sym("ld:" + lf)
		}
	}
	return l.sym("v:" + v.Name())
}

// ---------------------------------------------------------------------------
// C12 structural part (R12.1, R12.2); R12.3 is added by the bounds prover.

var asmRetRe = regexp.MustCompile(`MOVQ\s+\$(-?[0-9]+),\s*ret\+`)
var asmRetAnyRe = regexp.MustCompile(`MOV[A-Z]*\s+([^,]+),\s*ret\+`)

func ruleObservationalCollapse(c *Check, rule string) {
	// UncompressBlock inspects only the sign of decodeBlock's result
	for _, cfg := range []Config{cfgAMD64, cfgNoasm} {
		p := loadOrTrouble(c, cfg)
		if p == nil {
			return
		}
		c.curCfg = cfg.String()
		fn := findFn(c, p, rule, "internal/lz4block", "UncompressBlock")
		if fn == nil {
			continue
		}
		for _, ci := range callsIn(fn) {
			f := staticCallee(ci)
			if f == nil || f.Name() != "decodeBlock" {
				continue
			}
			c.Sites++
			v := ci.Value()
			ok, why := signOnlyMapping(p, fn, v)
			c.Cond(ok, rule, "UncompressBlock#sign-only", p.InstrPos(ci), "UncompressBlock looks only at the sign of the decoder's result: non-negative results are returned unchanged with a nil error, every negative result becomes the same error (so different error codes of the two decoders cannot be observed)", "uses: `>= 0` test and return on the true edge", strings.Join(why, "; "))
			// every other return yields (0, ErrInvalidSourceShortBuffer) or (0,nil) under len(src)==0
		}
		if cfg.Tags == "noasm" {
			// portable decoder: all error exits are negative constants
			d := findFn(c, p, rule, "internal/lz4block", "decodeBlock")
			if d != nil && d.Blocks != nil {
				neg, pos := 0, 0
				okR := true
				allInstrs(d, func(in ssa.Instruction) {
					r, isR := in.(*ssa.Return)
					if !isR || len(r.Results) != 1 {
						return
					}
					var chk func(v ssa.Value)
					chk = func(v ssa.Value) {
						switch x := v.(type) {
						case *ssa.Const:
							if x.Int64() < 0 {
								neg++
							} else {
								okR = false
							}
						case *ssa.Phi:
							for _, e := range x.Edges {
								chk(e)
							}
						case *ssa.UnOp:
							// load of the named result cell: look at its stores
							if al, isAl := x.X.(*ssa.Alloc); isAl {
								for _, st := range storesTo(al) {
									chk(st.Val)
								}
							}
						case *ssa.Convert:
							pos++ // int(di): range decided by R03.6
						case *ssa.Call:
							// the body of the decoder moved into a function of its own: its results are the decoder's
							if t := staticCallee(x); t != nil && inModule(t) && t.Pkg == d.Pkg && len(t.Blocks) > 0 && t != d {
								allInstrs(t, func(j ssa.Instruction) {
									if rr, isRR := j.(*ssa.Return); isRR && len(rr.Results) == 1 {
										chk(rr.Results[0])
									}
								})
							} else {
								okR = false
							}
						default:
							okR = false
						}
					}
					chk(r.Results[0])
				})
				c.Cond(okR && neg >= 1 && pos >= 1, rule, "decodeBlock(portable)#error-results-negative", p.Pos(d.Pos()), "every error exit of the portable decoder yields a negative constant; the only other result is the output cursor", fmt.Sprintf("%d negative constants, %d cursor results", neg, pos), "a result of the portable decoder is neither a negative constant nor the cursor")
			}
		}
		c.curCfg = ""
	}
	// the assembly decoder's results (negative immediates or the cursor within [0, len(dst)]) are
	// proven by the bounds prover on every path that stores to ret (R03.2 / R12.3)
}

// derivesFromFieldWide: v is the value of the named field carried through
// phis, helper parameters and same-width conversions only (never narrowed).
func derivesFromFieldWide(v ssa.Value, field string) bool {
	found := false
	w := widthOf(v.Type())
	walkBack(v, false, func(x ssa.Value) bool {
		if widthOf(x.Type()) != w {
			if _, isU := x.(*ssa.UnOp); !isU {
				return false
			}
		}
		if loadField(x) == field {
			found = true
			return false
		}
		return true
	})
	return found
}


// signedHalfLine: the comparison b, when true, says v >= k (geq) or v <= k (!geq)
// for the signed value v and a constant; ok is false for anything else.
func signedHalfLine(b *ssa.BinOp, v ssa.Value) (geq bool, k int64, ok bool) {
	cst := func(x ssa.Value) (int64, bool) {
		c, isC := stripConv(x).(*ssa.Const)
		if !isC || c.Value == nil || c.Value.Kind() != constant.Int {
			return 0, false
		}
		return constant.Int64Val(c.Value)
	}
	op := b.Op
	var kk int64
	switch {
	case b.X == v:
		c, isK := cst(b.Y)
		if !isK {
			return false, 0, false
		}
		kk = c
	case b.Y == v:
		c, isK := cst(b.X)
		if !isK {
			return false, 0, false
		}
		kk = c
		switch op { // k OP v  ->  v OP' k
		case token.LSS:
			op = token.GTR
		case token.GTR:
			op = token.LSS
		case token.LEQ:
			op = token.GEQ
		case token.GEQ:
			op = token.LEQ
		}
	default:
		return false, 0, false
	}
	switch op {
	case token.GEQ:
		return true, kk, true
	case token.GTR:
		return true, kk + 1, true
	case token.LEQ:
		return false, kk, true
	case token.LSS:
		return false, kk - 1, true
	}
	return false, 0, false
}


// signOnlyMapping decides, path by path, how fn turns the decoder's result v
// into its own results: on every path through the call, v is classified by a
// sign test and by nothing else; where v >= 0 the first result is v itself and
// the error nil; where v < 0 the error is definitely non-nil. Phis (named
// results assigned in branches) are resolved by the edges of the path.
func signOnlyMapping(p *Program, fn *ssa.Function, v ssa.Value) (bool, []string) {
	call := v.(ssa.Instruction)
	var why []string
	seenWhy := map[string]bool{}
	add := func(s string) {
		if !seenWhy[s] {
			seenWhy[s] = true
			why = append(why, s)
		}
	}
	nPaths := 0
	var path []*ssa.BasicBlock
	onPath := map[*ssa.BasicBlock]bool{}
	budget := 5000
	resolve := func(x ssa.Value) ssa.Value {
		for i := 0; i < 8; i++ {
			ph, isPhi := x.(*ssa.Phi)
			if !isPhi {
				break
			}
			// the predecessor of the phi's block on this path
			var sel ssa.Value
			for k := 1; k < len(path); k++ {
				if path[k] == ph.Block() {
					for pi, pr := range ph.Block().Preds {
						if pr == path[k-1] {
							sel = ph.Edges[pi]
						}
					}
				}
			}
			if sel == nil {
				break
			}
			x = sel
		}
		return x
	}
	judge := func() {
		// does the path pass the call?
		passes := false
		for _, b := range path {
			if b == call.Block() {
				passes = true
			}
		}
		last := path[len(path)-1]
		ret, isR := last.Instrs[len(last.Instrs)-1].(*ssa.Return)
		if !passes || !isR || len(ret.Results) != 2 {
			return
		}
		nPaths++
		sign := 0 // +1: v >= 0 known, -1: v < 0 known
		for k := 0; k+1 < len(path); k++ {
			b := path[k]
			ifi, isIf := b.Instrs[len(b.Instrs)-1].(*ssa.If)
			if !isIf || len(b.Succs) != 2 {
				continue
			}
			bo, isB := ifi.Cond.(*ssa.BinOp)
			if !isB || (bo.X != v && bo.Y != v) {
				continue
			}
			taken := b.Succs[0] == path[k+1]
			geq, kk, isH := signedHalfLine(bo, v)
			if !isH || !((geq && kk == 0) || (!geq && kk == -1)) {
				add("the result is compared as " + shortVal(bo) + ", which is not a sign test")
				continue
			}
			if (geq && kk == 0) == taken {
				sign = 1
			} else {
				sign = -1
			}
		}
		r0, r1 := resolve(ret.Results[0]), resolve(ret.Results[1])
		switch sign {
		case 1:
			if r0 != v {
				add("with a non-negative result the count returned is " + shortVal(r0) + ", not the decoder's result")
			}
			if !isNilConst(r1) {
				add("with a non-negative result the error is not nil")
			}
		case -1:
			if mayBeNilErr(r1, last) {
				add("with a negative result the error returned may be nil")
			}
		default:
			add("a return is reachable after the call without the sign of the result having been tested")
		}
	}
	var walk func(b *ssa.BasicBlock)
	walk = func(b *ssa.BasicBlock) {
		if onPath[b] || budget <= 0 {
			return
		}
		budget--
		onPath[b] = true
		path = append(path, b)
		if len(b.Succs) == 0 {
			judge()
		}
		for _, s := range b.Succs {
			walk(s)
		}
		path = path[:len(path)-1]
		delete(onPath, b)
	}
	if len(fn.Blocks) > 0 {
		walk(fn.Blocks[0])
	}
	if nPaths == 0 {
		add("no path through the decoder call reaches a return")
	}
	// any other use of the result (arithmetic, a call argument, a store) looks at more than the sign
	for _, r := range *v.Referrers() {
		switch y := r.(type) {
		case *ssa.BinOp:
			if _, _, isH := signedHalfLine(y, v); !isH {
				add("result used in " + shortVal(y))
			}
		case *ssa.Return, *ssa.Phi, *ssa.DebugRef:
		default:
			add("result used by " + r.String())
		}
	}
	_ = p
	return len(why) == 0, why
}
