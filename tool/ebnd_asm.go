package main

import (
	"fmt"
	"os"
	"regexp"
	"sort"
	"strconv"
	"strings"
)

// amd64 (Plan 9 syntax) front end of the bounds prover, for the instruction
// subset used by internal/lz4block/decode_amd64.s. Unknown mnemonics or
// addressing modes fail closed.

type asmOp struct {
	kind  string // imm, reg, xreg, fp, sp, mem, sym, label
	imm   int64
	reg   string
	name  string // fp arg name / symbol / label
	disp  int64
	base  string
	index string
	scale int64
	text  string
}

type asmInstr struct {
	line int
	op   string
	args []asmOp
	site string // label+ordinal:text
	text string
}

type asmBlock struct {
	label  string
	instrs []*asmInstr
	succ   []int
}

type asmFunc struct {
	file   string
	name   string
	blocks []*asmBlock
	consts map[string]int64
	nInstr int
}

var reIdent = regexp.MustCompile(`[A-Za-z_][A-Za-z0-9_]*`)

var (
	reLabel = regexp.MustCompile(`^([A-Za-z_][A-Za-z0-9_]*):$`)
	reFP    = regexp.MustCompile(`^([A-Za-z_][A-Za-z0-9_]*)\+(-?\d+)\(FP\)$`)
	reSP    = regexp.MustCompile(`^(-?\d+)?\(SP\)$`)
	reMem   = regexp.MustCompile(`^(-?[A-Za-z0-9_]+)?\(([A-Z0-9]+)\)(?:\(([A-Z0-9]+)\*(\d)\))?$`)
	reReg   = regexp.MustCompile(`^(AX|BX|CX|DX|SI|DI|BP|R8|R9|R10|R11|R12|R13|R14|R15)$`)
	reXReg  = regexp.MustCompile(`^X([0-9]|1[0-5])$`)
)

var asmRegs = []string{"AX", "BX", "CX", "DX", "SI", "DI", "BP", "R8", "R9", "R10", "R11", "R12", "R13", "R14", "R15"}

func isJump(op string) bool {
	return strings.HasPrefix(op, "J")
}

func parseImm(s string, consts map[string]int64) (int64, error) {
	if v, ok := consts[s]; ok {
		return v, nil
	}
	v, err := strconv.ParseInt(s, 0, 64)
	if err != nil {
		u, err2 := strconv.ParseUint(s, 0, 64)
		if err2 == nil {
			return int64(u), nil
		}
	}
	return v, err
}

func parseAsmOperand(s string, consts map[string]int64, jump bool) (asmOp, error) {
	s = strings.TrimSpace(s)
	o := asmOp{text: s}
	switch {
	case strings.HasPrefix(s, "$"):
		v, err := parseImm(s[1:], consts)
		if err != nil {
			return o, fmt.Errorf("bad immediate %q", s)
		}
		o.kind, o.imm = "imm", v
	case reReg.MatchString(s):
		o.kind, o.reg = "reg", s
	case reXReg.MatchString(s):
		o.kind, o.reg = "xreg", s
	case reFP.MatchString(s):
		m := reFP.FindStringSubmatch(s)
		o.kind, o.name = "fp", m[1]
		o.disp, _ = strconv.ParseInt(m[2], 10, 64)
	case reSP.MatchString(s):
		m := reSP.FindStringSubmatch(s)
		o.kind = "sp"
		if m[1] != "" {
			o.disp, _ = strconv.ParseInt(m[1], 10, 64)
		}
	case strings.HasSuffix(s, "(SB)"):
		o.kind, o.name = "sym", strings.TrimSuffix(s, "(SB)")
	case reMem.MatchString(s):
		m := reMem.FindStringSubmatch(s)
		o.kind, o.base, o.index = "mem", m[2], m[3]
		if m[1] != "" {
			v, err := parseImm(m[1], consts)
			if err != nil {
				return o, fmt.Errorf("bad displacement in %q", s)
			}
			o.disp = v
		}
		if m[4] != "" {
			o.scale, _ = strconv.ParseInt(m[4], 10, 64)
		}
		if !reReg.MatchString(o.base) || (o.index != "" && !reReg.MatchString(o.index)) {
			return o, fmt.Errorf("unsupported addressing mode %q", s)
		}
	case jump && regexp.MustCompile(`^[A-Za-z_][A-Za-z0-9_]*$`).MatchString(s):
		o.kind, o.name = "label", s
	default:
		return o, fmt.Errorf("unsupported operand %q", s)
	}
	return o, nil
}

func parseAsm(path, fn string, consts map[string]int64) (*asmFunc, error) {
	b, err := os.ReadFile(path)
	if err != nil {
		return nil, err
	}
	af := &asmFunc{file: path, name: fn, consts: consts}
	var flat []*asmInstr
	labelAt := map[string]int{}
	in := false
	curLabel, ord := "entry", 0
	// logical lines: comments stripped, backslash continuations joined, object-like
	// #define macros expanded (statements separated by ';'); anything else that
	// starts with '#' (includes, conditionals) is skipped as before
	type lline struct {
		ln   int
		text string
	}
	var lines []lline
	macros := map[string][]string{}
	{
		rawLines := strings.Split(string(b), "\n")
		for i := 0; i < len(rawLines); i++ {
			ln := i
			line := rawLines[i]
			if k := strings.Index(line, "//"); k >= 0 {
				line = line[:k]
			}
			for strings.HasSuffix(strings.TrimRight(line, " \t"), "\\") && i+1 < len(rawLines) {
				line = strings.TrimSuffix(strings.TrimRight(line, " \t"), "\\")
				i++
				nx := rawLines[i]
				if k := strings.Index(nx, "//"); k >= 0 {
					nx = nx[:k]
				}
				line += " " + nx
			}
			line = strings.TrimSpace(line)
			if line == "" {
				continue
			}
			if strings.HasPrefix(line, "#define") {
				f := strings.Fields(strings.TrimPrefix(line, "#define"))
				if len(f) == 0 {
					continue
				}
				name := f[0]
				if strings.Contains(name, "(") {
					macros[name[:strings.Index(name, "(")]] = nil // function-like: not supported, fails closed when used
					continue
				}
				body := strings.TrimSpace(strings.TrimPrefix(strings.TrimSpace(strings.TrimPrefix(line, "#define")), name))
				var stmts []string
				for _, st := range strings.Split(body, ";") {
					if st = strings.TrimSpace(st); st != "" {
						stmts = append(stmts, st)
					}
				}
				macros[name] = stmts
				continue
			}
			if strings.HasPrefix(line, "#") {
				continue
			}
			for _, st := range strings.Split(line, ";") {
				st = strings.TrimSpace(st)
				if st == "" {
					continue
				}
				first := strings.Fields(st)[0]
				if body, isM := macros[first]; isM && st == first {
					if body == nil {
						return nil, fmt.Errorf("%s:%d: function-like macro %s is not supported", path, ln+1, first)
					}
					for _, x := range body {
						lines = append(lines, lline{ln, x})
					}
					continue
				}
				// object-like macros used as operands (#define SAVED_SI 24(SP))
				for pass := 0; pass < 4; pass++ {
					changed := false
					st = reIdent.ReplaceAllStringFunc(st, func(w string) string {
						if body, isM := macros[w]; isM && len(body) == 1 && w != first {
							changed = true
							return body[0]
						}
						return w
					})
					if !changed {
						break
					}
				}
				lines = append(lines, lline{ln, st})
			}
		}
	}
	// file-local subroutines (TEXT name<>(SB)) called from the function are spliced in at the call: labels get a
	// per-call suffix, RET becomes a jump to the instruction after the CALL. They share the caller's registers and
	// flags; a body that touches the stack is not supported.
	{
		bodies := map[string][]lline{}
		cur := ""
		for _, ll := range lines {
			if strings.HasPrefix(ll.text, "TEXT") {
				cur = ""
				if m := regexp.MustCompile(`^TEXT\s+([A-Za-z_][A-Za-z0-9_]*)<>\(SB\)`).FindStringSubmatch(ll.text); m != nil {
					cur = m[1]
					bodies[cur] = nil
				}
				continue
			}
			if cur != "" {
				bodies[cur] = append(bodies[cur], ll)
			}
		}
		if len(bodies) > 0 {
			reCall := regexp.MustCompile(`^CALL\s+([A-Za-z_][A-Za-z0-9_]*)<>\(SB\)$`)
			nCall := 0
			var expand func(ls []lline, depth int) ([]lline, error)
			expand = func(ls []lline, depth int) ([]lline, error) {
				var out []lline
				for _, ll := range ls {
					m := reCall.FindStringSubmatch(strings.Join(strings.Fields(ll.text), " "))
					body, isLocal := []lline(nil), false
					if m != nil {
						body, isLocal = bodies[m[1]]
					}
					if !isLocal {
						out = append(out, ll)
						continue
					}
					if depth > 3 {
						return nil, fmt.Errorf("%s:%d: subroutine calls nested too deeply", path, ll.ln+1)
					}
					nCall++
					suf := fmt.Sprintf("_c%d", nCall)
					labels := map[string]bool{}
					for _, bl := range body {
						if lm := reLabel.FindStringSubmatch(bl.text); lm != nil {
							labels[lm[1]] = true
						}
					}
					var inl []lline
					for _, bl := range body {
						t := bl.text
						if strings.Contains(t, "(SP)") {
							return nil, fmt.Errorf("%s:%d: subroutine %s uses the stack", path, bl.ln+1, m[1])
						}
						if lm := reLabel.FindStringSubmatch(t); lm != nil {
							inl = append(inl, lline{bl.ln, lm[1] + suf + ":"})
							continue
						}
						f := strings.Fields(t)
						if f[0] == "RET" {
							inl = append(inl, lline{bl.ln, "JMP ret" + suf})
							continue
						}
						if isJump(f[0]) && len(f) == 2 && labels[f[1]] {
							t = f[0] + " " + f[1] + suf
						}
						inl = append(inl, lline{bl.ln, t})
					}
					inl = append(inl, lline{ll.ln, "ret" + suf + ":"})
					sub, err := expand(inl, depth+1)
					if err != nil {
						return nil, err
					}
					out = append(out, sub...)
				}
				return out, nil
			}
			var err error
			if lines, err = expand(lines, 0); err != nil {
				return nil, err
			}
		}
	}
	for _, ll := range lines {
		ln, line := ll.ln, ll.text
		if strings.HasPrefix(line, "TEXT") {
			in = strings.Contains(line, "·"+fn+"(SB)")
			continue
		}
		if !in {
			continue
		}
		if m := reLabel.FindStringSubmatch(line); m != nil {
			labelAt[m[1]] = len(flat)
			curLabel, ord = m[1], 0
			continue
		}
		fields := strings.Fields(line)
		op := fields[0]
		rest := strings.TrimSpace(strings.TrimPrefix(line, op))
		ins := &asmInstr{line: ln + 1, op: op, text: op + " " + rest}
		if rest != "" {
			for _, a := range strings.Split(rest, ",") {
				o, err := parseAsmOperand(a, consts, isJump(op) || op == "CALL")
				if err != nil {
					return nil, fmt.Errorf("%s:%d: %v in %q", path, ln+1, err, line)
				}
				ins.args = append(ins.args, o)
			}
		}
		ins.site = fmt.Sprintf("%s+%d:%s", curLabel, ord, strings.Join(strings.Fields(ins.text), " "))
		ord++
		flat = append(flat, ins)
	}
	if len(flat) == 0 {
		return nil, fmt.Errorf("%s: TEXT ·%s not found", path, fn)
	}
	af.nInstr = len(flat)
	// leaders
	leader := map[int]bool{0: true}
	for _, at := range labelAt {
		leader[at] = true
	}
	for i, ins := range flat {
		if isJump(ins.op) || ins.op == "RET" {
			leader[i+1] = true
		}
	}
	blockOf := map[int]int{}
	for i, ins := range flat {
		if leader[i] {
			lbl := ""
			for l, at := range labelAt {
				if at == i {
					lbl = l
				}
			}
			af.blocks = append(af.blocks, &asmBlock{label: lbl})
		}
		bi := len(af.blocks) - 1
		blockOf[i] = bi
		af.blocks[bi].instrs = append(af.blocks[bi].instrs, ins)
	}
	idx := 0
	for bi, blk := range af.blocks {
		idx += len(blk.instrs)
		last := blk.instrs[len(blk.instrs)-1]
		next := -1
		if idx < len(flat) {
			next = blockOf[idx]
		}
		tgt := func() (int, error) {
			if len(last.args) != 1 || last.args[0].kind != "label" {
				return 0, fmt.Errorf("%s:%d: jump without label", path, last.line)
			}
			at, ok := labelAt[last.args[0].name]
			if !ok {
				return 0, fmt.Errorf("%s:%d: unknown label %s", path, last.line, last.args[0].name)
			}
			return blockOf[at], nil
		}
		switch {
		case last.op == "RET":
		case last.op == "JMP":
			t, err := tgt()
			if err != nil {
				return nil, err
			}
			blk.succ = []int{t}
		case isJump(last.op):
			t, err := tgt()
			if err != nil {
				return nil, err
			}
			if next < 0 {
				return nil, fmt.Errorf("%s:%d: conditional jump at end of function", path, last.line)
			}
			blk.succ = []int{t, next}
		default:
			if next < 0 {
				return nil, fmt.Errorf("%s: control falls off the end of %s", path, fn)
			}
			blk.succ = []int{next}
		}
		_ = bi
	}
	return af, nil
}

// ---------------------------------------------------------------------------
// abstract interpreter

type asmCase struct {
	dstNil, dictNil bool
}

func (c asmCase) String() string {
	s := "dst!=nil"
	if c.dstNil {
		s = "dst==nil"
	}
	if c.dictNil {
		s += ",dict==nil"
	} else {
		s += ",dict!=nil"
	}
	return s
}

type asmProg struct {
	f     *asmFunc
	tab   *symTab
	coll  *collector
	cs    asmCase
	g     map[string]Lin // global symbols: dst_base ...
	two64 Q
	two63 Q
	live  []map[string]bool
	u16   map[Sym]bool // symbols produced by 16-bit zero-extending loads (match offsets)
	u8    map[Sym]bool
	// exit justifications: label -> check
	pos func(line int) string
}

func (p *asmProg) numBlocks() int        { return len(p.f.blocks) }
func (p *asmProg) entryBlock() int       { return 0 }
func (p *asmProg) succs(b int) []int     { return p.f.blocks[b].succ }
func (p *asmProg) blockName(b int) string {
	if l := p.f.blocks[b].label; l != "" {
		return l
	}
	return fmt.Sprintf("b%d", b)
}

const addrLimitLog = 47

func (p *asmProg) initial() *AbsState {
	a := newAbs()
	lim := qPow2(addrLimitLog)
	for _, r := range []string{"dst", "src", "dict"} {
		base, ln := p.g[r+"_base"], p.g[r+"_len"]
		a.st.le(ln.Neg())                      // len >= 0
		a.st.le(base.Add(ln).Sub(linK(lim)))   // base+len <= 2^47
		a.st.le(base.Neg())                    // base >= 0
		a.st.le(base.Sub(linK(lim)))           // single-symbol bounds help interval reasoning
		a.st.le(ln.Sub(linK(lim)))
	}
	for _, r := range []string{"dst", "src", "dict"} {
		if cp, ok := p.g[r+"_cap"]; ok {
			a.st.le(p.g[r+"_len"].Sub(cp))                  // len <= cap
			a.st.le(p.g[r+"_base"].Add(cp).Sub(linK(lim))) // base+cap <= 2^47
		}
	}
	nonNil := func(r string) { a.st.le(linI(4096).Sub(p.g[r+"_base"])) }
	isNil := func(r string) {
		a.st.eq(p.g[r+"_base"])
		a.st.eq(p.g[r+"_len"])
	}
	nonNil("src")
	if p.cs.dstNil {
		isNil("dst")
	} else {
		nonNil("dst")
	}
	if p.cs.dictNil {
		isNil("dict")
	} else {
		nonNil("dict")
	}
	a.meta["fk"] = "none"
	return a
}

func (p *asmProg) havoc(a *AbsState, name string, lo, hi Q) Lin {
	s := p.tab.fresh(name)
	l := linS(s)
	if lo.Sign() > 0 {
		a.st.le(linK(lo).Sub(l))
	}
	// values limited only by the machine word get no explicit upper bound (all symbols are >= 0)
	if hi.Cmp(p.u64max()) < 0 {
		a.st.le(l.Sub(linK(hi)))
	}
	return l
}

// assumeGE / assumeLE add lin >= K / lin <= K, keeping huge constants out of the
// constraint system whenever the fact is already decided.
func (p *asmProg) assumeGE(a *AbsState, l Lin, K Q) {
	if a.st.minGE(l, K) {
		return
	}
	if a.st.maxLE(l, K.Sub(qi(1))) {
		a.st.le(linI(1)) // contradiction
		return
	}
	a.st.le(linK(K).Sub(l))
}

func (p *asmProg) assumeLE(a *AbsState, l Lin, K Q) {
	if a.st.maxLE(l, K) {
		return
	}
	if a.st.minGE(l, K.Add(qi(1))) {
		a.st.le(linI(1))
		return
	}
	a.st.le(l.Sub(linK(K)))
}

func (p *asmProg) u64max() Q { return p.two64.Sub(qi(1)) }

func (p *asmProg) regVal(a *AbsState, r string) Lin {
	if v, ok := a.vals[r]; ok {
		return v
	}
	v := p.havoc(a, "undef_"+r, qi(0), p.u64max())
	a.vals[r] = v
	return v
}

func spKey(d int64) string { return fmt.Sprintf("sp%d", d) }

func (p *asmProg) addr(a *AbsState, o asmOp) Lin {
	v := p.regVal(a, o.base).AddK(o.disp)
	if o.index != "" {
		v = v.Add(p.regVal(a, o.index).Scale(qi(o.scale)))
	}
	return v
}

type region struct {
	name      string
	base, end Lin
}

func (p *asmProg) regions() []region {
	var rs []region
	for _, r := range []string{"dst", "src", "dict"} {
		rs = append(rs, region{r, p.g[r+"_base"], p.g[r+"_base"].Add(p.g[r+"_len"])})
	}
	return rs
}

// access asserts that [ptr, ptr+width) lies inside an allowed region.
func (p *asmProg) access(a *AbsState, ins *asmInstr, ptr Lin, width Lin, store bool, check bool, what string) {
	if !check {
		return
	}
	ok := false
	var tried []string
	for _, r := range p.regions() {
		if store && r.name != "dst" {
			continue
		}
		if a.st.entailsLeq(r.base, ptr) && a.st.entailsLeq(ptr.Add(width), r.end) {
			ok = true
			break
		}
		tried = append(tried, r.name)
	}
	kind := "load"
	if store {
		kind = "store"
	}
	desc := fmt.Sprintf("%s of %s bytes at %s stays inside %s", kind, width.Str(p.tab), what, map[bool]string{true: "dst[0:len(dst)]", false: "src, dst or dict"}[store])
	p.coll.check("access", p.cs.String()+"|"+ins.site+"#"+what, p.pos(ins.line), desc, ok, func() string {
		return p.diag(a, ptr, width, store)
	})
}

func (p *asmProg) diag(a *AbsState, ptr, width Lin, store bool) string {
	var parts []string
	parts = append(parts, "address = "+ptr.Str(p.tab)+", width = "+width.Str(p.tab))
	for _, r := range p.regions() {
		if store && r.name != "dst" {
			continue
		}
		st1, lo := a.st.max(r.base.Sub(ptr))
		st2, hi := a.st.max(ptr.Add(width).Sub(r.end))
		f := func(st lpStatus, v Q) string {
			if st == lpUnbounded {
				return "unbounded"
			}
			if st == lpInfeasible {
				return "infeasible"
			}
			return v.String()
		}
		parts = append(parts, fmt.Sprintf("%s: max(base-addr)=%s max(addr+width-end)=%s", r.name, f(st1, lo), f(st2, hi)))
	}
	parts = append(parts, "from block "+fmt.Sprint(a.from))
	return strings.Join(parts, "; ")
}

// wrapAdd computes a+b (or a-b) on 64-bit unsigned values; when wrap-around is
// undecided the state is split. Each result carries its state, the exact
// mathematical value of the register and whether carry/borrow occurred.
type wrapRes struct {
	a     *AbsState
	v     Lin
	carry bool
}

func (p *asmProg) wrapArith(a *AbsState, x, y Lin, sub bool) []wrapRes {
	var m Lin
	if sub {
		m = x.Sub(y)
	} else {
		m = x.Add(y)
	}
	two64 := linK(p.two64)
	if sub {
		if a.st.minGE(m, qi(0)) {
			return []wrapRes{{a, m, false}}
		}
		if a.st.maxLE(m, qi(-1)) {
			return []wrapRes{{a, m.Add(two64), true}}
		}
		a1, a2 := a, a.clone()
		a1.st.le(m.Neg())
		a2.st.le(m.AddK(1))
		return []wrapRes{{a1, m, false}, {a2, m.Add(two64), true}}
	}
	if a.st.maxLE(m, p.u64max()) {
		return []wrapRes{{a, m, false}}
	}
	if a.st.minGE(m, p.two64) {
		return []wrapRes{{a, m.Sub(two64), true}}
	}
	// undecided carry: split; the (huge) side conditions themselves are not recorded, the carry flag is
	a1, a2 := a, a.clone()
	return []wrapRes{{a1, m, false}, {a2, p.havoc(a2, "wrapped", qi(0), p.u64max()), true}}
}

func (p *asmProg) fits(a *AbsState, v Lin, bitsN uint) bool {
	return a.st.maxLE(v, qPow2(bitsN).Sub(qi(1))) && a.st.minGE(v, qi(0))
}

func (p *asmProg) setFlags(a *AbsState, kind string, x, y Lin, carry string) {
	a.meta["fk"] = kind
	a.vals["$fa"] = x
	a.vals["$fb"] = y
	a.meta["fc"] = carry
}

func (p *asmProg) clobberFlags(a *AbsState) {
	a.meta["fk"] = "none"
	delete(a.vals, "$fa")
	delete(a.vals, "$fb")
}

// read a 64-bit source operand (imm, reg, fp, sp; mem performs a load).
func (p *asmProg) read(a *AbsState, ins *asmInstr, o asmOp, width int64, check bool) (Lin, error) {
	switch o.kind {
	case "imm":
		if o.imm < 0 {
			return linK(p.two64).AddK(o.imm), nil
		}
		return linI(o.imm), nil
	case "reg":
		return p.regVal(a, o.reg), nil
	case "fp":
		if g, ok := p.g[o.name]; ok {
			return g, nil
		}
		return Lin{}, fmt.Errorf("unknown argument %s", o.text)
	case "sp":
		if v, ok := a.vals[spKey(o.disp)]; ok {
			return v, nil
		}
		return p.havoc(a, "undef_"+spKey(o.disp), qi(0), p.u64max()), nil
	case "mem":
		ptr := p.addr(a, o)
		p.access(a, ins, ptr, linI(width), false, check, o.text)
		return p.havoc(a, "ld", qi(0), qPow2(uint(8*width)).Sub(qi(1))), nil
	}
	return Lin{}, fmt.Errorf("unsupported source operand %s", o.text)
}

func (p *asmProg) write(a *AbsState, ins *asmInstr, o asmOp, v Lin, width int64, check bool) error {
	switch o.kind {
	case "reg":
		a.vals[o.reg] = v
	case "sp":
		a.vals[spKey(o.disp)] = v
	case "mem":
		ptr := p.addr(a, o)
		p.access(a, ins, ptr, linI(width), true, check, o.text)
	case "fp":
		if o.name == "ret" {
			a.vals["$ret"] = v
			return nil
		}
		return fmt.Errorf("store to argument %s", o.text)
	default:
		return fmt.Errorf("unsupported destination operand %s", o.text)
	}
	return nil
}

// trunc returns the low `bitsN` bits of v (exact when it fits, else havoc).
func (p *asmProg) trunc(a *AbsState, v Lin, bitsN uint) Lin {
	if p.fits(a, v, bitsN) {
		return v
	}
	return p.havoc(a, fmt.Sprintf("lo%d", bitsN), qi(0), qPow2(bitsN).Sub(qi(1)))
}

var debugTerm func(p *asmProg, b int, ins *asmInstr, t, f *AbsState)

var errAsmStop = fmt.Errorf("stop")

type asmTrouble struct{ msg string }

func (p *asmProg) transfer(b int, in *AbsState, check bool) [][]*AbsState {
	if debugTerm != nil && b == 41 {
		traceContra = true
		defer func() { traceContra = false }()
	}
	blk := p.f.blocks[b]
	states := []*AbsState{in}
	outs := make([][]*AbsState, len(blk.succ))
	for ii, ins := range blk.instrs {
		isLast := ii == len(blk.instrs)-1
		var next []*AbsState
		for _, a := range states {
			if isLast && (isJump(ins.op) || ins.op == "RET") {
				p.terminator(b, a, ins, check, outs)
				continue
			}
			rs, err := p.step(a, ins, check)
			if err != nil {
				panic(asmTrouble{fmt.Sprintf("%s:%d: %v (%s)", p.f.file, ins.line, err, ins.text)})
			}
			next = append(next, rs...)
		}
		states = next
		if len(states) > 4*maxDisjuncts {
			// too many splits inside a block: keep them (joined downstream by the hull)
		}
	}
	last := blk.instrs[len(blk.instrs)-1]
	if !(isJump(last.op) || last.op == "RET") {
		outs[0] = append(outs[0], states...)
	}
	return outs
}

func (p *asmProg) step(a *AbsState, ins *asmInstr, check bool) ([]*AbsState, error) {
	one := []*AbsState{a}
	args := ins.args
	// conditional move: the state is split on the condition, as for a conditional jump over a MOVQ
	if strings.HasPrefix(ins.op, "CMOVQ") && len(args) == 2 && args[1].kind == "reg" {
		jop := "J" + strings.TrimPrefix(ins.op, "CMOVQ")
		t := a.clone()
		if _, ok := p.refine(t, jop, true); !ok {
			return nil, fmt.Errorf("unknown instruction %s", ins.op)
		}
		p.refine(a, jop, false)
		var outs []*AbsState
		if t.st.feasible() {
			v, err := p.read(t, ins, args[0], 8, check)
			if err != nil {
				return nil, err
			}
			if err := p.write(t, ins, args[1], v, 8, check); err != nil {
				return nil, err
			}
			outs = append(outs, t)
		}
		if a.st.feasible() {
			outs = append(outs, a)
		}
		return outs, nil
	}
	switch ins.op {
	case "MOVQ":
		v, err := p.read(a, ins, args[0], 8, check)
		if err != nil {
			return nil, err
		}
		return one, p.write(a, ins, args[1], v, 8, check)
	case "MOVL":
		v, err := p.read(a, ins, args[0], 4, check)
		if err != nil {
			return nil, err
		}
		return one, p.write(a, ins, args[1], p.trunc(a, v, 32), 4, check)
	case "MOVW", "MOVB":
		w := int64(2)
		if ins.op == "MOVB" {
			w = 1
		}
		if args[1].kind == "mem" {
			// store of the low bytes of a register
			if args[0].kind != "reg" {
				return nil, fmt.Errorf("unsupported %s form", ins.op)
			}
			return one, p.write(a, ins, args[1], linI(0), w, check)
		}
		if args[1].kind == "reg" {
			if _, err := p.read(a, ins, args[0], w, check); err != nil {
				return nil, err
			}
			// partial register write: upper bits preserved, value untracked
			a.vals[args[1].reg] = p.havoc(a, "part", qi(0), p.u64max())
			return one, nil
		}
		return nil, fmt.Errorf("unsupported %s form", ins.op)
	case "MOVBLZX", "MOVBQZX", "MOVWLZX", "MOVWQZX":
		w := int64(1)
		if strings.HasPrefix(ins.op, "MOVW") {
			w = 2
		}
		if args[0].kind != "mem" || args[1].kind != "reg" {
			return nil, fmt.Errorf("unsupported %s form", ins.op)
		}
		v, err := p.read(a, ins, args[0], w, check)
		if err != nil {
			return nil, err
		}
		for s := range v.t {
			if w == 2 {
				p.u16[s] = true
			} else {
				p.u8[s] = true
			}
		}
		a.vals[args[1].reg] = v
		return one, nil
	case "MOVOU":
		if args[0].kind == "mem" && args[1].kind == "xreg" {
			_, err := p.read(a, ins, args[0], 16, check)
			return one, err
		}
		if args[0].kind == "xreg" && args[1].kind == "mem" {
			return one, p.write(a, ins, args[1], linI(0), 16, check)
		}
		return nil, fmt.Errorf("unsupported MOVOU form")
	case "ADDQ", "SUBQ":
		x, err := p.read(a, ins, args[1], 8, check)
		if err != nil {
			return nil, err
		}
		y, err := p.read(a, ins, args[0], 8, check)
		if err != nil {
			return nil, err
		}
		sub := ins.op == "SUBQ"
		// R04.1: a 16-bit loaded offset used as a distance must be >= 1
		if sub && check {
			for s := range y.t {
				if p.u16[s] && len(y.t) == 1 && y.k.IsZero() {
					p.coll.check("offset", p.cs.String()+"|"+ins.site, p.pos(ins.line), "the 16-bit match offset is at least 1 where it is subtracted from the output position", a.st.entails(linI(1).Sub(y)), func() string { return "offset " + y.Str(p.tab) + " may be 0 here" })
				}
			}
		}
		var out []*AbsState
		for _, r := range p.wrapArith(a, x, y, sub) {
			if err := p.write(r.a, ins, args[1], r.v, 8, check); err != nil {
				return nil, err
			}
			c := "0"
			if r.carry {
				c = "1"
			}
			kind := "add"
			if sub {
				kind = "sub"
			}
			p.setFlags(r.a, kind, x, y, c)
			r.a.vals["$fr"] = r.v
			out = append(out, r.a)
		}
		return out, nil
	case "ADDL", "SUBL", "INCL", "DECL":
		// 32-bit arithmetic: the result is taken modulo 2^32 and zero-extended. A wrap silently turns a huge
		// length into a small one, so the absence of wrap-around is an obligation of its own (R04.8).
		dst := args[len(args)-1]
		x, err := p.read(a, ins, dst, 4, check)
		if err != nil {
			return nil, err
		}
		y := linI(1)
		if len(args) == 2 {
			if y, err = p.read(a, ins, args[0], 4, check); err != nil {
				return nil, err
			}
		}
		x, y = p.trunc(a, x, 32), p.trunc(a, y, 32)
		sub := ins.op == "SUBL" || ins.op == "DECL"
		m := x.Add(y)
		if sub {
			m = x.Sub(y)
		}
		fits := p.fits(a, m, 32)
		if check {
			p.coll.check("nowrap32", p.cs.String()+"|"+ins.site, p.pos(ins.line), "32-bit arithmetic on a length or position does not wrap around (a wrapped length passes the bounds checks and yields a short result without error)", fits, func() string {
				return "the 32-bit result " + m.Str(p.tab) + " may leave [0, 2^32): the value wraps and the following bounds checks see a small number"
			})
		}
		v := m
		if !fits {
			v = p.havoc(a, "wrap32", qi(0), qPow2(32).Sub(qi(1)))
		}
		if err := p.write(a, ins, dst, v, 4, check); err != nil {
			return nil, err
		}
		if fits {
			kind := "add"
			if sub {
				kind = "sub"
			}
			if len(args) == 2 {
				p.setFlags(a, kind, x, y, "0")
			} else {
				a.meta["fk"] = "res"
			}
			a.vals["$fr"] = v
		} else {
			p.clobberFlags(a)
			delete(a.vals, "$fr")
		}
		return one, nil
	case "INCQ", "DECQ":
		x, err := p.read(a, ins, args[0], 8, check)
		if err != nil {
			return nil, err
		}
		var out []*AbsState
		for _, r := range p.wrapArith(a, x, linI(1), ins.op == "DECQ") {
			if err := p.write(r.a, ins, args[0], r.v, 8, check); err != nil {
				return nil, err
			}
			r.a.meta["fk"] = "res"
			r.a.vals["$fr"] = r.v
			out = append(out, r.a)
		}
		return out, nil
	case "LEAQ":
		if args[0].kind != "mem" || args[1].kind != "reg" {
			return nil, fmt.Errorf("unsupported LEAQ form")
		}
		v := p.addr(a, args[0])
		if !p.fits(a, v, 64) {
			v = p.havoc(a, "lea", qi(0), p.u64max())
		}
		a.vals[args[1].reg] = v
		return one, nil
	case "SHRL", "SHRQ":
		if args[0].kind != "imm" || args[1].kind != "reg" {
			return nil, fmt.Errorf("unsupported shift form")
		}
		x := p.regVal(a, args[1].reg)
		if ins.op == "SHRL" {
			x = p.trunc(a, x, 32)
		}
		k := uint(args[0].imm)
		r := p.havoc(a, "shr", qi(0), p.u64max())
		// 2^k*r <= x <= 2^k*r + 2^k - 1
		a.st.leq(r.Scale(qPow2(k)), x)
		a.st.leq(x, r.Scale(qPow2(k)).AddQ(qPow2(k).Sub(qi(1))))
		a.vals[args[1].reg] = r
		p.clobberFlags(a)
		return one, nil
	case "ANDL", "ANDQ":
		if args[0].kind != "imm" || args[1].kind != "reg" || args[0].imm < 0 {
			return nil, fmt.Errorf("unsupported AND form")
		}
		x := p.regVal(a, args[1].reg)
		r := p.havoc(a, "and", qi(0), qi(args[0].imm))
		if p.fits(a, x, 64) {
			a.st.leq(r, x)
		}
		a.vals[args[1].reg] = r
		p.clobberFlags(a)
		return one, nil
	case "XORL", "XORQ":
		if args[0].kind == "reg" && args[1].kind == "reg" && args[0].reg == args[1].reg {
			a.vals[args[1].reg] = linI(0)
			p.clobberFlags(a)
			return one, nil
		}
		return nil, fmt.Errorf("unsupported XOR form")
	case "CLC":
		// carry clear: as after comparing two equal words
		p.setFlags(a, "cmp", linI(0), linI(0), "")
		return one, nil
	case "STC":
		// carry set: as after comparing 0 with 1
		p.setFlags(a, "cmp", linI(0), linI(1), "")
		return one, nil
	case "CMPQ", "CMPL", "CMPB":
		x, err := p.read(a, ins, args[0], 8, check)
		if err != nil {
			return nil, err
		}
		y, err := p.read(a, ins, args[1], 8, check)
		if err != nil {
			return nil, err
		}
		w := uint(64)
		if ins.op == "CMPL" {
			w = 32
		} else if ins.op == "CMPB" {
			w = 8
		}
		if w < 64 && !(p.fits(a, x, w) && p.fits(a, y, w)) {
			p.clobberFlags(a)
			return one, nil
		}
		p.setFlags(a, "cmp", x, y, "?")
		return one, nil
	case "TESTQ", "TESTL":
		if args[0].kind != "reg" || args[1].kind != "reg" || args[0].reg != args[1].reg {
			return nil, fmt.Errorf("unsupported TEST form")
		}
		x := p.regVal(a, args[0].reg)
		if ins.op == "TESTL" && !p.fits(a, x, 32) {
			p.clobberFlags(a)
			return one, nil
		}
		a.meta["fk"] = "res"
		a.vals["$fr"] = x
		return one, nil
	case "CALL":
		if len(args) != 1 || args[0].kind != "sym" || !strings.HasSuffix(args[0].name, "memmove") {
			return nil, fmt.Errorf("unsupported call target %v", args)
		}
		to, okT := a.vals["sp0"]
		from, okF := a.vals["sp8"]
		n, okN := a.vals["sp16"]
		if !okT || !okF || !okN {
			return nil, fmt.Errorf("memmove arguments not set")
		}
		if check {
			nonneg := a.st.minGE(n, qi(0)) && a.st.maxLE(n, qPow2(addrLimitLog))
			p.coll.check("access", p.cs.String()+"|"+ins.site+"#len", p.pos(ins.line), "memmove length is a small non-negative number", nonneg, func() string { return "length " + n.Str(p.tab) })
		}
		p.access(a, ins, to, n, true, check, "memmove-to")
		p.access(a, ins, from, n, false, check, "memmove-from")
		for _, r := range asmRegs {
			delete(a.vals, r)
		}
		p.clobberFlags(a)
		return one, nil
	}
	return nil, fmt.Errorf("unknown instruction %s", ins.op)
}

// refine adds the condition under which a jump is taken (taken=true) or not.
func (p *asmProg) refine(a *AbsState, op string, taken bool) (*AbsState, bool) {
	fk := a.meta["fk"]
	type cond struct{ rel string }
	// canonical relation on (x ? y) for cmp/sub flags, or on result for "res"
	var rel string
	signed := false
	switch op {
	case "JE", "JEQ", "JZ":
		rel = "eq"
	case "JNE", "JNZ":
		rel = "ne"
	case "JA", "JHI":
		rel = "gt"
	case "JAE", "JCC", "JHS", "JNC":
		rel = "ge"
	case "JB", "JCS", "JLO", "JC":
		rel = "lt"
	case "JBE", "JLS":
		rel = "le"
	case "JGT":
		rel, signed = "gt", true
	case "JGE":
		rel, signed = "ge", true
	case "JLT":
		rel, signed = "lt", true
	case "JLE":
		rel, signed = "le", true
	case "JS":
		rel = "s"
	case "JNS":
		rel = "ns"
	default:
		return a, false
	}
	if !taken {
		rel = map[string]string{"eq": "ne", "ne": "eq", "gt": "le", "ge": "lt", "lt": "ge", "le": "gt", "s": "ns", "ns": "s"}[rel]
	}
	apply := func(x, y Lin, rel string) {
		switch rel {
		case "eq":
			a.st.eqq(x, y)
		case "ne":
			if a.st.entailsLeq(x, y) {
				a.st.lt(x, y)
			} else if a.st.entailsLeq(y, x) {
				a.st.lt(y, x)
			}
		case "gt":
			a.st.lt(y, x)
		case "ge":
			a.st.leq(y, x)
		case "lt":
			a.st.lt(x, y)
		case "le":
			a.st.leq(x, y)
		}
	}
	switch fk {
	case "cmp":
		x, y := a.vals["$fa"], a.vals["$fb"]
		if rel == "s" || rel == "ns" {
			return a, true // no refinement
		}
		if signed && !(p.fits(a, x, 63) && p.fits(a, y, 63)) {
			return a, true
		}
		apply(x, y, rel)
	case "sub":
		x, y := a.vals["$fa"], a.vals["$fb"]
		switch rel {
		case "s", "ns":
			r := a.vals["$fr"]
			// with the borrow known, the sign of x-y follows when the operands are below 2^63
			if a.meta["fc"] == "0" && p.fits(a, x, 63) {
				// r = x - y in [0, x]: sign clear
				if rel == "s" {
					a.st.le(linI(1))
				}
				return a, true
			}
			if a.meta["fc"] == "1" && p.fits(a, y, 63) {
				// r = 2^64 - (y - x) with 1 <= y-x <= y < 2^63: sign set
				if rel == "ns" {
					a.st.le(linI(1))
				}
				return a, true
			}
			if rel == "s" {
				p.assumeGE(a, r, p.two63)
			} else {
				p.assumeLE(a, r, p.two63.Sub(qi(1)))
			}
		default:
			if signed {
				// signed relation between x and y after x-y: valid when both are small
				if !(p.fits(a, x, 63) && p.fits(a, y, 63)) {
					return a, true
				}
			}
			apply(x, y, rel)
		}
	case "add":
		// only carry and zero tests are meaningful
		switch rel {
		case "lt": // JC: carry set
			if a.meta["fc"] == "0" {
				a.st.le(linI(1)) // infeasible
			}
		case "ge": // JNC
			if a.meta["fc"] == "1" {
				a.st.le(linI(1))
			}
		case "eq":
			a.st.eq(a.vals["$fr"])
		case "ne":
			a.st.le(linI(1).Sub(a.vals["$fr"]))
		}
	case "res":
		r := a.vals["$fr"]
		switch rel {
		case "eq":
			a.st.eq(r)
		case "ne":
			a.st.le(linI(1).Sub(r))
		case "s":
			p.assumeGE(a, r, p.two63)
		case "ns":
			p.assumeLE(a, r, p.two63.Sub(qi(1)))
		case "gt": // unsigned > 0
			a.st.le(linI(1).Sub(r))
		case "le":
			a.st.eq(r)
		}
	default:
		// flags unknown: no refinement
	}
	return a, true
}

func (p *asmProg) terminator(b int, a *AbsState, ins *asmInstr, check bool, outs [][]*AbsState) {
	switch {
	case ins.op == "RET":
		if check {
			p.atReturn(b, a, ins)
		}
	case ins.op == "JMP":
		outs[0] = append(outs[0], a)
	default:
		t := a.clone()
		f := a
		if _, ok := p.refine(t, ins.op, true); !ok {
			panic(asmTrouble{fmt.Sprintf("%s:%d: unknown jump %s", p.f.file, ins.line, ins.op)})
		}
		if debugTerm != nil && b == 41 {
			traceContra = true
		}
		p.refine(f, ins.op, false)
		if debugTerm != nil {
			debugTerm(p, b, ins, t, f)
		}
		if t.st.feasible() {
			if check {
				p.atJump(b, t, ins)
			}
			outs[0] = append(outs[0], t)
		}
		if f.st.feasible() {
			if check {
				p.atFallthrough(b, f, ins)
			}
			outs[1] = append(outs[1], f)
		}
	}
}

// atReturn: result range and consumption obligations.
func (p *asmProg) atReturn(b int, a *AbsState, ins *asmInstr) {
	r, ok := a.vals["$ret"]
	if !ok {
		p.coll.check("result", p.cs.String()+"|"+ins.site, p.pos(ins.line), "a result is stored before RET", false, func() string { return "no store to ret+72(FP) on this path" })
		return
	}
	// negative immediates are stored as 2^64-k
	if r.isConst() {
		neg := r.k.Cmp(p.two63) >= 0
		p.coll.check("result", p.cs.String()+"|"+p.blockName(b)+"#const-result", p.pos(ins.line), "constant results are negative error codes", neg, func() string { return "constant result " + r.k.String() })
		return
	}
	dl := p.g["dst_len"]
	p.coll.check("result", p.cs.String()+"|"+p.blockName(b)+"#cursor-result", p.pos(ins.line), "the success result lies in [0, len(dst)]", a.st.entails(r.Neg()) && a.st.entailsLeq(r, dl), func() string {
		_, mx := a.st.max(r.Sub(dl))
		return "result = " + r.Str(p.tab) + "; max(result - len(dst)) = " + mx.String()
	})
	// R04.2: the whole source was consumed
	{
		si, ok := a.vals["SI"]
		end := p.g["src_base"].Add(p.g["src_len"])
		p.coll.check("consumed", p.cs.String()+"|"+p.blockName(b)+"#source-consumed", p.pos(ins.line), "on success the read cursor is exactly at the end of the source (no trailing bytes accepted, nothing read past the end)", ok && a.st.entailsEq(si, end), func() string {
			if !ok {
				return "the value of the read cursor SI is not known in this state"
			}
			return "SI = " + si.Str(p.tab) + ", src end = " + end.Str(p.tab)
		})
	}
}

// atJump: obligations attached to taken jumps (error-exit justification).
func (p *asmProg) atJump(b int, a *AbsState, ins *asmInstr) {
	tgt := ins.args[0].name
	switch tgt {
	case "err_short_dict":
		// justified only when more dictionary bytes are needed than exist: flags come from (len(dict) - needed)
		if a.meta["fk"] == "sub" {
			have, need := a.vals["$fa"], a.vals["$fb"]
			p.coll.check("exit", p.cs.String()+"|"+ins.site, p.pos(ins.line), "the 'offset before the dictionary' error is raised only when the match needs more dictionary bytes than the dictionary holds", a.st.entailsLt(have, need), func() string {
				st, mx := a.st.max(have.Sub(need))
				return fmt.Sprintf("error exit taken with available = %s, needed = %s, max(available-needed) = %v/%s, carry=%s (equality is a valid match starting at the first dictionary byte)", have.Str(p.tab), need.Str(p.tab), st, mx.String(), a.meta["fc"])
			})
		} else {
			p.coll.check("exit", p.cs.String()+"|"+ins.site, p.pos(ins.line), "the dictionary error exit follows the subtraction len(dict) - needed", false, func() string { return "flags are not from a subtraction" })
		}
	}
}

// atFallthrough: obligations on fall-through edges.
func (p *asmProg) atFallthrough(b int, a *AbsState, ins *asmInstr) {
	// R04.4/R12.4: when the main loop test falls through to `end`, no match length is pending.
	blk := p.f.blocks[b]
	if blk.label == "loopcheck" && len(blk.succ) == 2 && p.f.blocks[blk.succ[1]].label == "end" {
		cx, ok := a.vals["CX"]
		p.coll.check("blockend", p.cs.String()+"|loopcheck->end", p.pos(ins.line), "a block may end right after a match: when the loop test falls through to `end`, the pending length register is 0 (so the end-of-block test cannot report corruption for a block both decoders must accept)", ok && a.st.entailsEq(cx, linI(0)), func() string {
			if !ok {
				return "CX undefined at the loop exit"
			}
			_, mx := a.st.max(cx)
			return "CX = " + cx.Str(p.tab) + " (max " + mx.String() + ") when control reaches `end` from the loop test; came from block " + fmt.Sprint(a.from)
		})
	}
}

// liveness of registers and stack slots at block entries
func (p *asmProg) computeLive() {
	n := len(p.f.blocks)
	use := make([]map[string]bool, n)
	def := make([]map[string]bool, n)
	regsOf := func(o asmOp) []string {
		switch o.kind {
		case "reg":
			return []string{o.reg}
		case "mem":
			if o.index != "" {
				return []string{o.base, o.index}
			}
			return []string{o.base}
		case "sp":
			return []string{spKey(o.disp)}
		}
		return nil
	}
	for i, blk := range p.f.blocks {
		u, d := map[string]bool{}, map[string]bool{}
		addUse := func(r string) {
			if !d[r] {
				u[r] = true
			}
		}
		for _, ins := range blk.instrs {
			switch {
			case ins.op == "CALL":
				addUse("sp0")
				addUse("sp8")
				addUse("sp16")
				for _, r := range asmRegs {
					d[r] = true
				}
			case ins.op == "RET":
				// the consumption obligation at a success return speaks about the read cursor: it must survive merges
				addUse("SI")
			case isJump(ins.op):
			case len(ins.args) == 2:
				src, dst := ins.args[0], ins.args[1]
				for _, r := range regsOf(src) {
					addUse(r)
				}
				readsDst := !(strings.HasPrefix(ins.op, "MOV") || ins.op == "LEAQ")
				if ins.op == "MOVW" || ins.op == "MOVB" {
					readsDst = true
				}
				if dst.kind == "mem" {
					for _, r := range regsOf(dst) {
						addUse(r)
					}
				} else if dst.kind == "reg" || dst.kind == "sp" {
					if readsDst || strings.HasPrefix(ins.op, "CMP") || strings.HasPrefix(ins.op, "TEST") {
						for _, r := range regsOf(dst) {
							addUse(r)
						}
					}
					if !(strings.HasPrefix(ins.op, "CMP") || strings.HasPrefix(ins.op, "TEST")) {
						for _, r := range regsOf(dst) {
							d[r] = true
						}
					}
				}
			case len(ins.args) == 1:
				for _, r := range regsOf(ins.args[0]) {
					addUse(r)
					d[r] = true
				}
			}
		}
		use[i], def[i] = u, d
	}
	live := make([]map[string]bool, n)
	for i := range live {
		live[i] = map[string]bool{}
	}
	for changed := true; changed; {
		changed = false
		for i := n - 1; i >= 0; i-- {
			out := map[string]bool{}
			for _, s := range p.f.blocks[i].succ {
				for r := range live[s] {
					out[r] = true
				}
			}
			nl := map[string]bool{}
			for r := range use[i] {
				nl[r] = true
			}
			for r := range out {
				if !def[i][r] {
					nl[r] = true
				}
			}
			if len(nl) != len(live[i]) {
				changed = true
				live[i] = nl
			}
		}
	}
	for i := range live {
		live[i]["$fa"], live[i]["$fb"], live[i]["$fr"] = true, true, true
	}
	p.live = live
}

// analyseAsmDecoder runs the prover on decode_amd64.s for one precondition case.
func analyseAsmDecoder(path string, minMatch int64, cs asmCase, coll *collector, posOf func(int) string) (*bndResult, *asmFunc, error) {
	f, err := parseAsm(path, "decodeBlock", map[string]int64{"const_minMatch": minMatch})
	if err != nil {
		return nil, nil, err
	}
	tab := newSymTab()
	tab.allNonneg = true
	wm := qPow2(64).Sub(qi(1))
	_ = wm //tab.wordMax = &wm
	defaultTab = tab
	p := &asmProg{f: f, tab: tab, coll: coll, cs: cs, g: map[string]Lin{}, two64: qPow2(64), two63: qPow2(63), u16: map[Sym]bool{}, u8: map[Sym]bool{}, pos: posOf}
	for _, n := range []string{"dst_base", "dst_len", "src_base", "src_len", "dict_base", "dict_len"} {
		s := tab.get(n)
		tab.global[s] = true
		p.g[n] = linS(s)
	}
	// dst_cap etc. are not used by the code as it stands; when an instruction names one, it is a word of its own,
	// at least the length and inside the address space
	for _, b := range f.blocks {
		for _, ins := range b.instrs {
			for _, o := range ins.args {
				if o.kind == "fp" && strings.HasSuffix(o.name, "_cap") {
					if _, have := p.g[o.name]; !have && p.g[strings.TrimSuffix(o.name, "_cap")+"_len"].t != nil {
						s := tab.get(o.name)
						tab.global[s] = true
						p.g[o.name] = linS(s)
					}
				}
			}
		}
	}
	p.computeLive()
	hc := &hullCtx{tab: tab, heads: map[int]*tmplHead{}}
	hc.anchors = []Lin{p.g["dst_base"], p.g["dst_base"].Add(p.g["dst_len"]), p.g["src_base"], p.g["src_base"].Add(p.g["src_len"]), p.g["dict_base"], p.g["dict_base"].Add(p.g["dict_len"])}
	hc.liveAt = func(b int) map[string]bool { return p.live[b] }
	hc.localAnchors = true
	for _, cns := range p.initial().st.cons {
		if hc.onlyGlobal(cns) {
			hc.globals = append(hc.globals, cns)
		}
	}
	var res *bndResult
	func() {
		defer func() {
			if r := recover(); r != nil {
				if t, ok := r.(asmTrouble); ok {
					err = fmt.Errorf("%s", t.msg)
					return
				}
				panic(r)
			}
		}()
		res = runBnd(p, hc, coll, defaultIncs)
	}()
	if err != nil {
		return nil, f, err
	}
	return res, f, nil
}

func sortedOblKeys(c *collector) []string {
	ks := append([]string{}, c.order...)
	sort.Strings(ks)
	return ks
}
