package main

import (
	"fmt"
	"go/constant"
	"go/token"
	"go/types"
	"sort"

	"golang.org/x/tools/go/ssa"
)

// E-BITS part 1: value sets of an unsigned word as sorted disjoint closed
// intervals, and the set of values of a word `m` with which a block can be
// reached (path-sensitive over the comparison chain on m).

type ival struct{ lo, hi uint64 }
type vset []ival

func fullSet(width uint) vset {
	if width >= 64 {
		return vset{{0, ^uint64(0)}}
	}
	return vset{{0, (uint64(1) << width) - 1}}
}

func (s vset) norm() vset {
	if len(s) == 0 {
		return s
	}
	sort.Slice(s, func(i, j int) bool { return s[i].lo < s[j].lo })
	out := vset{s[0]}
	for _, iv := range s[1:] {
		last := &out[len(out)-1]
		if last.hi == ^uint64(0) || iv.lo <= last.hi+1 {
			if iv.hi > last.hi {
				last.hi = iv.hi
			}
		} else {
			out = append(out, iv)
		}
	}
	return out
}

func (s vset) union(t vset) vset {
	return append(append(vset{}, s...), t...).norm()
}

func (s vset) intersect(t vset) vset {
	var out vset
	for _, a := range s {
		for _, b := range t {
			lo, hi := a.lo, a.hi
			if b.lo > lo {
				lo = b.lo
			}
			if b.hi < hi {
				hi = b.hi
			}
			if lo <= hi {
				out = append(out, ival{lo, hi})
			}
		}
	}
	return out.norm()
}

func (s vset) complement(width uint) vset {
	full := fullSet(width)
	max := full[0].hi
	var out vset
	next := uint64(0)
	done := false
	for _, iv := range s.norm() {
		if iv.lo > next {
			out = append(out, ival{next, iv.lo - 1})
		}
		if iv.hi >= max {
			done = true
			break
		}
		next = iv.hi + 1
	}
	if !done {
		out = append(out, ival{next, max})
	}
	return out
}

func (s vset) equal(t vset) bool {
	s, t = s.norm(), t.norm()
	if len(s) != len(t) {
		return false
	}
	for i := range s {
		if s[i] != t[i] {
			return false
		}
	}
	return true
}

func (s vset) count() uint64 {
	var n uint64
	for _, iv := range s {
		n += iv.hi - iv.lo + 1
	}
	return n
}

func (s vset) String() string {
	out := "{"
	for i, iv := range s.norm() {
		if i > 0 {
			out += ", "
		}
		if i >= 6 {
			out += "..."
			break
		}
		if iv.lo == iv.hi {
			out += fmt.Sprintf("%#x", iv.lo)
		} else {
			out += fmt.Sprintf("%#x..%#x", iv.lo, iv.hi)
		}
	}
	return out + "}"
}

func widthOf(t types.Type) uint {
	if b, ok := t.Underlying().(*types.Basic); ok {
		switch b.Kind() {
		case types.Uint8, types.Int8:
			return 8
		case types.Uint16, types.Int16:
			return 16
		case types.Uint32, types.Int32:
			return 32
		}
	}
	return 64
}

// wordExpr recognises v as (m >> k) or m (through conversions that do not
// narrow) and returns k.
func wordExpr(v, m ssa.Value) (shift uint, mask uint64, ok bool) {
	v = stripSameWidth(v)
	if v == m {
		return 0, ^uint64(0), true
	}
	if b, isb := v.(*ssa.BinOp); isb {
		switch b.Op {
		case token.SHR:
			if stripSameWidth(b.X) == m {
				if k, okk := constUint(b.Y); okk && k < 64 {
					return uint(k), ^uint64(0), true
				}
			}
		case token.AND_NOT, token.AND:
			// m &^ (2^k-1)  or  m & ^(2^k-1): the word with its k low bits cleared, i.e. (m>>k)<<k;
			// reported with mask = low-bit mask so that predSet can scale the constant
			if stripSameWidth(b.X) == m {
				if c, okc := constUint(b.Y); okc {
					low := c
					if b.Op == token.AND {
						w := widthOf(m.Type())
						full := ^uint64(0)
						if w < 64 {
							full = (uint64(1) << w) - 1
						}
						low = ^c & full
					}
					// low must be 2^k - 1
					if low != 0 && low&(low+1) == 0 {
						k := uint(0)
						for x := low; x != 0; x >>= 1 {
							k++
						}
						return k, low, true
					}
				}
			}
		}
	}
	return 0, 0, false
}

func stripSameWidth(v ssa.Value) ssa.Value {
	for {
		switch x := v.(type) {
		case *ssa.ChangeType:
			v = x.X
		case *ssa.Convert:
			if widthOf(x.Type()) >= widthOf(x.X.Type()) && isUnsigned(x.X.Type()) {
				v = x.X
			} else {
				return v
			}
		default:
			return v
		}
	}
}

func isUnsigned(t types.Type) bool {
	b, ok := t.Underlying().(*types.Basic)
	return ok && b.Info()&types.IsUnsigned != 0
}

// predSet returns the set of values of m (of the given width) for which the
// comparison cond is true. ok=false when cond is not a recognised predicate on m.
func predSetSym(cond ssa.Value, m ssa.Value, width uint) (vset, bool) {
	switch x := cond.(type) {
	case *ssa.UnOp:
		if x.Op == token.NOT {
			s, ok := predSet(x.X, m, width)
			if !ok {
				return nil, false
			}
			return s.complement(width), true
		}
	case *ssa.BinOp:
		l, r := x.X, x.Y
		op := x.Op
		// put the m-side on the left
		if _, _, ok := wordExpr(l, m); !ok {
			if _, _, ok2 := wordExpr(r, m); ok2 {
				l, r = r, l
				switch op {
				case token.LSS:
					op = token.GTR
				case token.GTR:
					op = token.LSS
				case token.LEQ:
					op = token.GEQ
				case token.GEQ:
					op = token.LEQ
				}
			} else {
				return nil, false
			}
		}
		k, mask, _ := wordExpr(l, m)
		c, okc := constUint(r)
		if !okc {
			return nil, false
		}
		if mask != ^uint64(0) {
			// l is (m>>k)<<k: only (in)equality with a constant is decided
			if op != token.EQL && op != token.NEQ {
				return nil, false
			}
			if c&mask != 0 {
				// never equal
				if op == token.EQL {
					return nil, true
				}
				return fullSet(width), true
			}
			c >>= k
		}
		max := fullSet(width)[0].hi
		top := max >> k // maximal value of m>>k
		var s vset
		shl := func(lo, hi uint64) vset { // values of m with lo <= m>>k <= hi
			if lo > top {
				return nil
			}
			if hi > top {
				hi = top
			}
			return vset{{lo << k, (hi << k) | ((uint64(1) << k) - 1)}}
		}
		switch op {
		case token.EQL:
			s = shl(c, c)
		case token.NEQ:
			s = shl(c, c).complement(width)
		case token.LSS:
			if c == 0 {
				s = nil
			} else {
				s = shl(0, c-1)
			}
		case token.LEQ:
			s = shl(0, c)
		case token.GTR:
			if c >= top {
				s = nil
			} else {
				s = shl(c+1, top)
			}
		case token.GEQ:
			s = shl(c, top)
		default:
			return nil, false
		}
		return s.norm(), true
	}
	return nil, false
}

// valueSetsAt explores the CFG from `start` and returns, for each block, the
// set of values of m with which the block can be entered. Branches whose
// condition is not a predicate on m pass the current set to both sides.
func valueSetsAt(fn *ssa.Function, m ssa.Value, start *ssa.BasicBlock, width uint) map[*ssa.BasicBlock]vset {
	return valueSetsAtAlias(fn, func(v ssa.Value) bool { return stripSameWidth(v) == m }, start, width)
}

// ---------------------------------------------------------------------------
// E-BITS part 2: bit provenance of small pure bit-field accessors.
// Every bit of a value is one of: constant 0/1, bit i of input `in`, bit i of
// input `arg`, or unknown.

type bitSrc struct {
	kind byte // '0','1','i' (input word bit), 'a' (argument bit), 'b' (bool argument), '?'
	idx  int
}

type bitvec [64]bitSrc

func constVec(c uint64) bitvec {
	var v bitvec
	for i := 0; i < 64; i++ {
		if c>>uint(i)&1 == 1 {
			v[i] = bitSrc{'1', 0}
		} else {
			v[i] = bitSrc{'0', 0}
		}
	}
	return v
}

func inputVec(kind byte, width uint) bitvec {
	v := constVec(0)
	for i := 0; i < int(width); i++ {
		v[i] = bitSrc{kind, i}
	}
	return v
}

func unknownVec(width uint) bitvec {
	v := constVec(0)
	for i := 0; i < int(width); i++ {
		v[i] = bitSrc{'?', 0}
	}
	return v
}

func truncVec(v bitvec, width uint) bitvec {
	for i := int(width); i < 64; i++ {
		v[i] = bitSrc{'0', 0}
	}
	return v
}

func andBit(a, b bitSrc) bitSrc {
	if a.kind == '0' || b.kind == '0' {
		return bitSrc{'0', 0}
	}
	if a.kind == '1' {
		return b
	}
	if b.kind == '1' {
		return a
	}
	if a == b {
		return a
	}
	return bitSrc{'?', 0}
}

func orBit(a, b bitSrc) bitSrc {
	if a.kind == '1' || b.kind == '1' {
		return bitSrc{'1', 0}
	}
	if a.kind == '0' {
		return b
	}
	if b.kind == '0' {
		return a
	}
	if a == b {
		return a
	}
	return bitSrc{'?', 0}
}

func notBit(a bitSrc) bitSrc {
	switch a.kind {
	case '0':
		return bitSrc{'1', 0}
	case '1':
		return bitSrc{'0', 0}
	}
	return bitSrc{'?', 0}
}

// bitEval evaluates the bit provenance of v. env maps parameters / loads of the
// receiver to input vectors.
type bitEnv struct {
	vals map[ssa.Value]bitvec
	ok   bool
	why  string
	// pick, when set, selects the incoming value of a phi for the case under evaluation (nil: not decidable)
	pick func(*ssa.Phi) ssa.Value
}

func (e *bitEnv) eval(v ssa.Value) bitvec {
	if bv, ok := e.vals[v]; ok {
		return bv
	}
	w := widthOf(v.Type())
	var out bitvec
	switch x := v.(type) {
	case *ssa.Const:
		if c, ok := constUint(x); ok {
			out = truncVec(constVec(c), w)
		} else {
			e.ok = false
			e.why = "non-integer constant " + x.String()
			out = unknownVec(w)
		}
	case *ssa.Convert:
		out = truncVec(e.eval(x.X), w)
	case *ssa.ChangeType:
		out = e.eval(x.X)
	case *ssa.BinOp:
		switch x.Op {
		case token.SHR, token.SHL:
			k, ok := constUint(x.Y)
			a := e.eval(x.X)
			if !ok {
				// a shift count bound to a constant (a parameter of a helper called with constants)
				if bv, has := e.vals[x.Y]; has {
					k, ok = 0, true
					for i := 0; i < 64; i++ {
						switch bv[i].kind {
						case '1':
							k |= 1 << uint(i)
						case '0':
						default:
							ok = false
						}
					}
				}
			}
			if !ok || k >= 64 {
				e.ok = false
				e.why = "variable shift"
				out = unknownVec(w)
				break
			}
			out = constVec(0)
			for i := 0; i < 64; i++ {
				var j int
				if x.Op == token.SHR {
					j = i + int(k)
				} else {
					j = i - int(k)
				}
				if j >= 0 && j < 64 {
					out[i] = a[j]
				}
			}
			out = truncVec(out, w)
		case token.AND, token.OR, token.AND_NOT:
			a, b := e.eval(x.X), e.eval(x.Y)
			for i := 0; i < 64; i++ {
				switch x.Op {
				case token.AND:
					out[i] = andBit(a[i], b[i])
				case token.OR:
					out[i] = orBit(a[i], b[i])
				case token.AND_NOT:
					out[i] = andBit(a[i], notBit(b[i]))
				}
			}
			out = truncVec(out, w)
		default:
			e.ok = false
			e.why = "unsupported operator " + x.Op.String()
			out = unknownVec(w)
		}
	case *ssa.Phi:
		var sel ssa.Value
		if e.pick != nil {
			sel = e.pick(x)
		}
		if sel != nil {
			out = e.eval(sel)
			break
		}
		e.ok = false
		e.why = "unsupported value " + v.String()
		out = unknownVec(w)
	default:
		e.ok = false
		e.why = "unsupported value " + v.String()
		out = unknownVec(w)
	}
	e.vals[v] = out
	return out
}

// singleBitTest recognises `expr != 0` / `expr == 0` where expr has exactly one
// possibly-nonzero bit, and returns the source of that bit.
func (e *bitEnv) boolSource(cond ssa.Value) (bitSrc, bool) {
	b, ok := cond.(*ssa.BinOp)
	if !ok || (b.Op != token.NEQ && b.Op != token.EQL) {
		return bitSrc{}, false
	}
	c, okc := constUint(b.Y)
	if !okc || c != 0 {
		return bitSrc{}, false
	}
	v := e.eval(b.X)
	var src bitSrc
	n := 0
	for i := 0; i < 64; i++ {
		if v[i].kind != '0' {
			n++
			src = v[i]
		}
	}
	if n != 1 || src.kind == '?' {
		return bitSrc{}, false
	}
	if b.Op == token.EQL {
		return bitSrc{}, false
	}
	return src, true
}


// predSet: the values of the word m (of the given width) for which cond holds.
// Conditions outside the symbolic fragment are decided by enumeration when the
// word is small (a state or a flag byte): the expression is evaluated for each
// of its values with the arithmetic of its Go types.
func predSet(cond ssa.Value, m ssa.Value, width uint) (vset, bool) {
	if s, ok := predSetSym(cond, m, width); ok {
		return s, true
	}
	if width > 16 {
		return nil, false
	}
	var out vset
	for x := uint64(0); x < uint64(1)<<width; x++ {
		v, ok := evalWith(cond, m, x, 0)
		if !ok {
			return nil, false
		}
		if v != 0 {
			out = out.union(vset{{x, x}})
		}
	}
	return out.norm(), true
}

// evalWith evaluates an integer or boolean expression over the word m = x.
func evalWith(v ssa.Value, m ssa.Value, x uint64, depth int) (uint64, bool) {
	if depth > 12 {
		return 0, false
	}
	trunc := func(r uint64, t types.Type) uint64 {
		if b, ok := t.Underlying().(*types.Basic); ok {
			switch b.Kind() {
			case types.Uint8, types.Int8:
				return r & 0xff
			case types.Uint16, types.Int16:
				return r & 0xffff
			case types.Uint32, types.Int32:
				return r & 0xffffffff
			}
		}
		return r
	}
	if v == m || stripSameWidth(v) == m {
		return x, true
	}
	if k, ok := constUint(v); ok {
		return k, true
	}
	b2u := func(b bool) uint64 {
		if b {
			return 1
		}
		return 0
	}
	switch e := v.(type) {
	case *ssa.Const:
		if e.Value != nil && e.Value.Kind() == constant.Bool {
			return b2u(constant.BoolVal(e.Value)), true
		}
	case *ssa.Convert:
		r, ok := evalWith(e.X, m, x, depth+1)
		if !ok {
			return 0, false
		}
		return trunc(r, e.Type()), true
	case *ssa.ChangeType:
		return evalWith(e.X, m, x, depth+1)
	case *ssa.UnOp:
		r, ok := evalWith(e.X, m, x, depth+1)
		if !ok {
			return 0, false
		}
		switch e.Op {
		case token.NOT:
			return b2u(r == 0), true
		case token.XOR:
			return trunc(^r, e.Type()), true
		}
	case *ssa.BinOp:
		l, ok1 := evalWith(e.X, m, x, depth+1)
		r, ok2 := evalWith(e.Y, m, x, depth+1)
		if !ok1 || !ok2 {
			return 0, false
		}
		// only unsigned or provably small operands: signed comparisons of large values are not modelled
		if bt, ok := e.X.Type().Underlying().(*types.Basic); ok && bt.Info()&types.IsUnsigned == 0 && bt.Info()&types.IsBoolean == 0 {
			if l >= 1<<31 || r >= 1<<31 {
				return 0, false
			}
		}
		switch e.Op {
		case token.ADD:
			return trunc(l+r, e.Type()), true
		case token.SUB:
			if bt, ok := e.Type().Underlying().(*types.Basic); ok && bt.Info()&types.IsUnsigned == 0 && l < r {
				return 0, false
			}
			return trunc(l-r, e.Type()), true
		case token.MUL:
			return trunc(l*r, e.Type()), true
		case token.AND:
			return l & r, true
		case token.OR:
			return l | r, true
		case token.XOR:
			return l ^ r, true
		case token.AND_NOT:
			return l &^ r, true
		case token.SHL:
			if r >= 64 {
				return 0, true
			}
			return trunc(l<<r, e.Type()), true
		case token.SHR:
			if r >= 64 {
				return 0, true
			}
			return l >> r, true
		case token.EQL:
			return b2u(l == r), true
		case token.NEQ:
			return b2u(l != r), true
		case token.LSS:
			return b2u(l < r), true
		case token.LEQ:
			return b2u(l <= r), true
		case token.GTR:
			return b2u(l > r), true
		case token.GEQ:
			return b2u(l >= r), true
		}
	}
	return 0, false
}
